import GrmVerif.Lemmas.Header2
/-!
# C12 — specification parsers are total: a result or located errors, never crash or hang

Property theorems for the `%grmtools` section parser (`cfgrammar/src/lib/header.rs`, as repaired).
The model is `GrmVerif/Model/Header.lean`: byte offsets over `List Char`; `&src[i..]` off a character
boundary or out of range is `Res.panic`; every loop and the recursion of `parse_setting` take fuel,
`Res.fuelOut` = did not finish. `parse src required` hands out `|src| + 1` units of fuel.
Helper lemmas: `GrmVerif/Lemmas/Header.lean`, `Header2.lean`. All statements are for every text.

The yacc and lex parsers are not modelled here; for them the check is differential only
(see `tools/propcfg/C12.py`).
-/
namespace GrmVerif.C12
open GrmVerif.Header

/-- **Totality.** For every text and both values of `required`, `parse` returns a value or a
non-empty list of errors (so in particular it neither panics nor runs out of fuel). -/
theorem header_total (src : List Char) (required : Bool) :
    (∃ v pos, parse src required = .ok (v, pos)) ∨
    (∃ errs, parse src required = .err errs ∧ errs ≠ []) := by
  have h := parseWith_sat (src := src) (required := required) (fuel := byteLen src + 1) (by omega)
  unfold parse
  cases hr : parseWith src required (byteLen src + 1) with
  | ok a => exact Or.inl ⟨a.1, a.2, rfl⟩
  | err e => rw [hr] at h; exact Or.inr ⟨e, rfl, h.1⟩
  | panic => rw [hr] at h; exact h.elim
  | fuelOut => rw [hr] at h; exact h.elim

/-- **No panic.** No slice out of range or off a character boundary, no failed `unwrap`, on any text. -/
theorem header_no_panic (src : List Char) (required : Bool) : parse src required ≠ .panic := by
  rcases header_total src required with ⟨v, pos, h⟩ | ⟨errs, h, _⟩ <;> simp [h]

/-- **Termination.** The array loop, the recursion through nested arrays and the key/value loop all
finish within `|src| + 1` steps each: every iteration consumes at least one byte. -/
theorem header_terminates (src : List Char) (required : Bool) : parse src required ≠ .fuelOut := by
  rcases header_total src required with ⟨v, pos, h⟩ | ⟨errs, h, _⟩ <;> simp [h]

/-- more fuel than `|src|` never changes the verdict "finished": any such amount suffices -/
theorem header_any_larger_fuel (src : List Char) (required : Bool) (fuel : Nat) (h : byteLen src < fuel) :
    parseWith src required fuel ≠ .fuelOut ∧ parseWith src required fuel ≠ .panic := by
  have hs := parseWith_sat (src := src) (required := required) (fuel := fuel) h
  cases hr : parseWith src required fuel <;> rw [hr] at hs <;> first | exact hs.elim | simp

/-- **Error spans.** Every error carries at least one span, and every span satisfies
`start ≤ end ≤ |src|` with both ends on character boundaries: it can be sliced out and rendered. -/
theorem header_error_spans_wf (src : List Char) (required : Bool) (errs : List HErr)
    (h : parse src required = .err errs) :
    ∀ e ∈ errs, e.spans ≠ [] ∧ ∀ sp ∈ e.spans, SpanWF src sp := by
  have hs := parseWith_sat (src := src) (required := required) (fuel := byteLen src + 1) (by omega)
  unfold parse at h
  rw [h] at hs
  intro e he
  exact ⟨(hs.2 e he).1, fun sp hsp => ((hs.2 e he).2 sp hsp).wf⟩

/-- **Result spans.** On success the reported end of the section is a character boundary within the
text, and every span stored in the header (key spans, flag spans, every span inside every setting,
nested arrays included) is well-formed. -/
theorem header_result_spans_wf (src : List Char) (required : Bool) (v : List Entry) (pos : Nat)
    (h : parse src required = .ok (v, pos)) :
    IsBoundary src pos ∧ pos ≤ byteLen src ∧ ∀ e ∈ v, ∀ sp ∈ e.spans, SpanWF src sp := by
  have hs := parseWith_sat (src := src) (required := required) (fuel := byteLen src + 1) (by omega)
  unfold parse at h
  rw [h] at hs
  exact ⟨(valid_iff_boundary _ _).1 hs.1, hs.1.le, fun e he sp hsp => (hs.2 e he sp hsp).wf⟩

/-- **The span checker the driver runs on the implementation's spans is exact.** -/
theorem span_checker_correct (src : List Char) (sp : Span) : spanWFb src sp = true ↔ SpanWF src sp := by
  have hb : ∀ b, isBoundaryB src b = true ↔ IsBoundary src b := by
    intro b
    rw [← valid_iff_boundary]
    simp [isBoundaryB, Valid, Option.isSome_iff_exists]
  simp only [spanWFb, SpanWF, Bool.and_eq_true, decide_eq_true_eq, hb]
  constructor
  · rintro ⟨⟨⟨a, b⟩, c⟩, d⟩; exact ⟨a, b, c, d⟩
  · rintro ⟨a, b, c, d⟩; exact ⟨⟨⟨a, b⟩, c⟩, d⟩

/-- **The outcome checker (`V` verdict) is exact**: it accepts what an entry point returned iff that
is a value with a boundary end position and well-formed spans, or a non-empty list of errors all of
whose spans are well-formed. -/
theorem outcome_checker_correct (src : List Char) (o : Outcome) : outcomeOKb src o = true ↔ OutcomeOK src o := by
  have hb : ∀ b, isBoundaryB src b = true ↔ IsBoundary src b := by
    intro b
    rw [← valid_iff_boundary]
    simp [isBoundaryB, Valid, Option.isSome_iff_exists]
  cases o with
  | crashed => simp [outcomeOKb, OutcomeOK]
  | value pos spans =>
    simp [outcomeOKb, OutcomeOK, hb, List.all_eq_true, span_checker_correct]
  | errors errs =>
    simp only [outcomeOKb, OutcomeOK, Bool.and_eq_true, Bool.not_eq_true', List.all_eq_true,
      span_checker_correct, List.isEmpty_eq_false_iff, ne_eq]

/-! The witnesses of the two repaired defects (`%grmtools{a: [`, `%grmtools{a: 99999999999999999999999}`)
and accepted sections are evaluated on the compiled model by the driver on every run (corpus/C12),
where the implementation must return the same errors. -/

end GrmVerif.C12
