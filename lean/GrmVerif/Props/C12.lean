import GrmVerif.Lemmas.Header2
import GrmVerif.Lemmas.YaccParse4
/-!
# C12 — specification parsers are total: a result or located errors, never crash or hang

Property theorems for the `%grmtools` section parser (`cfgrammar/src/lib/header.rs`, as repaired).
The model is `GrmVerif/Model/Header.lean`: byte offsets over `List Char`; `&src[i..]` off a character
boundary or out of range is `Res.panic`; every loop and the recursion of `parse_setting` take fuel,
`Res.fuelOut` = did not finish. `parse src required` hands out `|src| + 1` units of fuel.
Helper lemmas: `GrmVerif/Lemmas/Header.lean`, `Header2.lean`. All statements are for every text.

The second half of the file is about the yacc text parser `YaccParser::parse`
(`cfgrammar/src/lib/yacc/parser.rs`), modelled in `GrmVerif/Model/YaccParse.lean` (control flow and
positions of `parse`, `parse_declarations`, `parse_rules`, `parse_rule`, `parse_programs` and all
their helpers; the three `YaccKind`s the control flow distinguishes). Helper lemmas:
`GrmVerif/Lemmas/YaccParse.lean` … `YaccParse4.lean`.

The lex parser and `GrammarAST::complete_and_validate` are not modelled here; for them the check is
differential only (see `tools/propcfg/C12.py`).
-/
namespace GrmVerif.C12
open GrmVerif.Header

/-- **Totality.** For every text and both values of `required`, `parse` returns a value or a
non-empty list of errors (so in particular it neither panics nor runs out of fuel). -/
theorem header_total (src : List Char) (required : Bool) :
    (∃ v pos, parse src required = .ok (v, pos)) ∨
    (∃ errs, parse src required = .err errs ∧ errs ≠ []) := by
  have h := parseWith_sat (src := src) (required := required) (fuel := byteLen src + 1) (by omega)
  unfold parse
  cases hr : parseWith src required (byteLen src + 1) with
  | ok a => exact Or.inl ⟨a.1, a.2, rfl⟩
  | err e => rw [hr] at h; exact Or.inr ⟨e, rfl, h.1⟩
  | panic => rw [hr] at h; exact h.elim
  | fuelOut => rw [hr] at h; exact h.elim

/-- **No panic.** No slice out of range or off a character boundary, no failed `unwrap`, on any text. -/
theorem header_no_panic (src : List Char) (required : Bool) : parse src required ≠ .panic := by
  rcases header_total src required with ⟨v, pos, h⟩ | ⟨errs, h, _⟩ <;> simp [h]

/-- **Termination.** The array loop, the recursion through nested arrays and the key/value loop all
finish within `|src| + 1` steps each: every iteration consumes at least one byte. -/
theorem header_terminates (src : List Char) (required : Bool) : parse src required ≠ .fuelOut := by
  rcases header_total src required with ⟨v, pos, h⟩ | ⟨errs, h, _⟩ <;> simp [h]

/-- more fuel than `|src|` never changes the verdict "finished": any such amount suffices -/
theorem header_any_larger_fuel (src : List Char) (required : Bool) (fuel : Nat) (h : byteLen src < fuel) :
    parseWith src required fuel ≠ .fuelOut ∧ parseWith src required fuel ≠ .panic := by
  have hs := parseWith_sat (src := src) (required := required) (fuel := fuel) h
  cases hr : parseWith src required fuel <;> rw [hr] at hs <;> first | exact hs.elim | simp

/-- **Error spans.** Every error carries at least one span, and every span satisfies
`start ≤ end ≤ |src|` with both ends on character boundaries: it can be sliced out and rendered. -/
theorem header_error_spans_wf (src : List Char) (required : Bool) (errs : List HErr)
    (h : parse src required = .err errs) :
    ∀ e ∈ errs, e.spans ≠ [] ∧ ∀ sp ∈ e.spans, SpanWF src sp := by
  have hs := parseWith_sat (src := src) (required := required) (fuel := byteLen src + 1) (by omega)
  unfold parse at h
  rw [h] at hs
  intro e he
  exact ⟨(hs.2 e he).1, fun sp hsp => ((hs.2 e he).2 sp hsp).wf⟩

/-- **Result spans.** On success the reported end of the section is a character boundary within the
text, and every span stored in the header (key spans, flag spans, every span inside every setting,
nested arrays included) is well-formed. -/
theorem header_result_spans_wf (src : List Char) (required : Bool) (v : List Entry) (pos : Nat)
    (h : parse src required = .ok (v, pos)) :
    IsBoundary src pos ∧ pos ≤ byteLen src ∧ ∀ e ∈ v, ∀ sp ∈ e.spans, SpanWF src sp := by
  have hs := parseWith_sat (src := src) (required := required) (fuel := byteLen src + 1) (by omega)
  unfold parse at h
  rw [h] at hs
  exact ⟨(valid_iff_boundary _ _).1 hs.1, hs.1.le, fun e he sp hsp => (hs.2 e he sp hsp).wf⟩

/-- **The span checker the driver runs on the implementation's spans is exact.** -/
theorem span_checker_correct (src : List Char) (sp : Span) : spanWFb src sp = true ↔ SpanWF src sp := by
  have hb : ∀ b, isBoundaryB src b = true ↔ IsBoundary src b := by
    intro b
    rw [← valid_iff_boundary]
    simp [isBoundaryB, Valid, Option.isSome_iff_exists]
  simp only [spanWFb, SpanWF, Bool.and_eq_true, decide_eq_true_eq, hb]
  constructor
  · rintro ⟨⟨⟨a, b⟩, c⟩, d⟩; exact ⟨a, b, c, d⟩
  · rintro ⟨a, b, c, d⟩; exact ⟨⟨⟨a, b⟩, c⟩, d⟩

/-- **The outcome checker (`V` verdict) is exact**: it accepts what an entry point returned iff that
is a value with a boundary end position and well-formed spans, or a non-empty list of errors all of
whose spans are well-formed. -/
theorem outcome_checker_correct (src : List Char) (o : Outcome) : outcomeOKb src o = true ↔ OutcomeOK src o := by
  have hb : ∀ b, isBoundaryB src b = true ↔ IsBoundary src b := by
    intro b
    rw [← valid_iff_boundary]
    simp [isBoundaryB, Valid, Option.isSome_iff_exists]
  cases o with
  | crashed => simp [outcomeOKb, OutcomeOK]
  | value pos spans =>
    simp [outcomeOKb, OutcomeOK, hb, List.all_eq_true, span_checker_correct]
  | errors errs =>
    simp only [outcomeOKb, OutcomeOK, Bool.and_eq_true, Bool.not_eq_true', List.all_eq_true,
      span_checker_correct, List.isEmpty_eq_false_iff, ne_eq]

/-! ## The yacc text parser

`YaccParse.parse src kind` is `YaccParser::new(kind, src).parse()` followed by `build()`: the result
`Ok(pos)` / `Err(errs)` paired with the AST built so far. In the model
* `Res.panic` = a slice `&src[i..]`/`&src[a..b]` out of range, off a character boundary or with
  `a > b`; `Span::new(a, b)` with `b < a`; `chars().next().unwrap()` at the end of the text; the
  `unwrap` of `lookahead_is("%%", i)` in `parse_rules`; `self.rules[&rule_name]` in `add_prod` for a
  rule that was not added; `e.spans[0]` in `add_duplicate_occurrence`; `assert!(m.end() > 0)`; the
  three `debug_assert!`s;
* `Res.fuelOut` = some loop did not finish within the fuel: EVERY loop instance (the declarations
  loop, the five token/symbol loops inside declarations, the rules loop, the production loop, and the
  character loops of `parse_to_eol`, `parse_int`, `parse_string`, `parse_to_single_colon`,
  `parse_action`) is handed `fuel` units and spends one per iteration; `parse` hands out
  `|src| + 1` (bytes). The fuel bounds each loop instance, not the total work.
All statements are for every text and each of the three kinds. -/

section Yacc
open GrmVerif.YaccParse

/-- **Totality.** For every text and kind the parser returns `Ok` or a NON-EMPTY list of errors. -/
theorem yacc_total (src : List Char) (kind : Kind) :
    (∃ pos ast, YaccParse.parse src kind = .ok (pos, ast)) ∨
    (∃ errs ast, YaccParse.parse src kind = .err (errs, ast) ∧ errs ≠ []) := by
  have h := YaccParse.parseWith_sat (src := src) (kind := kind) (fuel := byteLen src + 1) (by omega)
  unfold YaccParse.parse
  cases hr : YaccParse.parseWith src kind (byteLen src + 1) with
  | ok a => exact Or.inl ⟨a.1, a.2, rfl⟩
  | err e => rw [hr] at h; exact Or.inr ⟨e.1, e.2, rfl, h.1⟩
  | panic => rw [hr] at h; exact h.elim
  | fuelOut => rw [hr] at h; exact h.elim

/-- **No panic** (see the list of modelled panics above), on any text, for every kind. -/
theorem yacc_no_panic (src : List Char) (kind : Kind) : YaccParse.parse src kind ≠ .panic := by
  rcases yacc_total src kind with ⟨p, a, h⟩ | ⟨e, a, h, _⟩ <;> simp [h]

/-- **Termination.** `|src| + 1` units of fuel per loop instance always suffice: every iteration of
every loop consumes at least one byte of the text or ends the loop. -/
theorem yacc_terminates (src : List Char) (kind : Kind) : YaccParse.parse src kind ≠ .fuelOut := by
  rcases yacc_total src kind with ⟨p, a, h⟩ | ⟨e, a, h, _⟩ <;> simp [h]

/-- any amount of fuel above `|src|` does: the verdict "finished without panic" does not depend on it -/
theorem yacc_any_larger_fuel (src : List Char) (kind : Kind) (fuel : Nat) (h : byteLen src < fuel) :
    YaccParse.parseWith src kind fuel ≠ .fuelOut ∧ YaccParse.parseWith src kind fuel ≠ .panic := by
  have hs := YaccParse.parseWith_sat (src := src) (kind := kind) (fuel := fuel) h
  cases hr : YaccParse.parseWith src kind fuel <;> rw [hr] at hs <;> first | exact hs.elim | simp

/-- **Error spans.** The error list is not empty; every error (the `Duplicate…` ones with all their
occurrences, the ones forwarded from the `%grmtools` section included) carries at least one span,
and every span satisfies `start ≤ end ≤ |src|` with both ends on character boundaries. -/
theorem yacc_error_spans_wf (src : List Char) (kind : Kind) (errs : List YErr) (ast : Ast)
    (h : YaccParse.parse src kind = .err (errs, ast)) :
    errs ≠ [] ∧ ∀ e ∈ errs, e.spans ≠ [] ∧ ∀ sp ∈ e.spans, SpanWF src sp := by
  have hs := YaccParse.parseWith_sat (src := src) (kind := kind) (fuel := byteLen src + 1) (by omega)
  unfold YaccParse.parse at h
  rw [h] at hs
  exact ⟨hs.1, fun e he => ⟨(hs.2.1 e he).1, fun sp hsp => ((hs.2.1 e he).2 sp hsp).wf⟩⟩

/-- **Result position.** On `Ok(pos)` the position is a character boundary within the text. -/
theorem yacc_result_pos_wf (src : List Char) (kind : Kind) (pos : Nat) (ast : Ast)
    (h : YaccParse.parse src kind = .ok (pos, ast)) : IsBoundary src pos ∧ pos ≤ byteLen src := by
  have hs := YaccParse.parseWith_sat (src := src) (kind := kind) (fuel := byteLen src + 1) (by omega)
  unfold YaccParse.parse at h
  rw [h] at hs
  exact ⟨(valid_iff_boundary _ _).1 hs.1, hs.1.le⟩

/-- **AST spans.** Whatever `parse` returns, every span stored in the AST it built (start rule, rule
names, production spans, symbols, tokens, precedences, `%avoid_insert`, `%implicit_tokens`, `%epp`
keys and values, `%expect`, `%expect-rr`, `%expect-unused`) is well-formed. These are the only spans
`complete_and_validate` and `warnings()` put into the errors and warnings they create (besides
`Span::new(0, 0)`); action spans are not part of the model (C10 finding). -/
theorem yacc_ast_spans_wf (src : List Char) (kind : Kind) :
    (∀ pos ast, YaccParse.parse src kind = .ok (pos, ast) → ∀ sp ∈ ast.spans, SpanWF src sp) ∧
    (∀ errs ast, YaccParse.parse src kind = .err (errs, ast) → ∀ sp ∈ ast.spans, SpanWF src sp) := by
  have hs := YaccParse.parseWith_sat (src := src) (kind := kind) (fuel := byteLen src + 1) (by omega)
  unfold YaccParse.parse
  constructor
  · intro pos ast h sp hsp
    rw [h] at hs
    exact (hs.2.spans sp hsp).wf
  · intro errs ast h sp hsp
    rw [h] at hs
    exact (hs.2.2.spans sp hsp).wf

/-- test: the hypothesis of `yacc_error_spans_wf` is satisfiable (a header error is forwarded) -/
example : ∃ errs ast, YaccParse.parse "%grmtools".toList .grmtools = .err (errs, ast) := ⟨_, _, rfl⟩

end Yacc

/-! The witnesses of the two repaired defects (`%grmtools{a: [`, `%grmtools{a: 99999999999999999999999}`)
and accepted sections are evaluated on the compiled model by the driver on every run (corpus/C12),
where the implementation must return the same errors. -/

end GrmVerif.C12
