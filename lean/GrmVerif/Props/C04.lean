import GrmVerif.Lemmas.LRError
import GrmVerif.Props.C01
/-!
# C04 — a syntax error is reported at the first lexeme that cannot continue a sentence

Model: `LR.parse` (recovery off). Certificates: `Cert.check` and its lookahead half `Cert.checkLA`
(a conflict-free, LR(1)-complete table), evaluated on the dumped automaton of every generated
grammar. `Sentence` is `C01.Sentence` (a valid derivation tree of the input from the start rule).
-/
namespace GrmVerif.C04
open GrmVerif Cert LR Spec Ref C01

/-- **One error, no value.** With recovery off the outcome of a parse is either a value and no
error, or no value and exactly one error (position and state) — by construction of the driver —
and the error position is a lexeme index of the input or its end. -/
theorem one_error_no_value (G : Grammar) (A : Automaton) (hc : check G A = true) (w : List Nat)
    (hw : InputOk G w) (fuel i st : Nat) (h : parse G A w fuel = .error i st) : i ≤ w.length := by
  have P := check_props G A hc
  have key : ∀ (fuel : Nat) (c : Cfg), Inv G A w c → run G A w fuel c = .error i st → i ≤ w.length := by
    intro fuel
    induction fuel with
    | zero => intro c _ h; simp [run] at h
    | succ k ih =>
      intro c hinv h
      simp only [run] at h
      cases hs : step G A w c with
      | cont c' => rw [hs] at h; exact ih c' ((step_inv P hw hinv).1 c' hs) h
      | done o =>
        rw [hs] at h; simp only at h; subst h
        have := (step_laidx c).2 i st hs
        rw [this]; exact hinv.inRange
  exact key fuel (init A) (inv_init w) h

/-- **The error is not premature** (lexeme case): if the parser reports its error at lexeme `i`,
then the lexemes up to and including `i` are not a prefix of any sentence. -/
theorem error_not_premature (G : Grammar) (A : Automaton) (hc : check G A = true)
    (An : Analyses) (hAn : analyses G = some An)
    (hla : checkLA G A (An.nullable.contains ·) (An.first.contains ·) = true)
    (w : List Nat) (fuel i st : Nat) (hi : i < w.length)
    (h : parse G A w fuel = .error i st) :
    ¬ ∃ v, InputOk G (w.take (i + 1) ++ v) ∧ Sentence G (w.take (i + 1) ++ v) := by
  rintro ⟨v, hw', T, S, hv, hS, hr, hy⟩
  have hagree : ∀ k, k ≤ i → nextTok G w k = nextTok G (w.take (i + 1) ++ v) k := by
    intro k hk
    unfold nextTok
    have h1 : k < (w.take (i + 1)).length := by simp; omega
    rw [List.getElem?_append_left h1, List.getElem?_take_of_lt (by omega)]
  have herr := run_error_congr i hagree fuel (init A) st h
  obtain ⟨fuel', T', hacc, _⟩ := lr_complete G A hc An hAn hla _ hw' T S hv hS hr hy
  have e1 := run_fuel_mono fuel (init A) _ herr (by simp) fuel'
  have e2 := run_fuel_mono fuel' (init A) _ hacc (by simp) fuel
  unfold parse at *
  have hc' : fuel' + fuel = fuel + fuel' := Nat.add_comm _ _
  rw [hc', e1] at e2
  cases e2

/-- **The error is not premature** (end of input): an error reported at the end of the input means
the input is not a sentence. -/
theorem error_at_end_not_sentence (G : Grammar) (A : Automaton) (hc : check G A = true)
    (An : Analyses) (hAn : analyses G = some An)
    (hla : checkLA G A (An.nullable.contains ·) (An.first.contains ·) = true)
    (w : List Nat) (hw : InputOk G w) (fuel i st : Nat)
    (h : parse G A w fuel = .error i st) : ¬ Sentence G w := by
  rintro ⟨T, S, hv, hS, hr, hy⟩
  obtain ⟨fuel', T', hacc, _⟩ := lr_complete G A hc An hAn hla w hw T S hv hS hr hy
  have e1 := run_fuel_mono fuel (init A) _ h (by simp) fuel'
  have e2 := run_fuel_mono fuel' (init A) _ hacc (by simp) fuel
  unfold parse at *
  have hc' : fuel' + fuel = fuel + fuel' := Nat.add_comm _ _
  rw [hc', e1] at e2
  cases e2

end GrmVerif.C04
