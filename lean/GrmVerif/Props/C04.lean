import GrmVerif.Lemmas.LRError
import GrmVerif.Lemmas.Viable
import GrmVerif.Props.C01
/-!
# C04 — a syntax error is reported at the first lexeme that cannot continue a sentence

Model: `LR.parse` (recovery off). Certificates: `Cert.check` and its lookahead half `Cert.checkLA`
(a conflict-free, LR(1)-complete table), evaluated on the dumped automaton of every generated
grammar. `Sentence` is `C01.Sentence` (a valid derivation tree of the input from the start rule).
-/
namespace GrmVerif.C04
open GrmVerif Cert LR Spec Ref C01

/-- **One error, no value.** With recovery off the outcome of a parse is either a value and no
error, or no value and exactly one error (position and state) — by construction of the driver —
and the error position is a lexeme index of the input or its end. -/
theorem one_error_no_value (G : Grammar) (A : Automaton) (hc : check G A = true) (w : List Nat)
    (hw : InputOk G w) (fuel i st : Nat) (h : parse G A w fuel = .error i st) : i ≤ w.length := by
  have P := check_props G A hc
  have key : ∀ (fuel : Nat) (c : Cfg), Inv G A w c → run G A w fuel c = .error i st → i ≤ w.length := by
    intro fuel
    induction fuel with
    | zero => intro c _ h; simp [run] at h
    | succ k ih =>
      intro c hinv h
      simp only [run] at h
      cases hs : step G A w c with
      | cont c' => rw [hs] at h; exact ih c' ((step_inv P hw hinv).1 c' hs) h
      | done o =>
        rw [hs] at h; simp only at h; subst h
        have := (step_laidx c).2 i st hs
        rw [this]; exact hinv.inRange
  exact key fuel (init A) (inv_init w) h

/-- **The error is not premature** (lexeme case): if the parser reports its error at lexeme `i`,
then the lexemes up to and including `i` are not a prefix of any sentence. -/
theorem error_not_premature (G : Grammar) (A : Automaton) (hc : check G A = true)
    (An : Analyses) (hAn : analyses G = some An)
    (hla : checkLA G A (An.nullable.contains ·) (An.first.contains ·) = true)
    (w : List Nat) (fuel i st : Nat) (hi : i < w.length)
    (h : parse G A w fuel = .error i st) :
    ¬ ∃ v, InputOk G (w.take (i + 1) ++ v) ∧ Sentence G (w.take (i + 1) ++ v) := by
  rintro ⟨v, hw', T, S, hv, hS, hr, hy⟩
  have hagree : ∀ k, k ≤ i → nextTok G w k = nextTok G (w.take (i + 1) ++ v) k := by
    intro k hk
    unfold nextTok
    have h1 : k < (w.take (i + 1)).length := by simp; omega
    rw [List.getElem?_append_left h1, List.getElem?_take_of_lt (by omega)]
  have herr := run_error_congr i hagree fuel (init A) st h
  obtain ⟨fuel', T', hacc, _⟩ := lr_complete G A hc An hAn hla _ hw' T S hv hS hr hy
  have e1 := run_fuel_mono fuel (init A) _ herr (by simp) fuel'
  have e2 := run_fuel_mono fuel' (init A) _ hacc (by simp) fuel
  unfold parse at *
  have hc' : fuel' + fuel = fuel + fuel' := Nat.add_comm _ _
  rw [hc', e1] at e2
  cases e2

/-- **The error is not premature** (end of input): an error reported at the end of the input means
the input is not a sentence. -/
theorem error_at_end_not_sentence (G : Grammar) (A : Automaton) (hc : check G A = true)
    (An : Analyses) (hAn : analyses G = some An)
    (hla : checkLA G A (An.nullable.contains ·) (An.first.contains ·) = true)
    (w : List Nat) (hw : InputOk G w) (fuel i st : Nat)
    (h : parse G A w fuel = .error i st) : ¬ Sentence G w := by
  rintro ⟨T, S, hv, hS, hr, hy⟩
  obtain ⟨fuel', T', hacc, _⟩ := lr_complete G A hc An hAn hla w hw T S hv hS hr hy
  have e1 := run_fuel_mono fuel (init A) _ h (by simp) fuel'
  have e2 := run_fuel_mono fuel' (init A) _ hacc (by simp) fuel
  unfold parse at *
  have hc' : fuel' + fuel = fuel + fuel' := Nat.add_comm _ _
  rw [hc', e1] at e2
  cases e2

/-- **Everything before the error is a prefix of a sentence** (viable-prefix half). On an automaton
that passes `check` and `checkVP` (closed states hold only items of the closure of their core; every
rule of the grammar is productive — the hypothesis of the property), an error reported at position `i`
means that the `i` lexemes consumed so far can be completed to a sentence. No lookahead condition
is needed: the LR driver never SHIFTS a lexeme that leaves the viable prefixes. -/
theorem error_prefix_is_viable (G : Grammar) (A : Automaton) (hc : check G A = true)
    (hvp : checkVP G A = true) (w : List Nat) (hw : InputOk G w) (fuel i st : Nat)
    (h : parse G A w fuel = .error i st) :
    ∃ v, InputOk G (w.take i ++ v) ∧ Sentence G (w.take i ++ v) := by
  have P := check_props G A hc
  have PV := checkVP_props G A hvp
  obtain ⟨S, hS⟩ := P.startShape
  have key : ∀ (fuel : Nat) (c : Cfg), Inv G A w c → run G A w fuel c = .error i st →
      ∃ v, InputOk G (w.take i ++ v) ∧ Sentence G (w.take i ++ v) := by
    intro fuel
    induction fuel with
    | zero => intro c _ h; simp [run] at h
    | succ k ih =>
      intro c hinv h
      simp only [run] at h
      cases hs : step G A w c with
      | cont c' => rw [hs] at h; exact ih c' ((step_inv P hw hinv).1 c' hs) h
      | done o =>
        rw [hs] at h; simp only at h; subst h
        have hi := (step_laidx c).2 i st hs
        obtain ⟨pstack, astack, laidx⟩ := c
        obtain ⟨hpath, htrees, hyield, _⟩ := hinv
        simp only at hpath htrees hyield hi
        subst hi
        cases pstack with
        | nil => cases hpath
        | cons s rest =>
          obtain ⟨p, d, hitem⟩ := path_top_item P hpath
          have hslt : s < A.nstates := hpath.states_lt P s (by simp)
          have hp : p < G.nprods := by
            obtain ⟨it, him, hip, _⟩ := hitem
            have := (P.itemOk s hslt it (List.mem_append_left _ him)).1
            omega
          obtain ⟨v, hv, hctx⟩ := viable P PV S hS hpath s rest rfl p d hitem
          obtain ⟨us, huv, hum, huok⟩ := tail_trees P PV hp d
          obtain ⟨T, hT, hr, hy⟩ := hctx astack us htrees rfl huv hum
          refine ⟨Tree.yieldList us ++ v, ?_, T, S, hT, hS, hr, ?_⟩
          · intro t ht
            rcases List.mem_append.mp ht with ht | ht
            · exact hw t (List.mem_of_mem_take ht)
            · rcases List.mem_append.mp ht with ht | ht
              · exact huok t ht
              · exact hv t ht
          · rw [hy, hyield, List.append_assoc]
  exact key fuel (init A) (inv_init w) h

/-- **The error position is characterised by the language alone**: under all three certificate
parts it is the unique `i` such that the first `i` lexemes are a prefix of a sentence and the first
`i + 1` are not (or the input ends there). Hence any two certified automata of a grammar report
their error at the same lexeme (used by C02). -/
theorem error_position_unique (G : Grammar) (A B : Automaton)
    (hcA : check G A = true) (hcB : check G B = true) (hvB : checkVP G B = true)
    (An : Analyses) (hAn : analyses G = some An)
    (hlaA : checkLA G A (An.nullable.contains ·) (An.first.contains ·) = true)
    (w : List Nat) (hw : InputOk G w) (f1 f2 i j s1 s2 : Nat)
    (h1 : parse G A w f1 = .error i s1) (h2 : parse G B w f2 = .error j s2) : j ≤ i := by
  -- if A's error came first (i < j) then B's viable prefix w[0..j) contains w[0..i], contradicting A
  by_cases hij : j ≤ i
  · exact hij
  · exfalso
    have hjle : j ≤ w.length := one_error_no_value G B hcB w hw f2 j s2 h2
    obtain ⟨v, hok, hsent⟩ := error_prefix_is_viable G B hcB hvB w hw f2 j s2 h2
    have hi : i < w.length := by omega
    refine error_not_premature G A hcA An hAn hlaA w f1 i s1 hi h1 ⟨(w.take j).drop (i + 1) ++ v, ?_, ?_⟩
    · have : w.take (i + 1) ++ ((w.take j).drop (i + 1) ++ v) = w.take j ++ v := by
        rw [← List.append_assoc]
        congr 1
        have : w.take (i + 1) = (w.take j).take (i + 1) := by
          rw [List.take_take]; congr 1; omega
        rw [this, List.take_append_drop]
      rw [this]; exact hok
    · have : w.take (i + 1) ++ ((w.take j).drop (i + 1) ++ v) = w.take j ++ v := by
        rw [← List.append_assoc]
        congr 1
        have : w.take (i + 1) = (w.take j).take (i + 1) := by
          rw [List.take_take]; congr 1; omega
        rw [this, List.take_append_drop]
      rw [this]; exact hsent

end GrmVerif.C04
