import GrmVerif.Model.Recover
/-! # C05 — theorems being written -/
namespace GrmVerif.C05
open GrmVerif Rec

/-- stripping trailing shifts leaves no trailing shift -/
theorem stripShifts_no_trailing (rs : List Repair) : (stripShifts rs).getLast? ≠ some .shift := by
  unfold stripShifts
  rw [List.getLast?_reverse]
  cases h : rs.reverse.dropWhile (· == Repair.shift) with
  | nil => simp
  | cons a as =>
    have := List.head_dropWhile_not (fun x => x == Repair.shift) rs.reverse (by rw [h]; simp)
    simp only [h, List.head_cons] at this
    simp only [List.head?_cons, ne_eq, Option.some.injEq]
    intro e; subst e; simp at this

end GrmVerif.C05
