import GrmVerif.Props.C07
import GrmVerif.Lemmas.LRComplete
/-!
# C05 — every reported repair sequence repairs; parsing continues as if it were applied

Specification: `Rec.applySeq`, `Rec.validSeq`, `Rec.editSeq` (`Model/Recover.lean`). The driver
evaluates `validSeq` on every repair sequence the real recoverer reports, and compares the returned
tree with the plain parse (`LR.parse`, the model proved sound and complete under C01) of the input
edited by the first sequence of every error. The theorems connect these definitions:
applying a sequence is feeding the tokens of the edited input (`applySeq_is_edited_input`), feeding
a token to the stack automaton is what the full LR driver does (`feed_is_lr_steps`), and a valid
sequence leaves the parser where a plain parse runs `N` lexemes or accepts (`validSeq_runs`), which
is exactly the premise `RecovererOK` of C07.
-/
namespace GrmVerif.C05
open GrmVerif Rec LR Cert

/-- feed a list of tokens, each of which must be shifted -/
def feedToks (G : Grammar) (A : Automaton) : List Nat → List Nat → Option (List Nat)
  | stack, [] => some stack
  | stack, t :: ts =>
    match feed G A t FUEL stack with
    | .shifted s => feedToks G A s ts
    | _ => none

def itemTok (w : List Nat) : EItem → Nat
  | .real i => w.getD i 0
  | .ins t _ => t

/-- **Applying a repair sequence = parsing the edited input.** If the sequence applies from
`c`, the resulting configuration is the one reached by feeding, in order, the tokens of the edited
input it denotes (deleted lexemes dropped, inserted tokens added, shifted lexemes kept), and the
input position is the one after the last lexeme it consumed. -/
theorem applySeq_is_edited_input (G : Grammar) (A : Automaton) (w : List Nat) :
    ∀ (rs : List Repair) (c c' : Pos), applySeq G A w c rs = some c' →
      feedToks G A c.stack ((editSeq c.pos rs).1.map (itemTok w)) = some c'.stack ∧
      c'.pos = (editSeq c.pos rs).2 := by
  intro rs
  induction rs with
  | nil => intro c c' h; simp [applySeq] at h; subst h; simp [editSeq, feedToks]
  | cons r rs ih =>
    intro c c' h
    simp only [applySeq] at h
    cases hr : applyRepair G A w c r with
    | none => rw [hr] at h; cases h
    | some c1 =>
      rw [hr] at h
      simp only at h
      obtain ⟨i1, i2⟩ := ih c1 c' h
      cases r with
      | insert t =>
        simp only [applyRepair] at hr
        cases hf : feed G A t FUEL c.stack with
        | shifted s =>
          rw [hf] at hr; injection hr with hr; subst hr
          simp only at i1 i2
          simp [editSeq, feedToks, itemTok, hf, i1, i2]
        | accept s => rw [hf] at hr; cases hr
        | error s => rw [hf] at hr; cases hr
        | crash => rw [hf] at hr; cases hr
        | fuelOut => rw [hf] at hr; cases hr
      | delete =>
        simp only [applyRepair] at hr
        split at hr
        · injection hr with hr; subst hr
          simp only at i1 i2
          simp [editSeq, i1, i2]
        · cases hr
      | shift =>
        simp only [applyRepair] at hr
        cases hw : w[c.pos]? with
        | none => rw [hw] at hr; cases hr
        | some t =>
          rw [hw] at hr
          simp only at hr
          cases hf : feed G A t FUEL c.stack with
          | shifted s =>
            rw [hf] at hr; injection hr with hr; subst hr
            simp only at i1 i2
            simp [editSeq, feedToks, itemTok, hw, hf, i1, i2]
          | accept s => rw [hf] at hr; cases hr
          | error s => rw [hf] at hr; cases hr
          | crash => rw [hf] at hr; cases hr
          | fuelOut => rw [hf] at hr; cases hr

/-- `continueFrom` counts the lexemes a plain parse shifts: if it reports `n` shifts or acceptance,
the plain parse `Runs` that far -/
theorem continueFrom_runs (G : Grammar) (A : Automaton) (w : List Nat) (N : Nat) :
    ∀ (fuel : Nat) (c : Pos) (m n : Nat) (acc : Bool) (p : Nat),
      continueFrom G A w fuel c m = (n, acc, p) → (acc = true ∨ m + N ≤ n) → C07.Runs G A w N c := by
  intro fuel
  induction fuel generalizing N with
  | zero =>
    intro c m n acc p h hv
    simp only [continueFrom, Prod.mk.injEq] at h
    obtain ⟨rfl, rfl, _⟩ := h
    rcases hv with hv | hv
    · cases hv
    · have : N = 0 := by omega
      subst this; exact .zero c
  | succ f ih =>
    intro c m n acc p h hv
    simp only [continueFrom] at h
    cases hf : feed G A (nextTok G w c.pos) FUEL c.stack with
    | shifted s =>
      rw [hf] at h
      simp only at h
      cases N with
      | zero => exact .zero c
      | succ N' =>
        refine .shift c N' s hf (ih N' _ (m + 1) n acc p h ?_)
        rcases hv with hv | hv
        · exact Or.inl hv
        · exact Or.inr (by omega)
    | accept s => exact .acc c N s hf
    | error s =>
      rw [hf] at h
      simp only [Prod.mk.injEq] at h
      obtain ⟨rfl, rfl, _⟩ := h
      rcases hv with hv | hv
      · cases hv
      · have : N = 0 := by omega
        subst this; exact .zero c
    | crash =>
      rw [hf] at h
      simp only [Prod.mk.injEq] at h
      obtain ⟨rfl, rfl, _⟩ := h
      rcases hv with hv | hv
      · cases hv
      · have : N = 0 := by omega
        subst this; exact .zero c
    | fuelOut =>
      rw [hf] at h
      simp only [Prod.mk.injEq] at h
      obtain ⟨rfl, rfl, _⟩ := h
      rcases hv with hv | hv
      · cases hv
      · have : N = 0 := by omega
        subst this; exact .zero c

/-- **A valid sequence repairs**: it applies with plain LR semantics, never moves the input
position backwards, and leaves the parser in a configuration from which a plain parse continues
without error over at least `N` further lexemes or to acceptance — the premise of C07's
`RecovererOK` for a recoverer that applies it. -/
theorem validSeq_runs (G : Grammar) (A : Automaton) (w : List Nat) (N : Nat) (c : Pos) (rs : List Repair)
    (h : validSeq G A w N c rs = true) :
    ∃ c', applySeq G A w c rs = some c' ∧ c.pos ≤ c'.pos ∧ C07.Runs G A w N c' := by
  unfold validSeq at h
  cases ha : applySeq G A w c rs with
  | none => rw [ha] at h; cases h
  | some c' =>
    rw [ha] at h
    simp only at h
    refine ⟨c', rfl, ?_, ?_⟩
    · -- positions only move forwards
      have : ∀ (rs : List Repair) (c c' : Pos), applySeq G A w c rs = some c' → c.pos ≤ c'.pos := by
        intro rs
        induction rs with
        | nil => intro c c' h; simp [applySeq] at h; subst h; exact Nat.le_refl _
        | cons r rs ih =>
          intro c c' h
          simp only [applySeq] at h
          cases hr : applyRepair G A w c r with
          | none => rw [hr] at h; cases h
          | some c1 =>
            rw [hr] at h
            have h1 := ih c1 c' h
            have h0 : c.pos ≤ c1.pos := by
              cases r with
              | insert t =>
                simp only [applyRepair] at hr
                cases hf : feed G A t FUEL c.stack <;> rw [hf] at hr <;> first | (injection hr with hr; subst hr; exact Nat.le_refl _) | cases hr
              | delete =>
                simp only [applyRepair] at hr
                split at hr
                · injection hr with hr; subst hr; exact Nat.le_succ _
                · cases hr
              | shift =>
                simp only [applyRepair] at hr
                cases hw : w[c.pos]? with
                | none => rw [hw] at hr; cases hr
                | some t =>
                  rw [hw] at hr
                  simp only at hr
                  cases hf : feed G A t FUEL c.stack <;> rw [hf] at hr <;> first | (injection hr with hr; subst hr; exact Nat.le_succ _) | cases hr
            omega
      exact this rs c c' ha
    · cases hcf : continueFrom G A w (w.length + 2) c' 0 with
      | mk n rest =>
        obtain ⟨acc, p⟩ := rest
        rw [hcf] at h
        simp only [Bool.or_eq_true, decide_eq_true_eq] at h
        refine continueFrom_runs G A w N _ c' 0 n acc p hcf ?_
        rcases h with h | h
        · exact Or.inl h
        · exact Or.inr (by omega)

/-- **Feeding a token is what the LR driver does.** If the stack automaton shifts lookahead `la`
from `stack` (after the reductions the table prescribes), then the full driver — with trees —
started in any configuration with that state stack and lookahead reaches, in some number of steps,
the configuration with the shifted stack, the lexeme pushed as a leaf, and the next position. -/
theorem feed_is_lr_steps (G : Grammar) (A : Automaton) (w : List Nat) :
    ∀ (fuel : Nat) (stack s' : List Nat) (astack : List Tree) (laidx : Nat),
      feed G A (nextTok G w laidx) fuel stack = .shifted s' →
      ∃ astack', Steps G A w ⟨stack, astack, laidx⟩ ⟨s', .leaf (nextTok G w laidx) laidx :: astack', laidx + 1⟩ := by
  intro fuel
  induction fuel with
  | zero => intro stack s' astack laidx h; simp [feed] at h
  | succ f ih =>
    intro stack s' astack laidx h
    cases stack with
    | nil => simp [feed] at h
    | cons st rest =>
      simp only [feed] at h
      cases hact : A.action st (nextTok G w laidx) with
      | error => rw [hact] at h; cases h
      | accept => rw [hact] at h; cases h
      | shift s1 =>
        rw [hact] at h
        injection h with h; subst h
        exact ⟨astack, Steps.single (by simp [step, hact])⟩
      | reduce p =>
        rw [hact] at h
        simp only at h
        by_cases hle : (st :: rest).length ≤ (G.rhs p).length
        · rw [if_pos hle] at h; cases h
        · rw [if_neg hle] at h
          cases hd : List.drop (G.rhs p).length (st :: rest) with
          | nil => rw [hd] at h; cases h
          | cons prior tl =>
            rw [hd] at h
            simp only at h
            cases hg : A.goto prior (G.lhs p) with
            | none => rw [hg] at h; cases h
            | some s1 =>
              rw [hg] at h
              simp only at h
              obtain ⟨astack', hs⟩ := ih (s1 :: prior :: tl) s'
                (.node p (astack.take (G.rhs p).length).reverse :: astack.drop (G.rhs p).length) laidx h
              refine ⟨astack', .step _ _ _ ?_ hs⟩
              simp only [step, hact]
              rw [if_neg hle, hd]
              simp only [hg]

end GrmVerif.C05
