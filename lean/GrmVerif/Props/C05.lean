import GrmVerif.Lemmas.RecSpec
import GrmVerif.Props.C01
import GrmVerif.Lemmas.LRComplete
import GrmVerif.Lemmas.RecEdited
import GrmVerif.Lemmas.RecEditedEx
import GrmVerif.Lemmas.LeafIdx
/-!
# C05 — every reported repair sequence repairs; parsing continues as if it were applied

Specification: `Rec.applySeq`, `Rec.validSeq`, `Rec.editSeq` (`Model/Recover.lean`) and, for a whole
run, `C05.editedItems`/`C05.editedToks` (`Lemmas/RecEdited.lean`): the input with the FIRST repair
sequence of every reported error applied. The driver evaluates `validSeq` on every repair sequence
the real recoverer reports, and compares the returned tree with the plain parse (`LR.parse`, the
model proved sound and complete under C01) of `editedItems` of the reported errors.

One sequence at one error: applying a sequence is feeding the tokens of the edited input
(`applySeq_is_edited_input`), feeding a token to the stack automaton is what the full LR driver does
(`feed_is_lr_steps`), and a valid sequence leaves the parser where a plain parse runs `N` lexemes or
accepts (`validSeq_runs`), which is exactly the premise `RecovererOK` of C07.

Whole input, any number of errors, about the recovering driver `Rec.recRun` with any recoverer that
continues as if the first sequence it reports had been applied (`FirstApplies`):
`recRun_is_edited_run_keeping_reductions` (unconditional: the run is the run over the edited input in
which each refused lexeme is first offered to the table, the reductions made under it being kept),
and, when those kept reductions cannot be observed (`KeptInvisible`),
`recRun_is_plain_parse_of_edited_input`, `reported_errors_are_plain_errors_of_edited_input`,
`unrepaired_error_is_first_error_of_edited_input`, `returned_tree_spells_edited_input`.
-/
namespace GrmVerif.C05
open GrmVerif Rec LR Cert

/-- **Applying a repair sequence = parsing the edited input.** If the sequence applies from
`c`, the resulting configuration is the one reached by feeding, in order, the tokens of the edited
input it denotes (deleted lexemes dropped, inserted tokens added, shifted lexemes kept), and the
input position is the one after the last lexeme it consumed. -/
theorem applySeq_is_edited_input (G : Grammar) (A : Automaton) (w : List Nat) :
    ∀ (rs : List Repair) (c c' : Pos), applySeq G A w c rs = some c' →
      feedToks G A c.stack ((editSeq c.pos rs).1.map (itemTok w)) = some c'.stack ∧
      c'.pos = (editSeq c.pos rs).2 :=
  applySeq_feedToks G A w

/-- `continueFrom` counts the lexemes a plain parse shifts: if it reports `n` shifts or acceptance,
the plain parse `Runs` that far -/
theorem continueFrom_runs (G : Grammar) (A : Automaton) (w : List Nat) (N : Nat) :
    ∀ (fuel : Nat) (c : Pos) (m n : Nat) (acc : Bool) (p : Nat),
      continueFrom G A w fuel c m = (n, acc, p) → (acc = true ∨ m + N ≤ n) → C07.Runs G A w N c := by
  intro fuel
  induction fuel generalizing N with
  | zero =>
    intro c m n acc p h hv
    simp only [continueFrom, Prod.mk.injEq] at h
    obtain ⟨rfl, rfl, _⟩ := h
    rcases hv with hv | hv
    · cases hv
    · have : N = 0 := by omega
      subst this; exact .zero c
  | succ f ih =>
    intro c m n acc p h hv
    simp only [continueFrom] at h
    cases hf : feed G A (nextTok G w c.pos) FUEL c.stack with
    | shifted s =>
      rw [hf] at h
      simp only at h
      cases N with
      | zero => exact .zero c
      | succ N' =>
        refine .shift c N' s hf (ih N' _ (m + 1) n acc p h ?_)
        rcases hv with hv | hv
        · exact Or.inl hv
        · exact Or.inr (by omega)
    | accept s => exact .acc c N s hf
    | error s =>
      rw [hf] at h
      simp only [Prod.mk.injEq] at h
      obtain ⟨rfl, rfl, _⟩ := h
      rcases hv with hv | hv
      · cases hv
      · have : N = 0 := by omega
        subst this; exact .zero c
    | crash =>
      rw [hf] at h
      simp only [Prod.mk.injEq] at h
      obtain ⟨rfl, rfl, _⟩ := h
      rcases hv with hv | hv
      · cases hv
      · have : N = 0 := by omega
        subst this; exact .zero c
    | fuelOut =>
      rw [hf] at h
      simp only [Prod.mk.injEq] at h
      obtain ⟨rfl, rfl, _⟩ := h
      rcases hv with hv | hv
      · cases hv
      · have : N = 0 := by omega
        subst this; exact .zero c

/-- **A valid sequence repairs**: it applies with plain LR semantics, never moves the input
position backwards, and leaves the parser in a configuration from which a plain parse continues
without error over at least `N` further lexemes or to acceptance — the premise of C07's
`RecovererOK` for a recoverer that applies it. -/
theorem validSeq_runs (G : Grammar) (A : Automaton) (w : List Nat) (N : Nat) (c : Pos) (rs : List Repair)
    (h : validSeq G A w N c rs = true) :
    ∃ c', applySeq G A w c rs = some c' ∧ c.pos ≤ c'.pos ∧ C07.Runs G A w N c' := by
  unfold validSeq at h
  cases ha : applySeq G A w c rs with
  | none => rw [ha] at h; cases h
  | some c' =>
    rw [ha] at h
    simp only at h
    refine ⟨c', rfl, ?_, ?_⟩
    · -- positions only move forwards
      have : ∀ (rs : List Repair) (c c' : Pos), applySeq G A w c rs = some c' → c.pos ≤ c'.pos := by
        intro rs
        induction rs with
        | nil => intro c c' h; simp [applySeq] at h; subst h; exact Nat.le_refl _
        | cons r rs ih =>
          intro c c' h
          simp only [applySeq] at h
          cases hr : applyRepair G A w c r with
          | none => rw [hr] at h; cases h
          | some c1 =>
            rw [hr] at h
            have h1 := ih c1 c' h
            have h0 : c.pos ≤ c1.pos := by
              cases r with
              | insert t =>
                simp only [applyRepair] at hr
                cases hf : feed G A t FUEL c.stack <;> rw [hf] at hr <;> first | (injection hr with hr; subst hr; exact Nat.le_refl _) | cases hr
              | delete =>
                simp only [applyRepair] at hr
                split at hr
                · injection hr with hr; subst hr; exact Nat.le_succ _
                · cases hr
              | shift =>
                simp only [applyRepair] at hr
                cases hw : w[c.pos]? with
                | none => rw [hw] at hr; cases hr
                | some t =>
                  rw [hw] at hr
                  simp only at hr
                  cases hf : feed G A t FUEL c.stack <;> rw [hf] at hr <;> first | (injection hr with hr; subst hr; exact Nat.le_succ _) | cases hr
            omega
      exact this rs c c' ha
    · cases hcf : continueFrom G A w (w.length + 2) c' 0 with
      | mk n rest =>
        obtain ⟨acc, p⟩ := rest
        rw [hcf] at h
        simp only [Bool.or_eq_true, decide_eq_true_eq] at h
        refine continueFrom_runs G A w N _ c' 0 n acc p hcf ?_
        rcases h with h | h
        · exact Or.inl h
        · exact Or.inr (by omega)

/-- **Feeding a token is what the LR driver does.** If the stack automaton shifts lookahead `la`
from `stack` (after the reductions the table prescribes), then the full driver — with trees —
started in any configuration with that state stack and lookahead reaches, in some number of steps,
the configuration with the shifted stack, the lexeme pushed as a leaf, and the next position. -/
theorem feed_is_lr_steps (G : Grammar) (A : Automaton) (w : List Nat) :
    ∀ (fuel : Nat) (stack s' : List Nat) (astack : List Tree) (laidx : Nat),
      feed G A (nextTok G w laidx) fuel stack = .shifted s' →
      ∃ astack', Steps G A w ⟨stack, astack, laidx⟩ ⟨s', .leaf (nextTok G w laidx) laidx :: astack', laidx + 1⟩ :=
  feed_shifted_steps G A w

/-! ## The whole input, any number of errors

`recover` is any recoverer; `FirstApplies` says it continues as if the first sequence it reports had
been applied (for the real recoverer this is what the driver checks per error: `validSeq` holds of
every reported sequence at the configuration of the error, and the parser goes on from the
configuration `applySeq` gives for the first one). `eofOk G A` is the decidable check that the table
never shifts the end-of-input token and accepts only under it (true of every table
`StateTable::new` builds; evaluated by the driver on every dumped table); `G.eof ∉ w` says the lexer
never hands the parser the end-of-input token as a lexeme. Both are needed only so that "accepts"
means "accepts at the end of the edited input". -/

/-- **The recovering run is the run over the edited input, each refused lexeme being offered to the
table first.** For every recoverer with `FirstApplies`, every fuel, every start configuration `c`
within the input and every result `(v, errs')` of `recRun`: the run appended errors `new` at
increasing positions (`Ordered`), and
* if a value was produced, the stack automaton started from `c.stack` runs through
  `editedSteps … new` — the real lexemes between the errors, and at each error first the refused
  lexeme (`EStep.offer`: the table refuses it after the reductions it prescribes under it, and those
  reductions are KEPT) and then the tokens of the error's first sequence — and then accepts under the
  end-of-input token;
* for every reported error `e`, the same run over the edits of the EARLIER errors `pre` reaches `e`'s
  position and the lexeme there is refused.
No hypothesis about the table beyond the end-of-input discipline: this is the exact semantics of the
driver, on every table (with or without conflicts). -/
theorem recRun_is_edited_run_keeping_reductions (G : Grammar) (A : Automaton) (w : List Nat)
    (recover : Pos → Option (Pos × List (List Repair)))
    (hfirst : FirstApplies G A w recover) (heof : eofOk G A = true) (hw : G.eof ∉ w)
    (fuel : Nat) (c : Pos) (errs : List Err) (v : Bool) (errs' : List Err) (hc : c.pos ≤ w.length)
    (h : recRun G A w recover fuel c errs = (v, errs')) :
    ∃ new, errs' = errs ++ new ∧ Ordered w.length c.pos new ∧
      (v = true → ∃ st x, runSteps G A c.stack (editedSteps G w w.length c.pos new) = some st ∧
        feed G A G.eof FUEL st = .accept x) ∧
      (∀ pre e post, new = pre ++ e :: post →
        ∃ s, runSteps G A c.stack (editedSteps G w e.pos c.pos pre ++ [.offer (nextTok G w e.pos)]) = some s) :=
  recRun_own G A w recover hfirst (eofOk_spec heof).1 (eofOk_spec heof).2 hw fuel c errs v errs' hc h

/-- **A value means the plain parse of the edited input accepts** (second sentence of C05, value
part, on state stacks). Hypotheses: `FirstApplies`, the end-of-input discipline, and
`KeptInvisible G A` — the reductions made under a refused lexeme cannot be observed by any token fed
afterwards. The last one is forced: the recovering driver keeps those reductions, a plain parse of
the edited input never makes them. It holds trivially for tables that refuse a lexeme before
reducing under it (canonical LR(1)), and is what conflict-free merged tables are expected to satisfy
(the driver validates the conclusion case by case there); on tables with conflicts it can fail,
which is the known finding `C05-conflicting-grammar-keeps-reductions`.
Conclusion, for every fuel, start configuration and result with a value: feeding the edited token
list (`editedToks`: first sequence of every reported error applied) to the plain stack automaton
from `c.stack` shifts every token, and the end-of-input token is then accepted; as one function:
`plainFrom … = accepted`. -/
theorem recRun_is_plain_parse_of_edited_input (G : Grammar) (A : Automaton) (w : List Nat)
    (recover : Pos → Option (Pos × List (List Repair)))
    (hfirst : FirstApplies G A w recover) (heof : eofOk G A = true) (hw : G.eof ∉ w)
    (hk : KeptInvisible G A)
    (fuel : Nat) (c : Pos) (errs errs' : List Err) (hc : c.pos ≤ w.length)
    (h : recRun G A w recover fuel c errs = (true, errs')) :
    ∃ new, errs' = errs ++ new ∧
      (∃ st x, feedToks G A c.stack (editedToks w w.length c.pos new) = some st ∧
        feed G A G.eof FUEL st = .accept x) ∧
      plainFrom G A c.stack (editedToks w w.length c.pos new) 0 = .accepted := by
  obtain ⟨new, h1, _, h3, _⟩ := recRun_plain G A w recover hfirst heof hw hk fuel c errs true errs' hc h
  obtain ⟨st, x, hf, hx⟩ := h3 rfl
  exact ⟨new, h1, ⟨st, x, hf, hx⟩, plainFrom_accepted G A _ _ st x 0 hf hx⟩

/-- **Later errors are exactly those of parsing the input with the first sequence of each earlier
error applied.** Same hypotheses as `recRun_is_plain_parse_of_edited_input`, any result (value or
not). For every reported error `e`, with `pre` the errors reported before it: `e` lies within the
input at or after the start; the input edited by `pre` is the edited input up to `e`'s position
followed by the untouched real lexemes from `e.pos` on; and the plain parse of that edited input
shifts everything before that point and REFUSES the token there (the real lexeme `e.pos`, or the end
of input if `e.pos = |w|`): its first error is exactly at the reported position. -/
theorem reported_errors_are_plain_errors_of_edited_input (G : Grammar) (A : Automaton) (w : List Nat)
    (recover : Pos → Option (Pos × List (List Repair)))
    (hfirst : FirstApplies G A w recover) (heof : eofOk G A = true) (hw : G.eof ∉ w)
    (hk : KeptInvisible G A)
    (fuel : Nat) (c : Pos) (errs : List Err) (v : Bool) (errs' : List Err) (hc : c.pos ≤ w.length)
    (h : recRun G A w recover fuel c errs = (v, errs')) :
    ∃ new, errs' = errs ++ new ∧ ∀ pre e post, new = pre ++ e :: post →
      c.pos ≤ e.pos ∧ e.pos ≤ w.length ∧
      editedItems w.length c.pos pre = editedItems e.pos c.pos pre ++ reals e.pos w.length ∧
      (∃ st y, feedToks G A c.stack (editedToks w e.pos c.pos pre) = some st ∧
        feed G A (nextTok G w e.pos) FUEL st = .error y) ∧
      plainFrom G A c.stack (editedToks w w.length c.pos pre) 0 =
        .refusedAt (editedToks w e.pos c.pos pre).length := by
  obtain ⟨new, h1, h2, _, h4⟩ := recRun_plain G A w recover hfirst heof hw hk fuel c errs v errs' hc h
  refine ⟨new, h1, ?_⟩
  intro pre e post hs
  subst hs
  obtain ⟨ho, hle⟩ := ordered_split h2
  obtain ⟨st, y, hf, hy⟩ := h4 pre e post rfl
  have hsplit := editedItems_split hle ho
  refine ⟨ordered_le ho, hle, hsplit, ⟨st, y, hf, hy⟩, ?_⟩
  have := plainFrom_refused G A w _ c.stack st y e.pos 0 hf hy
  simp only [editedToks, hsplit, List.map_append] at this ⊢
  simpa using this

/-- **A run that gives up stops where the plain parse of the edited input has its first error.** Same
hypotheses. If the last reported error `e` has no repair sequence (the run ended without a value
there), the edited input is the input edited by the earlier errors `pre` only, and its plain parse
shifts every token before `e`'s position and refuses the one there. -/
theorem unrepaired_error_is_first_error_of_edited_input (G : Grammar) (A : Automaton) (w : List Nat)
    (recover : Pos → Option (Pos × List (List Repair)))
    (hfirst : FirstApplies G A w recover) (heof : eofOk G A = true) (hw : G.eof ∉ w)
    (hk : KeptInvisible G A)
    (fuel : Nat) (c : Pos) (errs : List Err) (v : Bool) (errs' : List Err) (hc : c.pos ≤ w.length)
    (h : recRun G A w recover fuel c errs = (v, errs')) :
    ∃ new, errs' = errs ++ new ∧ ∀ pre e, new = pre ++ [e] → e.repairs = [] →
      editedItems w.length c.pos new = editedItems w.length c.pos pre ∧
      plainFrom G A c.stack (editedToks w w.length c.pos new) 0 =
        .refusedAt (editedToks w e.pos c.pos pre).length := by
  obtain ⟨new, h1, h2, _, _⟩ := recRun_plain G A w recover hfirst heof hw hk fuel c errs v errs' hc h
  obtain ⟨new', h1', h3⟩ := reported_errors_are_plain_errors_of_edited_input G A w recover hfirst heof hw hk
    fuel c errs v errs' hc h
  have hn : new' = new := List.append_cancel_left (h1'.symm.trans h1)
  subst hn
  refine ⟨new', h1, ?_⟩
  intro pre e hs he
  subst hs
  have hun := editedItems_unrepaired he h2
  refine ⟨hun, ?_⟩
  obtain ⟨_, _, _, _, hp⟩ := h3 pre e [] rfl
  simp only [editedToks, hun] at hp ⊢
  exact hp

/-- **A returned tree's leaves spell the repaired input.** Same hypotheses, on a table that passes
C01's validator `Cert.check`, for a run from the start configuration that produced a value, when the
edited input consists of real tokens (`InputOk`: inserted tokens are tokens of the grammar other than
end-of-input — the recoverer never inserts that one). Then the plain LR driver WITH TREES
(`LR.parse`, the model of `Parser::lr` of C01) accepts the edited token list, and the tree it returns
is a valid derivation from the start rule whose leaves, left to right, are exactly the edited token
list — the real lexemes kept, the inserted tokens where `editedItems` places them (before the next
real lexeme), the deleted lexemes gone. The `k`-th leaf carries the lexeme index `k`: it stands for
the `k`-th item of `editedItems`, i.e. a real lexeme `EItem.real i` or a token inserted before real
lexeme `b`, `EItem.ins t b` (which the real parser shows as a zero-length faulty lexeme at `b`'s start). -/
theorem returned_tree_spells_edited_input (G : Grammar) (A : Automaton) (w : List Nat)
    (recover : Pos → Option (Pos × List (List Repair)))
    (hfirst : FirstApplies G A w recover) (heof : eofOk G A = true) (hw : G.eof ∉ w)
    (hk : KeptInvisible G A) (hcert : check G A = true)
    (fuel : Nat) (errs : List Err)
    (h : recRun G A w recover fuel ⟨[A.start], 0⟩ [] = (true, errs))
    (hin : InputOk G (editedToks w w.length 0 errs)) :
    ∃ fuel' t, LR.parse G A (editedToks w w.length 0 errs) fuel' = .accept t ∧
      Tree.valid G t = true ∧ (∃ S, G.rhs G.startProd = [.rule S] ∧ Tree.root G t = .rule S) ∧
      Tree.yield t = editedToks w w.length 0 errs ∧
      Tree.leafIdxs t = List.range (editedItems w.length 0 errs).length := by
  obtain ⟨new, h1, ⟨st, x, hf, hx⟩, _⟩ := recRun_is_plain_parse_of_edited_input G A w recover hfirst heof hw hk
    fuel ⟨[A.start], 0⟩ [] errs (Nat.zero_le _) h
  simp only [List.nil_append] at h1
  subst h1
  simp only at hf
  generalize htoks : editedToks w w.length 0 errs = toks at *
  -- the tokens are shifted by the driver with trees …
  obtain ⟨a1, hs1⟩ := feedToks_steps G A toks toks 0 [A.start] st [] (Nat.zero_le _) (by simp) hf
  -- … and at the end of the input it reduces and stops
  have hend : nextTok G toks toks.length = G.eof := by simp [nextTok]
  rw [← hend] at hx
  obtain ⟨a2, hs2, st0, tl, hx0, hact⟩ := feed_accept_steps G A toks FUEL st x a1 toks.length hx
  have hsteps := hs1.trans hs2
  have hdone : ∃ o, step G A toks ⟨x, a2, toks.length⟩ = .done o := by
    subst hx0
    simp only [step, hact]
    cases a2.getLast? with
    | none => exact ⟨_, rfl⟩
    | some tr => cases tr <;> exact ⟨_, rfl⟩
  obtain ⟨o, hdo⟩ := hdone
  obtain ⟨fuel', hrun⟩ := run_of_steps hsteps hdo
  have hparse : parse G A toks fuel' = o := hrun
  -- the outcome is an accept: a certified table never crashes
  have hacc : ∃ t, o = .accept t := by
    subst hx0
    simp only [step, hact] at hdo
    cases hl : a2.getLast? with
    | none =>
      rw [hl] at hdo; simp only [Step.done.injEq] at hdo
      exact absurd (hdo ▸ hparse) (C01.lr_no_crash G A hcert toks hin fuel' 3)
    | some tr =>
      rw [hl] at hdo
      cases tr with
      | leaf a b =>
        simp only [Step.done.injEq] at hdo
        exact absurd (hdo ▸ hparse) (C01.lr_no_crash G A hcert toks hin fuel' 3)
      | node p kids =>
        simp only [Step.done.injEq] at hdo
        exact ⟨_, hdo.symm⟩
  obtain ⟨t, ht⟩ := hacc
  subst ht
  have hidx := accept_leafIdxs (check_props G A hcert) hin hsteps t hdo
  have hlen : toks.length = (editedItems w.length 0 errs).length := by
    rw [← htoks]; simp [editedToks]
  obtain ⟨hv, hr, hy⟩ := C01.lr_sound G A hcert toks hin fuel' t hparse
  exact ⟨fuel', t, hparse, hv, hr, hy, by rw [← hlen]; exact hidx⟩

/-! ## Tests: the hypotheses are jointly satisfiable on a run with two errors, one of which leaves a
kept reduction behind, and the conclusions compute (`Lemmas/RecEditedEx.lean`: grammar
`S: A 'b'; A: 'a'`, input `a a`) -/

/-- the table keeps the end-of-input discipline -/
example : eofOk exG exA = true := by decide
/-- the reduction `A → a` made under the refused end-of-input token is kept -/
example : feed exG exA 2 FUEL [1, 0] = .error [2, 0] := by rfl
/-- this table satisfies `KeptInvisible` although it does reduce under refused lexemes -/
example : KeptInvisible exG exA := ex_keptInvisible
/-- the recoverer continues as if its first sequence were applied -/
example : FirstApplies exG exA [0, 0] exRecover := exFirst_holds
/-- the run: two errors (the second `a`, then the end of input), each repaired by its first sequence -/
example : recRun exG exA [0, 0] exRecover 10 ⟨[0], 0⟩ [] =
    (true, [⟨1, [[.delete], [.insert 1, .delete]]⟩, ⟨2, [[.insert 1]]⟩]) := by rfl
/-- its edited input: `a`, then `b` inserted before (absent) lexeme 2; the second `a` is gone -/
example : editedItems 2 0 [⟨1, [[.delete], [.insert 1, .delete]]⟩, ⟨2, [[.insert 1]]⟩] = [.real 0, .ins 1 2] := by decide
example : editedToks [0, 0] 2 0 [⟨1, [[.delete], [.insert 1, .delete]]⟩, ⟨2, [[.insert 1]]⟩] = [0, 1] := by decide
/-- the conclusion of `recRun_is_plain_parse_of_edited_input`, obtained from the theorem … -/
example : plainFrom exG exA [0]
    (editedToks [0, 0] 2 0 [⟨1, [[.delete], [.insert 1, .delete]]⟩, ⟨2, [[.insert 1]]⟩]) 0 = .accepted := by
  obtain ⟨new, h1, _, h3⟩ := recRun_is_plain_parse_of_edited_input exG exA [0, 0] exRecover exFirst_holds
    (by decide) (by decide) ex_keptInvisible 10 ⟨[0], 0⟩ [] _ (by decide) rfl
  simp only [List.nil_append] at h1
  subst h1
  exact h3
/-- … and by evaluation -/
example : plainFrom exG exA [0] [0, 1] 0 = .accepted := by decide
/-- the second error is where the plain parse of the input edited by the first error (`a`) fails: at
its end (token index 1) -/
example : plainFrom exG exA [0] (editedToks [0, 0] 2 0 [⟨1, [[.delete], [.insert 1, .delete]]⟩]) 0 = .refusedAt 1 := by decide
/-- a run that gives up: `b` alone is refused at once, the recoverer has nothing, and the plain parse
of the (unedited) input has its first error at token 0 -/
example : recRun exG exA [1] (fun _ => none) 10 ⟨[0], 0⟩ [] = (false, [⟨0, []⟩]) := by rfl
example : plainFrom exG exA [0] (editedToks [1] 1 0 [⟨0, []⟩]) 0 = .refusedAt 0 := by decide

end GrmVerif.C05
