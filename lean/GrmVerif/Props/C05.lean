import GrmVerif.Lemmas.RecSpec
import GrmVerif.Props.C01
import GrmVerif.Lemmas.LRComplete
import GrmVerif.Lemmas.RecEdited
import GrmVerif.Lemmas.RecEditedEx
import GrmVerif.Lemmas.LeafIdx
import GrmVerif.Lemmas.KeptShift
import GrmVerif.Lemmas.KeptRun
import GrmVerif.Lemmas.KeptCert
import GrmVerif.Lemmas.KeptCertEx
import GrmVerif.Lemmas.KeptCols
import GrmVerif.Lemmas.CpctRun
import GrmVerif.Lemmas.CpctEx
/-!
# C05 — every reported repair sequence repairs; parsing continues as if it were applied

Specification: `Rec.applySeq`, `Rec.validSeq`, `Rec.editSeq` (`Model/Recover.lean`) and, for a whole
run, `C05.editedItems`/`C05.editedToks` (`Lemmas/RecEdited.lean`): the input with the FIRST repair
sequence of every reported error applied. The driver evaluates `validSeq` on every repair sequence
the real recoverer reports, and compares the returned tree with the plain parse (`LR.parse`, the
model proved sound and complete under C01) of `editedItems` of the reported errors.

One sequence at one error: applying a sequence is feeding the tokens of the edited input
(`applySeq_is_edited_input`), feeding a token to the stack automaton is what the full LR driver does
(`feed_is_lr_steps`), and a valid sequence leaves the parser where a plain parse runs `N` lexemes or
accepts (`validSeq_runs`), which is exactly the premise `RecovererOK` of C07.

Whole input, any number of errors, about the recovering driver `Rec.recRun` with any recoverer that
continues as if the first sequence it reports had been applied (`FirstApplies`), in three tiers:

1. `recRun_is_edited_run_keeping_reductions` — unconditional: the run is the run over the edited
   input in which each refused lexeme is first offered to the table, the reductions made under it
   being kept (tables with or without conflicts).
2. **THE STRONGEST STATEMENTS — no undecidable hypothesis about the table:**
   `recRun_is_plain_parse_of_edited_input_certified`,
   `reported_errors_are_plain_errors_of_edited_input_certified`,
   `unrepaired_error_is_first_error_of_edited_input_certified`,
   `returned_tree_spells_edited_input_certified`: for EVERY table that passes the decidable
   certificates the driver evaluates on every dumped automaton (`wholeRunCert` = `Cert.check`,
   `Cert.checkLA`, `Cert.vpClosed`, `colsOk`) and every recoverer whose first sequence
   applies (`FirstApplies`) and repairs (`FirstValid`: `validSeq … N`, `N ≥ 1` — what the driver
   validates per reported sequence), the recovering run IS the plain parse of the edited input.
   They are instances of the theorems with the plain names
   (`recRun_is_plain_parse_of_edited_input`, …), which assume `KeptShiftInvisible G A` (whatever the
   stack with the kept reductions shifts or accepts, the stack without them shifts to the same stack
   or accepts), through `certified_table_keeps_shifts_invisible`
   (`kept_reductions_invisible_to_shifted_tokens` with the certificates spelled out): every certified
   conflict-free table — merged (Pager, LALR-like, detecting errors late) or canonical — satisfies it.
3. `…_of_keptInvisible` — the earlier form, under `KeptInvisible G A` (additionally: what the reduced
   stack refuses the unreduced one refuses). It needs neither `FirstValid` nor the certificates, but
   `KeptInvisible` is FALSE of merged tables that detect errors late (`ex2_not_keptInvisible`: the
   LALR table of a 7-production grammar), so it covers canonical-like tables only.

The plain parse of the edited input is stated without the model's fuel constant: the unreduced stack
has to redo the kept reductions before it shifts, so at the constant `FUEL` of `feed` it can run out
where the recovering run did not. `FeedsTo`/`AcceptsAt`/`RefusesAt` (`Lemmas/KeptShift.lean`) say "for
some fuel" (an answer other than out-of-fuel is the answer for every larger fuel, `C07.feed_ge`), and
`PlainIs G A b toks r` says: `plainFromF … ff … = r` for every large enough `ff`, and
`plainFrom … = r` at `FUEL` unless `plainFrom … = other` (out of fuel) there.
-/
namespace GrmVerif.C05
open GrmVerif Rec LR Cert Term

/-- **Applying a repair sequence = parsing the edited input.** If the sequence applies from
`c`, the resulting configuration is the one reached by feeding, in order, the tokens of the edited
input it denotes (deleted lexemes dropped, inserted tokens added, shifted lexemes kept), and the
input position is the one after the last lexeme it consumed. -/
theorem applySeq_is_edited_input (G : Grammar) (A : Automaton) (w : List Nat) :
    ∀ (rs : List Repair) (c c' : Pos), applySeq G A w c rs = some c' →
      feedToks G A c.stack ((editSeq c.pos rs).1.map (itemTok w)) = some c'.stack ∧
      c'.pos = (editSeq c.pos rs).2 :=
  applySeq_feedToks G A w

/-- `continueFrom` counts the lexemes a plain parse shifts: if it reports `n` shifts or acceptance,
the plain parse `Runs` that far -/
theorem continueFrom_runs (G : Grammar) (A : Automaton) (w : List Nat) (N : Nat) :
    ∀ (fuel : Nat) (c : Pos) (m n : Nat) (acc : Bool) (p : Nat),
      continueFrom G A w fuel c m = (n, acc, p) → (acc = true ∨ m + N ≤ n) → C07.Runs G A w N c := by
  intro fuel
  induction fuel generalizing N with
  | zero =>
    intro c m n acc p h hv
    simp only [continueFrom, Prod.mk.injEq] at h
    obtain ⟨rfl, rfl, _⟩ := h
    rcases hv with hv | hv
    · cases hv
    · have : N = 0 := by omega
      subst this; exact .zero c
  | succ f ih =>
    intro c m n acc p h hv
    simp only [continueFrom] at h
    cases hf : feed G A (nextTok G w c.pos) FUEL c.stack with
    | shifted s =>
      rw [hf] at h
      simp only at h
      cases N with
      | zero => exact .zero c
      | succ N' =>
        refine .shift c N' s hf (ih N' _ (m + 1) n acc p h ?_)
        rcases hv with hv | hv
        · exact Or.inl hv
        · exact Or.inr (by omega)
    | accept s => exact .acc c N s hf
    | error s =>
      rw [hf] at h
      simp only [Prod.mk.injEq] at h
      obtain ⟨rfl, rfl, _⟩ := h
      rcases hv with hv | hv
      · cases hv
      · have : N = 0 := by omega
        subst this; exact .zero c
    | crash =>
      rw [hf] at h
      simp only [Prod.mk.injEq] at h
      obtain ⟨rfl, rfl, _⟩ := h
      rcases hv with hv | hv
      · cases hv
      · have : N = 0 := by omega
        subst this; exact .zero c
    | fuelOut =>
      rw [hf] at h
      simp only [Prod.mk.injEq] at h
      obtain ⟨rfl, rfl, _⟩ := h
      rcases hv with hv | hv
      · cases hv
      · have : N = 0 := by omega
        subst this; exact .zero c

/-- **A valid sequence repairs**: it applies with plain LR semantics, never moves the input
position backwards, and leaves the parser in a configuration from which a plain parse continues
without error over at least `N` further lexemes or to acceptance — the premise of C07's
`RecovererOK` for a recoverer that applies it. -/
theorem validSeq_runs (G : Grammar) (A : Automaton) (w : List Nat) (N : Nat) (c : Pos) (rs : List Repair)
    (h : validSeq G A w N c rs = true) :
    ∃ c', applySeq G A w c rs = some c' ∧ c.pos ≤ c'.pos ∧ C07.Runs G A w N c' := by
  unfold validSeq at h
  cases ha : applySeq G A w c rs with
  | none => rw [ha] at h; cases h
  | some c' =>
    rw [ha] at h
    simp only at h
    refine ⟨c', rfl, ?_, ?_⟩
    · -- positions only move forwards
      have : ∀ (rs : List Repair) (c c' : Pos), applySeq G A w c rs = some c' → c.pos ≤ c'.pos := by
        intro rs
        induction rs with
        | nil => intro c c' h; simp [applySeq] at h; subst h; exact Nat.le_refl _
        | cons r rs ih =>
          intro c c' h
          simp only [applySeq] at h
          cases hr : applyRepair G A w c r with
          | none => rw [hr] at h; cases h
          | some c1 =>
            rw [hr] at h
            have h1 := ih c1 c' h
            have h0 : c.pos ≤ c1.pos := by
              cases r with
              | insert t =>
                simp only [applyRepair] at hr
                cases hf : feed G A t FUEL c.stack <;> rw [hf] at hr <;> first | (injection hr with hr; subst hr; exact Nat.le_refl _) | cases hr
              | delete =>
                simp only [applyRepair] at hr
                split at hr
                · injection hr with hr; subst hr; exact Nat.le_succ _
                · cases hr
              | shift =>
                simp only [applyRepair] at hr
                cases hw : w[c.pos]? with
                | none => rw [hw] at hr; cases hr
                | some t =>
                  rw [hw] at hr
                  simp only at hr
                  cases hf : feed G A t FUEL c.stack <;> rw [hf] at hr <;> first | (injection hr with hr; subst hr; exact Nat.le_succ _) | cases hr
            omega
      exact this rs c c' ha
    · cases hcf : continueFrom G A w (w.length + 2) c' 0 with
      | mk n rest =>
        obtain ⟨acc, p⟩ := rest
        rw [hcf] at h
        simp only [Bool.or_eq_true, decide_eq_true_eq] at h
        refine continueFrom_runs G A w N _ c' 0 n acc p hcf ?_
        rcases h with h | h
        · exact Or.inl h
        · exact Or.inr (by omega)

/-- **Feeding a token is what the LR driver does.** If the stack automaton shifts lookahead `la`
from `stack` (after the reductions the table prescribes), then the full driver — with trees —
started in any configuration with that state stack and lookahead reaches, in some number of steps,
the configuration with the shifted stack, the lexeme pushed as a leaf, and the next position. -/
theorem feed_is_lr_steps (G : Grammar) (A : Automaton) (w : List Nat) :
    ∀ (fuel : Nat) (stack s' : List Nat) (astack : List Tree) (laidx : Nat),
      feed G A (nextTok G w laidx) fuel stack = .shifted s' →
      ∃ astack', Steps G A w ⟨stack, astack, laidx⟩ ⟨s', .leaf (nextTok G w laidx) laidx :: astack', laidx + 1⟩ :=
  feed_shifted_steps G A w

/-! ## The whole input, any number of errors

`recover` is any recoverer; `FirstApplies` says it continues as if the first sequence it reports had
been applied (for the real recoverer this is what the driver checks per error: `validSeq` holds of
every reported sequence at the configuration of the error, and the parser goes on from the
configuration `applySeq` gives for the first one). `eofOk G A` is the decidable check that the table
never shifts the end-of-input token and accepts only under it (true of every table
`StateTable::new` builds; evaluated by the driver on every dumped table); `G.eof ∉ w` says the lexer
never hands the parser the end-of-input token as a lexeme. Both are needed only so that "accepts"
means "accepts at the end of the edited input". -/

/-- **The recovering run is the run over the edited input, each refused lexeme being offered to the
table first.** For every recoverer with `FirstApplies`, every fuel, every start configuration `c`
within the input and every result `(v, errs')` of `recRun`: the run appended errors `new` at
increasing positions (`Ordered`), and
* if a value was produced, the stack automaton started from `c.stack` runs through
  `editedSteps … new` — the real lexemes between the errors, and at each error first the refused
  lexeme (`EStep.offer`: the table refuses it after the reductions it prescribes under it, and those
  reductions are KEPT) and then the tokens of the error's first sequence — and then accepts under the
  end-of-input token;
* for every reported error `e`, the same run over the edits of the EARLIER errors `pre` reaches `e`'s
  position and the lexeme there is refused.
No hypothesis about the table beyond the end-of-input discipline: this is the exact semantics of the
driver, on every table (with or without conflicts). -/
theorem recRun_is_edited_run_keeping_reductions (G : Grammar) (A : Automaton) (w : List Nat)
    (recover : Pos → Option (Pos × List (List Repair)))
    (hfirst : FirstApplies G A w recover) (heof : eofOk G A = true) (hw : G.eof ∉ w)
    (fuel : Nat) (c : Pos) (errs : List Err) (v : Bool) (errs' : List Err) (hc : c.pos ≤ w.length)
    (h : recRun G A w recover fuel c errs = (v, errs')) :
    ∃ new, errs' = errs ++ new ∧ Ordered w.length c.pos new ∧
      (v = true → ∃ st x, runSteps G A c.stack (editedSteps G w w.length c.pos new) = some st ∧
        feed G A G.eof FUEL st = .accept x) ∧
      (∀ pre e post, new = pre ++ e :: post →
        ∃ s, runSteps G A c.stack (editedSteps G w e.pos c.pos pre ++ [.offer (nextTok G w e.pos)]) = some s) :=
  recRun_own G A w recover hfirst (eofOk_spec heof).1 (eofOk_spec heof).2 hw fuel c errs v errs' hc h


/-! ### from acceptance by the stack automaton to the tree -/

/-- **Acceptance by the plain stack automaton is acceptance by the LR driver with trees, and the tree
spells the tokens.** On a table that passes `Cert.check`, if the stack automaton started on
`[A.start]` shifts every token of `toks` (`FeedsTo`, any fuel) and then accepts under end-of-input,
and `toks` consists of tokens of the grammar other than end-of-input, then `LR.parse` (the model of
`Parser::lr` of C01) accepts `toks` and returns a valid tree rooted at the start rule whose yield is
`toks` and whose `k`-th leaf carries lexeme index `k`. -/
theorem plain_acceptance_is_a_tree (G : Grammar) (A : Automaton) (hcert : check G A = true)
    (toks : List Nat) (hin : InputOk G toks) (st : List Nat)
    (hf : FeedsTo G A [A.start] toks st) (hacc : AcceptsAt G A G.eof st) :
    ∃ fuel' t, LR.parse G A toks fuel' = .accept t ∧
      Tree.valid G t = true ∧ (∃ S, G.rhs G.startProd = [.rule S] ∧ Tree.root G t = .rule S) ∧
      Tree.yield t = toks ∧ Tree.leafIdxs t = List.range toks.length := by
  obtain ⟨fa, x, hx⟩ := hacc
  -- the tokens are shifted by the driver with trees …
  obtain ⟨a1, hs1⟩ := feedsTo_steps G A toks toks 0 [A.start] st [] (Nat.zero_le _) (by simp) hf
  -- … and at the end of the input it reduces and stops
  have hend : nextTok G toks toks.length = G.eof := by simp [nextTok]
  rw [← hend] at hx
  obtain ⟨a2, hs2, st0, tl, hx0, hact⟩ := feed_accept_steps G A toks fa st x a1 toks.length hx
  have hsteps := hs1.trans hs2
  have hdone : ∃ o, step G A toks ⟨x, a2, toks.length⟩ = .done o := by
    subst hx0
    simp only [step, hact]
    cases a2.getLast? with
    | none => exact ⟨_, rfl⟩
    | some tr => cases tr <;> exact ⟨_, rfl⟩
  obtain ⟨o, hdo⟩ := hdone
  obtain ⟨fuel', hrun⟩ := run_of_steps hsteps hdo
  have hparse : parse G A toks fuel' = o := hrun
  -- the outcome is an accept: a certified table never crashes
  have hacc : ∃ t, o = .accept t := by
    subst hx0
    simp only [step, hact] at hdo
    cases hl : a2.getLast? with
    | none =>
      rw [hl] at hdo; simp only [Step.done.injEq] at hdo
      exact absurd (hdo ▸ hparse) (C01.lr_no_crash G A hcert toks hin fuel' 3)
    | some tr =>
      rw [hl] at hdo
      cases tr with
      | leaf a b =>
        simp only [Step.done.injEq] at hdo
        exact absurd (hdo ▸ hparse) (C01.lr_no_crash G A hcert toks hin fuel' 3)
      | node p kids =>
        simp only [Step.done.injEq] at hdo
        exact ⟨_, hdo.symm⟩
  obtain ⟨t, ht⟩ := hacc
  subst ht
  have hidx := accept_leafIdxs (check_props G A hcert) hin hsteps t hdo
  obtain ⟨hv, hr, hy⟩ := C01.lr_sound G A hcert toks hin fuel' t hparse
  exact ⟨fuel', t, hparse, hv, hr, hy, hidx⟩

/-! ### certified tables: kept reductions are invisible to what is shifted or accepted -/

/-- **On every certified conflict-free table the reductions kept under refused lexemes cannot be
observed by a token that is shifted or accepted afterwards** (`KeptShiftInvisible`). Hypotheses, all
decidable and evaluated by the driver on every dumped automaton: `Cert.check` (K1–K6), `Cert.checkLA`
(L1–L4, w.r.t. the reference nullable/FIRST sets, exact by C17), `Cert.vpClosed` (closed sets hold
only closure items of their kernels), `colsOk` (no action cell beyond the grammar's tokens).
Conclusion: let `b` be a stack that is a path of the automaton and `a` the stack left after offering
any number of refused lexemes to it (`Kept a b`: the table made the reductions it prescribes under
each and then refused it). For every token `t`: if `a` shifts `t` (at `FUEL`) to the stack `x`, then
`b` shifts `t` to the same `x` (for some fuel, hence every larger one); if `a` accepts under `t`, so
does `b`. Reason: a lookahead the reduced stack goes on with is LR(1)-valid for each kept reduction
(`validNext_of_feed`, `validNext_pull`), the certified lookahead sets contain every valid lookahead
(`lv_lower`), and L4 makes the cell of a complete item with that lookahead that very reduction
(`feed_reduce_same`); merged tables included — only lower bounds on lookahead sets are used. -/
theorem kept_reductions_invisible_to_shifted_tokens (G : Grammar) (A : Automaton)
    (hc : check G A = true) (An : Ref.Analyses) (hAn : Ref.analyses G = some An)
    (hla : checkLA G A (An.nullable.contains ·) (An.first.contains ·) = true)
    (hvp : vpClosed G A = true) (hcols : colsOk G A = true) : KeptShiftInvisible G A := by
  have P := check_props G A hc
  obtain ⟨hn, hf, _⟩ := C17.analyses_exact G P.wf An hAn
  refine keptShiftInvisible_of_cert hc hla ?_ ?_ hvp hcols
  · intro r; simpa using hn r
  · intro r t; simpa using hf r t

/-- **The certificates as one decidable predicate.** `wholeRunCert G A = true` — the conjunction of
`Cert.check`, `Cert.vpClosed`, `colsOk` and `Cert.checkLA` w.r.t. `Ref.analyses G` — gives everything
the whole-run theorems need of the table: the certificate, the column bound, and
`KeptShiftInvisible`. -/
theorem certified_table_keeps_shifts_invisible (G : Grammar) (A : Automaton)
    (h : wholeRunCert G A = true) :
    check G A = true ∧ colsOk G A = true ∧ KeptShiftInvisible G A := by
  obtain ⟨hc, hvp, hcols, An, hAn, hla⟩ := wholeRunCert_unpack h
  exact ⟨hc, hcols, kept_reductions_invisible_to_shifted_tokens G A hc An hAn hla hvp hcols⟩

/-- **A certified table keeps the end-of-input discipline**: `Cert.check` and `colsOk` imply the
decidable `eofOk` conditions (end-of-input is never shifted, Accept is entered only under it), so
`eofOk` is not asked for separately below. -/
theorem certified_table_keeps_eof_discipline (G : Grammar) (A : Automaton)
    (hcert : check G A = true) (hcols : colsOk G A = true) :
    RankImpl.EofNeverShifted G A ∧ AcceptOnlyAtEof G A :=
  eof_discipline_of_cert (check_props G A hcert) hcols

/-- **`colsOk` holds of every automaton dump the driver reads**: the wire format carries exactly
`ntoks` action cells per state, so for dumped automata `colsOk` is not an assumption. -/
theorem dumped_automaton_has_colsOk (G : Grammar) (l : List Nat) (A : Automaton) (r : List Nat)
    (h : parseAutomaton G l = some (A, r)) : colsOk G A = true :=
  parseAutomaton_colsOk G l A r h

/-- the earlier hypothesis implies the new one: `KeptInvisible`'s first two clauses at `FUEL` are
`KeptShiftInvisible`'s for that fuel -/
theorem keptInvisible_implies_keptShiftInvisible (G : Grammar) (A : Automaton) (hk : KeptInvisible G A) :
    KeptShiftInvisible G A := by
  intro a b hab _ t
  obtain ⟨h1, h2, _⟩ := hk a b hab t
  exact ⟨fun x hx => ⟨FUEL, h1 x hx⟩, fun x hx => by obtain ⟨y, hy⟩ := h2 x hx; exact ⟨FUEL, y, hy⟩⟩

/-! ### the whole run under `KeptShiftInvisible` and `FirstValid`

Hypotheses common to the four theorems: the table passes `Cert.check` and `colsOk` (so that stacks
stay paths of the automaton, and the end-of-input discipline holds); `KeptShiftInvisible G A`; the recoverer continues from where
its first sequence leads (`FirstApplies`) and that sequence repairs (`FirstValid … N` with `N ≥ 1`);
the input does not contain the end-of-input token; the run starts within the input on a stack that is
a path of the automaton (`IsPath`; `[A.start]` is one). `FirstValid` replaces the third clause of
`KeptInvisible`: after a valid sequence the plain parse shifts a lexeme or accepts, so a refused
lexeme is only ever met on a stack without kept reductions. -/

/-- **A value means the plain parse of the edited input accepts.** Under the hypotheses above, for
every fuel, start configuration and result with a value: the plain stack automaton started from
`c.stack` shifts every token of `editedToks` (first sequence of every reported error applied) and
then accepts under end-of-input; as a function: `plainFromF … = accepted` for every large enough
fuel of `feed`, and `plainFrom … = accepted` at the model's `FUEL` unless it runs out of fuel there
(`PlainIs`). -/
theorem recRun_is_plain_parse_of_edited_input (G : Grammar) (A : Automaton) (w : List Nat)
    (recover : Pos → Option (Pos × List (List Repair)))
    (hcert : check G A = true) (hcols : colsOk G A = true) (hk : KeptShiftInvisible G A)
    (hfirst : FirstApplies G A w recover) (N : Nat) (hN : 1 ≤ N) (hvalid : FirstValid G A w N recover)
    (hw : G.eof ∉ w)
    (fuel : Nat) (c : Pos) (errs errs' : List Err) (hc : c.pos ≤ w.length) (hp : IsPath A c.stack)
    (h : recRun G A w recover fuel c errs = (true, errs')) :
    ∃ new, errs' = errs ++ new ∧
      (∃ st, FeedsTo G A c.stack (editedToks w w.length c.pos new) st ∧ AcceptsAt G A G.eof st) ∧
      PlainIs G A c.stack (editedToks w w.length c.pos new) .accepted := by
  obtain ⟨hsh, hacc⟩ := certified_table_keeps_eof_discipline G A hcert hcols
  obtain ⟨new, h1, _, h3, _⟩ := recRun_plainK G A w recover (check_props G A hcert) hcols hfirst hN hvalid
    hsh hacc hw hk fuel c errs true errs' c.stack hc (.refl _) hp (Or.inl rfl) h
  obtain ⟨st, hf, hx⟩ := h3 rfl
  exact ⟨new, h1, ⟨st, hf, hx⟩, plainIs_of_large (plainFromF_accepted _ _ st 0 hf hx)⟩

/-- **Later errors are exactly those of parsing the input with the first sequence of each earlier
error applied.** Same hypotheses, any result (value or not). For every reported error `e`, with `pre`
the errors reported before it: `e` lies within the input at or after the start; the input edited by
`pre` is the edited input up to `e`'s position followed by the untouched real lexemes from `e.pos` on;
and the plain parse of that edited input shifts everything before that point and REFUSES the token
there (the real lexeme `e.pos`, or the end of input if `e.pos = |w|`): its first error is exactly at
the reported position (`PlainIs … (refusedAt …)`). -/
theorem reported_errors_are_plain_errors_of_edited_input (G : Grammar) (A : Automaton) (w : List Nat)
    (recover : Pos → Option (Pos × List (List Repair)))
    (hcert : check G A = true) (hcols : colsOk G A = true) (hk : KeptShiftInvisible G A)
    (hfirst : FirstApplies G A w recover) (N : Nat) (hN : 1 ≤ N) (hvalid : FirstValid G A w N recover)
    (hw : G.eof ∉ w)
    (fuel : Nat) (c : Pos) (errs : List Err) (v : Bool) (errs' : List Err) (hc : c.pos ≤ w.length)
    (hp : IsPath A c.stack) (h : recRun G A w recover fuel c errs = (v, errs')) :
    ∃ new, errs' = errs ++ new ∧ Ordered w.length c.pos new ∧ ∀ pre e post, new = pre ++ e :: post →
      c.pos ≤ e.pos ∧ e.pos ≤ w.length ∧
      editedItems w.length c.pos pre = editedItems e.pos c.pos pre ++ reals e.pos w.length ∧
      (∃ st, FeedsTo G A c.stack (editedToks w e.pos c.pos pre) st ∧
        RefusesAt G A (nextTok G w e.pos) st) ∧
      PlainIs G A c.stack (editedToks w w.length c.pos pre)
        (.refusedAt (editedToks w e.pos c.pos pre).length) := by
  obtain ⟨hsh, hacc⟩ := certified_table_keeps_eof_discipline G A hcert hcols
  obtain ⟨new, h1, h2, _, h4⟩ := recRun_plainK G A w recover (check_props G A hcert) hcols hfirst hN hvalid
    hsh hacc hw hk fuel c errs v errs' c.stack hc (.refl _) hp (Or.inl rfl) h
  refine ⟨new, h1, h2, ?_⟩
  intro pre e post hs
  subst hs
  obtain ⟨ho, hle⟩ := ordered_split h2
  obtain ⟨st, hf, hy⟩ := h4 pre e post rfl
  have hsplit := editedItems_split hle ho
  refine ⟨ordered_le ho, hle, hsplit, ⟨st, hf, hy⟩, plainIs_of_large ?_⟩
  have := plainFromF_refused (G := G) (A := A) w _ c.stack st e.pos 0 hf hy
  simp only [editedToks, hsplit, List.map_append] at this ⊢
  simpa using this

/-- **A run that gives up stops where the plain parse of the edited input has its first error.** Same
hypotheses. If the last reported error `e` has no repair sequence (the run ended without a value
there), the edited input is the input edited by the earlier errors `pre` only, and its plain parse
shifts every token before `e`'s position and refuses the one there. -/
theorem unrepaired_error_is_first_error_of_edited_input (G : Grammar) (A : Automaton) (w : List Nat)
    (recover : Pos → Option (Pos × List (List Repair)))
    (hcert : check G A = true) (hcols : colsOk G A = true) (hk : KeptShiftInvisible G A)
    (hfirst : FirstApplies G A w recover) (N : Nat) (hN : 1 ≤ N) (hvalid : FirstValid G A w N recover)
    (hw : G.eof ∉ w)
    (fuel : Nat) (c : Pos) (errs : List Err) (v : Bool) (errs' : List Err) (hc : c.pos ≤ w.length)
    (hp : IsPath A c.stack) (h : recRun G A w recover fuel c errs = (v, errs')) :
    ∃ new, errs' = errs ++ new ∧ ∀ pre e, new = pre ++ [e] → e.repairs = [] →
      editedItems w.length c.pos new = editedItems w.length c.pos pre ∧
      PlainIs G A c.stack (editedToks w w.length c.pos new)
        (.refusedAt (editedToks w e.pos c.pos pre).length) := by
  obtain ⟨new, h1, h2, h3⟩ := reported_errors_are_plain_errors_of_edited_input G A w recover hcert hcols hk
    hfirst N hN hvalid hw fuel c errs v errs' hc hp h
  refine ⟨new, h1, ?_⟩
  intro pre e hs he
  subst hs
  have hun := editedItems_unrepaired he h2
  refine ⟨hun, ?_⟩
  obtain ⟨_, _, _, _, hpl⟩ := h3 pre e [] rfl
  simp only [editedToks, hun] at hpl ⊢
  exact hpl

/-- **A returned tree's leaves spell the repaired input.** Same hypotheses, for a run from the start
configuration that produced a value, when the edited input consists of real tokens (`InputOk`:
inserted tokens are tokens of the grammar other than end-of-input — the recoverer never inserts that
one). Then the plain LR driver WITH TREES (`LR.parse`, the model of `Parser::lr` of C01) accepts the
edited token list, and the tree it returns is a valid derivation from the start rule whose leaves,
left to right, are exactly the edited token list — the real lexemes kept, the inserted tokens where
`editedItems` places them (before the next real lexeme), the deleted lexemes gone. The `k`-th leaf
carries the lexeme index `k`: it stands for the `k`-th item of `editedItems`, i.e. a real lexeme
`EItem.real i` or a token inserted before real lexeme `b`, `EItem.ins t b` (which the real parser shows
as a zero-length faulty lexeme at `b`'s start). -/
theorem returned_tree_spells_edited_input (G : Grammar) (A : Automaton) (w : List Nat)
    (recover : Pos → Option (Pos × List (List Repair)))
    (hcert : check G A = true) (hcols : colsOk G A = true) (hk : KeptShiftInvisible G A)
    (hfirst : FirstApplies G A w recover) (N : Nat) (hN : 1 ≤ N) (hvalid : FirstValid G A w N recover)
    (hw : G.eof ∉ w)
    (fuel : Nat) (errs : List Err)
    (h : recRun G A w recover fuel ⟨[A.start], 0⟩ [] = (true, errs))
    (hin : InputOk G (editedToks w w.length 0 errs)) :
    ∃ fuel' t, LR.parse G A (editedToks w w.length 0 errs) fuel' = .accept t ∧
      Tree.valid G t = true ∧ (∃ S, G.rhs G.startProd = [.rule S] ∧ Tree.root G t = .rule S) ∧
      Tree.yield t = editedToks w w.length 0 errs ∧
      Tree.leafIdxs t = List.range (editedItems w.length 0 errs).length := by
  obtain ⟨new, h1, ⟨st, hf, hx⟩, _⟩ := recRun_is_plain_parse_of_edited_input G A w recover hcert hcols hk
    hfirst N hN hvalid hw fuel ⟨[A.start], 0⟩ [] errs (Nat.zero_le _) (IsPath.start A) h
  simp only [List.nil_append] at h1
  subst h1
  simp only at hf
  obtain ⟨fuel', t, hparse, hv, hr, hy, hidx⟩ := plain_acceptance_is_a_tree G A hcert _ hin st hf hx
  refine ⟨fuel', t, hparse, hv, hr, hy, ?_⟩
  rw [hidx]; simp [editedToks]

/-! ### the same for certified tables: no undecidable hypothesis about the table is left -/

/-- **On every certified table, a value means the plain parse of the edited input accepts.**
`recRun_is_plain_parse_of_edited_input` with `wholeRunCert G A = true` (all decidable: `Cert.check`,
`Cert.checkLA`, `Cert.vpClosed`, `colsOk`; evaluated by the driver on every dumped automaton)
in place of `KeptShiftInvisible`; remaining hypotheses: `FirstApplies` and `FirstValid` of the
recoverer, an input without the end-of-input token, a start on a path stack within the input. -/
theorem recRun_is_plain_parse_of_edited_input_certified (G : Grammar) (A : Automaton) (w : List Nat)
    (recover : Pos → Option (Pos × List (List Repair)))
    (hcert : wholeRunCert G A = true)
    (hfirst : FirstApplies G A w recover) (N : Nat) (hN : 1 ≤ N) (hvalid : FirstValid G A w N recover)
    (hw : G.eof ∉ w)
    (fuel : Nat) (c : Pos) (errs errs' : List Err) (hc : c.pos ≤ w.length) (hp : IsPath A c.stack)
    (h : recRun G A w recover fuel c errs = (true, errs')) :
    ∃ new, errs' = errs ++ new ∧
      (∃ st, FeedsTo G A c.stack (editedToks w w.length c.pos new) st ∧ AcceptsAt G A G.eof st) ∧
      PlainIs G A c.stack (editedToks w w.length c.pos new) .accepted := by
  obtain ⟨h1, h2, h4⟩ := certified_table_keeps_shifts_invisible G A hcert
  exact recRun_is_plain_parse_of_edited_input G A w recover h1 h2 h4 hfirst N hN hvalid hw fuel c errs errs' hc hp h

/-- **On every certified table, later errors are exactly those of parsing the input with the first
sequence of each earlier error applied.** `reported_errors_are_plain_errors_of_edited_input` with
`wholeRunCert G A = true` in place of `KeptShiftInvisible`. -/
theorem reported_errors_are_plain_errors_of_edited_input_certified (G : Grammar) (A : Automaton) (w : List Nat)
    (recover : Pos → Option (Pos × List (List Repair)))
    (hcert : wholeRunCert G A = true)
    (hfirst : FirstApplies G A w recover) (N : Nat) (hN : 1 ≤ N) (hvalid : FirstValid G A w N recover)
    (hw : G.eof ∉ w)
    (fuel : Nat) (c : Pos) (errs : List Err) (v : Bool) (errs' : List Err) (hc : c.pos ≤ w.length)
    (hp : IsPath A c.stack) (h : recRun G A w recover fuel c errs = (v, errs')) :
    ∃ new, errs' = errs ++ new ∧ Ordered w.length c.pos new ∧ ∀ pre e post, new = pre ++ e :: post →
      c.pos ≤ e.pos ∧ e.pos ≤ w.length ∧
      editedItems w.length c.pos pre = editedItems e.pos c.pos pre ++ reals e.pos w.length ∧
      (∃ st, FeedsTo G A c.stack (editedToks w e.pos c.pos pre) st ∧
        RefusesAt G A (nextTok G w e.pos) st) ∧
      PlainIs G A c.stack (editedToks w w.length c.pos pre)
        (.refusedAt (editedToks w e.pos c.pos pre).length) := by
  obtain ⟨h1, h2, h4⟩ := certified_table_keeps_shifts_invisible G A hcert
  exact reported_errors_are_plain_errors_of_edited_input G A w recover h1 h2 h4 hfirst N hN hvalid hw fuel c errs v
    errs' hc hp h

/-- **On every certified table, a run that gives up stops where the plain parse of the edited input
has its first error.** `unrepaired_error_is_first_error_of_edited_input` with `wholeRunCert G A = true`
in place of `KeptShiftInvisible`. -/
theorem unrepaired_error_is_first_error_of_edited_input_certified (G : Grammar) (A : Automaton) (w : List Nat)
    (recover : Pos → Option (Pos × List (List Repair)))
    (hcert : wholeRunCert G A = true)
    (hfirst : FirstApplies G A w recover) (N : Nat) (hN : 1 ≤ N) (hvalid : FirstValid G A w N recover)
    (hw : G.eof ∉ w)
    (fuel : Nat) (c : Pos) (errs : List Err) (v : Bool) (errs' : List Err) (hc : c.pos ≤ w.length)
    (hp : IsPath A c.stack) (h : recRun G A w recover fuel c errs = (v, errs')) :
    ∃ new, errs' = errs ++ new ∧ ∀ pre e, new = pre ++ [e] → e.repairs = [] →
      editedItems w.length c.pos new = editedItems w.length c.pos pre ∧
      PlainIs G A c.stack (editedToks w w.length c.pos new)
        (.refusedAt (editedToks w e.pos c.pos pre).length) := by
  obtain ⟨h1, h2, h4⟩ := certified_table_keeps_shifts_invisible G A hcert
  exact unrepaired_error_is_first_error_of_edited_input G A w recover h1 h2 h4 hfirst N hN hvalid hw fuel c errs v
    errs' hc hp h

/-- **On every certified table, a returned tree's leaves spell the repaired input.**
`returned_tree_spells_edited_input` with `wholeRunCert G A = true` in place of `KeptShiftInvisible`:
the hypotheses are the decidable certificates of the table, `FirstApplies` and `FirstValid` of the
recoverer, an input without the end-of-input token and an edited input made of real tokens. -/
theorem returned_tree_spells_edited_input_certified (G : Grammar) (A : Automaton) (w : List Nat)
    (recover : Pos → Option (Pos × List (List Repair)))
    (hcert : wholeRunCert G A = true)
    (hfirst : FirstApplies G A w recover) (N : Nat) (hN : 1 ≤ N) (hvalid : FirstValid G A w N recover)
    (hw : G.eof ∉ w)
    (fuel : Nat) (errs : List Err)
    (h : recRun G A w recover fuel ⟨[A.start], 0⟩ [] = (true, errs))
    (hin : InputOk G (editedToks w w.length 0 errs)) :
    ∃ fuel' t, LR.parse G A (editedToks w w.length 0 errs) fuel' = .accept t ∧
      Tree.valid G t = true ∧ (∃ S, G.rhs G.startProd = [.rule S] ∧ Tree.root G t = .rule S) ∧
      Tree.yield t = editedToks w w.length 0 errs ∧
      Tree.leafIdxs t = List.range (editedItems w.length 0 errs).length := by
  obtain ⟨h1, h2, h4⟩ := certified_table_keeps_shifts_invisible G A hcert
  exact returned_tree_spells_edited_input G A w recover h1 h2 h4 hfirst N hN hvalid hw fuel errs h hin

/-! ### the earlier form, under `KeptInvisible` (tables that never shift what the reduced stack refuses)

Kept because it needs neither the certificates nor `FirstValid` and gives the conclusions at the
model's `FUEL` directly; `KeptInvisible` is not decidable and FALSE of merged tables that detect errors
late (`ex2_not_keptInvisible`). -/

/-- **A value means the plain parse of the edited input accepts** (second sentence of C05, value
part, on state stacks). Hypotheses: `FirstApplies`, the end-of-input discipline, and
`KeptInvisible G A` — the reductions made under a refused lexeme cannot be observed by any token fed
afterwards. The last one is forced: the recovering driver keeps those reductions, a plain parse of
the edited input never makes them. It holds trivially for tables that refuse a lexeme before
reducing under it (canonical LR(1)), and is what conflict-free merged tables are expected to satisfy
(the driver validates the conclusion case by case there); on tables with conflicts it can fail,
which is the known finding `C05-conflicting-grammar-keeps-reductions`.
Conclusion, for every fuel, start configuration and result with a value: feeding the edited token
list (`editedToks`: first sequence of every reported error applied) to the plain stack automaton
from `c.stack` shifts every token, and the end-of-input token is then accepted; as one function:
`plainFrom … = accepted`. -/
theorem recRun_is_plain_parse_of_edited_input_of_keptInvisible (G : Grammar) (A : Automaton) (w : List Nat)
    (recover : Pos → Option (Pos × List (List Repair)))
    (hfirst : FirstApplies G A w recover) (heof : eofOk G A = true) (hw : G.eof ∉ w)
    (hk : KeptInvisible G A)
    (fuel : Nat) (c : Pos) (errs errs' : List Err) (hc : c.pos ≤ w.length)
    (h : recRun G A w recover fuel c errs = (true, errs')) :
    ∃ new, errs' = errs ++ new ∧
      (∃ st x, feedToks G A c.stack (editedToks w w.length c.pos new) = some st ∧
        feed G A G.eof FUEL st = .accept x) ∧
      plainFrom G A c.stack (editedToks w w.length c.pos new) 0 = .accepted := by
  obtain ⟨new, h1, _, h3, _⟩ := recRun_plain G A w recover hfirst heof hw hk fuel c errs true errs' hc h
  obtain ⟨st, x, hf, hx⟩ := h3 rfl
  exact ⟨new, h1, ⟨st, x, hf, hx⟩, plainFrom_accepted G A _ _ st x 0 hf hx⟩

/-- **Later errors are exactly those of parsing the input with the first sequence of each earlier
error applied.** Same hypotheses as `recRun_is_plain_parse_of_edited_input_of_keptInvisible`, any result (value or
not). For every reported error `e`, with `pre` the errors reported before it: `e` lies within the
input at or after the start; the input edited by `pre` is the edited input up to `e`'s position
followed by the untouched real lexemes from `e.pos` on; and the plain parse of that edited input
shifts everything before that point and REFUSES the token there (the real lexeme `e.pos`, or the end
of input if `e.pos = |w|`): its first error is exactly at the reported position. -/
theorem reported_errors_are_plain_errors_of_edited_input_of_keptInvisible (G : Grammar) (A : Automaton) (w : List Nat)
    (recover : Pos → Option (Pos × List (List Repair)))
    (hfirst : FirstApplies G A w recover) (heof : eofOk G A = true) (hw : G.eof ∉ w)
    (hk : KeptInvisible G A)
    (fuel : Nat) (c : Pos) (errs : List Err) (v : Bool) (errs' : List Err) (hc : c.pos ≤ w.length)
    (h : recRun G A w recover fuel c errs = (v, errs')) :
    ∃ new, errs' = errs ++ new ∧ ∀ pre e post, new = pre ++ e :: post →
      c.pos ≤ e.pos ∧ e.pos ≤ w.length ∧
      editedItems w.length c.pos pre = editedItems e.pos c.pos pre ++ reals e.pos w.length ∧
      (∃ st y, feedToks G A c.stack (editedToks w e.pos c.pos pre) = some st ∧
        feed G A (nextTok G w e.pos) FUEL st = .error y) ∧
      plainFrom G A c.stack (editedToks w w.length c.pos pre) 0 =
        .refusedAt (editedToks w e.pos c.pos pre).length := by
  obtain ⟨new, h1, h2, _, h4⟩ := recRun_plain G A w recover hfirst heof hw hk fuel c errs v errs' hc h
  refine ⟨new, h1, ?_⟩
  intro pre e post hs
  subst hs
  obtain ⟨ho, hle⟩ := ordered_split h2
  obtain ⟨st, y, hf, hy⟩ := h4 pre e post rfl
  have hsplit := editedItems_split hle ho
  refine ⟨ordered_le ho, hle, hsplit, ⟨st, y, hf, hy⟩, ?_⟩
  have := plainFrom_refused G A w _ c.stack st y e.pos 0 hf hy
  simp only [editedToks, hsplit, List.map_append] at this ⊢
  simpa using this

/-- **A run that gives up stops where the plain parse of the edited input has its first error.** Same
hypotheses. If the last reported error `e` has no repair sequence (the run ended without a value
there), the edited input is the input edited by the earlier errors `pre` only, and its plain parse
shifts every token before `e`'s position and refuses the one there. -/
theorem unrepaired_error_is_first_error_of_edited_input_of_keptInvisible (G : Grammar) (A : Automaton) (w : List Nat)
    (recover : Pos → Option (Pos × List (List Repair)))
    (hfirst : FirstApplies G A w recover) (heof : eofOk G A = true) (hw : G.eof ∉ w)
    (hk : KeptInvisible G A)
    (fuel : Nat) (c : Pos) (errs : List Err) (v : Bool) (errs' : List Err) (hc : c.pos ≤ w.length)
    (h : recRun G A w recover fuel c errs = (v, errs')) :
    ∃ new, errs' = errs ++ new ∧ ∀ pre e, new = pre ++ [e] → e.repairs = [] →
      editedItems w.length c.pos new = editedItems w.length c.pos pre ∧
      plainFrom G A c.stack (editedToks w w.length c.pos new) 0 =
        .refusedAt (editedToks w e.pos c.pos pre).length := by
  obtain ⟨new, h1, h2, _, _⟩ := recRun_plain G A w recover hfirst heof hw hk fuel c errs v errs' hc h
  obtain ⟨new', h1', h3⟩ := reported_errors_are_plain_errors_of_edited_input_of_keptInvisible G A w recover hfirst heof hw hk
    fuel c errs v errs' hc h
  have hn : new' = new := List.append_cancel_left (h1'.symm.trans h1)
  subst hn
  refine ⟨new', h1, ?_⟩
  intro pre e hs he
  subst hs
  have hun := editedItems_unrepaired he h2
  refine ⟨hun, ?_⟩
  obtain ⟨_, _, _, _, hp⟩ := h3 pre e [] rfl
  simp only [editedToks, hun] at hp ⊢
  exact hp

/-- **A returned tree's leaves spell the repaired input.** Same hypotheses, on a table that passes
C01's validator `Cert.check`, for a run from the start configuration that produced a value, when the
edited input consists of real tokens (`InputOk`: inserted tokens are tokens of the grammar other than
end-of-input — the recoverer never inserts that one). Then the plain LR driver WITH TREES
(`LR.parse`, the model of `Parser::lr` of C01) accepts the edited token list, and the tree it returns
is a valid derivation from the start rule whose leaves, left to right, are exactly the edited token
list — the real lexemes kept, the inserted tokens where `editedItems` places them (before the next
real lexeme), the deleted lexemes gone. The `k`-th leaf carries the lexeme index `k`: it stands for
the `k`-th item of `editedItems`, i.e. a real lexeme `EItem.real i` or a token inserted before real
lexeme `b`, `EItem.ins t b` (which the real parser shows as a zero-length faulty lexeme at `b`'s start). -/
theorem returned_tree_spells_edited_input_of_keptInvisible (G : Grammar) (A : Automaton) (w : List Nat)
    (recover : Pos → Option (Pos × List (List Repair)))
    (hfirst : FirstApplies G A w recover) (heof : eofOk G A = true) (hw : G.eof ∉ w)
    (hk : KeptInvisible G A) (hcert : check G A = true)
    (fuel : Nat) (errs : List Err)
    (h : recRun G A w recover fuel ⟨[A.start], 0⟩ [] = (true, errs))
    (hin : InputOk G (editedToks w w.length 0 errs)) :
    ∃ fuel' t, LR.parse G A (editedToks w w.length 0 errs) fuel' = .accept t ∧
      Tree.valid G t = true ∧ (∃ S, G.rhs G.startProd = [.rule S] ∧ Tree.root G t = .rule S) ∧
      Tree.yield t = editedToks w w.length 0 errs ∧
      Tree.leafIdxs t = List.range (editedItems w.length 0 errs).length := by
  obtain ⟨new, h1, ⟨st, x, hf, hx⟩, _⟩ := recRun_is_plain_parse_of_edited_input_of_keptInvisible G A w recover hfirst heof hw hk
    fuel ⟨[A.start], 0⟩ [] errs (Nat.zero_le _) h
  simp only [List.nil_append] at h1
  subst h1
  simp only at hf
  generalize htoks : editedToks w w.length 0 errs = toks at *
  -- the tokens are shifted by the driver with trees …
  obtain ⟨a1, hs1⟩ := feedToks_steps G A toks toks 0 [A.start] st [] (Nat.zero_le _) (by simp) hf
  -- … and at the end of the input it reduces and stops
  have hend : nextTok G toks toks.length = G.eof := by simp [nextTok]
  rw [← hend] at hx
  obtain ⟨a2, hs2, st0, tl, hx0, hact⟩ := feed_accept_steps G A toks FUEL st x a1 toks.length hx
  have hsteps := hs1.trans hs2
  have hdone : ∃ o, step G A toks ⟨x, a2, toks.length⟩ = .done o := by
    subst hx0
    simp only [step, hact]
    cases a2.getLast? with
    | none => exact ⟨_, rfl⟩
    | some tr => cases tr <;> exact ⟨_, rfl⟩
  obtain ⟨o, hdo⟩ := hdone
  obtain ⟨fuel', hrun⟩ := run_of_steps hsteps hdo
  have hparse : parse G A toks fuel' = o := hrun
  -- the outcome is an accept: a certified table never crashes
  have hacc : ∃ t, o = .accept t := by
    subst hx0
    simp only [step, hact] at hdo
    cases hl : a2.getLast? with
    | none =>
      rw [hl] at hdo; simp only [Step.done.injEq] at hdo
      exact absurd (hdo ▸ hparse) (C01.lr_no_crash G A hcert toks hin fuel' 3)
    | some tr =>
      rw [hl] at hdo
      cases tr with
      | leaf a b =>
        simp only [Step.done.injEq] at hdo
        exact absurd (hdo ▸ hparse) (C01.lr_no_crash G A hcert toks hin fuel' 3)
      | node p kids =>
        simp only [Step.done.injEq] at hdo
        exact ⟨_, hdo.symm⟩
  obtain ⟨t, ht⟩ := hacc
  subst ht
  have hidx := accept_leafIdxs (check_props G A hcert) hin hsteps t hdo
  have hlen : toks.length = (editedItems w.length 0 errs).length := by
    rw [← htoks]; simp [editedToks]
  obtain ⟨hv, hr, hy⟩ := C01.lr_sound G A hcert toks hin fuel' t hparse
  exact ⟨fuel', t, hparse, hv, hr, hy, by rw [← hlen]; exact hidx⟩

/-! ## Tests: the hypotheses are jointly satisfiable on a run with two errors, one of which leaves a
kept reduction behind, and the conclusions compute (`Lemmas/RecEditedEx.lean`: grammar
`S: A 'b'; A: 'a'`, input `a a`) -/

/-- the table keeps the end-of-input discipline -/
example : eofOk exG exA = true := by decide
/-- the reduction `A → a` made under the refused end-of-input token is kept -/
example : feed exG exA 2 FUEL [1, 0] = .error [2, 0] := by rfl
/-- this table satisfies `KeptInvisible` although it does reduce under refused lexemes -/
example : KeptInvisible exG exA := ex_keptInvisible
/-- the recoverer continues as if its first sequence were applied -/
example : FirstApplies exG exA [0, 0] exRecover := exFirst_holds
/-- the run: two errors (the second `a`, then the end of input), each repaired by its first sequence -/
example : recRun exG exA [0, 0] exRecover 10 ⟨[0], 0⟩ [] =
    (true, [⟨1, [[.delete], [.insert 1, .delete]]⟩, ⟨2, [[.insert 1]]⟩]) := by rfl
/-- its edited input: `a`, then `b` inserted before (absent) lexeme 2; the second `a` is gone -/
example : editedItems 2 0 [⟨1, [[.delete], [.insert 1, .delete]]⟩, ⟨2, [[.insert 1]]⟩] = [.real 0, .ins 1 2] := by decide
example : editedToks [0, 0] 2 0 [⟨1, [[.delete], [.insert 1, .delete]]⟩, ⟨2, [[.insert 1]]⟩] = [0, 1] := by decide
/-- the conclusion of `recRun_is_plain_parse_of_edited_input`, obtained from the theorem … -/
example : plainFrom exG exA [0]
    (editedToks [0, 0] 2 0 [⟨1, [[.delete], [.insert 1, .delete]]⟩, ⟨2, [[.insert 1]]⟩]) 0 = .accepted := by
  obtain ⟨new, h1, _, h3⟩ := recRun_is_plain_parse_of_edited_input_of_keptInvisible exG exA [0, 0] exRecover exFirst_holds
    (by decide) (by decide) ex_keptInvisible 10 ⟨[0], 0⟩ [] _ (by decide) rfl
  simp only [List.nil_append] at h1
  subst h1
  exact h3
/-- … and by evaluation -/
example : plainFrom exG exA [0] [0, 1] 0 = .accepted := by decide
/-- the second error is where the plain parse of the input edited by the first error (`a`) fails: at
its end (token index 1) -/
example : plainFrom exG exA [0] (editedToks [0, 0] 2 0 [⟨1, [[.delete], [.insert 1, .delete]]⟩]) 0 = .refusedAt 1 := by decide
/-- a run that gives up: `b` alone is refused at once, the recoverer has nothing, and the plain parse
of the (unedited) input has its first error at token 0 -/
example : recRun exG exA [1] (fun _ => none) 10 ⟨[0], 0⟩ [] = (false, [⟨0, []⟩]) := by rfl
example : plainFrom exG exA [0] (editedToks [1] 1 0 [⟨0, []⟩]) 0 = .refusedAt 0 := by decide


/-! ## Tests: a certified MERGED table that detects an error late (`Lemmas/KeptCertEx.lean`: the LALR
automaton of `S: x A c | y A d | x B f | y B g; A: a; B: a e`, whose state after `a` is merged from
two contexts), input `x a d` -/

/-- the table passes every certificate of the certified theorems -/
example : wholeRunCert exG2 exA2 = true := ex2_cert
/-- late detection: `A → a` is reduced under `d` (valid after `y a` only), then `d` is refused -/
example : feed exG2 exA2 4 FUEL [6, 2, 0] = .error [4, 2, 0] := by rfl
/-- `KeptInvisible` is FALSE of this table (the unreduced stack shifts `e`, the reduced one refuses
it), so the `…_of_keptInvisible` theorems say nothing here … -/
example : ¬ KeptInvisible exG2 exA2 := ex2_not_keptInvisible
/-- … while `KeptShiftInvisible` holds, by the certificates -/
example : KeptShiftInvisible exG2 exA2 := (certified_table_keeps_shifts_invisible exG2 exA2 ex2_cert).2.2
example : FirstApplies exG2 exA2 [0, 2, 4] exRecover2 := ex2_first
example : FirstValid exG2 exA2 [0, 2, 4] 1 exRecover2 := ex2_valid
/-- the run: one error at `d`, repaired by `insert c, delete` applied to the REDUCED stack -/
example : recRun exG2 exA2 [0, 2, 4] exRecover2 10 ⟨[0], 0⟩ [] =
    (true, [⟨2, [[.insert 3, .delete], [.delete, .insert 3]]⟩]) := by rfl
example : editedToks [0, 2, 4] 3 0 [⟨2, [[.insert 3, .delete], [.delete, .insert 3]]⟩] = [0, 2, 3] := by decide
/-- the conclusion of `recRun_is_plain_parse_of_edited_input_certified`, obtained from the theorem
(the plain parse of `x a c` reduces `A → a` under `c`, from the UNREDUCED stack) … -/
example : plainFrom exG2 exA2 [0]
    (editedToks [0, 2, 4] 3 0 [⟨2, [[.insert 3, .delete], [.delete, .insert 3]]⟩]) 0 = .accepted := by
  obtain ⟨new, h1, _, h3⟩ := recRun_is_plain_parse_of_edited_input_certified exG2 exA2 [0, 2, 4] exRecover2 ex2_cert
    ex2_first 1 (Nat.le_refl _) ex2_valid (by decide) 10 ⟨[0], 0⟩ [] _ (by decide) (IsPath.start exA2) rfl
  simp only [List.nil_append] at h1
  subst h1
  exact h3.2 (by decide)
/-- … and by evaluation -/
example : plainFrom exG2 exA2 [0] [0, 2, 3] 0 = .accepted := by decide
/-- the reported error is where the plain parse of the unedited input fails (token 2, after the same
kept reduction) -/
example : plainFrom exG2 exA2 [0] [0, 2, 4] 0 = .refusedAt 2 := by decide


/-! ## Capstone: the modelled recoverer satisfies the hypotheses

Up to here the recoverer is a parameter with the hypotheses `FirstApplies` and `FirstValid`. The
recoverer that IS the model of CPCT+ — `Cpct.cpctRecover` (`Model/Cpct.lean`): `SearchImpl.recoverImpl`
(Dijkstra search with node merging, `collect_repairs`, `rank_cnds`, `simplify_repairs`,
`apply_repairs` of the first reported sequence, all proved in C06) seen through the interface of
`recRun` — satisfies them, so the whole-run theorems hold of the model of the WHOLE recovering parser
with hypotheses on the table and the costs only:

* `Cpct.TableOK E`: every token costs at least 1 (`parse_actions` asserts it), no state shifts the
  end-of-input token, `state_actions` of every state lists exactly the tokens whose action is not
  `Error` (`C16.state_actions_spec`; decidable: `stateActionsExactB`), `PARSE_AT_LEAST ≥ 1` (it is 3);
  in the capstones it is derived from `wholeRunCert` (`Cpct.tableOK_of_cert`) and `stateActionsExactB`;
* `HashSetLike hs` (the order in which the `HashSet` of `simplify_repairs` hands its elements back is a
  parameter; any order will do);
* they hold for EVERY window `win`, `%avoid_insert` set, lexeme offsets and search budget `sfuel` (a
  search that runs out of budget reports nothing, like the real one that runs out of time).

`FirstApplies`/`FirstValid` quantify over ALL configurations, while `Parser::lr` calls `recover` only
when the top state refuses the next lexeme, inside the input (`Cpct.errCfg`); they are stated for
`Cpct.cpctRecoverAt` (`cpctRecover` at such configurations, `none` elsewhere) and, pointwise, for
`cpctRecover` itself at such configurations. `cpct_restriction_invisible` shows the restriction cannot
be observed in a run, and the capstones are about `recRun` with the UNRESTRICTED `cpctRecover`. -/

section Capstone
open Cpct SearchImpl RankImpl

/-- **(a) The modelled recoverer continues from where its first reported sequence leads.** On a table
with `TableOK`, for every `HashSet` order, `%avoid_insert` set, lexeme offsets, window and search
budget: `FirstApplies` holds of `cpctRecoverAt`; and at every configuration at which `Parser::lr`
calls `recover` (`errCfg`), if `cpctRecover` reports `s0 :: rest` and continues from `c'`, then `c'` is
`applySeq` of `s0` — plain LR semantics — from the error configuration (`apply_repairs` agrees with
`applySeq` on sequences that apply, and `s0` does: it is a prefix of a `Search` sequence). -/
theorem cpct_first_applies (E : Env) (hT : TableOK E) (hs : List Seq → List Seq) (hhs : HashSetLike hs)
    (avoid : Nat → Bool) (lexStart : Nat → Nat) (win sfuel : Nat) :
    FirstApplies E.G E.A E.w (cpctRecoverAt E hs avoid lexStart win sfuel) ∧
    ∀ c c' s0 rest, errCfg E.G E.A E.w c = true →
      cpctRecover E hs avoid lexStart win sfuel c = some (c', s0 :: rest) →
      applySeq E.G E.A E.w c s0 = some c' := by
  refine ⟨cpctAt_firstApplies hT hhs, ?_⟩
  intro c c' s0 rest hc h
  rw [← cpctAt_of_errCfg hc] at h
  exact cpctAt_firstApplies hT hhs c c' s0 rest h

/-- **(b) Every sequence the modelled recoverer reports repairs.** Same hypotheses: `FirstValid … N`
with `N = E.N = PARSE_AT_LEAST` holds of `cpctRecoverAt`; and at every `errCfg` configuration EVERY
sequence `cpctRecover` reports — not only the first — satisfies `validSeq … PARSE_AT_LEAST`: it is a
minimum-cost `Search` sequence (`C06.search_sound`) with its trailing Shifts stripped (`rank_cnds` only
filters, `simplify_repairs` strips), the full sequence ends in `PARSE_AT_LEAST` Shifts or in acceptance
(`C06.search_sequence_valid`), and `continueFrom` performs the stripped Shifts (`validSeq_stripped`).
No window hypothesis is needed. -/
theorem cpct_first_valid (E : Env) (hT : TableOK E) (hs : List Seq → List Seq) (hhs : HashSetLike hs)
    (avoid : Nat → Bool) (lexStart : Nat → Nat) (win sfuel : Nat) :
    FirstValid E.G E.A E.w E.N (cpctRecoverAt E hs avoid lexStart win sfuel) ∧
    ∀ c c' rs, errCfg E.G E.A E.w c = true →
      cpctRecover E hs avoid lexStart win sfuel c = some (c', rs) →
      ∀ r ∈ rs, validSeq E.G E.A E.w E.N c r = true := by
  refine ⟨cpctAt_firstValid hT hhs, ?_⟩
  intro c c' rs hc h
  rw [← cpctAt_of_errCfg hc] at h
  exact cpctAt_allValid hT hhs h

/-- **The restriction to the configurations `Parser::lr` calls `recover` at cannot be observed.** On a
table with `TableOK`, from every start within the input, with every fuel: the recovering driver
(`recRun`; the instrumented `recRunO` with any fuel of `feed`) does exactly the same with the
unrestricted `cpctRecover` as with `cpctRecoverAt`, and every configuration it hands to the recoverer
(`recCalls`) is an `errCfg`. -/
theorem cpct_restriction_invisible (E : Env) (hT : TableOK E) (hs : List Seq → List Seq) (hhs : HashSetLike hs)
    (avoid : Nat → Bool) (lexStart : Nat → Nat) (win sfuel : Nat) (c : Pos) (hc : c.pos ≤ E.w.length)
    (fuel : Nat) (errs : List Err) :
    recRun E.G E.A E.w (cpctRecover E hs avoid lexStart win sfuel) fuel c errs =
      recRun E.G E.A E.w (cpctRecoverAt E hs avoid lexStart win sfuel) fuel c errs ∧
    (∀ ff, recRunO E.G E.A E.w (cpctRecover E hs avoid lexStart win sfuel) ff fuel c errs =
      recRunO E.G E.A E.w (cpctRecoverAt E hs avoid lexStart win sfuel) ff fuel c errs) ∧
    ∀ x ∈ recCalls E.G E.A E.w (cpctRecover E hs avoid lexStart win sfuel) fuel c,
      errCfg E.G E.A E.w x = true :=
  ⟨recRun_cpct_guard hT hhs fuel c errs hc, fun ff => recRunO_cpct_guard hT hhs ff fuel c errs hc,
   recCalls_cpct_errCfg hT hhs fuel c hc⟩

/-- **Capstone: every repair sequence the modelled recovering parser reports repairs** — the first
sentence of C05 for the model of the WHOLE parser (LR driver + CPCT+ search + ranking + replay). On a
table with `TableOK`, for every `HashSet` order, `%avoid_insert` set, lexeme offsets, window, search
budget, driver fuel and start within the input: the errors the run appends are, in order, the calls of
the recoverer (`recCalls`: the configuration — reduced stack and position — the driver is in) with what
`cpctRecover` reported there; every call is at a configuration `Parser::lr` calls `recover` at; and
EVERY sequence reported at a call satisfies `validSeq … PARSE_AT_LEAST` at that configuration (it applies
with plain LR semantics and the plain parse then runs `PARSE_AT_LEAST` further lexemes or accepts) and
inserts only tokens of the grammar other than end-of-input. -/
theorem cpct_every_reported_sequence_repairs (E : Env) (hT : TableOK E) (hs : List Seq → List Seq)
    (hhs : HashSetLike hs) (avoid : Nat → Bool) (lexStart : Nat → Nat) (win sfuel : Nat)
    (fuel : Nat) (c0 : Pos) (hc0 : c0.pos ≤ E.w.length) (errs : List Err) :
    (recRun E.G E.A E.w (cpctRecover E hs avoid lexStart win sfuel) fuel c0 errs).2 =
      errs ++ (recCalls E.G E.A E.w (cpctRecover E hs avoid lexStart win sfuel) fuel c0).map
        (errOf (cpctRecover E hs avoid lexStart win sfuel)) ∧
    ∀ x ∈ recCalls E.G E.A E.w (cpctRecover E hs avoid lexStart win sfuel) fuel c0,
      errCfg E.G E.A E.w x = true ∧
      ∀ r ∈ (errOf (cpctRecover E hs avoid lexStart win sfuel) x).repairs,
        validSeq E.G E.A E.w E.N x r = true ∧ ∀ t, Repair.insert t ∈ r → t < E.G.ntoks ∧ t ≠ E.G.eof := by
  refine ⟨recRun_eq_calls _ _ _ _ fuel c0 errs, ?_⟩
  intro x hx
  have he := recCalls_cpct_errCfg hT hhs fuel c0 hc0 x hx
  refine ⟨he, ?_⟩
  intro r hr
  cases hrec : cpctRecover E hs avoid lexStart win sfuel x with
  | none => simp [errOf, hrec] at hr
  | some y =>
    obtain ⟨c', rs⟩ := y
    have hr' : r ∈ rs := by simpa [errOf, hrec] using hr
    obtain ⟨_, k, _, hall⟩ := cpct_report hT hhs he hrec
    exact ⟨(hall r hr').1, (hall r hr').2.1⟩

/-- **Capstone: with the modelled CPCT+ recoverer, a value means the plain parse of the edited input
accepts.** `recRun_is_plain_parse_of_edited_input_certified` for `recover := cpctRecover …` — the model
of the whole recovering parser: LR driver + search + ranking + replay. Hypotheses on the table and the
costs only: `wholeRunCert` (decidable), `stateActionsExactB` (decidable), every token costs ≥ 1,
`PARSE_AT_LEAST ≥ 1`; any `HashSet` order; an input without the end-of-input token; a start within the
input on a stack that is a path of the automaton. For every window, `%avoid_insert` set and search
budget. -/
theorem cpct_recovering_parse_is_plain_parse_of_edited_input (E : Env)
    (hcert : wholeRunCert E.G E.A = true) (hsa : stateActionsExactB E.G E.A = true)
    (hcost : ∀ t, 1 ≤ E.cost t) (hN : 1 ≤ E.N) (hs : List Seq → List Seq) (hhs : HashSetLike hs)
    (avoid : Nat → Bool) (lexStart : Nat → Nat) (win sfuel : Nat) (hw : E.G.eof ∉ E.w)
    (fuel : Nat) (c : Pos) (errs errs' : List Err) (hc : c.pos ≤ E.w.length) (hp : IsPath E.A c.stack)
    (h : recRun E.G E.A E.w (cpctRecover E hs avoid lexStart win sfuel) fuel c errs = (true, errs')) :
    ∃ new, errs' = errs ++ new ∧
      (∃ st, FeedsTo E.G E.A c.stack (editedToks E.w E.w.length c.pos new) st ∧ AcceptsAt E.G E.A E.G.eof st) ∧
      PlainIs E.G E.A c.stack (editedToks E.w E.w.length c.pos new) .accepted := by
  have hT := tableOK_of_cert (wholeRunCert_unpack hcert).1 hsa hcost hN
  rw [recRun_cpct_guard hT hhs fuel c errs hc] at h
  exact recRun_is_plain_parse_of_edited_input_certified E.G E.A E.w _ hcert (cpctAt_firstApplies hT hhs)
    E.N hN (cpctAt_firstValid hT hhs) hw fuel c errs errs' hc hp h

/-- **Capstone: with the modelled CPCT+ recoverer, later errors are exactly those of parsing the input
with the first sequence of each earlier error applied.**
`reported_errors_are_plain_errors_of_edited_input_certified` for `recover := cpctRecover …`; hypotheses
as in `cpct_recovering_parse_is_plain_parse_of_edited_input`, any result (value or not). -/
theorem cpct_reported_errors_are_plain_errors_of_edited_input (E : Env)
    (hcert : wholeRunCert E.G E.A = true) (hsa : stateActionsExactB E.G E.A = true)
    (hcost : ∀ t, 1 ≤ E.cost t) (hN : 1 ≤ E.N) (hs : List Seq → List Seq) (hhs : HashSetLike hs)
    (avoid : Nat → Bool) (lexStart : Nat → Nat) (win sfuel : Nat) (hw : E.G.eof ∉ E.w)
    (fuel : Nat) (c : Pos) (errs : List Err) (v : Bool) (errs' : List Err) (hc : c.pos ≤ E.w.length)
    (hp : IsPath E.A c.stack)
    (h : recRun E.G E.A E.w (cpctRecover E hs avoid lexStart win sfuel) fuel c errs = (v, errs')) :
    ∃ new, errs' = errs ++ new ∧ Ordered E.w.length c.pos new ∧ ∀ pre e post, new = pre ++ e :: post →
      c.pos ≤ e.pos ∧ e.pos ≤ E.w.length ∧
      editedItems E.w.length c.pos pre = editedItems e.pos c.pos pre ++ reals e.pos E.w.length ∧
      (∃ st, FeedsTo E.G E.A c.stack (editedToks E.w e.pos c.pos pre) st ∧
        RefusesAt E.G E.A (nextTok E.G E.w e.pos) st) ∧
      PlainIs E.G E.A c.stack (editedToks E.w E.w.length c.pos pre)
        (.refusedAt (editedToks E.w e.pos c.pos pre).length) := by
  have hT := tableOK_of_cert (wholeRunCert_unpack hcert).1 hsa hcost hN
  rw [recRun_cpct_guard hT hhs fuel c errs hc] at h
  exact reported_errors_are_plain_errors_of_edited_input_certified E.G E.A E.w _ hcert
    (cpctAt_firstApplies hT hhs) E.N hN (cpctAt_firstValid hT hhs) hw fuel c errs v errs' hc hp h

/-- **Capstone: with the modelled CPCT+ recoverer, a run that gives up stops where the plain parse of
the edited input has its first error.** `unrepaired_error_is_first_error_of_edited_input_certified` for
`recover := cpctRecover …`; same hypotheses. (The recoverer gives up when the search finds no repair of
representable cost or when its budget runs out: `Cpct.cpctOutcome`; the fourth outcome, a panic of the
model of the real code, does not occur in a run on a certified table with an input of real tokens —
`C06.recover_never_panics_in_a_run`.) -/
theorem cpct_unrepaired_error_is_first_error_of_edited_input (E : Env)
    (hcert : wholeRunCert E.G E.A = true) (hsa : stateActionsExactB E.G E.A = true)
    (hcost : ∀ t, 1 ≤ E.cost t) (hN : 1 ≤ E.N) (hs : List Seq → List Seq) (hhs : HashSetLike hs)
    (avoid : Nat → Bool) (lexStart : Nat → Nat) (win sfuel : Nat) (hw : E.G.eof ∉ E.w)
    (fuel : Nat) (c : Pos) (errs : List Err) (v : Bool) (errs' : List Err) (hc : c.pos ≤ E.w.length)
    (hp : IsPath E.A c.stack)
    (h : recRun E.G E.A E.w (cpctRecover E hs avoid lexStart win sfuel) fuel c errs = (v, errs')) :
    ∃ new, errs' = errs ++ new ∧ ∀ pre e, new = pre ++ [e] → e.repairs = [] →
      editedItems E.w.length c.pos new = editedItems E.w.length c.pos pre ∧
      PlainIs E.G E.A c.stack (editedToks E.w E.w.length c.pos new)
        (.refusedAt (editedToks E.w e.pos c.pos pre).length) := by
  have hT := tableOK_of_cert (wholeRunCert_unpack hcert).1 hsa hcost hN
  rw [recRun_cpct_guard hT hhs fuel c errs hc] at h
  exact unrepaired_error_is_first_error_of_edited_input_certified E.G E.A E.w _ hcert
    (cpctAt_firstApplies hT hhs) E.N hN (cpctAt_firstValid hT hhs) hw fuel c errs v errs' hc hp h

/-- **Capstone: with the modelled CPCT+ recoverer, a returned tree's leaves spell the repaired input.**
`returned_tree_spells_edited_input_certified` for `recover := cpctRecover …`, and its remaining
hypothesis "the edited input consists of real tokens" is DISCHARGED: the input consists of tokens of the
grammar other than end-of-input (`InputOk`), every first sequence applies (so the lexemes it shifts
exist) and inserts only tokens of the grammar other than end-of-input (`Search` never inserts
end-of-input and inserts tokens below `ntoks` only). So: whenever the model of the whole recovering
parser returns a value, the plain LR driver with trees accepts the edited token list and its tree is a
valid derivation from the start rule whose leaves are exactly the edited input. -/
theorem cpct_returned_tree_spells_edited_input (E : Env)
    (hcert : wholeRunCert E.G E.A = true) (hsa : stateActionsExactB E.G E.A = true)
    (hcost : ∀ t, 1 ≤ E.cost t) (hN : 1 ≤ E.N) (hs : List Seq → List Seq) (hhs : HashSetLike hs)
    (avoid : Nat → Bool) (lexStart : Nat → Nat) (win sfuel : Nat) (hw : InputOk E.G E.w)
    (fuel : Nat) (errs : List Err)
    (h : recRun E.G E.A E.w (cpctRecover E hs avoid lexStart win sfuel) fuel ⟨[E.A.start], 0⟩ [] = (true, errs)) :
    ∃ fuel' t, LR.parse E.G E.A (editedToks E.w E.w.length 0 errs) fuel' = .accept t ∧
      Tree.valid E.G t = true ∧ (∃ S, E.G.rhs E.G.startProd = [.rule S] ∧ Tree.root E.G t = .rule S) ∧
      Tree.yield t = editedToks E.w E.w.length 0 errs ∧
      Tree.leafIdxs t = List.range (editedItems E.w.length 0 errs).length := by
  have hT := tableOK_of_cert (wholeRunCert_unpack hcert).1 hsa hcost hN
  have hcalls := recRun_eq_calls E.G E.A E.w (cpctRecover E hs avoid lexStart win sfuel) fuel ⟨[E.A.start], 0⟩ []
  rw [h] at hcalls
  simp only [List.nil_append] at hcalls
  have hin : InputOk E.G (editedToks E.w E.w.length 0 errs) := by
    rw [hcalls]
    exact inputOk_editedToks hw _ 0 (cpct_run_goodErrs hT hhs fuel _ (Nat.zero_le _))
  have hweof : E.G.eof ∉ E.w := fun hm => (hw _ hm).2 rfl
  rw [recRun_cpct_guard hT hhs fuel _ [] (Nat.zero_le _)] at h
  exact returned_tree_spells_edited_input_certified E.G E.A E.w _ hcert (cpctAt_firstApplies hT hhs)
    E.N hN (cpctAt_firstValid hT hhs) hweof fuel errs h hin

end Capstone


/-! ## Tests for the capstone: the modelled recoverer on the certified merged table
(`Lemmas/CpctEx.lean`: the automaton of `Lemmas/KeptCertEx.lean` with its `state_actions` view; input
`x a d`, every token costs 1, `PARSE_AT_LEAST = 3`, `TRY_PARSE_AT_MOST = 250`, search budget 200) -/

section CapstoneTests
open Cpct SearchImpl RankImpl

/-- the hypotheses on table and costs hold, by evaluation -/
example : wholeRunCert exG2 exA3 = true := ex3_cert
example : stateActionsExactB exG2 exA3 = true := ex3_sa
example : TableOK exE := tableOK_of_cert (wholeRunCert_unpack ex3_cert).1 ex3_sa ex3_cost (by decide)
example : HashSetLike dedup := hashSetLike_dedup
/-- `d` is refused after `A → a` was reduced under it; that is a configuration `recover` is called at -/
example : feed exG2 exA3 4 FUEL [6, 2, 0] = .error [4, 2, 0] := by rfl
example : errCfg exG2 exA3 [0, 2, 4] ⟨[4, 2, 0], 2⟩ = true := by decide
/-- the modelled CPCT+ evaluated on this real error: one minimum-cost repair (cost 2), `Insert c,
Delete`; parsing continues on `[9, 4, 2, 0]` at the end of the input -/
example : exRec ⟨[4, 2, 0], 2⟩ = some (⟨[9, 4, 2, 0], 3⟩, [[.insert 3, .delete]]) := by decide +kernel
example : cpctOutcome exE dedup (fun _ => false) (fun i => 3 * i + 1) 250 200 ⟨[4, 2, 0], 2⟩ = .repaired := by
  decide +kernel
/-- with a budget of 3 iterations the search runs out: nothing is reported, the parse gives up -/
example : cpctRecover exE dedup (fun _ => false) (fun i => 3 * i + 1) 250 3 ⟨[4, 2, 0], 2⟩ = none := by
  decide +kernel
example : cpctOutcome exE dedup (fun _ => false) (fun i => 3 * i + 1) 250 3 ⟨[4, 2, 0], 2⟩ = .outOfBudget := by
  decide +kernel
/-- (a), (b) obtained from the theorems for this call -/
example : applySeq exG2 exA3 [0, 2, 4] ⟨[4, 2, 0], 2⟩ [.insert 3, .delete] = some ⟨[9, 4, 2, 0], 3⟩ :=
  (cpct_first_applies exE (tableOK_of_cert (wholeRunCert_unpack ex3_cert).1 ex3_sa ex3_cost (by decide)) dedup
    hashSetLike_dedup (fun _ => false) (fun i => 3 * i + 1) 250 200).2 _ _ _ [] (by decide) (by decide +kernel)
example : validSeq exG2 exA3 [0, 2, 4] 3 ⟨[4, 2, 0], 2⟩ [.insert 3, .delete] = true :=
  (cpct_first_valid exE (tableOK_of_cert (wholeRunCert_unpack ex3_cert).1 ex3_sa ex3_cost (by decide)) dedup
    hashSetLike_dedup (fun _ => false) (fun i => 3 * i + 1) 250 200).2 ⟨[4, 2, 0], 2⟩ ⟨[9, 4, 2, 0], 3⟩
    [[.insert 3, .delete]] (by decide) (by decide +kernel) _ List.mem_cons_self
/-- … and by evaluation -/
example : validSeq exG2 exA3 [0, 2, 4] 3 ⟨[4, 2, 0], 2⟩ [.insert 3, .delete] = true := by decide
/-- the whole modelled recovering parse of `x a d`: one error at `d`, repaired, a value -/
example : recRun exG2 exA3 [0, 2, 4] exRec 10 ⟨[0], 0⟩ [] = (true, [⟨2, [[.insert 3, .delete]]⟩]) := by
  decide +kernel
/-- the calls of the recoverer in this run, and `cpct_every_reported_sequence_repairs` on it -/
example : recCalls exG2 exA3 [0, 2, 4] exRec 10 ⟨[0], 0⟩ = [⟨[4, 2, 0], 2⟩] := by decide +kernel
/-- the capstone's conclusion for this run, obtained from the theorem: the plain parse of the edited
input `x a c` accepts … -/
example : plainFrom exG2 exA3 [0] (editedToks [0, 2, 4] 3 0 [⟨2, [[.insert 3, .delete]]⟩]) 0 = .accepted := by
  obtain ⟨new, h1, _, h3⟩ := cpct_recovering_parse_is_plain_parse_of_edited_input exE ex3_cert ex3_sa ex3_cost
    (by decide) dedup hashSetLike_dedup (fun _ => false) (fun i => 3 * i + 1) 250 200 (by decide) 10 ⟨[0], 0⟩ [] _
    (by decide) (IsPath.start exA3) (by decide +kernel :
      recRun exG2 exA3 [0, 2, 4] exRec 10 ⟨[0], 0⟩ [] = (true, [⟨2, [[.insert 3, .delete]]⟩]))
  simp only [List.nil_append] at h1
  subst h1
  exact h3.2 (by decide)
/-- … and by evaluation -/
example : editedToks [0, 2, 4] 3 0 [⟨2, [[.insert 3, .delete]]⟩] = [0, 2, 3] := by decide
example : plainFrom exG2 exA3 [0] [0, 2, 3] 0 = .accepted := by decide
/-- a longer input, `x e a d d`: the reported sequence has a Shift INSIDE (`Delete, Shift, Insert c,
Delete, Delete`); the run returns a value -/
example : recRun exG2 exA3 [0, 5, 2, 4, 4]
    (cpctRecover ⟨exG2, exA3, [0, 5, 2, 4, 4], fun _ => 1, 3⟩ dedup (fun _ => false) (fun i => 3 * i + 1) 250 200)
    20 ⟨[0], 0⟩ [] = (true, [⟨1, [[.delete, .shift, .insert 3, .delete, .delete]]⟩]) := by decide +kernel

end CapstoneTests

end GrmVerif.C05
