import GrmVerif.Lemmas.RecFirst
import GrmVerif.Model.Recover
/-!
# C07 — error recovery always progresses and the error list matches the outcome

Model: `Rec.recRun` (the loop of `Parser::lr` with a recoverer, on state stacks, parametric in the
recoverer). `RecovererOK` is what C05/C06 establish per reported error for the real recoverer
(the first sequence applies and a plain parse then continues over `N` lexemes or to acceptance);
the theorems derive the shape of the error list for EVERY input. The shape itself is also checked
directly on every `(value, errors)` the real parser returns.
-/
namespace GrmVerif.C07
open GrmVerif Rec LR

/-- from `c` the plain parse shifts `k` further lexemes without an error, or accepts before that -/
inductive Runs (G : Grammar) (A : Automaton) (w : List Nat) : Nat → Pos → Prop
  | zero (c : Pos) : Runs G A w 0 c
  | acc (c : Pos) (k : Nat) (s : List Nat) : feed G A (nextTok G w c.pos) FUEL c.stack = .accept s → Runs G A w k c
  | shift (c : Pos) (k : Nat) (s : List Nat) : feed G A (nextTok G w c.pos) FUEL c.stack = .shifted s →
      Runs G A w k ⟨s, c.pos + 1⟩ → Runs G A w (k + 1) c

/-- what a well-behaved recoverer guarantees: it never moves backwards, and from where it leaves
the parser a plain parse continues over `N` lexemes or to acceptance -/
def RecovererOK (G : Grammar) (A : Automaton) (w : List Nat) (N : Nat)
    (recover : Pos → Option (Pos × List (List Repair))) : Prop :=
  ∀ c c' rs, recover c = some (c', rs) → rs ≠ [] → c.pos ≤ c'.pos ∧ Runs G A w N c'

/-- consecutive errors are at least `N` lexemes apart -/
def Spaced (N : Nat) : List Err → Prop
  | [] => True
  | [_] => True
  | e1 :: e2 :: rest => e1.pos + N ≤ e2.pos ∧ Spaced N (e2 :: rest)

/-- every error except possibly the last has a repair sequence -/
def AllButLastRepaired : List Err → Prop
  | [] => True
  | [_] => True
  | e1 :: e2 :: rest => e1.repairs ≠ [] ∧ AllButLastRepaired (e2 :: rest)

theorem spaced_cons {N : Nat} {e : Err} {l : List Err} (hl : Spaced N l)
    (hh : ∀ e2, l.head? = some e2 → e.pos + N ≤ e2.pos) : Spaced N (e :: l) := by
  cases l with
  | nil => trivial
  | cons e2 rest => exact ⟨hh e2 rfl, hl⟩

theorem allButLast_cons {e : Err} {l : List Err} (hl : AllButLastRepaired l) (he : l ≠ [] → e.repairs ≠ []) :
    AllButLastRepaired (e :: l) := by
  cases l with
  | nil => trivial
  | cons e2 rest => exact ⟨he (by simp), hl⟩

/-- the run from `c` appends errors that are spaced, start no earlier than `c.pos + k` when the
plain parse runs `k` lexemes from `c`, all but the last repaired, and all repaired when a value is
produced -/
theorem recRun_shape (G : Grammar) (A : Automaton) (w : List Nat) (N : Nat)
    (recover : Pos → Option (Pos × List (List Repair))) (hok : RecovererOK G A w N recover) :
    ∀ (fuel : Nat) (c : Pos) (errs : List Err) (k : Nat) (v : Bool) (errs' : List Err),
      Runs G A w k c → recRun G A w recover fuel c errs = (v, errs') →
      ∃ new, errs' = errs ++ new ∧ Spaced N new ∧ AllButLastRepaired new ∧
        (∀ e, new.head? = some e → c.pos + k ≤ e.pos) ∧
        (v = true → ∀ e ∈ new, e.repairs ≠ []) := by
  intro fuel
  induction fuel with
  | zero =>
    intro c errs k v errs' _ h
    simp only [recRun, Prod.mk.injEq] at h
    exact ⟨[], by simp [h.2], trivial, trivial, by simp, by intro hv; rw [← h.1] at hv; cases hv⟩
  | succ f ih =>
    intro c errs k v errs' hruns h
    simp only [recRun] at h
    cases hf : feed G A (nextTok G w c.pos) FUEL c.stack with
    | shifted s =>
      rw [hf] at h
      simp only at h
      have hr' : ∃ k', Runs G A w k' ⟨s, c.pos + 1⟩ ∧ k ≤ k' + 1 := by
        cases hruns with
        | zero _ => exact ⟨0, .zero _, by omega⟩
        | acc _ _ s' ha => rw [hf] at ha; cases ha
        | shift _ k0 s' hs hr => rw [hf] at hs; injection hs with hs; subst hs; exact ⟨k0, hr, by omega⟩
      obtain ⟨k', hk', hle⟩ := hr'
      obtain ⟨new, h1, h2, h3, h4, h5⟩ := ih ⟨s, c.pos + 1⟩ errs k' v errs' hk' h
      exact ⟨new, h1, h2, h3, fun e he => by have := h4 e he; simp only at this; omega, h5⟩
    | accept s =>
      rw [hf] at h
      simp only [Prod.mk.injEq] at h
      exact ⟨[], by simp [h.2], trivial, trivial, by simp, by simp⟩
    | crash =>
      rw [hf] at h
      simp only [Prod.mk.injEq] at h
      exact ⟨[], by simp [h.2], trivial, trivial, by simp, by intro hv; rw [← h.1] at hv; cases hv⟩
    | fuelOut =>
      rw [hf] at h
      simp only [Prod.mk.injEq] at h
      exact ⟨[], by simp [h.2], trivial, trivial, by simp, by intro hv; rw [← h.1] at hv; cases hv⟩
    | error s =>
      rw [hf] at h
      simp only at h
      have hk0 : k = 0 := by
        cases hruns with
        | zero _ => rfl
        | acc _ _ s' ha => rw [hf] at ha; cases ha
        | shift _ k0 s' hs _ => rw [hf] at hs; cases hs
      subst hk0
      cases hrec : recover ⟨s, c.pos⟩ with
      | none =>
        rw [hrec] at h
        simp only [Prod.mk.injEq] at h
        refine ⟨[⟨c.pos, []⟩], by simp [h.2], trivial, trivial, ?_, ?_⟩
        · intro e he; simp at he; subst he; simp
        · intro hv; rw [← h.1] at hv; cases hv
      | some r =>
        obtain ⟨c', rs⟩ := r
        rw [hrec] at h
        simp only at h
        by_cases hemp : rs.isEmpty = true
        · rw [if_pos hemp] at h
          simp only [Prod.mk.injEq] at h
          refine ⟨[⟨c.pos, []⟩], by simp [h.2], trivial, trivial, ?_, ?_⟩
          · intro e he; simp at he; subst he; simp
          · intro hv; rw [← h.1] at hv; cases hv
        · rw [if_neg hemp] at h
          have hne : rs ≠ [] := by intro e; subst e; simp at hemp
          obtain ⟨hpos, hrun⟩ := hok ⟨s, c.pos⟩ c' rs hrec hne
          simp only at hpos
          obtain ⟨new, h1, h2, h3, h4, h5⟩ := ih c' (errs ++ [⟨c.pos, rs⟩]) N v errs' hrun h
          refine ⟨⟨c.pos, rs⟩ :: new, by simp [h1], ?_, ?_, ?_, ?_⟩
          · exact spaced_cons h2 (fun e2 he => by have := h4 e2 he; simp only; omega)
          · exact allButLast_cons h3 (fun _ => hne)
          · intro e he; simp at he; subst he; simp
          · intro hv e he
            rcases List.mem_cons.mp he with rfl | he
            · exact hne
            · exact h5 hv e he

/-- **Errors are reported in strictly increasing position, at least `N` lexemes apart; every error
but the last carries a repair sequence; a value implies every error does.** For every input and
every recoverer satisfying `RecovererOK`. -/
theorem errors_shape (G : Grammar) (A : Automaton) (w : List Nat) (N : Nat)
    (recover : Pos → Option (Pos × List (List Repair))) (hok : RecovererOK G A w N recover)
    (fuel : Nat) (v : Bool) (errs : List Err)
    (h : recRun G A w recover fuel ⟨[A.start], 0⟩ [] = (v, errs)) :
    Spaced N errs ∧ AllButLastRepaired errs ∧ (v = true → ∀ e ∈ errs, e.repairs ≠ []) := by
  obtain ⟨new, h1, h2, h3, _, h5⟩ := recRun_shape G A w N recover hok fuel _ [] 0 v errs (.zero _) h
  simp only [List.nil_append] at h1
  subst h1
  exact ⟨h2, h3, h5⟩

/-- a spaced list within the input has at most `|w| / N + 1` entries -/
theorem spaced_length_bound (N : Nat) (hN : 0 < N) (len : Nat) :
    ∀ (errs : List Err) (lo : Nat), Spaced N errs → (∀ e ∈ errs, lo ≤ e.pos ∧ e.pos ≤ len) →
      errs.length * N ≤ (len - lo) + N
  | [], _, _, _ => by simp
  | [e], lo, _, hb => by simp
  | e1 :: e2 :: rest, lo, hs, hb => by
    have h1 := hb e1 (by simp)
    have ih := spaced_length_bound N hN len (e2 :: rest) (e1.pos + N) hs.2 (by
      intro e he
      refine ⟨?_, (hb e (List.mem_cons_of_mem _ he)).2⟩
      -- every later error is at or beyond e2, which is beyond e1 + N
      have : ∀ (l : List Err) (x : Err), Spaced N (x :: l) → ∀ y ∈ x :: l, x.pos ≤ y.pos := by
        intro l
        induction l with
        | nil => intro x _ y hy; simp at hy; subst hy; exact Nat.le_refl _
        | cons z zs ihl =>
          intro x hsp y hy
          rcases List.mem_cons.mp hy with rfl | hy
          · exact Nat.le_refl _
          · have := ihl z hsp.2 y hy
            have := hsp.1
            omega
      have := this rest e2 hs.2 e he
      have := hs.1
      omega)
    have h2 := hb e2 (by simp)
    have hs1 := hs.1
    simp only [List.length_cons] at ih ⊢
    have : (rest.length + 1 + 1) * N = (rest.length + 1) * N + N := by
      rw [Nat.add_mul, Nat.one_mul]
    rw [this]
    omega

/-- **The number of errors is bounded by the input length.** -/
theorem errors_bounded (G : Grammar) (A : Automaton) (w : List Nat) (N : Nat) (hN : 0 < N)
    (recover : Pos → Option (Pos × List (List Repair))) (hok : RecovererOK G A w N recover)
    (fuel : Nat) (v : Bool) (errs : List Err)
    (h : recRun G A w recover fuel ⟨[A.start], 0⟩ [] = (v, errs))
    (hpos : ∀ e ∈ errs, e.pos ≤ w.length) : errs.length * N ≤ w.length + N := by
  have hs := (errors_shape G A w N recover hok fuel v errs h).1
  have := spaced_length_bound N hN w.length errs 0 hs (fun e he => ⟨Nat.zero_le _, hpos e he⟩)
  simpa using this

/-- **A value together with an empty error list means the input was accepted unchanged**: the run
never consulted the recoverer, so it is the plain parse. -/
theorem clean_accept (G : Grammar) (A : Automaton) (w : List Nat)
    (recover recover' : Pos → Option (Pos × List (List Repair))) :
    ∀ (fuel : Nat) (c : Pos) (errs : List Err) (v : Bool),
      recRun G A w recover fuel c errs = (v, errs) → recRun G A w recover' fuel c errs = (v, errs) := by
  intro fuel
  induction fuel with
  | zero => intro c errs v h; simpa [recRun] using h
  | succ f ih =>
    intro c errs v h
    simp only [recRun] at h ⊢
    cases hf : feed G A (nextTok G w c.pos) FUEL c.stack with
    | shifted s => rw [hf] at h; simp only at h ⊢; exact ih _ _ _ h
    | accept s => rw [hf] at h; simpa using h
    | crash => rw [hf] at h; simpa using h
    | fuelOut => rw [hf] at h; simpa using h
    | error s =>
      -- an error would have lengthened the error list
      exfalso
      rw [hf] at h
      simp only at h
      have hlen : ∀ (fuel : Nat) (c : Pos) (es : List Err) (v : Bool) (es' : List Err),
          recRun G A w recover fuel c es = (v, es') → es.length ≤ es'.length := by
        intro fuel
        induction fuel with
        | zero => intro c es v es' h; simp only [recRun, Prod.mk.injEq] at h; rw [← h.2]; exact Nat.le_refl _
        | succ g ihg =>
          intro c es v es' h
          simp only [recRun] at h
          cases hf2 : feed G A (nextTok G w c.pos) FUEL c.stack with
          | shifted s => rw [hf2] at h; exact ihg _ _ _ _ h
          | accept s => rw [hf2] at h; simp only [Prod.mk.injEq] at h; rw [← h.2]; exact Nat.le_refl _
          | crash => rw [hf2] at h; simp only [Prod.mk.injEq] at h; rw [← h.2]; exact Nat.le_refl _
          | fuelOut => rw [hf2] at h; simp only [Prod.mk.injEq] at h; rw [← h.2]; exact Nat.le_refl _
          | error s =>
            rw [hf2] at h
            simp only at h
            cases hr : recover ⟨s, c.pos⟩ with
            | none => rw [hr] at h; simp only [Prod.mk.injEq] at h; rw [← h.2]; simp
            | some r =>
              obtain ⟨c', rs⟩ := r
              rw [hr] at h
              simp only at h
              by_cases he : rs.isEmpty = true
              · rw [if_pos he] at h; simp only [Prod.mk.injEq] at h; rw [← h.2]; simp
              · rw [if_neg he] at h
                have := ihg _ _ _ _ h
                simp only [List.length_append, List.length_cons, List.length_nil] at this
                omega
      cases hr : recover ⟨s, c.pos⟩ with
      | none => rw [hr] at h; simp only [Prod.mk.injEq] at h; have := congrArg List.length h.2; simp at this
      | some r =>
        obtain ⟨c', rs⟩ := r
        rw [hr] at h
        simp only at h
        by_cases he : rs.isEmpty = true
        · rw [if_pos he] at h; simp only [Prod.mk.injEq] at h; have := congrArg List.length h.2; simp at this
        · rw [if_neg he] at h
          have := hlen _ _ _ _ _ h
          simp only [List.length_append, List.length_cons, List.length_nil] at this
          omega

/-- **With recovery on, the first error is where recovery off reports its error** (the last clause
of C04, at the level of the driver model): whatever the recoverer does, if the recovering driver
reports a first error `e`, the same driver with a recoverer that always gives up — i.e. recovery
off — stops with exactly one error at `e.pos`. -/
theorem first_error_is_plain_error (G : Grammar) (A : Automaton) (w : List Nat)
    (recover : Pos → Option (Pos × List (List Repair))) :
    ∀ (fuel : Nat) (c : Pos) (v : Bool) (e : Err) (es : List Err),
      recRun G A w recover fuel c [] = (v, e :: es) →
      recRun G A w (fun _ => none) fuel c [] = (false, [⟨e.pos, []⟩]) := by
  intro fuel
  induction fuel with
  | zero => intro c v e es h; simp [recRun] at h
  | succ n ih =>
    intro c v e es h
    simp only [recRun] at h ⊢
    cases hf : feed G A (nextTok G w c.pos) FUEL c.stack with
    | shifted s => rw [hf] at h; exact ih _ v e es h
    | accept s => rw [hf] at h; simp at h
    | crash => rw [hf] at h; simp at h
    | fuelOut => rw [hf] at h; simp at h
    | error s =>
      rw [hf] at h
      simp only [] at h ⊢
      cases hr : recover ⟨s, c.pos⟩ with
      | none =>
        rw [hr] at h
        simp only [List.nil_append, Prod.mk.injEq, List.cons.injEq] at h
        obtain ⟨_, he, _⟩ := h
        rw [← he]; rfl
      | some x =>
        obtain ⟨c', rs⟩ := x
        rw [hr] at h
        simp only [] at h
        by_cases hemp : rs.isEmpty = true
        · rw [if_pos hemp] at h
          simp only [List.nil_append, Prod.mk.injEq, List.cons.injEq] at h
          obtain ⟨_, he, _⟩ := h
          rw [← he]; rfl
        · rw [if_neg hemp] at h
          obtain ⟨rest, hrest⟩ := recRun_acc_prefix G A w recover n c' ([] ++ [⟨c.pos, rs⟩])
          rw [h] at hrest
          simp only [List.nil_append, List.singleton_append, List.cons.injEq] at hrest
          rw [hrest.1]; rfl

end GrmVerif.C07
