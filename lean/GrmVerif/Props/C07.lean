import GrmVerif.Lemmas.RecFirst
import GrmVerif.Lemmas.RecLive
import GrmVerif.Props.C05
import GrmVerif.Lemmas.CpctRun
import GrmVerif.Lemmas.CpctEx
import GrmVerif.Lemmas.NoPanic2
/-!
# C07 — error recovery always progresses and the error list matches the outcome

Model: `Rec.recRun` (the loop of `Parser::lr` with a recoverer, on state stacks, parametric in the
recoverer). `RecovererOK` is what C05/C06 establish per reported error for the real recoverer
(the first sequence applies and a plain parse then continues over `N` lexemes or to acceptance);
the theorems derive the shape of the error list for EVERY input. The shape itself is also checked
directly on every `(value, errors)` the real parser returns.

Liveness: `recRun` is total by construction (constant fuel for `feed`, answer `(false, errs)` when a
fuel runs out or the driver would crash). `Rec.recRunO` (`Model/RecLive.lean`) is the same loop with
these cases reported as `none`; `recovering_parse_returns` shows that on an automaton that passes
`Cert.check` and the termination certificate `Term.termCheckAdj` the answer is never `none` once the
fuels are large enough (`2·|w| + 2` loop iterations), `recRunO_mono`/`recRunO_unique` that the answer
does not depend on the fuels, `recovering_parse_result` that this one answer has the whole shape the
property describes. The vocabulary (`Runs`, `RecovererOK`, `Spaced`, `AllButLastRepaired`) is defined
in `Lemmas/RecSpec.lean`.
-/
namespace GrmVerif.C07
open GrmVerif Rec LR

/-- the run from `c` appends errors that are spaced, start no earlier than `c.pos + k` when the
plain parse runs `k` lexemes from `c`, all but the last repaired, and all repaired when a value is
produced -/
theorem recRun_shape (G : Grammar) (A : Automaton) (w : List Nat) (N : Nat)
    (recover : Pos → Option (Pos × List (List Repair))) (hok : RecovererOK G A w N recover) :
    ∀ (fuel : Nat) (c : Pos) (errs : List Err) (k : Nat) (v : Bool) (errs' : List Err),
      Runs G A w k c → recRun G A w recover fuel c errs = (v, errs') →
      ∃ new, errs' = errs ++ new ∧ Spaced N new ∧ AllButLastRepaired new ∧
        (∀ e, new.head? = some e → c.pos + k ≤ e.pos) ∧
        (v = true → ∀ e ∈ new, e.repairs ≠ []) := by
  intro fuel c errs k v errs' hr h
  rw [← recRunF_FUEL] at h
  exact recRunF_shape G A w N recover hok FUEL (Nat.le_refl _) fuel c errs k v errs' hr h

/-- **Errors are reported in strictly increasing position, at least `N` lexemes apart; every error
but the last carries a repair sequence; a value implies every error does.** For every input and
every recoverer satisfying `RecovererOK`. -/
theorem errors_shape (G : Grammar) (A : Automaton) (w : List Nat) (N : Nat)
    (recover : Pos → Option (Pos × List (List Repair))) (hok : RecovererOK G A w N recover)
    (fuel : Nat) (v : Bool) (errs : List Err)
    (h : recRun G A w recover fuel ⟨[A.start], 0⟩ [] = (v, errs)) :
    Spaced N errs ∧ AllButLastRepaired errs ∧ (v = true → ∀ e ∈ errs, e.repairs ≠ []) := by
  obtain ⟨new, h1, h2, h3, _, h5⟩ := recRun_shape G A w N recover hok fuel _ [] 0 v errs (.zero _) h
  simp only [List.nil_append] at h1
  subst h1
  exact ⟨h2, h3, h5⟩

/-- a spaced list within the input has at most `|w| / N + 1` entries -/
theorem spaced_length_bound (N : Nat) (hN : 0 < N) (len : Nat) :
    ∀ (errs : List Err) (lo : Nat), Spaced N errs → (∀ e ∈ errs, lo ≤ e.pos ∧ e.pos ≤ len) →
      errs.length * N ≤ (len - lo) + N
  | [], _, _, _ => by simp
  | [e], lo, _, hb => by simp
  | e1 :: e2 :: rest, lo, hs, hb => by
    have h1 := hb e1 (by simp)
    have ih := spaced_length_bound N hN len (e2 :: rest) (e1.pos + N) hs.2 (by
      intro e he
      refine ⟨?_, (hb e (List.mem_cons_of_mem _ he)).2⟩
      -- every later error is at or beyond e2, which is beyond e1 + N
      have : ∀ (l : List Err) (x : Err), Spaced N (x :: l) → ∀ y ∈ x :: l, x.pos ≤ y.pos := by
        intro l
        induction l with
        | nil => intro x _ y hy; simp at hy; subst hy; exact Nat.le_refl _
        | cons z zs ihl =>
          intro x hsp y hy
          rcases List.mem_cons.mp hy with rfl | hy
          · exact Nat.le_refl _
          · have := ihl z hsp.2 y hy
            have := hsp.1
            omega
      have := this rest e2 hs.2 e he
      have := hs.1
      omega)
    have h2 := hb e2 (by simp)
    have hs1 := hs.1
    simp only [List.length_cons] at ih ⊢
    have : (rest.length + 1 + 1) * N = (rest.length + 1) * N + N := by
      rw [Nat.add_mul, Nat.one_mul]
    rw [this]
    omega

/-- **The number of errors is bounded by the input length.** -/
theorem errors_bounded (G : Grammar) (A : Automaton) (w : List Nat) (N : Nat) (hN : 0 < N)
    (recover : Pos → Option (Pos × List (List Repair))) (hok : RecovererOK G A w N recover)
    (fuel : Nat) (v : Bool) (errs : List Err)
    (h : recRun G A w recover fuel ⟨[A.start], 0⟩ [] = (v, errs))
    (hpos : ∀ e ∈ errs, e.pos ≤ w.length) : errs.length * N ≤ w.length + N := by
  have hs := (errors_shape G A w N recover hok fuel v errs h).1
  have := spaced_length_bound N hN w.length errs 0 hs (fun e he => ⟨Nat.zero_le _, hpos e he⟩)
  simpa using this

/-- **A value together with an empty error list means the input was accepted unchanged**: the run
never consulted the recoverer, so it is the plain parse. -/
theorem clean_accept (G : Grammar) (A : Automaton) (w : List Nat)
    (recover recover' : Pos → Option (Pos × List (List Repair))) :
    ∀ (fuel : Nat) (c : Pos) (errs : List Err) (v : Bool),
      recRun G A w recover fuel c errs = (v, errs) → recRun G A w recover' fuel c errs = (v, errs) := by
  intro fuel
  induction fuel with
  | zero => intro c errs v h; simpa [recRun] using h
  | succ f ih =>
    intro c errs v h
    simp only [recRun] at h ⊢
    cases hf : feed G A (nextTok G w c.pos) FUEL c.stack with
    | shifted s => rw [hf] at h; simp only at h ⊢; exact ih _ _ _ h
    | accept s => rw [hf] at h; simpa using h
    | crash => rw [hf] at h; simpa using h
    | fuelOut => rw [hf] at h; simpa using h
    | error s =>
      -- an error would have lengthened the error list
      exfalso
      rw [hf] at h
      simp only at h
      have hlen : ∀ (fuel : Nat) (c : Pos) (es : List Err) (v : Bool) (es' : List Err),
          recRun G A w recover fuel c es = (v, es') → es.length ≤ es'.length := by
        intro fuel
        induction fuel with
        | zero => intro c es v es' h; simp only [recRun, Prod.mk.injEq] at h; rw [← h.2]; exact Nat.le_refl _
        | succ g ihg =>
          intro c es v es' h
          simp only [recRun] at h
          cases hf2 : feed G A (nextTok G w c.pos) FUEL c.stack with
          | shifted s => rw [hf2] at h; exact ihg _ _ _ _ h
          | accept s => rw [hf2] at h; simp only [Prod.mk.injEq] at h; rw [← h.2]; exact Nat.le_refl _
          | crash => rw [hf2] at h; simp only [Prod.mk.injEq] at h; rw [← h.2]; exact Nat.le_refl _
          | fuelOut => rw [hf2] at h; simp only [Prod.mk.injEq] at h; rw [← h.2]; exact Nat.le_refl _
          | error s =>
            rw [hf2] at h
            simp only at h
            cases hr : recover ⟨s, c.pos⟩ with
            | none => rw [hr] at h; simp only [Prod.mk.injEq] at h; rw [← h.2]; simp
            | some r =>
              obtain ⟨c', rs⟩ := r
              rw [hr] at h
              simp only at h
              by_cases he : rs.isEmpty = true
              · rw [if_pos he] at h; simp only [Prod.mk.injEq] at h; rw [← h.2]; simp
              · rw [if_neg he] at h
                have := ihg _ _ _ _ h
                simp only [List.length_append, List.length_cons, List.length_nil] at this
                omega
      cases hr : recover ⟨s, c.pos⟩ with
      | none => rw [hr] at h; simp only [Prod.mk.injEq] at h; have := congrArg List.length h.2; simp at this
      | some r =>
        obtain ⟨c', rs⟩ := r
        rw [hr] at h
        simp only at h
        by_cases he : rs.isEmpty = true
        · rw [if_pos he] at h; simp only [Prod.mk.injEq] at h; have := congrArg List.length h.2; simp at this
        · rw [if_neg he] at h
          have := hlen _ _ _ _ _ h
          simp only [List.length_append, List.length_cons, List.length_nil] at this
          omega

/-- **With recovery on, the first error is where recovery off reports its error** (the last clause
of C04, at the level of the driver model): whatever the recoverer does, if the recovering driver
reports a first error `e`, the same driver with a recoverer that always gives up — i.e. recovery
off — stops with exactly one error at `e.pos`. -/
theorem first_error_is_plain_error (G : Grammar) (A : Automaton) (w : List Nat)
    (recover : Pos → Option (Pos × List (List Repair))) :
    ∀ (fuel : Nat) (c : Pos) (v : Bool) (e : Err) (es : List Err),
      recRun G A w recover fuel c [] = (v, e :: es) →
      recRun G A w (fun _ => none) fuel c [] = (false, [⟨e.pos, []⟩]) := by
  intro fuel
  induction fuel with
  | zero => intro c v e es h; simp [recRun] at h
  | succ n ih =>
    intro c v e es h
    simp only [recRun] at h ⊢
    cases hf : feed G A (nextTok G w c.pos) FUEL c.stack with
    | shifted s => rw [hf] at h; exact ih _ v e es h
    | accept s => rw [hf] at h; simp at h
    | crash => rw [hf] at h; simp at h
    | fuelOut => rw [hf] at h; simp at h
    | error s =>
      rw [hf] at h
      simp only [] at h ⊢
      cases hr : recover ⟨s, c.pos⟩ with
      | none =>
        rw [hr] at h
        simp only [List.nil_append, Prod.mk.injEq, List.cons.injEq] at h
        obtain ⟨_, he, _⟩ := h
        rw [← he]; rfl
      | some x =>
        obtain ⟨c', rs⟩ := x
        rw [hr] at h
        simp only [] at h
        by_cases hemp : rs.isEmpty = true
        · rw [if_pos hemp] at h
          simp only [List.nil_append, Prod.mk.injEq, List.cons.injEq] at h
          obtain ⟨_, he, _⟩ := h
          rw [← he]; rfl
        · rw [if_neg hemp] at h
          obtain ⟨rest, hrest⟩ := recRun_acc_prefix G A w recover n c' ([] ++ [⟨c.pos, rs⟩])
          rw [h] at hrest
          simp only [List.nil_append, List.singleton_append, List.cons.injEq] at hrest
          rw [hrest.1]; rfl

/-! ## Liveness: the recovering parse returns -/

/-- **An answer of the instrumented driver is the model's answer.** `recRunO` differs from `recRun`
only in reporting "a fuel ran out / the driver would crash" as `none` instead of `(false, errs)`: when
it answers `some r`, the totalised driver with the same fuel for `feed` answers `r`; at the constant
`FUEL` this is `recRun` itself, so every theorem about `recRun` applies to `r`. No hypothesis. -/
theorem recRunO_sound (G : Grammar) (A : Automaton) (w : List Nat)
    (recover : Pos → Option (Pos × List (List Repair))) (ff fuel : Nat) (c : Pos) (errs : List Err)
    (r : Bool × List Err) (h : recRunO G A w recover ff fuel c errs = some r) :
    recRunF G A w recover ff fuel c errs = r ∧ (ff = FUEL → recRun G A w recover fuel c errs = r) := by
  have h1 := recRunO_some_recRunF G A w recover ff fuel c errs r h
  refine ⟨h1, ?_⟩
  intro hff; subst hff
  rw [← recRunF_FUEL]; exact h1

/-- **More fuel gives the same answer**: once the instrumented driver answers `some r`, it answers
`some r` for every larger fuel of the loop and every larger fuel of `feed`. For every automaton, input
and recoverer. -/
theorem recRunO_mono (G : Grammar) (A : Automaton) (w : List Nat)
    (recover : Pos → Option (Pos × List (List Repair))) (ff ff' fuel fuel' : Nat) (c : Pos)
    (errs : List Err) (r : Bool × List Err) (hff : ff ≤ ff') (hfuel : fuel ≤ fuel')
    (h : recRunO G A w recover ff fuel c errs = some r) :
    recRunO G A w recover ff' fuel' c errs = some r :=
  recRunO_mono' G A w recover ff ff' hff fuel c errs r h fuel' hfuel

/-- **The answer is unique**: whatever fuels make the instrumented driver answer, the answer is the
same — "the result of the recovering parse" is well defined. -/
theorem recRunO_unique (G : Grammar) (A : Automaton) (w : List Nat)
    (recover : Pos → Option (Pos × List (List Repair))) (ff₁ ff₂ fuel₁ fuel₂ : Nat) (c : Pos)
    (errs : List Err) (r₁ r₂ : Bool × List Err)
    (h₁ : recRunO G A w recover ff₁ fuel₁ c errs = some r₁)
    (h₂ : recRunO G A w recover ff₂ fuel₂ c errs = some r₂) : r₁ = r₂ := by
  have a := recRunO_mono G A w recover ff₁ (max ff₁ ff₂) fuel₁ (max fuel₁ fuel₂) c errs r₁
    (Nat.le_max_left _ _) (Nat.le_max_left _ _) h₁
  have b := recRunO_mono G A w recover ff₂ (max ff₁ ff₂) fuel₂ (max fuel₁ fuel₂) c errs r₂
    (Nat.le_max_right _ _) (Nat.le_max_right _ _) h₂
  rw [a] at b
  exact Option.some.inj b

/-- **A recoverer that continues from a valid sequence satisfies the hypotheses of liveness**
(`recovering_parse_returns`). If, whenever the recoverer reports sequences, the configuration it continues from is the
one `applySeq` reaches with a sequence that repairs (`validSeq`, which C05 validates for every
sequence the real recoverer reports; the real parser continues from the first one) and that inserts
only tokens of the grammar, then on a certified automaton and an input of real tokens it is
`RecovererOK` (by `C05.validSeq_runs`) and it hands back stacks that are paths of the automaton
whenever it is given one (by `Term.stepClosed_isPath` through `feed_path`). -/
theorem valid_recoverer_ok (G : Grammar) (A : Automaton) (hc : Cert.check G A = true) (w : List Nat)
    (hw : Cert.InputOk G w) (K : Nat) (recover : Pos → Option (Pos × List (List Repair)))
    (hv : ContinuesFromValid G A w K recover) :
    RecovererOK G A w K recover ∧
    (∀ c c' rs, Term.IsPath A c.stack → recover c = some (c', rs) → rs ≠ [] → Term.IsPath A c'.stack) := by
  have P := Cert.check_props G A hc
  constructor
  · intro c c' rs hrec hne
    obtain ⟨r, _, hval, happ⟩ := hv c c' rs hrec hne
    obtain ⟨c'', happ', hpos, hruns⟩ := C05.validSeq_runs G A w K c r hval
    rw [happ] at happ'
    injection happ' with happ'; subst happ'
    exact ⟨hpos, hruns⟩
  · intro c c' rs hp hrec hne
    obtain ⟨r, hins, _, happ⟩ := hv c c' rs hrec hne
    exact applySeq_isPath P hw r c c' hins hp happ

/-- **A parse with recovery always returns** (liveness of the driver model). On an automaton that
passes `Cert.check` and the termination certificate `Term.termCheckAdj G A N` (both evaluated by the
driver on the automaton of every case; the certificate holds exactly when the table has no reduction
loop, cf. `C01.cert_cycle_parse_diverges`), for every input `w` of real tokens and every recoverer
that is `RecovererOK` with `K ≥ 1` (the real one: `K = 3`) and hands back path stacks (both hold for
recoverers that continue from a valid sequence: `valid_recoverer_ok`), the instrumented driver
`recRunO` — `none` = loop fuel exhausted, `feed` out of fuel, or crash — answers: there is a threshold
`ff0` for the fuel of `feed` and a result `r` such that every `ff ≥ ff0` and every loop fuel
`≥ 2·|w| + 2` give `some r`. The bound: an iteration shifts a real lexeme, accepts, gives up, or
recovers, and the iteration after a recovery shifts or accepts because the plain parse `Runs K ≥ 1`
lexemes from there. The recoverer's own search is a parameter here: that IT returns is the time
budget of the real code, outside this model. -/
theorem recovering_parse_returns (G : Grammar) (A : Automaton) (hc : Cert.check G A = true) (N : Nat)
    (ht : Term.termCheckAdj G A N = true) (w : List Nat) (hw : Cert.InputOk G w) (K : Nat) (hK : 1 ≤ K)
    (recover : Pos → Option (Pos × List (List Repair))) (hok : RecovererOK G A w K recover)
    (hpath : ∀ c c' rs, Term.IsPath A c.stack → recover c = some (c', rs) → rs ≠ [] → Term.IsPath A c'.stack) :
    ∃ ff0 r, ∀ ff fuel, ff0 ≤ ff → 2 * w.length + 2 ≤ fuel →
      recRunO G A w recover ff fuel ⟨[A.start], 0⟩ [] = some r := by
  obtain ⟨ff0, r, h⟩ := recRunO_returns (Cert.check_props G A hc) ht hw K hK recover hok hpath
    (2 * w.length + 2) ⟨[A.start], 0⟩ [] (Term.IsPath.start A) (Or.inl (by simp))
  exact ⟨ff0, r, fun ff fuel hff hfuel =>
    recRunO_mono G A w recover ff ff _ fuel _ [] r (Nat.le_refl _) hfuel (h ff hff)⟩

/-- **A value is returned iff every error carries a repair sequence**, for a run that really ended
(`recRunO … = some (v, errs)`, i.e. not by a fuel): with a value every error has a repair sequence;
without a value the LAST error has none — the driver gave up there — so not every error has one. For
every automaton, input and recoverer; no certificate needed. (For the totalised `recRun` only the
first direction holds: it also answers "no value" when a fuel runs out.) -/
theorem value_iff_all_repaired (G : Grammar) (A : Automaton) (w : List Nat)
    (recover : Pos → Option (Pos × List (List Repair))) (ff fuel : Nat) (v : Bool) (errs : List Err)
    (h : recRunO G A w recover ff fuel ⟨[A.start], 0⟩ [] = some (v, errs)) :
    (v = true ↔ ∀ e ∈ errs, e.repairs ≠ []) ∧
    (v = false → ∃ e, errs.getLast? = some e ∧ e.repairs = []) := by
  obtain ⟨new, h1, h2, h3⟩ := recRunO_outcome G A w recover ff fuel _ [] v errs h
  simp only [List.nil_append] at h1
  subst h1
  refine ⟨⟨h2, ?_⟩, h3⟩
  intro hall
  cases v with
  | true => rfl
  | false =>
    obtain ⟨e, hl, hrep⟩ := h3 rfl
    exact absurd hrep (hall e (List.mem_of_getLast? hl))

/-- **The shape of a run that ended** (`errors_shape`, `errors_bounded` for `recRunO`, any fuels):
if the instrumented driver answers `some (v, errs)` then the errors are `K` lexemes apart in strictly
increasing position, all but the last carry a repair sequence, and a value is returned iff all do.
Hypothesis: `RecovererOK` only. -/
theorem recRunO_shape (G : Grammar) (A : Automaton) (w : List Nat) (K : Nat)
    (recover : Pos → Option (Pos × List (List Repair))) (hok : RecovererOK G A w K recover)
    (ff fuel : Nat) (v : Bool) (errs : List Err)
    (h : recRunO G A w recover ff fuel ⟨[A.start], 0⟩ [] = some (v, errs)) :
    Spaced K errs ∧ AllButLastRepaired errs ∧ (v = true ↔ ∀ e ∈ errs, e.repairs ≠ []) := by
  have h' := recRunO_mono G A w recover ff (max ff FUEL) fuel fuel _ [] _ (Nat.le_max_left _ _)
    (Nat.le_refl _) h
  have hF := (recRunO_sound G A w recover _ fuel _ [] _ h').1
  obtain ⟨new, h1, h2, h3, _, _⟩ := recRunF_shape G A w K recover hok (max ff FUEL) (Nat.le_max_right _ _)
    fuel _ [] 0 v errs (.zero _) hF
  simp only [List.nil_append] at h1
  subst h1
  exact ⟨h2, h3, (value_iff_all_repaired G A w recover ff fuel v _ h).1⟩

/-- **The recovering parse has one result, and it has the shape the property describes.** Under the
hypotheses of `recovering_parse_returns` there is a pair `(v, errs)` such that
(1) the instrumented driver returns it for all sufficiently large fuels (`2·|w| + 2` loop iterations
    suffice), and whenever it returns anything, with any fuels, it returns this pair;
(2) the errors are at least `K` lexemes apart in strictly increasing position, all within the input
    (position `|w|` = end of input), so there are at most `|w|/K + 1` of them;
(3) every error except possibly the last carries a repair sequence;
(4) a value is returned iff every error carries a repair sequence, and if no value is returned the
    last error carries none. -/
theorem recovering_parse_result (G : Grammar) (A : Automaton) (hc : Cert.check G A = true) (N : Nat)
    (ht : Term.termCheckAdj G A N = true) (w : List Nat) (hw : Cert.InputOk G w) (K : Nat) (hK : 1 ≤ K)
    (recover : Pos → Option (Pos × List (List Repair))) (hok : RecovererOK G A w K recover)
    (hpath : ∀ c c' rs, Term.IsPath A c.stack → recover c = some (c', rs) → rs ≠ [] → Term.IsPath A c'.stack) :
    ∃ v errs,
      (∃ ff0, ∀ ff fuel, ff0 ≤ ff → 2 * w.length + 2 ≤ fuel →
        recRunO G A w recover ff fuel ⟨[A.start], 0⟩ [] = some (v, errs)) ∧
      (∀ ff fuel r, recRunO G A w recover ff fuel ⟨[A.start], 0⟩ [] = some r → r = (v, errs)) ∧
      Spaced K errs ∧ (∀ e ∈ errs, e.pos ≤ w.length) ∧ errs.length * K ≤ w.length + K ∧
      AllButLastRepaired errs ∧
      (v = true ↔ ∀ e ∈ errs, e.repairs ≠ []) ∧
      (v = false → ∃ e, errs.getLast? = some e ∧ e.repairs = []) := by
  obtain ⟨ff0, ⟨v, errs⟩, h⟩ := recovering_parse_returns G A hc N ht w hw K hK recover hok hpath
  have h0 := h (max ff0 FUEL) (2 * w.length + 2) (Nat.le_max_left _ _) (Nat.le_refl _)
  obtain ⟨hs, hab, hiff⟩ := recRunO_shape G A w K recover hok _ _ v errs h0
  obtain ⟨new, hn1, hn2⟩ := recRunO_err_pos (Cert.check_props G A hc) hw K hK recover hok hpath
    (max ff0 FUEL) (Nat.le_max_right _ _) _ ⟨[A.start], 0⟩ [] (v, errs) (Term.IsPath.start A)
    (Or.inl (Nat.zero_le _)) h0
  simp only [List.nil_append] at hn1
  subst hn1
  refine ⟨v, errs, ⟨ff0, h⟩, ?_, hs, hn2, ?_, hab, hiff, (value_iff_all_repaired G A w recover _ _ v errs h0).2⟩
  · intro ff fuel r hr
    exact recRunO_unique G A w recover _ _ _ _ _ [] _ _ hr h0
  · have := spaced_length_bound K (by omega) w.length errs 0 hs (fun e he => ⟨Nat.zero_le _, hn2 e he⟩)
    simpa using this

/-! ## Capstone: the modelled recoverer satisfies the hypotheses of liveness and shape

`Cpct.cpctRecover` (`Model/Cpct.lean`) is the model of `CPCTPlus::recover` (`SearchImpl.recoverImpl`,
proved in C06) seen through the interface of the recovering driver; `Cpct.cpctRecoverAt` is its
restriction to the configurations at which `Parser::lr` calls `recover` (`Cpct.errCfg`; the restriction
cannot be observed in a run: `C05.cpct_restriction_invisible`). The recoverer is a function — total —
whatever its search budget `sfuel`: a search that runs out of budget reports nothing, like the real one
that runs out of time. A modelled PANIC of the recoverer would also count as "reports nothing"
(`Cpct.cpctOutcome` tells the cases apart) — but it does not occur: every configuration a run hands to
the recoverer is an error configuration whose stack is a path of the automaton, and there the model of
`recover` never panics (`C06.recover_never_panics`, `Lemmas/NoPanic1–2.lean`); the capstones below say
so for every call of the run. -/

section Capstone
open Cpct SearchImpl RankImpl

/-- **(c) The modelled recoverer is a well-behaved recoverer.** On an automaton that passes
`Cert.check`, with `stateActionsExactB` (decidable), every token costing at least 1 and
`PARSE_AT_LEAST = E.N ≥ 1`, for an input of real tokens, any `HashSet` order, `%avoid_insert` set,
lexeme offsets, window and search budget: `cpctRecoverAt` is `ContinuesFromValid` (it continues from
`applySeq` of its first sequence, which satisfies `validSeq … PARSE_AT_LEAST` and inserts only tokens
of the grammar), hence `RecovererOK … PARSE_AT_LEAST` (never moves backwards; from where it leaves the
parser a plain parse runs `PARSE_AT_LEAST` lexemes or accepts) and hands back path stacks; and the
same holds of the unrestricted `cpctRecover` at every configuration at which `Parser::lr` calls
`recover`. -/
theorem cpct_recoverer_ok (E : Env) (hc : Cert.check E.G E.A = true)
    (hsa : stateActionsExactB E.G E.A = true) (hcost : ∀ t, 1 ≤ E.cost t) (hN : 1 ≤ E.N)
    (hs : List Seq → List Seq) (hhs : HashSetLike hs) (avoid : Nat → Bool) (lexStart : Nat → Nat)
    (win sfuel : Nat) (hw : Cert.InputOk E.G E.w) :
    ContinuesFromValid E.G E.A E.w E.N (cpctRecoverAt E hs avoid lexStart win sfuel) ∧
    RecovererOK E.G E.A E.w E.N (cpctRecoverAt E hs avoid lexStart win sfuel) ∧
    (∀ c c' rs, Term.IsPath E.A c.stack → cpctRecoverAt E hs avoid lexStart win sfuel c = some (c', rs) →
      rs ≠ [] → Term.IsPath E.A c'.stack) ∧
    (∀ c c' rs, errCfg E.G E.A E.w c = true → cpctRecover E hs avoid lexStart win sfuel c = some (c', rs) →
      c.pos ≤ c'.pos ∧ Runs E.G E.A E.w E.N c' ∧ (Term.IsPath E.A c.stack → Term.IsPath E.A c'.stack)) := by
  have hT := tableOK_of_cert hc hsa hcost hN
  have hv := cpctAt_continuesFromValid (avoid := avoid) (lexStart := lexStart) (win := win)
    (fuel := sfuel) hT hhs
  obtain ⟨h1, h2⟩ := valid_recoverer_ok E.G E.A hc E.w hw E.N _ hv
  refine ⟨hv, h1, h2, ?_⟩
  intro c c' rs he h
  rw [← cpctAt_of_errCfg he] at h
  obtain ⟨out, _, hne, rfl⟩ := cpct_some_unpack (cpctAt_some h).2
  have hne' : eraseAll out ≠ [] := by
    intro e; simp only [eraseAll, List.map_eq_nil_iff] at e; exact hne e
  obtain ⟨ha, hb⟩ := h1 c c' _ h hne'
  exact ⟨ha, hb, fun hp => h2 c c' _ hp h hne'⟩

/-- **Capstone: the model of the whole recovering parser returns.** `recovering_parse_returns` for
`recover := cpctRecover …`: on an automaton that passes `Cert.check` and the termination certificate
`Term.termCheckAdj`, with `stateActionsExactB`, costs ≥ 1 and `PARSE_AT_LEAST ≥ 1`, for every input of
real tokens, `HashSet` order, `%avoid_insert` set, window and search budget, the instrumented driver
answers: there are a threshold `ff0` for the fuel of `feed` and a result `r` such that every `ff ≥ ff0`
and every loop fuel `≥ 2·|w| + 2` give `some r`. AND NO CALL OF THE RECOVERER PANICS: for every driver
fuel, every configuration at which the run consults the recoverer (`Cpct.recCalls`) is an error
configuration whose stack is a path of the automaton, and the outcome of the modelled `recover` there is
`repaired`, `noRepair` or `outOfBudget`, never `panicked` — so "the model returns" is not owed to the
totalisation of a panic. Hypotheses on the table and the costs only. -/
theorem cpct_recovering_parse_returns (E : Env) (hc : Cert.check E.G E.A = true) (M : Nat)
    (ht : Term.termCheckAdj E.G E.A M = true) (hsa : stateActionsExactB E.G E.A = true)
    (hcost : ∀ t, 1 ≤ E.cost t) (hN : 1 ≤ E.N)
    (hs : List Seq → List Seq) (hhs : HashSetLike hs) (avoid : Nat → Bool) (lexStart : Nat → Nat)
    (win sfuel : Nat) (hw : Cert.InputOk E.G E.w) :
    (∃ ff0 r, ∀ ff fuel, ff0 ≤ ff → 2 * E.w.length + 2 ≤ fuel →
      recRunO E.G E.A E.w (cpctRecover E hs avoid lexStart win sfuel) ff fuel ⟨[E.A.start], 0⟩ [] = some r) ∧
    (∀ fuel, ∀ c ∈ recCalls E.G E.A E.w (cpctRecover E hs avoid lexStart win sfuel) fuel ⟨[E.A.start], 0⟩,
      errCfg E.G E.A E.w c = true ∧ Term.IsPath E.A c.stack ∧
      cpctOutcome E hs avoid lexStart win sfuel c ≠ .panicked) := by
  have hT := tableOK_of_cert hc hsa hcost hN
  obtain ⟨_, h1, h2, _⟩ := cpct_recoverer_ok E hc hsa hcost hN hs hhs avoid lexStart win sfuel hw
  obtain ⟨ff0, r, h⟩ := recovering_parse_returns E.G E.A hc M ht E.w hw E.N hN _ h1 h2
  refine ⟨⟨ff0, r, fun ff fuel hff hfuel => ?_⟩, fun fuel =>
    cpct_calls_never_panic hT (Cert.check_props E.G E.A hc) hw hhs fuel _ (Term.IsPath.start E.A)
      (Nat.zero_le _)⟩
  rw [recRunO_cpct_guard hT hhs ff fuel _ [] (Nat.zero_le _)]
  exact h ff fuel hff hfuel

/-- **Capstone: the model of the whole recovering parser has one result, of the documented shape.**
`recovering_parse_result` for `recover := cpctRecover …` and `K = PARSE_AT_LEAST`; hypotheses as in
`cpct_recovering_parse_returns`. There is a pair `(v, errs)` such that the run returns it for all
large enough fuels (`2·|w| + 2` iterations suffice) and never anything else; the errors are at least
`PARSE_AT_LEAST` lexemes apart in strictly increasing position, all within the input, at most
`|w|/PARSE_AT_LEAST + 1` of them; every error but possibly the last carries a repair sequence; a value
is returned iff every error does, and without a value the last error carries none; and at no call of
the recoverer during the run (any driver fuel) did the model of `recover` panic — an error without
repair sequences is one where no repair exists or the budget ran out. -/
theorem cpct_recovering_parse_result (E : Env) (hc : Cert.check E.G E.A = true) (M : Nat)
    (ht : Term.termCheckAdj E.G E.A M = true) (hsa : stateActionsExactB E.G E.A = true)
    (hcost : ∀ t, 1 ≤ E.cost t) (hN : 1 ≤ E.N)
    (hs : List Seq → List Seq) (hhs : HashSetLike hs) (avoid : Nat → Bool) (lexStart : Nat → Nat)
    (win sfuel : Nat) (hw : Cert.InputOk E.G E.w) :
    ∃ v errs,
      (∃ ff0, ∀ ff fuel, ff0 ≤ ff → 2 * E.w.length + 2 ≤ fuel →
        recRunO E.G E.A E.w (cpctRecover E hs avoid lexStart win sfuel) ff fuel ⟨[E.A.start], 0⟩ [] =
          some (v, errs)) ∧
      (∀ ff fuel r, recRunO E.G E.A E.w (cpctRecover E hs avoid lexStart win sfuel) ff fuel
        ⟨[E.A.start], 0⟩ [] = some r → r = (v, errs)) ∧
      Spaced E.N errs ∧ (∀ e ∈ errs, e.pos ≤ E.w.length) ∧ errs.length * E.N ≤ E.w.length + E.N ∧
      AllButLastRepaired errs ∧
      (v = true ↔ ∀ e ∈ errs, e.repairs ≠ []) ∧
      (v = false → ∃ e, errs.getLast? = some e ∧ e.repairs = []) ∧
      (∀ fuel, ∀ c ∈ recCalls E.G E.A E.w (cpctRecover E hs avoid lexStart win sfuel) fuel ⟨[E.A.start], 0⟩,
        cpctOutcome E hs avoid lexStart win sfuel c ≠ .panicked) := by
  have hT := tableOK_of_cert hc hsa hcost hN
  obtain ⟨_, h1, h2, _⟩ := cpct_recoverer_ok E hc hsa hcost hN hs hhs avoid lexStart win sfuel hw
  obtain ⟨v, errs, ⟨ff0, ha⟩, hb, hrest⟩ := recovering_parse_result E.G E.A hc M ht E.w hw E.N hN _ h1 h2
  have hnp := (cpct_recovering_parse_returns E hc M ht hsa hcost hN hs hhs avoid lexStart win sfuel hw).2
  obtain ⟨r1, r2, r3, r4, r5, r6⟩ := hrest
  have hrest := And.intro r1 (And.intro r2 (And.intro r3 (And.intro r4 (And.intro r5
    (And.intro r6 (fun fuel c hc' => (hnp fuel c hc').2.2))))))
  have heq : ∀ ff fuel, recRunO E.G E.A E.w (cpctRecover E hs avoid lexStart win sfuel) ff fuel ⟨[E.A.start], 0⟩ [] =
      recRunO E.G E.A E.w (cpctRecoverAt E hs avoid lexStart win sfuel) ff fuel ⟨[E.A.start], 0⟩ [] :=
    fun ff fuel => recRunO_cpct_guard hT hhs ff fuel _ [] (Nat.zero_le _)
  refine ⟨v, errs, ⟨ff0, fun ff fuel hff hfuel => ?_⟩, fun ff fuel r hr => ?_, hrest⟩
  · rw [heq]; exact ha ff fuel hff hfuel
  · rw [heq] at hr; exact hb ff fuel r hr

end Capstone

/-! ### tests: the hypotheses are satisfiable (non-vacuity)

`^ : S; S : 'a' 'b';` (tokens `a` = 0, `b` = 1, end of input = 2) with its LR(0) automaton and table,
and the recoverer `recoverBy` that tries four fixed candidate sequences and keeps those that repair. -/
private def exG : Grammar := ⟨3, 2, 2, 0, [(0, [.rule 1]), (1, [.tok 0, .tok 1])], [], []⟩
private def exA : Automaton :=
  ⟨0, [⟨[⟨0, 0, [2]⟩], [⟨0, 0, [2]⟩, ⟨1, 0, [2]⟩], [(.rule 1, 1), (.tok 0, 2)], [.shift 2, .error, .error], [none, some 1], [], [], [], false⟩,
       ⟨[⟨0, 1, [2]⟩], [⟨0, 1, [2]⟩], [], [.error, .error, .accept], [none, none], [], [], [], false⟩,
       ⟨[⟨1, 1, [2]⟩], [⟨1, 1, [2]⟩], [(.tok 1, 3)], [.error, .shift 3, .error], [none, none], [], [], [], false⟩,
       ⟨[⟨1, 2, [2]⟩], [⟨1, 2, [2]⟩], [], [.error, .error, .reduce 1], [none, none], [], [], [], true⟩], [], []⟩
private def exCands : Pos → List (List Repair) :=
  fun _ => [[.insert 1], [.delete], [.insert 0], [.delete, .delete]]

example : Cert.check exG exA = true := by decide
example : Term.termCheckAdj exG exA 8 = true := by decide

private theorem exCands_ok : ∀ c, ∀ r ∈ exCands c, InsertsOk exG r := by
  intro c r hr t ht
  simp only [exCands, List.mem_cons, List.not_mem_nil, or_false] at hr
  rcases hr with rfl | rfl | rfl | rfl <;> simp at ht <;> subst ht <;> decide

/-- test: for EVERY input of this grammar the hypotheses of `recovering_parse_returns` hold for the
recoverer `recoverBy … exCands` with `K = 3`, so its parse returns -/
example (w : List Nat) (hw : Cert.InputOk exG w) :
    ∃ ff0 r, ∀ ff fuel, ff0 ≤ ff → 2 * w.length + 2 ≤ fuel →
      recRunO exG exA w (recoverBy exG exA w 3 exCands) ff fuel ⟨[exA.start], 0⟩ [] = some r :=
  have hv := valid_recoverer_ok exG exA (by decide) w hw 3 _
    (recoverBy_continues exG exA w 3 exCands exCands_ok)
  recovering_parse_returns exG exA (by decide) 8 (by decide) w hw 3 (by omega) _ hv.1 hv.2

/-- the positions and the number of repair sequences of each error, for comparison by `decide` -/
private def summary (r : Option (Bool × List Err)) : Option (Bool × List (Nat × Nat)) :=
  r.map (fun x => (x.1, x.2.map (fun e => (e.pos, e.repairs.length))))

/-- tests: `a` (the `b` is missing: one error at end of input, repaired by inserting `b`, a value);
`b a b` (a stray `b` first: deleted, a value); `b b` (no candidate repairs: one error without repairs,
no value); within the bound `2·|w| + 2`, and `none` with one iteration less on the first -/
example : summary (recRunO exG exA [0] (recoverBy exG exA [0] 3 exCands) FUEL 4 ⟨[0], 0⟩ []) = some (true, [(1, 1)]) := by decide
example : summary (recRunO exG exA [0] (recoverBy exG exA [0] 3 exCands) FUEL 2 ⟨[0], 0⟩ []) = none := by decide
example : summary (recRunO exG exA [1, 0, 1] (recoverBy exG exA [1, 0, 1] 3 exCands) FUEL 8 ⟨[0], 0⟩ []) = some (true, [(0, 1)]) := by decide
example : summary (recRunO exG exA [1, 1] (recoverBy exG exA [1, 1] 3 exCands) FUEL 6 ⟨[0], 0⟩ []) = some (false, [(0, 0)]) := by decide


/-! ### tests for the capstone (`Lemmas/CpctEx.lean`: the certified merged LALR table of
`S: x A c | y A d | x B f | y B g; A: a; B: a e` with its `state_actions` view; input `x a d`) -/

section CapstoneTests
open Cpct SearchImpl RankImpl C05

example : Cert.check exG2 exA3 = true := (wholeRunCert_unpack ex3_cert).1
example : Term.termCheckAdj exG2 exA3 20 = true := by decide
/-- the modelled recoverer satisfies the hypotheses of liveness on this instance, from the theorem -/
example : RecovererOK exG2 exA3 [0, 2, 4] 3 (cpctRecoverAt exE dedup (fun _ => false) (fun i => 3 * i + 1) 250 200) :=
  (cpct_recoverer_ok exE (wholeRunCert_unpack ex3_cert).1 ex3_sa ex3_cost (by decide) dedup hashSetLike_dedup
    (fun _ => false) (fun i => 3 * i + 1) 250 200 ex3_inputOk).2.1
/-- the parse returns (from the theorem), within `2·|w| + 2 = 8` iterations … -/
example : ∃ ff0 r, ∀ ff fuel, ff0 ≤ ff → 8 ≤ fuel →
    recRunO exG2 exA3 [0, 2, 4] exRec ff fuel ⟨[0], 0⟩ [] = some r :=
  (cpct_recovering_parse_returns exE (wholeRunCert_unpack ex3_cert).1 20 (by decide) ex3_sa ex3_cost (by decide) dedup
    hashSetLike_dedup (fun _ => false) (fun i => 3 * i + 1) 250 200 ex3_inputOk).1
/-- … and the one call of the recoverer during the run did not panic (from the theorem; by evaluation its
outcome is `repaired`) -/
example : ∀ c ∈ recCalls exG2 exA3 [0, 2, 4] exRec 10 ⟨[0], 0⟩,
    cpctOutcome exE dedup (fun _ => false) (fun i => 3 * i + 1) 250 200 c ≠ .panicked := fun c hc =>
  ((cpct_recovering_parse_returns exE (wholeRunCert_unpack ex3_cert).1 20 (by decide) ex3_sa ex3_cost (by decide) dedup
    hashSetLike_dedup (fun _ => false) (fun i => 3 * i + 1) 250 200 ex3_inputOk).2 10 c hc).2.2
example : (recCalls exG2 exA3 [0, 2, 4] exRec 10 ⟨[0], 0⟩).map
    (cpctOutcome exE dedup (fun _ => false) (fun i => 3 * i + 1) 250 200) = [.repaired] := by decide +kernel
/-- … and by evaluation: one error at `d`, repaired, a value; `none` with too few iterations -/
example : recRunO exG2 exA3 [0, 2, 4] exRec FUEL 8 ⟨[0], 0⟩ [] = some (true, [⟨2, [[.insert 3, .delete]]⟩]) := by
  decide +kernel
example : recRunO exG2 exA3 [0, 2, 4] exRec FUEL 3 ⟨[0], 0⟩ [] = none := by decide +kernel
/-- a search budget that is too small: the recoverer reports nothing, the parse still returns — without
a value, its last error unrepaired -/
example : recRunO exG2 exA3 [0, 2, 4] (cpctRecover exE dedup (fun _ => false) (fun i => 3 * i + 1) 250 3) FUEL 8
    ⟨[0], 0⟩ [] = some (false, [⟨2, []⟩]) := by decide +kernel

end CapstoneTests

end GrmVerif.C07
