import GrmVerif.Lemmas.LRSound
import GrmVerif.Lemmas.LRComplete2
import GrmVerif.Lemmas.Term2
import GrmVerif.Props.C17
/-!
# C01 — a generated parser recognises exactly the grammar's language

`Cert.check G A` is the validator evaluated on the automaton and table the real code built
(`Model/Cert.lean`); `LR.parse` is the model of `Parser::lr` (`Model/LR.lean`), compared with the
real parser on every generated input. The theorems hold for EVERY input `w`, every fuel.
-/
namespace GrmVerif.C01
open GrmVerif Cert LR Spec Ref

theorem run_inv {G : Grammar} {A : Automaton} (P : Props G A) {w : List Nat} (hw : InputOk G w) :
    ∀ (fuel : Nat) (c : Cfg), Inv G A w c →
      (∀ n, run G A w fuel c ≠ .crash n) ∧
      (∀ t, run G A w fuel c = .accept t →
        Tree.valid G t = true ∧ (∃ S, G.rhs G.startProd = [.rule S] ∧ Tree.root G t = .rule S) ∧
          Tree.yield t = w) := by
  intro fuel
  induction fuel with
  | zero =>
    intro c _
    refine ⟨?_, ?_⟩
    · intro n h; simp [run] at h
    · intro t h; simp [run] at h
  | succ k ih =>
    intro c hinv
    obtain ⟨h1, h2, h3⟩ := step_inv P hw hinv
    simp only [run]
    cases hs : step G A w c with
    | cont c' => exact ih c' (h1 c' hs)
    | done o =>
      refine ⟨?_, ?_⟩
      · intro n hn; subst hn; exact h2 n hs
      · intro t ht; subst ht; exact h3 t hs

/-- **Soundness.** On a certified automaton, whatever the parser accepts is a valid derivation of
exactly the input from the user's start rule: every node's children spell one production of its
rule (`Tree.valid`), the root is the start rule `S` of `^ : S`, and the leaves are the input
lexemes in order. -/
theorem lr_sound (G : Grammar) (A : Automaton) (hc : check G A = true) (w : List Nat) (hw : InputOk G w)
    (fuel : Nat) (t : Tree) (h : parse G A w fuel = .accept t) :
    Tree.valid G t = true ∧ (∃ S, G.rhs G.startProd = [.rule S] ∧ Tree.root G t = .rule S) ∧
      Tree.yield t = w :=
  (run_inv (check_props G A hc) hw fuel (init A) (inv_init w)).2 t h

/-- **No crash.** On a certified automaton the driver never hits a stack underflow, a missing goto
or a malformed accept, for any input. -/
theorem lr_no_crash (G : Grammar) (A : Automaton) (hc : check G A = true) (w : List Nat) (hw : InputOk G w)
    (fuel : Nat) (n : Nat) : parse G A w fuel ≠ .crash n :=
  (run_inv (check_props G A hc) hw fuel (init A) (inv_init w)).1 n

/-- `w` is a sentence: some valid tree rooted at the user's start rule has yield `w` -/
def Sentence (G : Grammar) (w : List Nat) : Prop :=
  ∃ T S, Tree.valid G T = true ∧ G.rhs G.startProd = [.rule S] ∧ Tree.root G T = .rule S ∧ Tree.yield T = w

/-- **Completeness.** On an automaton that passes the certificate and its lookahead half `checkLA`
(LR(1) closure/edge lookaheads, and a table that holds every candidate action — which is what
"construction reports no conflicts" means for a table without precedence-resolved cells), every
sentence is accepted, and the tree returned is the sentence's own derivation tree (same shape:
the grammar is unambiguous). `N`, `F` are the verified nullable/FIRST sets of C17. -/
theorem lr_complete (G : Grammar) (A : Automaton) (hc : check G A = true)
    (An : Analyses) (hAn : analyses G = some An)
    (hla : checkLA G A (An.nullable.contains ·) (An.first.contains ·) = true)
    (w : List Nat) (hw : InputOk G w) (T : Tree) (S : Nat)
    (hv : Tree.valid G T = true) (hS : G.rhs G.startProd = [.rule S]) (hroot : Tree.root G T = .rule S)
    (hy : Tree.yield T = w) :
    ∃ fuel T', parse G A w fuel = .accept T' ∧ shape T' = shape T := by
  have P := check_props G A hc
  have PL := checkLA_props G A _ _ hla
  obtain ⟨hn, hf, _⟩ := C17.analyses_exact G P.wf An hAn
  have hN : ∀ r, (fun x => An.nullable.contains x) r = true ↔ NullableR G r := by intro r; simpa using hn r
  have hF : ∀ r t, (fun x => An.first.contains x) (r, t) = true ↔ FirstP G r t := by intro r t; simpa using hf r t
  -- the start item with end-of-input in its lookahead
  obtain ⟨k, hk, hkp, hkd⟩ := P.startHas
  obtain ⟨i, hi, hip, hid, hila⟩ := PL.coreLA A.start P.startLt k hk
  have heof : G.eof ∈ i.la := hila _ (PL.startLA k hk)
  have hsym : symAt G i.p i.dot = some (Tree.root G T) := by
    rw [hip, hkp, hid, hkd, hroot]; simp [symAt, hS]
  have hdrop : w.drop (init A).laidx = Tree.yield T ++ [] := by simp [init, hy]
  have hnext : nextTok G w ((init A).laidx + (Tree.yield T).length) = G.eof := by
    rw [hy]; exact (nextTok_eof hw _).mpr (by simp [init])
  have hcompat : firstSeqL (fun x => An.nullable.contains x) (fun x => An.first.contains x)
      ((G.rhs i.p).drop (i.dot + 1)) i.la (nextTok G w ((init A).laidx + (Tree.yield T).length)) = true := by
    rw [hnext, hip, hkp, hid, hkd, hS]
    simp [firstSeqL, seqNullable, heof]
  obtain ⟨s', T', j, hsteps, hs', hshape, hj, hjp, hjd, hjla⟩ :=
    tree_run P PL hN hF hw T hv (init A) A.start [] i [] rfl P.startLt hi hsym hdrop hcompat
  -- in the reached state `[^ → S .]` with end-of-input: accept
  have hcomplete : symAt G j.p j.dot = none := by
    rw [hjp, hip, hkp, hjd, hid, hkd]; simp [symAt, hS]
  have hacc := PL.actAcceptC s' hs' j hj hcomplete (by rw [hjp, hip, hkp]) G.eof (hjla _ heof)
  have hT' : ∃ p kids, T' = .node p kids := by
    cases T with
    | leaf t i => simp [Tree.root] at hroot
    | node p kids =>
      cases T' with
      | leaf t i => simp [shape] at hshape
      | node p' kids' => exact ⟨p', kids', rfl⟩
  obtain ⟨p', kids', rfl⟩ := hT'
  have hdone : step G A w ⟨[s', A.start], [.node p' kids'], (init A).laidx + (Tree.yield T).length⟩ =
      .done (.accept (.node p' kids')) := by
    simp only [step, hnext, hacc, List.getLast?_singleton]
  obtain ⟨fuel, hfuel⟩ := run_of_steps (by simpa [init] using hsteps) hdone
  exact ⟨fuel, _, hfuel, hshape⟩

/-- **The parser recognises exactly the language** (certified, conflict-free table): an input is
accepted (for some fuel) iff it is a sentence. In particular every non-sentence is rejected. -/
theorem lr_accepts_iff_sentence (G : Grammar) (A : Automaton) (hc : check G A = true)
    (An : Analyses) (hAn : analyses G = some An)
    (hla : checkLA G A (An.nullable.contains ·) (An.first.contains ·) = true)
    (w : List Nat) (hw : InputOk G w) :
    (∃ fuel t, parse G A w fuel = .accept t) ↔ Sentence G w := by
  constructor
  · rintro ⟨fuel, t, h⟩
    obtain ⟨h1, ⟨S, hS, hr⟩, h3⟩ := lr_sound G A hc w hw fuel t h
    exact ⟨t, S, h1, hS, hr, h3⟩
  · rintro ⟨T, S, hv, hS, hr, hy⟩
    obtain ⟨fuel, T', h, _⟩ := lr_complete G A hc An hAn hla w hw T S hv hS hr hy
    exact ⟨fuel, T', h⟩

/-- **Termination.** On an automaton that passes `check` and the termination certificate
`Term.termCheck` (every run of reductions started from one state, or from two stacked states, under
one lookahead ends within `N` steps — evaluated on every dumped automaton), the driver ends on EVERY
input: some amount of fuel gives an answer. -/
theorem lr_terminates (G : Grammar) (A : Automaton) (hc : check G A = true) (N : Nat)
    (ht : Term.termCheck G A N = true) (w : List Nat) (hw : InputOk G w) :
    ∃ fuel, parse G A w fuel ≠ .fuelOut :=
  Term.run_total (check_props G A hc) ht hw w.length (init A) (inv_init w) (by simp [init])

/-- **Every non-sentence is rejected with an error** (second half of the property's last sentence;
needs termination): on an automaton that passes all of `check`, `checkLA` and `termCheck`, an input
that is not a sentence makes the driver report an error. -/
theorem lr_rejects_non_sentence (G : Grammar) (A : Automaton) (hc : check G A = true) (N : Nat)
    (ht : Term.termCheck G A N = true) (w : List Nat) (hw : InputOk G w) (hns : ¬ Sentence G w) :
    ∃ fuel i st, parse G A w fuel = .error i st := by
  obtain ⟨fuel, hf⟩ := lr_terminates G A hc N ht w hw
  cases ho : parse G A w fuel with
  | accept t =>
    obtain ⟨h1, ⟨S, hS, hr⟩, h3⟩ := lr_sound G A hc w hw fuel t ho
    exact absurd ⟨t, S, h1, hS, hr, h3⟩ hns
  | error i st => exact ⟨fuel, i, st, ho⟩
  | crash n => exact absurd ho (lr_no_crash G A hc w hw fuel n)
  | fuelOut => exact absurd ho hf

/-- **The parser decides the language**: with all three certificates, for every input exactly one of
"accepted with some fuel" and "rejected with an error with some fuel" holds, according to whether
the input is a sentence. -/
theorem lr_decides (G : Grammar) (A : Automaton) (hc : check G A = true)
    (An : Analyses) (hAn : analyses G = some An)
    (hla : checkLA G A (An.nullable.contains ·) (An.first.contains ·) = true)
    (N : Nat) (ht : Term.termCheck G A N = true) (w : List Nat) (hw : InputOk G w) :
    (Sentence G w ∧ ∃ fuel t, parse G A w fuel = .accept t) ∨
    (¬ Sentence G w ∧ ∃ fuel i st, parse G A w fuel = .error i st) := by
  by_cases hs : Sentence G w
  · exact Or.inl ⟨hs, (lr_accepts_iff_sentence G A hc An hAn hla w hw).mpr hs⟩
  · exact Or.inr ⟨hs, lr_rejects_non_sentence G A hc N ht w hw hs⟩

end GrmVerif.C01
