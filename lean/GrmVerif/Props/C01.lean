import GrmVerif.Lemmas.LRSound
import GrmVerif.Lemmas.LRComplete2
import GrmVerif.Lemmas.TermAdj
import GrmVerif.Props.C17
/-!
# C01 — a generated parser recognises exactly the grammar's language

`Cert.check G A` is the validator evaluated on the automaton and table the real code built
(`Model/Cert.lean`); `LR.parse` is the model of `Parser::lr` (`Model/LR.lean`), compared with the
real parser on every generated input. The theorems hold for EVERY input `w`, every fuel.
-/
namespace GrmVerif.C01
open GrmVerif Cert LR Spec Ref

theorem run_inv {G : Grammar} {A : Automaton} (P : Props G A) {w : List Nat} (hw : InputOk G w) :
    ∀ (fuel : Nat) (c : Cfg), Inv G A w c →
      (∀ n, run G A w fuel c ≠ .crash n) ∧
      (∀ t, run G A w fuel c = .accept t →
        Tree.valid G t = true ∧ (∃ S, G.rhs G.startProd = [.rule S] ∧ Tree.root G t = .rule S) ∧
          Tree.yield t = w) := by
  intro fuel
  induction fuel with
  | zero =>
    intro c _
    refine ⟨?_, ?_⟩
    · intro n h; simp [run] at h
    · intro t h; simp [run] at h
  | succ k ih =>
    intro c hinv
    obtain ⟨h1, h2, h3⟩ := step_inv P hw hinv
    simp only [run]
    cases hs : step G A w c with
    | cont c' => exact ih c' (h1 c' hs)
    | done o =>
      refine ⟨?_, ?_⟩
      · intro n hn; subst hn; exact h2 n hs
      · intro t ht; subst ht; exact h3 t hs

/-- **Soundness.** On a certified automaton, whatever the parser accepts is a valid derivation of
exactly the input from the user's start rule: every node's children spell one production of its
rule (`Tree.valid`), the root is the start rule `S` of `^ : S`, and the leaves are the input
lexemes in order. -/
theorem lr_sound (G : Grammar) (A : Automaton) (hc : check G A = true) (w : List Nat) (hw : InputOk G w)
    (fuel : Nat) (t : Tree) (h : parse G A w fuel = .accept t) :
    Tree.valid G t = true ∧ (∃ S, G.rhs G.startProd = [.rule S] ∧ Tree.root G t = .rule S) ∧
      Tree.yield t = w :=
  (run_inv (check_props G A hc) hw fuel (init A) (inv_init w)).2 t h

/-- **No crash.** On a certified automaton the driver never hits a stack underflow, a missing goto
or a malformed accept, for any input. -/
theorem lr_no_crash (G : Grammar) (A : Automaton) (hc : check G A = true) (w : List Nat) (hw : InputOk G w)
    (fuel : Nat) (n : Nat) : parse G A w fuel ≠ .crash n :=
  (run_inv (check_props G A hc) hw fuel (init A) (inv_init w)).1 n

/-- `w` is a sentence: some valid tree rooted at the user's start rule has yield `w` -/
def Sentence (G : Grammar) (w : List Nat) : Prop :=
  ∃ T S, Tree.valid G T = true ∧ G.rhs G.startProd = [.rule S] ∧ Tree.root G T = .rule S ∧ Tree.yield T = w

/-- **Completeness.** On an automaton that passes the certificate and its lookahead half `checkLA`
(LR(1) closure/edge lookaheads, and a table that holds every candidate action — which is what
"construction reports no conflicts" means for a table without precedence-resolved cells), every
sentence is accepted, and the tree returned is the sentence's own derivation tree (same shape:
the grammar is unambiguous). `N`, `F` are the verified nullable/FIRST sets of C17. -/
theorem lr_complete (G : Grammar) (A : Automaton) (hc : check G A = true)
    (An : Analyses) (hAn : analyses G = some An)
    (hla : checkLA G A (An.nullable.contains ·) (An.first.contains ·) = true)
    (w : List Nat) (hw : InputOk G w) (T : Tree) (S : Nat)
    (hv : Tree.valid G T = true) (hS : G.rhs G.startProd = [.rule S]) (hroot : Tree.root G T = .rule S)
    (hy : Tree.yield T = w) :
    ∃ fuel T', parse G A w fuel = .accept T' ∧ shape T' = shape T := by
  have P := check_props G A hc
  have PL := checkLA_props G A _ _ hla
  obtain ⟨hn, hf, _⟩ := C17.analyses_exact G P.wf An hAn
  have hN : ∀ r, (fun x => An.nullable.contains x) r = true ↔ NullableR G r := by intro r; simpa using hn r
  have hF : ∀ r t, (fun x => An.first.contains x) (r, t) = true ↔ FirstP G r t := by intro r t; simpa using hf r t
  -- the start item with end-of-input in its lookahead
  obtain ⟨k, hk, hkp, hkd⟩ := P.startHas
  obtain ⟨i, hi, hip, hid, hila⟩ := PL.coreLA A.start P.startLt k hk
  have heof : G.eof ∈ i.la := hila _ (PL.startLA k hk)
  have hsym : symAt G i.p i.dot = some (Tree.root G T) := by
    rw [hip, hkp, hid, hkd, hroot]; simp [symAt, hS]
  have hdrop : w.drop (init A).laidx = Tree.yield T ++ [] := by simp [init, hy]
  have hnext : nextTok G w ((init A).laidx + (Tree.yield T).length) = G.eof := by
    rw [hy]; exact (nextTok_eof hw _).mpr (by simp [init])
  have hcompat : firstSeqL (fun x => An.nullable.contains x) (fun x => An.first.contains x)
      ((G.rhs i.p).drop (i.dot + 1)) i.la (nextTok G w ((init A).laidx + (Tree.yield T).length)) = true := by
    rw [hnext, hip, hkp, hid, hkd, hS]
    simp [firstSeqL, seqNullable, heof]
  obtain ⟨s', T', j, hsteps, hs', hshape, hj, hjp, hjd, hjla⟩ :=
    tree_run P PL hN hF hw T hv (init A) A.start [] i [] rfl P.startLt hi hsym hdrop hcompat
  -- in the reached state `[^ → S .]` with end-of-input: accept
  have hcomplete : symAt G j.p j.dot = none := by
    rw [hjp, hip, hkp, hjd, hid, hkd]; simp [symAt, hS]
  have hacc := PL.actAcceptC s' hs' j hj hcomplete (by rw [hjp, hip, hkp]) G.eof (hjla _ heof)
  have hT' : ∃ p kids, T' = .node p kids := by
    cases T with
    | leaf t i => simp [Tree.root] at hroot
    | node p kids =>
      cases T' with
      | leaf t i => simp [shape] at hshape
      | node p' kids' => exact ⟨p', kids', rfl⟩
  obtain ⟨p', kids', rfl⟩ := hT'
  have hdone : step G A w ⟨[s', A.start], [.node p' kids'], (init A).laidx + (Tree.yield T).length⟩ =
      .done (.accept (.node p' kids')) := by
    simp only [step, hnext, hacc, List.getLast?_singleton]
  obtain ⟨fuel, hfuel⟩ := run_of_steps (by simpa [init] using hsteps) hdone
  exact ⟨fuel, _, hfuel, hshape⟩

/-- **The parser recognises exactly the language** (certified, conflict-free table): an input is
accepted (for some fuel) iff it is a sentence. In particular every non-sentence is rejected. -/
theorem lr_accepts_iff_sentence (G : Grammar) (A : Automaton) (hc : check G A = true)
    (An : Analyses) (hAn : analyses G = some An)
    (hla : checkLA G A (An.nullable.contains ·) (An.first.contains ·) = true)
    (w : List Nat) (hw : InputOk G w) :
    (∃ fuel t, parse G A w fuel = .accept t) ↔ Sentence G w := by
  constructor
  · rintro ⟨fuel, t, h⟩
    obtain ⟨h1, ⟨S, hS, hr⟩, h3⟩ := lr_sound G A hc w hw fuel t h
    exact ⟨t, S, h1, hS, hr, h3⟩
  · rintro ⟨T, S, hv, hS, hr, hy⟩
    obtain ⟨fuel, T', h, _⟩ := lr_complete G A hc An hAn hla w hw T S hv hS hr hy
    exact ⟨fuel, T', h⟩

/-- **Termination.** On an automaton that passes `check` and the termination certificate
`Term.termCheckAdj` (the run of reductions under one lookahead started from the stack `[start]`, and
from every two stacked states `[s, b]` where `b` has an edge to `s`, ends within `N` steps —
evaluated on every dumped automaton), the driver ends on EVERY input: some amount of fuel gives an
answer. Only these pairs are asked for because parse stacks are paths of the automaton from the start
state (`Term.stepClosed_isPath`: a reduction's goto target is an edge target). The earlier
certificate over ALL pairs of states implies this one (`Term.termCheckAdj_of_termCheck`). -/
theorem lr_terminates (G : Grammar) (A : Automaton) (hc : check G A = true) (N : Nat)
    (ht : Term.termCheckAdj G A N = true) (w : List Nat) (hw : InputOk G w) :
    ∃ fuel, parse G A w fuel ≠ .fuelOut :=
  Term.run_total_adj (check_props G A hc) ht hw w.length (init A) (inv_init w) (by simp [init])

/-- **Every non-sentence is rejected with an error** (second half of the property's last sentence;
needs termination): on an automaton that passes all of `check`, `checkLA` and `termCheckAdj`, an
input that is not a sentence makes the driver report an error. -/
theorem lr_rejects_non_sentence (G : Grammar) (A : Automaton) (hc : check G A = true) (N : Nat)
    (ht : Term.termCheckAdj G A N = true) (w : List Nat) (hw : InputOk G w) (hns : ¬ Sentence G w) :
    ∃ fuel i st, parse G A w fuel = .error i st := by
  obtain ⟨fuel, hf⟩ := lr_terminates G A hc N ht w hw
  cases ho : parse G A w fuel with
  | accept t =>
    obtain ⟨h1, ⟨S, hS, hr⟩, h3⟩ := lr_sound G A hc w hw fuel t ho
    exact absurd ⟨t, S, h1, hS, hr, h3⟩ hns
  | error i st => exact ⟨fuel, i, st, ho⟩
  | crash n => exact absurd ho (lr_no_crash G A hc w hw fuel n)
  | fuelOut => exact absurd ho hf

/-- **The parser decides the language**: with all three certificates, for every input exactly one of
"accepted with some fuel" and "rejected with an error with some fuel" holds, according to whether
the input is a sentence. -/
theorem lr_decides (G : Grammar) (A : Automaton) (hc : check G A = true)
    (An : Analyses) (hAn : analyses G = some An)
    (hla : checkLA G A (An.nullable.contains ·) (An.first.contains ·) = true)
    (N : Nat) (ht : Term.termCheckAdj G A N = true) (w : List Nat) (hw : InputOk G w) :
    (Sentence G w ∧ ∃ fuel t, parse G A w fuel = .accept t) ∨
    (¬ Sentence G w ∧ ∃ fuel i st, parse G A w fuel = .error i st) := by
  by_cases hs : Sentence G w
  · exact Or.inl ⟨hs, (lr_accepts_iff_sentence G A hc An hAn hla w hw).mpr hs⟩
  · exact Or.inr ⟨hs, lr_rejects_non_sentence G A hc N ht w hw hs⟩

/-! ### What a failing termination certificate means

The driver reports a pair `[s, b]` that fails `termCheckAdj` as a defect only together with a witness
from `Term.findCycle`: the local run from `[s, b]` under `la` reaches a local stack `ts ++ bs` such that
the run from the top part `ts` alone leads, without popping below `ts`, to `ts ++ vs` — the same top part
again (`vs = []`: back at the same stack; `vs ≠ []`: the stack grows for ever, as with hidden left
recursion). Informally (not proved here) every local run that goes on for ever has such a witness with
`ts` of one or two states: either the stack height tends to infinity — then the top states at the last
visits of two heights coincide — or some lowest height is visited infinitely often and the top state
there repeats over an unchanged rest. -/

/-- **A cycling pair loops the parser** whenever the parser gets there: if the parser, on input `w`,
reaches a configuration whose stack has `s` on top of `b` with next token `la`, and `findCycle` reports a
cycle of the local run from `[s, b]` under `la`, then the parse of `w` never ends — no amount of fuel
gives an answer. No certificate is assumed of the automaton. -/
theorem cert_cycle_parse_diverges (G : Grammar) (A : Automaton) (la s b W steps pre0 : Nat) (c : Nat × Nat × Nat)
    (hcyc : Term.findCycle G A la W steps pre0 [s, b] = some c)
    (w : List Nat) (rest : List Nat) (astack : List Tree) (i : Nat)
    (hreach : Steps G A w (init A) ⟨s :: b :: rest, astack, i⟩) (hla : nextTok G w i = la) :
    ∀ fuel, parse G A w fuel = .fuelOut := by
  have hf : ∀ fuel, Rec.feed G A (nextTok G w i) fuel (s :: b :: rest) = .fuelOut := by
    rw [hla]; exact Term.findCycle_diverges hcyc rest
  exact Term.steps_diverge hreach (fun fuel => Term.feed_fuelOut_run i fuel _ _ (hf fuel))

/-- **A cycle from the start state is an input on which the parser loops**: the one-lexeme input
`[la]` (the empty input when `la` is end-of-input). -/
theorem cert_cycle_at_start_parse_diverges (G : Grammar) (A : Automaton) (la W steps pre0 : Nat) (c : Nat × Nat × Nat)
    (hcyc : Term.findCycle G A la W steps pre0 [A.start] = some c) :
    ∀ fuel, parse G A (if la = G.eof then [] else [la]) fuel = .fuelOut := by
  intro fuel
  have hla : nextTok G (if la = G.eof then [] else [la]) 0 = la := by
    by_cases h : la = G.eof
    · simp [nextTok, h]
    · simp [nextTok, h]
  have hf := Term.findCycle_diverges hcyc [] fuel
  rw [← hla] at hf
  exact Term.feed_fuelOut_run 0 fuel _ _ hf

/-- **A cycling adjacent pair over a reachable state is a stack on which the driver's reduction loop
never ends** (`_partial`: a stack, not an input). If `b` is reachable from the start state
(`Term.reachable`), has an edge to `s`, and `findCycle` reports a cycle of the local run from `[s, b]`
under `la`, then there is a stack `s :: b :: rest` that is a path of the automaton from the start state
on which `feed` under `la` returns no answer for any fuel.
Missing for the full converse ("there is an INPUT on which `parse` loops"): an input whose parse
reaches that very stack with next token `la` (then `cert_cycle_parse_diverges` applies). That needs
every symbol on the path to derive a token string AND the reductions on the way to be taken under the
lookaheads that string supplies AND `la` to be a possible next token there; for a table with merged
states (Pager/LALR) `action s la` can be a reduction although no viable prefix puts `la` after that
path, and neither `check` nor `checkLA` says otherwise. -/
theorem cert_cycle_feed_diverges_partial (G : Grammar) (A : Automaton) (la s b W steps pre0 : Nat) (c : Nat × Nat × Nat)
    (hb : b ∈ Term.reachable A) (hadj : Term.adj A b s = true)
    (hcyc : Term.findCycle G A la W steps pre0 [s, b] = some c) :
    ∃ rest, Term.IsPath A (s :: b :: rest) ∧ ∀ fuel, Rec.feed G A la fuel (s :: b :: rest) = .fuelOut := by
  obtain ⟨rest, hp⟩ := Term.reachable_sound hb
  obtain ⟨X, hX⟩ := (Term.adj_iff A b s).mp hadj
  exact ⟨rest, hp.push hX, Term.findCycle_diverges hcyc rest⟩

/-- the same with the certificate's own fuel instead of a cycle witness: a pair that fails
`termCheckAdj` at `N` keeps the reduction loop busy for at least `N` steps on every stack that ends in
that pair (exact, but says nothing beyond `N`). -/
theorem cert_failure_feed_busy (G : Grammar) (A : Automaton) (la N : Nat) (xs ys : List Nat)
    (h : Term.localRun G A la N xs = .fuelOut) : Rec.feed G A la N (xs ++ ys) = .fuelOut :=
  Term.localRun_fuelOut_feed N xs ys h

/-! test: the hypotheses of the three `cert_cycle…` theorems are satisfiable — `^ : A; A : A | 'a';`
with the (wrong) table that reduces `A : A` in the state after `A` -/
private def exG : Grammar := ⟨2, 2, 1, 0, [(0, [.rule 1]), (1, [.rule 1]), (1, [.tok 0])], [], []⟩
private def exA : Automaton :=
  ⟨0, [⟨[], [], [(.rule 1, 1), (.tok 0, 2)], [.shift 2, .error], [none, some 1], [], [], [], false⟩,
       ⟨[], [], [], [.error, .reduce 1], [none, none], [], [], [], false⟩,
       ⟨[], [], [], [.reduce 2, .reduce 2], [none, none], [], [], [], false⟩], [], []⟩
example : Term.findCycle exG exA 1 8 4 0 [1, 0] = some (0, 2, 1) := by decide
example : Term.adj exA 0 1 = true ∧ 0 ∈ Term.reachable exA := by decide
example : Term.termCheckAdj exG exA 50 = false := by decide
example : Term.failAdj exG exA 50 = some (1, 1, some 0) := by decide

end GrmVerif.C01
