import GrmVerif.Lemmas.LRSound
/-!
# C01 — a generated parser recognises exactly the grammar's language  (stage 1: soundness, no crash)

`Cert.check G A` is the validator evaluated on the automaton and table the real code built
(`Model/Cert.lean`); `LR.parse` is the model of `Parser::lr` (`Model/LR.lean`), compared with the
real parser on every generated input. The theorems hold for EVERY input `w`, every fuel.
-/
namespace GrmVerif.C01
open GrmVerif Cert LR

theorem run_inv {G : Grammar} {A : Automaton} (P : Props G A) {w : List Nat} (hw : InputOk G w) :
    ∀ (fuel : Nat) (c : Cfg), Inv G A w c →
      (∀ n, run G A w fuel c ≠ .crash n) ∧
      (∀ t, run G A w fuel c = .accept t →
        Tree.valid G t = true ∧ (∃ S, G.rhs G.startProd = [.rule S] ∧ Tree.root G t = .rule S) ∧
          Tree.yield t = w) := by
  intro fuel
  induction fuel with
  | zero =>
    intro c _
    refine ⟨?_, ?_⟩
    · intro n h; simp [run] at h
    · intro t h; simp [run] at h
  | succ k ih =>
    intro c hinv
    obtain ⟨h1, h2, h3⟩ := step_inv P hw hinv
    simp only [run]
    cases hs : step G A w c with
    | cont c' => exact ih c' (h1 c' hs)
    | done o =>
      refine ⟨?_, ?_⟩
      · intro n hn; subst hn; exact h2 n hs
      · intro t ht; subst ht; exact h3 t hs

/-- **Soundness.** On a certified automaton, whatever the parser accepts is a valid derivation of
exactly the input from the user's start rule: every node's children spell one production of its
rule (`Tree.valid`), the root is the start rule `S` of `^ : S`, and the leaves are the input
lexemes in order. -/
theorem lr_sound (G : Grammar) (A : Automaton) (hc : check G A = true) (w : List Nat) (hw : InputOk G w)
    (fuel : Nat) (t : Tree) (h : parse G A w fuel = .accept t) :
    Tree.valid G t = true ∧ (∃ S, G.rhs G.startProd = [.rule S] ∧ Tree.root G t = .rule S) ∧
      Tree.yield t = w :=
  (run_inv (check_props G A hc) hw fuel (init A) (inv_init w)).2 t h

/-- **No crash.** On a certified automaton the driver never hits a stack underflow, a missing goto
or a malformed accept, for any input. -/
theorem lr_no_crash (G : Grammar) (A : Automaton) (hc : check G A = true) (w : List Nat) (hw : InputOk G w)
    (fuel : Nat) (n : Nat) : parse G A w fuel ≠ .crash n :=
  (run_inv (check_props G A hc) hw fuel (init A) (inv_init w)).1 n

end GrmVerif.C01
