import GrmVerif.Lemmas.OrderIndep
/-!
# C15 — the same sources always produce the same grammar, table and generated code

Property theorems only (helper lemmas: `GrmVerif/Lemmas/OrderIndep.lean`; model:
`GrmVerif/Model/OrderIndep.lean`). Every place where cfgrammar/lrtable iterate a randomly seeded
`HashMap`/`HashSet` and the result *could* depend on the order (audit: `tools/propcfg/C15.py`) is
modelled with the iteration order as a parameter; the theorems quantify over ALL orders
(`List.Perm`, or an arbitrary reordering strategy `σ`). Thread interleavings of the `OnceLock` first
use are NOT modelled (observed by the harness only).
-/
namespace GrmVerif.C15
open GrmVerif.OrderIndep

/-- **(a) `%avoid_insert`.** The bit vector does not depend on the order in which the key set of
`ast.avoid_insert` is iterated. -/
theorem avoid_insert_order_indep (ntoks : Nat) (o₁ o₂ : List Nat) (h : o₁.Perm o₂) :
    avoidInsert ntoks o₁ = avoidInsert ntoks o₂ :=
  foldl_setBit_perm h _

/-- **(b) `gc`.** Whatever element the hash order hands out next (`σ` reorders the work set arbitrarily
on every turn), a terminating run returns exactly the states reachable from the start state. -/
theorem gc_reach_spec (edges : Nat → List Nat) (σ : List Nat → List Nat) (hσ : ∀ l, (σ l).Perm l)
    (start fuel : Nat) (r : List Nat) (h : gcLoop edges σ fuel [start] [] = some r) (x : Nat) :
    x ∈ r ↔ Reach edges start x := by
  refine gcLoop_spec hσ fuel [start] [] r ⟨?_, ?_, ?_⟩ h x
  · intro y hy
    rcases hy with hy | hy
    · cases hy with
      | head => exact Reach.refl
      | tail _ h => cases h
    · cases hy
  · exact Or.inl List.mem_cons_self
  · intro y hy; cases hy

/-- **(b) order independence of `gc`.** Two runs with different visiting orders keep the same set of
states (so the renumbering `offsets`, which is computed from that set in index order, is the same). -/
theorem gc_reach_order_indep (edges : Nat → List Nat) (σ₁ σ₂ : List Nat → List Nat)
    (h₁ : ∀ l, (σ₁ l).Perm l) (h₂ : ∀ l, (σ₂ l).Perm l) (start f₁ f₂ : Nat) (r₁ r₂ : List Nat)
    (e₁ : gcLoop edges σ₁ f₁ [start] [] = some r₁) (e₂ : gcLoop edges σ₂ f₂ [start] [] = some r₂)
    (x : Nat) : x ∈ r₁ ↔ x ∈ r₂ :=
  (gc_reach_spec edges σ₁ h₁ start f₁ r₁ e₁ x).trans (gc_reach_spec edges σ₂ h₂ start f₂ r₂ e₂ x).symm

/-- **(c) the UNREPAIRED numbering depends on the order**: two orders of the same implicit-token map
give different production numberings. -/
theorem implicit_prods_order_DEPENDENT :
    ∃ (base : Nat) (o₁ o₂ : List Nat), o₁.Perm o₂ ∧ implicitProdsOrig base o₁ ≠ implicitProdsOrig base o₂ :=
  ⟨0, [0, 1], [1, 0], List.Perm.swap 1 0 [], by decide⟩

/-- … in fact EVERY two different iteration orders give different numberings (so with k implicit tokens
there are k! possible grammars for one source). -/
theorem implicit_prods_orig_injective (base : Nat) (o₁ o₂ : List Nat)
    (h : implicitProdsOrig base o₁ = implicitProdsOrig base o₂) : o₁ = o₂ := by
  have := congrArg (fun p => p.1.map Prod.snd) h
  simpa [implicitProdsOrig, number_snd] using this

/-- **(c) the REPAIRED numbering is order independent.** -/
theorem implicit_prods_order_indep (base : Nat) (o₁ o₂ : List Nat) (h : o₁.Perm o₂) :
    implicitProds base o₁ = implicitProds base o₂ := by
  simp only [implicitProds, sortNat_perm_eq h]

/-- what the repaired numbering is: the implicit tokens in increasing token-index order (a
rearrangement of the key set), on consecutive production indices from `base`, the empty production
right after them. -/
theorem implicit_prods_sorted (base : Nat) (o : List Nat) :
    ((implicitProds base o).1.map Prod.snd).Pairwise (· ≤ ·) ∧
    ((implicitProds base o).1.map Prod.snd).Perm o ∧
    (implicitProds base o).1.map Prod.fst = List.range' base o.length ∧
    (implicitProds base o).2 = base + o.length := by
  have hl : (sortNat o).length = o.length := (sortNat_perm o).length_eq
  simp only [implicitProds, implicitProdsOrig, number_snd, number_fst, hl]
  exact ⟨sortNat_sorted o, sortNat_perm o, trivial, trivial⟩

/-- **action/goto cells.** The edges of a state have distinct symbols, every edge writes the cell of its
own symbol: the filled row does not depend on the order in which `sg.edges(stidx)` is iterated. -/
theorem edges_fill_order_indep (tbl : List Nat) (e₁ e₂ : List (Nat × Nat)) (h : e₁.Perm e₂)
    (hd : (e₁.map Prod.fst).Nodup) : fillCells tbl e₁ = fillCells tbl e₂ :=
  fillCells_perm h hd tbl

/-! ### tests (hypotheses satisfiable, definitions compute what they should) -/
example : avoidInsert 4 [2, 0] = [true, false, true, false] := by decide
example : implicitProdsOrig 5 [3, 1] = ([(5, 3), (6, 1)], 7) := by decide
example : implicitProds 5 [3, 1] = ([(5, 1), (6, 3)], 7) := by decide
example : gcLoop (fun s => if s = 0 then [2] else []) id 5 [0] [] = some [2, 0] := by decide
example : gcLoop (fun s => if s = 0 then [2, 1] else if s = 1 then [0] else []) List.reverse 9 [0] [] = some [2, 1, 0] := by decide
example : fillCells [0, 0, 0] [(2, 4), (0, 1)] = [2, 0, 5] := by decide

end GrmVerif.C15
