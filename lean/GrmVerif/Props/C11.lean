import GrmVerif.Lemmas.LexUnescape
import GrmVerif.Lemmas.LexParse
import GrmVerif.Lemmas.LexTables
/-!
# C11 — a lexer definition is a faithful image of its `.l` source

Property theorems only. Models: `Model/LexUnescape.lean` (the escape scanner and
`trim_end_unescaped` of `lrlex/src/lib/parser.rs`), `Model/LexParse.lean` (rule-line splitting,
flag combination). Specifications: `Lemmas/LexUnescape.lean` (`unescapeSpec`),
`Lemmas/LexParse.lean` (`ruleLineSpec`), `Model/LexTables.lean` (`flagSpec`, the extracted tables).
-/
namespace GrmVerif.C11
open GrmVerif.LexUnescape GrmVerif.LexParse GrmVerif.LexTables

/-- **Escape rewriting, any tables.** For every text, the two-phase offset-based scanner returns —
without any slice panicking — the one-pass reading: `\c` ↦ `c` unless `c` is a regex meta
character or starts a lex escape (then `\c` stays), `\b` ↦ `\x08` under `posix_escapes`, everything
else (a final lone backslash included) unchanged. -/
theorem unescape_eq_spec (cfg : Cfg) (hb : cfg.BOk) (re : List Char) :
    unescape cfg re = some (unescapeSpec cfg re) :=
  unescape_spec cfg hb re

/-- the tables extracted from the sources satisfy the two side conditions -/
theorem realCfg_ok (posix : Bool) : (realCfg posix).BOk := by
  constructor
  · show GrmVerif.Extracted.B_PLAIN.map Char.ofNat = ['\\', 'b']
    decide
  · intro s
    have h1 : metaTable 'b' = false := by decide
    have h2 : escTable ('b' :: s) = false :=
      no_match_of_firstClassExcludes 'b' GrmVerif.Extracted.RE_LEX_ESC_LITERAL (by decide) s
    show (metaTable 'b' || escTable ('b' :: s)) = false
    rw [h1, h2]; rfl

/-- **Escape rewriting, the tables of the sources.** -/
theorem unescape_eq_spec_extracted (posix : Bool) (re : List Char) :
    unescape (realCfg posix) re = some (unescapeSpec (realCfg posix) re) :=
  unescape_spec _ (realCfg_ok posix) re

/-- **`trim_end_unescaped`.** Write the text before the separator as `body ++ tail`, `tail` its
trailing white space (`body` empty or ending in a non-blank). The regular expression is `body`,
plus the first blank of `tail` exactly when `body` ends in an odd number of backslashes (that blank
is escaped). -/
theorem trim_end_unescaped_spec (ws : Char → Bool) (body tail : List Char)
    (hbody : ∀ c, body.getLast? = some c → ws c = false) (htail : ∀ c ∈ tail, ws c = true) :
    trimEndUnescaped ws (body ++ tail) =
      if tail = [] then body
      else if trailingBackslashes body % 2 = 1 then body ++ tail.take 1 else body :=
  trimEndUnescaped_eq ws body tail hbody htail

/-- space and tab, the separators `parse_rule` splits at, are one byte long (the `+ 1`s of the code) -/
theorem isSpaceSep_size (c : Char) (h : isSpaceSep c = true) : c.utf8Size = 1 := by
  simp only [isSpaceSep, Bool.or_eq_true, beq_iff_eq] at h
  rcases h with rfl | rfl <;> decide

/-- **Rule-line splitting.** For every line, the model of `parse_rule` (last-blank search from the
right, offsets by subtraction, byte slices) does not panic and returns what `ruleLineSpec` says:
the line without trailing white space is split at its LAST space or tab; before it the regular
expression (`trim_end_unescaped`, optional `<a,b>` restriction, escapes rewritten by the one-pass
specification — also in restricted rules); after it an optional `<[+-]state>` and `;`, `""`, `''`
or a quoted name; errors `MissingSpace`, `InvalidStartState`, `InvalidName` at the offsets of the
specification. -/
theorem rule_line_spec (posix : Bool) (raw : List Char) :
    parseRuleLine (realCfg posix) isPWS isSpaceSep raw
      = some (ruleLineSpec (realCfg posix) isPWS isSpaceSep raw) :=
  parseRuleLine_eq _ (realCfg_ok posix) isPWS isSpaceSep isSpaceSep_size raw

/-- **Spans index the source.** Whatever text precedes and follows a rule line (a `%grmtools`
section, declarations, other rules), if the line parses to a named rule then the returned name
span, shifted by the offset of the line, cuts exactly the name out of the text the user wrote. -/
theorem spans_index_source (posix : Bool) (raw : List Char) (r : RuleLine) (n : List Char)
    (h : parseRuleLine (realCfg posix) isPWS isSpaceSep raw = some (.ok r)) (hn : r.name = some n)
    (before after : List Char) :
    sliceB (before ++ raw ++ after) (byteLen before + r.spanStart) (byteLen before + r.spanEnd)
      = some n := by
  rw [rule_line_spec] at h
  exact ruleLineSpec_span _ isPWS isSpaceSep raw r n (Option.some.inj h) hn before after

/-- **Declaration lines.** For every line, the model of `parse_declaration`/`declare_start_states`
(keyword cut at the first blank, `RE_WS.split` with pointer offsets, empty pieces skipped) computes
`declLineSpec`: the first maximal run of non-blanks is the `%s…`/`%x…` keyword, every further maximal
run is a declared name with the offsets at which it starts and ends; no name, a line that does not
start with such a keyword → `UnknownDeclaration`; a name that is not `[a-zA-Z][a-zA-Z0-9_.]*` →
`InvalidStartStateName` at its start. -/
theorem decl_line_spec (raw : List Char) : parseDeclLine isPWS raw = declLineSpec isPWS raw :=
  parseDeclLine_eq isPWS raw

/-- **Spans of start-state declarations index the source.** For every declaration line that is
accepted, every declared name is cut out of the text the user wrote by its span (shifted by the
offset of the line) — however many blanks separate the names. -/
theorem decl_spans_index_source (raw : List Char) (excl : Bool)
    (names : List (List Char × Nat × Nat)) (h : parseDeclLine isPWS raw = .ok (excl, names))
    (n : List Char) (a b : Nat) (hm : (n, a, b) ∈ names) (before after : List Char) :
    sliceB (before ++ raw ++ after) (byteLen before + a) (byteLen before + b) = some n :=
  parseDeclLine_span isPWS raw excl names h n a b hm before after

/-- a rule without a name (`;`, `""`, `''`) carries an empty span -/
theorem skip_rule_span_empty (posix : Bool) (raw : List Char) (r : RuleLine)
    (h : parseRuleLine (realCfg posix) isPWS isSpaceSep raw = some (.ok r)) (hn : r.name = none) :
    r.spanStart = r.spanEnd := by
  rw [rule_line_spec] at h
  exact ruleLineSpec_skip_span _ isPWS isSpaceSep raw r (Option.some.inj h) hn

/-- **Flags in force.** For every flag: what the builder set, else what the `%grmtools` section
set, else grmtools' default, else (no default) the regex crate's own default `r`.
`LexerDef::from_str` is the case `bld[i] = none`. -/
theorem flags_in_force (dflt hdr bld : List (Option Bool)) (i : Nat) (d h b : Option Bool) (r : Bool)
    (hd : dflt[i]? = some d) (hh : hdr[i]? = some h) (hb : bld[i]? = some b) :
    ((effectiveFlags dflt hdr bld)[i]?).map (fun e => e.getD r) = some (flagSpec r d h b) := by
  rw [effectiveFlags_getElem? dflt hdr bld i d h b hd hh hb]
  cases b <;> cases h <;> cases d <;> rfl

/-- the tables are the ones the model was written against (a change of the sources shows here) -/
example : GrmVerif.Extracted.RE_LEX_ESC_LITERAL_SRC
    = "^(([xuU][[:xdigit:]])|[[:digit:]]|[afnrtv\\\\]|[pP]|[dDsSwW]|[Az])" := by decide
example : GrmVerif.Extracted.RE_SPACE_SEP_SRC = "[\\p{Pattern_White_Space}&&[\\p{Zs}\\t]]" := by decide
example : GrmVerif.Extracted.RE_LINE_SEP_SRC = "[\\p{Pattern_White_Space}&&[\\p{Zl}\\p{Zp}\\n\\r\\v]]" := by decide
example : GrmVerif.Extracted.RE_WS_SRC = "\\p{Pattern_White_Space}" := by decide
example : GrmVerif.Extracted.RE_START_STATE_NAME_SRC = "^[a-zA-Z][a-zA-Z0-9_.]*$" := by decide
example : GrmVerif.Extracted.RE_INCLUSIVE_START_STATE_DECLARATION_SRC = "^%[sS][a-zA-Z0-9]*$" := by decide
example : GrmVerif.Extracted.RE_EXCLUSIVE_START_STATE_DECLARATION_SRC = "^%[xX][a-zA-Z0-9]*$" := by decide
example : GrmVerif.Extracted.LEX_FLAG_NAMES.length = GrmVerif.Extracted.DEFAULT_LEX_FLAGS.length := by decide

/-- test: `\!abc\` — the repaired scanner keeps the tail, the unrepaired one returned `!` -/
example : unescape (realCfg false) "\\!abc\\".toList = some "!abc\\".toList := by decide
example : unescapeOrig (realCfg false) "\\!abc\\".toList = some "!".toList := by decide
/-- test: escapes next to multi-byte characters, `\b` with and without `posix_escapes` -/
example : unescape (realCfg true) "\\é\\b\\❤\\x4\\xg".toList = some "é\\x08❤\\x4xg".toList := by decide
example : unescape (realCfg false) "\\é\\b\\❤".toList = some "é\\b❤".toList := by decide

/-- test (hypotheses of `trim_end_unescaped_spec` are satisfiable, both outcomes occur) -/
example : trimEndUnescaped isPWS "x\\  ".toList = "x\\ ".toList := by decide
example : trimEndUnescaped isPWS "x\\\\  ".toList = "x\\\\".toList := by decide
/-- test: a rule line with a restriction, an escaped multi-byte character, a target and a name;
the span (relative to the line) spells the name -/
example : (match parseRuleLine (realCfg true) isPWS isSpaceSep "<ST, a>\\é\\b+  <+ST>\"kn\" ".toList with
      | some (.ok r) => some r
      | _ => none)
    = some ⟨["ST".toList, "a".toList], "é\\x08+".toList, some (1, "ST".toList), some "kn".toList, 21, 23⟩ := by
  decide
example : sliceB "<ST, a>\\é\\b+  <+ST>\"kn\" ".toList 21 23 = some "kn".toList := by decide
example : (match parseRuleLine (realCfg false) isPWS isSpaceSep "abc".toList with
      | some (.error e) => some e
      | _ => none) = some (.missingSpace, 0) := by decide
/-- test: a declaration line with several blanks between the names -/
example : (match parseDeclLine isPWS "%x  ST a_b\t\tQ9 ".toList with
      | .ok r => some r
      | _ => none)
    = some (true, [("ST".toList, 4, 6), ("a_b".toList, 7, 10), ("Q9".toList, 12, 14)]) := by decide
/-- test: flags — builder beats section beats default -/
example : effectiveFlags GrmVerif.Extracted.DEFAULT_LEX_FLAGS
    [none, none, none, some true, none, some true, none, none, none]
    [none, none, some false, some false, none, none, none, none, none]
    = [some true, some true, some false, some false, some false, some true, none, none, none] := by decide

end GrmVerif.C11
