import GrmVerif.Lemmas.LexUnescape
import GrmVerif.Lemmas.LexParse
import GrmVerif.Lemmas.LexTables
import GrmVerif.Lemmas.LexSpecDup
import GrmVerif.Lemmas.LexSpecWhere
/-!
# C11 — a lexer definition is a faithful image of its `.l` source

Property theorems only. Models: `Model/LexUnescape.lean` (the escape scanner and
`trim_end_unescaped` of `lrlex/src/lib/parser.rs`), `Model/LexParse.lean` (rule-line splitting,
flag combination). Specifications: `Lemmas/LexUnescape.lean` (`unescapeSpec`),
`Lemmas/LexParse.lean` (`ruleLineSpec`), `Model/LexTables.lean` (`flagSpec`, the extracted tables).
Whole specifications: model `Model/LexSpecParse.lean` (`parseSpec`: the loops of `LexParser::parse`
over byte offsets, with fuel, slices that may panic), specification `Lemmas/LexSpecParse.lean`
(`specParse`: structural recursion over the lines of the text), layout and names
`Lemmas/LexSpecProps.lean`, `Lemmas/LexSpecDup.lean`, `Lemmas/LexSpecWhere.lean`.
-/
namespace GrmVerif.C11
open GrmVerif.LexUnescape GrmVerif.LexParse GrmVerif.LexTables

/-- **Escape rewriting, any tables.** For every text, the two-phase offset-based scanner returns —
without any slice panicking — the one-pass reading: `\c` ↦ `c` unless `c` is a regex meta
character or starts a lex escape (then `\c` stays), `\b` ↦ `\x08` under `posix_escapes`, everything
else (a final lone backslash included) unchanged. -/
theorem unescape_eq_spec (cfg : Cfg) (hb : cfg.BOk) (re : List Char) :
    unescape cfg re = some (unescapeSpec cfg re) :=
  unescape_spec cfg hb re

/-- the tables extracted from the sources satisfy the two side conditions -/
theorem realCfg_ok (posix : Bool) : (realCfg posix).BOk := by
  constructor
  · show GrmVerif.Extracted.B_PLAIN.map Char.ofNat = ['\\', 'b']
    decide
  · intro s
    have h1 : metaTable 'b' = false := by decide
    have h2 : escTable ('b' :: s) = false :=
      no_match_of_firstClassExcludes 'b' GrmVerif.Extracted.RE_LEX_ESC_LITERAL (by decide) s
    show (metaTable 'b' || escTable ('b' :: s)) = false
    rw [h1, h2]; rfl

/-- **Escape rewriting, the tables of the sources.** -/
theorem unescape_eq_spec_extracted (posix : Bool) (re : List Char) :
    unescape (realCfg posix) re = some (unescapeSpec (realCfg posix) re) :=
  unescape_spec _ (realCfg_ok posix) re

/-- **`trim_end_unescaped`.** Write the text before the separator as `body ++ tail`, `tail` its
trailing white space (`body` empty or ending in a non-blank). The regular expression is `body`,
plus the first blank of `tail` exactly when `body` ends in an odd number of backslashes (that blank
is escaped). -/
theorem trim_end_unescaped_spec (ws : Char → Bool) (body tail : List Char)
    (hbody : ∀ c, body.getLast? = some c → ws c = false) (htail : ∀ c ∈ tail, ws c = true) :
    trimEndUnescaped ws (body ++ tail) =
      if tail = [] then body
      else if trailingBackslashes body % 2 = 1 then body ++ tail.take 1 else body :=
  trimEndUnescaped_eq ws body tail hbody htail

/-- space and tab, the separators `parse_rule` splits at, are one byte long (the `+ 1`s of the code) -/
theorem isSpaceSep_size (c : Char) (h : isSpaceSep c = true) : c.utf8Size = 1 := by
  simp only [isSpaceSep, Bool.or_eq_true, beq_iff_eq] at h
  rcases h with rfl | rfl <;> decide

/-- **Rule-line splitting.** For every line, the model of `parse_rule` (last-blank search from the
right, offsets by subtraction, byte slices) does not panic and returns what `ruleLineSpec` says:
the line without trailing white space is split at its LAST space or tab; before it the regular
expression (`trim_end_unescaped`, optional `<a,b>` restriction, escapes rewritten by the one-pass
specification — also in restricted rules); after it an optional `<[+-]state>` and `;`, `""`, `''`
or a quoted name; errors `MissingSpace`, `InvalidStartState`, `InvalidName` at the offsets of the
specification. -/
theorem rule_line_spec (posix : Bool) (raw : List Char) :
    parseRuleLine (realCfg posix) isPWS isSpaceSep raw
      = some (ruleLineSpec (realCfg posix) isPWS isSpaceSep raw) :=
  parseRuleLine_eq _ (realCfg_ok posix) isPWS isSpaceSep isSpaceSep_size raw

/-- **Spans index the source.** Whatever text precedes and follows a rule line (a `%grmtools`
section, declarations, other rules), if the line parses to a named rule then the returned name
span, shifted by the offset of the line, cuts exactly the name out of the text the user wrote. -/
theorem spans_index_source (posix : Bool) (raw : List Char) (r : RuleLine) (n : List Char)
    (h : parseRuleLine (realCfg posix) isPWS isSpaceSep raw = some (.ok r)) (hn : r.name = some n)
    (before after : List Char) :
    sliceB (before ++ raw ++ after) (byteLen before + r.spanStart) (byteLen before + r.spanEnd)
      = some n := by
  rw [rule_line_spec] at h
  exact ruleLineSpec_span _ isPWS isSpaceSep raw r n (Option.some.inj h) hn before after

/-- **Declaration lines.** For every line, the model of `parse_declaration`/`declare_start_states`
(keyword cut at the first blank, `RE_WS.split` with pointer offsets, empty pieces skipped) computes
`declLineSpec`: the first maximal run of non-blanks is the `%s…`/`%x…` keyword, every further maximal
run is a declared name with the offsets at which it starts and ends; no name, a line that does not
start with such a keyword → `UnknownDeclaration`; a name that is not `[a-zA-Z][a-zA-Z0-9_.]*` →
`InvalidStartStateName` at its start. -/
theorem decl_line_spec (raw : List Char) : parseDeclLine isPWS raw = declLineSpec isPWS raw :=
  parseDeclLine_eq isPWS raw

/-- **Spans of start-state declarations index the source.** For every declaration line that is
accepted, every declared name is cut out of the text the user wrote by its span (shifted by the
offset of the line) — however many blanks separate the names. -/
theorem decl_spans_index_source (raw : List Char) (excl : Bool)
    (names : List (List Char × Nat × Nat)) (h : parseDeclLine isPWS raw = .ok (excl, names))
    (n : List Char) (a b : Nat) (hm : (n, a, b) ∈ names) (before after : List Char) :
    sliceB (before ++ raw ++ after) (byteLen before + a) (byteLen before + b) = some n :=
  parseDeclLine_span isPWS raw excl names h n a b hm before after

/-- a rule without a name (`;`, `""`, `''`) carries an empty span -/
theorem skip_rule_span_empty (posix : Bool) (raw : List Char) (r : RuleLine)
    (h : parseRuleLine (realCfg posix) isPWS isSpaceSep raw = some (.ok r)) (hn : r.name = none) :
    r.spanStart = r.spanEnd := by
  rw [rule_line_spec] at h
  exact ruleLineSpec_skip_span _ isPWS isSpaceSep raw r (Option.some.inj h) hn

/-- **Flags in force.** For every flag: what the builder set, else what the `%grmtools` section
set, else grmtools' default, else (no default) the regex crate's own default `r`.
`LexerDef::from_str` is the case `bld[i] = none`. -/
theorem flags_in_force (dflt hdr bld : List (Option Bool)) (i : Nat) (d h b : Option Bool) (r : Bool)
    (hd : dflt[i]? = some d) (hh : hdr[i]? = some h) (hb : bld[i]? = some b) :
    ((effectiveFlags dflt hdr bld)[i]?).map (fun e => e.getD r) = some (flagSpec r d h b) := by
  rw [effectiveFlags_getElem? dflt hdr bld i d h b hd hh hb]
  cases b <;> cases h <;> cases d <;> rfl

/-! ## Whole specifications

`pre` is the text up to the end of the `%grmtools` section (where the real section parser stops:
the `start` argument of `LexParser::new_with_lex_flags` is `byteLen pre`, a character boundary by
construction), `body` the rest. `posix`, `comments` are the two flags the parse consults, `compiles`
is the regex engine (`Rule::new` succeeds on a `re_str`). -/

open GrmVerif.LexSpecParse in
/-- **The loops terminate and nothing panics.** For every text, every flag setting, every regex
engine and every fuel above the length of the text, the model of `LexParser::parse` — byte offsets,
`&src[i..]` slices that panic off a character boundary, the `assert_eq!` at the end, two fuelled
loops — returns (no slice panics, the assertion holds, the fuel is not used up), and what it returns
is the specification over the lines of the text. -/
theorem parse_total (posix comments : Bool) (compiles : List Char → Bool) (pre body : List Char)
    (fuel : Nat) (hf : byteLen (pre ++ body) < fuel) :
    parseWith (lexEnv posix comments compiles) fuel (pre ++ body) (byteLen pre)
      = some (specParse (lexEnv posix comments compiles) pre body) :=
  parseWith_eq _ (realCfg_ok posix) pre body fuel hf

open GrmVerif.LexSpecParse in
/-- **The parser computes the line specification** (fuel `|src| + 1`): start states, rules and the
complete error list, for accepted and rejected texts alike. -/
theorem parse_eq_spec (posix comments : Bool) (compiles : List Char → Bool) (pre body : List Char) :
    parseSpec (lexEnv posix comments compiles) (pre ++ body) (byteLen pre)
      = some (specParse (lexEnv posix comments compiles) pre body) :=
  parseSpec_eq _ (realCfg_ok posix) pre body

open GrmVerif.LexSpecParse in
/-- **Rules in source order.** If a text is accepted then it has a `%%` line, and its rules are
exactly the rule lines of the rules section (the lines up to the next `%%` line that are not empty,
not comments, do not start with a blank), in order: the `k`-th rule is the `k`-th rule line as the
line-level model `parseRuleLine` reads it — name, `re_str`, name span shifted by the offset of the
line — with its restriction and target looked up in the start states of the definition, and its
token id is `k`. -/
theorem rules_in_source_order (posix comments : Bool) (compiles : List Char → Bool) (pre body : List Char)
    (sts : List StartState) (rules : List Rule)
    (h : parseSpec (lexEnv posix comments compiles) (pre ++ body) (byteLen pre) = some (.ok (sts, rules))) :
    ∃ sec, rulesSectionOf comments (splitLinesAt body (byteLen pre)) = some sec ∧
      ((ruleLinesOf comments sec).zipIdx).map
          (fun p => ruleOfLineM (lexEnv posix comments compiles) sts p.1 p.2)
        = rules.map some := by
  rw [parse_eq_spec] at h
  obtain ⟨sec, hsec, _, _, hmap⟩ := specParse_ok _ pre body sts rules (Option.some.inj h)
  refine ⟨sec, hsec, ?_⟩
  rw [← hmap]
  apply List.map_congr_left
  intro p _
  exact ruleOfLineM_eq _ (realCfg_ok posix) sts p.1 p.2

open GrmVerif.LexSpecParse in
/-- **Rule `k` is rule line `k`**, field by field (`rules_in_source_order` read at one index): there
are as many rules as rule lines; the `k`-th rule has token id `k`, the name, `re_str` and (shifted)
name span that `parseRuleLine` reads off the `k`-th rule line; the ids of its restriction are those
of the states its `<a,b>` names are found under, and its target is the id of the state its
`<s>`/`<+s>`/`<-s>` names, with the operation written. -/
theorem rule_k_is_line_k (posix comments : Bool) (compiles : List Char → Bool) (pre body : List Char)
    (sts : List StartState) (rules : List Rule) (sec : List Line)
    (h : parseSpec (lexEnv posix comments compiles) (pre ++ body) (byteLen pre) = some (.ok (sts, rules)))
    (hsec : rulesSectionOf comments (splitLinesAt body (byteLen pre)) = some sec) :
    rules.length = (ruleLinesOf comments sec).length ∧
    ∀ (k : Nat) (ln : Line) (r : Rule), (ruleLinesOf comments sec)[k]? = some ln → rules[k]? = some r →
      ∃ rl, parseRuleLine (realCfg posix) isPWS isSpaceSep ln.2 = some (.ok rl) ∧
        r.tokId = k ∧ r.name = rl.name ∧ r.re = rl.re ∧
        r.span = (ln.1 + rl.spanStart, ln.1 + rl.spanEnd) ∧
        rl.states.map (fun n => (findState sts n).map (·.id)) = r.states.map some ∧
        (match rl.target with
          | none => r.target = none
          | some (op, n) => ∃ s, findState sts n = some s ∧ r.target = some (s.id, op)) := by
  obtain ⟨sec', hsec', hmap⟩ := rules_in_source_order posix comments compiles pre body sts rules h
  rw [hsec] at hsec'
  obtain rfl := Option.some.inj hsec'
  refine ⟨?_, ?_⟩
  · have := congrArg List.length hmap
    simpa using this.symm
  · intro k ln r hln hr
    have hk := congrArg (fun l => l[k]?) hmap
    simp only [List.getElem?_map, List.getElem?_zipIdx, hln, hr, Option.map_some, Nat.zero_add] at hk
    have hk' := Option.some.inj hk
    unfold ruleOfLineM at hk'
    simp only [lexEnv] at hk'
    cases hp : parseRuleLine (realCfg posix) isPWS isSpaceSep ln.2 with
    | none => simp [hp] at hk'
    | some res =>
      cases res with
      | error e => simp [hp] at hk'
      | ok rl =>
        simp only [hp, resolveRule] at hk'
        refine ⟨rl, rfl, ?_⟩
        cases hrt : resolveTarget sts rl.target with
        | none => simp [hrt] at hk'
        | some tgt =>
          cases hra : resolveAll sts rl.states with
          | none => simp [hrt, hra] at hk'
          | some ids =>
            simp only [hrt, hra, Option.bind_some, Option.map_some, Option.some.injEq] at hk'
            subst hk'
            refine ⟨rfl, rfl, rfl, rfl, resolveAll_some sts rl.states ids hra, ?_⟩
            cases htg : rl.target with
            | none => simp only [htg, resolveTarget, Option.some.injEq] at hrt ⊢; exact hrt.symm
            | some on =>
              obtain ⟨op, n⟩ := on
              simp only [htg, resolveTarget, Option.map_eq_some_iff] at hrt ⊢
              obtain ⟨s, hs, hst⟩ := hrt
              exact ⟨s, hs, hst.symm⟩

open GrmVerif.LexSpecParse in
/-- **Start states.** If a text is accepted then every declaration line (the lines before the `%%`
line that are not blank and not comments, from their first non-blank character) is accepted by the
line-level model `parseDeclLine`, and the start states are `INITIAL` (id 0, inclusive, empty span)
followed by the names of the declaration lines, in order of declaration, each with the span of its
declaration (shifted by the offset of the line) and the exclusive flag of its line, numbered 0, 1, 2, …. -/
theorem states_declared (posix comments : Bool) (compiles : List Char → Bool) (pre body : List Char)
    (sts : List StartState) (rules : List Rule)
    (h : parseSpec (lexEnv posix comments compiles) (pre ++ body) (byteLen pre) = some (.ok (sts, rules))) :
    (∀ ln ∈ declLinesOf comments (splitLinesAt body (byteLen pre)), ∃ d, parseDeclLine isPWS ln.2 = .ok d) ∧
      sts = numberFrom 0 (stateOccs comments (splitLinesAt body (byteLen pre))) ∧
      ∀ (j : Nat) (s : StartState), sts[j]? = some s → s.id = j := by
  rw [parse_eq_spec] at h
  obtain ⟨_, _, hall, hsts, _⟩ := specParse_ok _ pre body sts rules (Option.some.inj h)
  refine ⟨hall, hsts, ?_⟩
  intro j s hj
  rw [hsts] at hj
  have := (numberFrom_getElem? 0 _ j s hj).1
  omega

open GrmVerif.LexSpecParse in
/-- **Restrictions and targets resolve to these states.** In an accepted text every rule line is
accepted by the line-level model, and every state named in its `<a,b>` restriction or in its
`<s>`/`<+s>`/`<-s>` target is a start state of the definition (the ids stored in the rule are the ids
of these states: `rules_in_source_order`, `resolveRule`). -/
theorem rule_states_resolve (posix comments : Bool) (compiles : List Char → Bool) (pre body : List Char)
    (sts : List StartState) (rules : List Rule) (sec : List Line)
    (h : parseSpec (lexEnv posix comments compiles) (pre ++ body) (byteLen pre) = some (.ok (sts, rules)))
    (hsec : rulesSectionOf comments (splitLinesAt body (byteLen pre)) = some sec) :
    ∀ ln ∈ ruleLinesOf comments sec, ∃ rl,
      parseRuleLine (realCfg posix) isPWS isSpaceSep ln.2 = some (.ok rl) ∧
      (∀ n ∈ rl.states, ∃ s ∈ sts, s.name = n) ∧
      (∀ op n, rl.target = some (op, n) → ∃ s ∈ sts, s.name = n) := by
  rw [parse_eq_spec] at h
  intro ln hln
  obtain ⟨rl, hrl, h1, h2⟩ := specParse_ok_names _ pre body sts rules (Option.some.inj h) sec hsec ln hln
  exact ⟨rl, by rw [rule_line_spec]; exact congrArg some hrl, h1, h2⟩

open GrmVerif.LexSpecParse in
/-- **Unknown target state.** A rule line that the line-level model accepts and whose target state
is not among the start states declared so far stops the parse with `UnknownStartState` located right
after the last blank of the line (at the `<` of the target) — in the model of `parse_rule`, without
panic. -/
theorem unknown_target_state (posix comments : Bool) (compiles : List Char → Bool) (off : Nat)
    (raw : List Char) (rl : RuleLine) (st : PState) (op : Nat) (n : List Char)
    (hrl : parseRuleLine (realCfg posix) isPWS isSpaceSep raw = some (.ok rl))
    (ht : rl.target = some (op, n)) (hu : findState st.states n = none) :
    ruleLineStep (lexEnv posix comments compiles) off raw st
      = some (.error (st.errs ++ [mkErr .unknownStartState (off + nameOffOf raw)])) := by
  rw [rule_line_spec] at hrl
  rw [ruleLineStep_eq _ (realCfg_ok posix)]
  exact congrArg some (step_unknown_target _ off raw rl st op n (Option.some.inj hrl) ht hu)

open GrmVerif.LexSpecParse in
/-- **Unknown state in a restriction.** A rule line that the line-level model accepts, whose target
(if any) is known and whose name is not taken, but whose `<a,b>` restriction names a state that is
not declared, stops the parse with `UnknownStartState` at the start of the line. -/
theorem unknown_restriction_state (posix comments : Bool) (compiles : List Char → Bool) (off : Nat)
    (raw : List Char) (rl : RuleLine) (st : PState) (tgt : Option (Nat × Nat))
    (hrl : parseRuleLine (realCfg posix) isPWS isSpaceSep raw = some (.ok rl))
    (htgt : resolveTarget st.states rl.target = some tgt)
    (hfresh : ∀ n, rl.name = some n → findRule st.rules n = none)
    (hu : ∃ n ∈ rl.states, findState st.states n = none) :
    ruleLineStep (lexEnv posix comments compiles) off raw st
      = some (.error (st.errs ++ [mkErr .unknownStartState off])) := by
  rw [rule_line_spec] at hrl
  rw [ruleLineStep_eq _ (realCfg_ok posix)]
  exact congrArg some (step_unknown_restriction _ off raw rl st tgt (Option.some.inj hrl) htgt hfresh hu)

open GrmVerif.LexSpecParse in
/-- **A text that names an undeclared start state is rejected.** If a rule line that the line-level
model accepts names, in its restriction or as its target, a state that is neither `INITIAL` nor
declared on a declaration line, then the text is not accepted (for a target, and for the restriction
of a rule whose name is not taken, the error that stops the parse at that line is
`unknown_target_state` / `unknown_restriction_state`). -/
theorem undeclared_state_rejected (posix comments : Bool) (compiles : List Char → Bool) (pre body : List Char)
    (sec : List Line) (ln : Line) (rl : RuleLine) (n : List Char)
    (hsec : rulesSectionOf comments (splitLinesAt body (byteLen pre)) = some sec)
    (hln : ln ∈ ruleLinesOf comments sec)
    (hrl : parseRuleLine (realCfg posix) isPWS isSpaceSep ln.2 = some (.ok rl))
    (hnamed : n ∈ rl.states ∨ ∃ op, rl.target = some (op, n))
    (hund : n ∉ (stateOccs comments (splitLinesAt body (byteLen pre))).map (·.1)) :
    ∃ es, parseSpec (lexEnv posix comments compiles) (pre ++ body) (byteLen pre) = some (.error es) := by
  have hp := parse_eq_spec posix comments compiles pre body
  cases hres : specParse (lexEnv posix comments compiles) pre body with
  | error es => exact ⟨es, by rw [hp, hres]⟩
  | ok v =>
    exfalso
    obtain ⟨sts, rules⟩ := v
    rw [hres] at hp
    obtain ⟨rl', hrl', h1, h2⟩ := rule_states_resolve posix comments compiles pre body sts rules sec hp hsec ln hln
    rw [hrl] at hrl'
    obtain rfl : rl = rl' := by simpa using hrl'
    obtain ⟨_, hsts, _⟩ := states_declared posix comments compiles pre body sts rules hp
    have hnames : ∀ s ∈ sts, s.name ∈ (stateOccs comments (splitLinesAt body (byteLen pre))).map (·.1) := by
      intro s hs
      rw [hsts] at hs
      simp only [numberFrom, List.mem_map] at hs
      obtain ⟨p, hp', rfl⟩ := hs
      exact List.mem_map.mpr ⟨p.1, (List.mem_zipIdx hp').2.2 ▸ List.getElem_mem _, rfl⟩
    rcases hnamed with hn | ⟨op, ht⟩
    · obtain ⟨s, hs, rfl⟩ := h1 n hn; exact hund (hnames s hs)
    · obtain ⟨s, hs, rfl⟩ := h2 op n ht; exact hund (hnames s hs)

open GrmVerif.LexSpecParse in
/-- **Two rules of the same name are rejected.** If two rule lines of the rules section, in this
order, are accepted by the line-level model with the same name `n`, then the text is rejected, and
the error list either contains one `DuplicateName` error that lists the name spans of both lines —
spans that cut exactly `n` out of the text the user wrote — or is `errs ++ [e]` with `e` an error of
a kind that stops the parse (every kind but duplicates and verbatim lines), located at or before the
end of the second line: the parse was stopped before the second occurrence was done. (An error that
stops the parse later leaves the `DuplicateName` error in the list.) -/
theorem duplicate_names_rejected (posix comments : Bool) (compiles : List Char → Bool) (pre body : List Char)
    (sec A B : List Line) (ln1 ln2 : Line) (r1 r2 : RuleLine) (n : List Char)
    (hsec : rulesSectionOf comments (splitLinesAt body (byteLen pre)) = some sec)
    (hA : ruleLinesOf comments sec = A ++ ln1 :: B) (hB : ln2 ∈ B)
    (h1 : parseRuleLine (realCfg posix) isPWS isSpaceSep ln1.2 = some (.ok r1)) (hn1 : r1.name = some n)
    (h2 : parseRuleLine (realCfg posix) isPWS isSpaceSep ln2.2 = some (.ok r2)) (hn2 : r2.name = some n) :
    (∃ es, parseSpec (lexEnv posix comments compiles) (pre ++ body) (byteLen pre) = some (.error es) ∧
      (HasDup .duplicateName (ln1.1 + r1.spanStart, ln1.1 + r1.spanEnd)
          (ln2.1 + r2.spanStart, ln2.1 + r2.spanEnd) es ∨
        ∃ errs, StoppedAt (· ≤ ln2.1 + byteLen ln2.2) errs es)) ∧
    sliceB (pre ++ body) (ln1.1 + r1.spanStart) (ln1.1 + r1.spanEnd) = some n ∧
    sliceB (pre ++ body) (ln2.1 + r2.spanStart) (ln2.1 + r2.spanEnd) = some n := by
  have hs1 := spans_index_source posix ln1.2 r1 n h1 hn1
  have hs2 := spans_index_source posix ln2.2 r2 n h2 hn2
  rw [rule_line_spec] at h1 h2
  have hloc : ∀ ln ∈ ruleLinesOf comments sec, Located (pre ++ body) ln := by
    intro ln hln
    exact rulesSectionOf_located comments _ _ sec (located_lines pre body) hsec ln
      (ruleLinesOf_subset comments sec ln hln)
  refine ⟨?_, ?_, ?_⟩
  · rw [parse_eq_spec]
    obtain ⟨es, hes, hd⟩ := specParse_dup_rules_at (lexEnv posix comments compiles) pre body sec A B ln1 ln2
      r1 r2 n hsec hA hB (Option.some.inj h1) hn1 (Option.some.inj h2) hn2
    exact ⟨es, congrArg some hes, hd⟩
  · obtain ⟨a, b, hab, ha⟩ := hloc ln1 (by rw [hA]; simp)
    rw [hab, ← ha]; exact hs1 a b
  · obtain ⟨a, b, hab, ha⟩ := hloc ln2 (by rw [hA]; simp [hB])
    rw [hab, ← ha]; exact hs2 a b

open GrmVerif.LexSpecParse in
/-- **Two start states of the same name are rejected.** The occurrences of start-state names are
the implicit `INITIAL` (empty span 0..0) and then the names of the declaration lines in order
(`stateOccs`). If two occurrences, in this order, carry the same name, then the text is rejected, and
the error list either contains one `DuplicateStartState` error that lists the spans of both
occurrences, or is `errs ++ [e]` with `e` an error that stops the parse, located at or before the
start of the second occurrence. (That the span of a declared name cuts the name out of the text is
`decl_spans_index_source` / `state_spans_index_source`; the span of `INITIAL` is empty.) -/
theorem duplicate_states_rejected (posix comments : Bool) (compiles : List Char → Bool) (pre body : List Char)
    (A B : List Occ) (oc1 oc2 : Occ)
    (hA : stateOccs comments (splitLinesAt body (byteLen pre)) = A ++ oc1 :: B) (hB : oc2 ∈ B)
    (hn : oc1.1 = oc2.1) :
    ∃ es, parseSpec (lexEnv posix comments compiles) (pre ++ body) (byteLen pre) = some (.error es) ∧
      (HasDup .duplicateStartState oc1.2.1 oc2.2.1 es ∨ ∃ errs, StoppedAt (· ≤ oc2.2.1.1) errs es) := by
  rw [parse_eq_spec]
  obtain ⟨es, hes, hd⟩ := specParse_dup_states_at (lexEnv posix comments compiles) pre body A B oc1 oc2 hA hB hn
  exact ⟨es, congrArg some hes, hd⟩

open GrmVerif.LexSpecParse in
/-- **No accepted definition carries a name twice**: the named rules of an accepted text have
pairwise distinct names, and so have its start states. -/
theorem names_distinct (posix comments : Bool) (compiles : List Char → Bool) (pre body : List Char)
    (sts : List StartState) (rules : List Rule)
    (h : parseSpec (lexEnv posix comments compiles) (pre ++ body) (byteLen pre) = some (.ok (sts, rules))) :
    (rules.filterMap (·.name)).Nodup ∧ (sts.map (·.name)).Nodup := by
  rw [parse_eq_spec] at h
  exact specParse_distinct _ pre body sts rules (Option.some.inj h)

open GrmVerif.LexSpecParse in
/-- **The spans of the declared states of an accepted text index the source**: the span of every
start state but `INITIAL` cuts its name out of the text the user wrote. -/
theorem state_spans_index_source (posix comments : Bool) (compiles : List Char → Bool) (pre body : List Char)
    (sts : List StartState) (rules : List Rule)
    (h : parseSpec (lexEnv posix comments compiles) (pre ++ body) (byteLen pre) = some (.ok (sts, rules)))
    (j : Nat) (s : StartState) (hj : sts[j + 1]? = some s) :
    sliceB (pre ++ body) s.span.1 s.span.2 = some s.name := by
  obtain ⟨_, hsts, _⟩ := states_declared posix comments compiles pre body sts rules h
  rw [hsts] at hj
  obtain ⟨_, hocc⟩ := numberFrom_getElem? 0 _ (j + 1) s hj
  simp only [stateOccs, List.getElem?_cons_succ] at hocc
  have hmem := List.mem_of_getElem? hocc
  simp only [List.mem_flatMap] at hmem
  obtain ⟨ln, hln, hin⟩ := hmem
  have hloc := declLinesOf_located comments (pre ++ body) _ (located_lines pre body) ln hln
  obtain ⟨a, b, hab, ha⟩ := hloc
  unfold declaredOn at hin
  cases hpd : parseDeclLine isPWS ln.2 with
  | error e => simp [hpd] at hin
  | ok d =>
    obtain ⟨excl, names⟩ := d
    simp only [hpd, List.mem_map, Prod.mk.injEq] at hin
    obtain ⟨t, ht, h1, h2, _⟩ := hin
    have := decl_spans_index_source ln.2 excl names hpd t.1 t.2.1 t.2.2 ht a b
    rw [hab, ← h1, ← h2, ← ha]; exact this

/-- test: an accepted text after a `%grmtools` section of 14 bytes: two declaration lines with
several blanks, a comment, a restricted rule with a target, a skip rule; ids, flags, spans -/
example : (match GrmVerif.LexSpecParse.parseSpec (GrmVerif.LexSpecParse.lexEnv false true (fun _ => true))
      "%grmtools{é}\n%x ST  a_b\n%s Q\n%%\n// c\n<ST,Q>a+ <+a_b>'A'\n\\! ;\n".toList 14 with
    | some (.ok (sts, _)) => some sts
    | _ => none)
    = some [⟨0, "INITIAL".toList, (0, 0), false⟩, ⟨1, "ST".toList, (17, 19), true⟩,
            ⟨2, "a_b".toList, (21, 24), true⟩, ⟨3, "Q".toList, (28, 29), false⟩] := by
  decide
example : (match GrmVerif.LexSpecParse.parseSpec (GrmVerif.LexSpecParse.lexEnv false true (fun _ => true))
      "%grmtools{é}\n%x ST  a_b\n%s Q\n%%\n// c\n<ST,Q>a+ <+a_b>'A'\n\\! ;\n".toList 14 with
    | some (.ok (_, rules)) => some rules
    | _ => none)
    = some [⟨0, some "A".toList, (54, 55), "a+".toList, [1, 3], some (2, 1)⟩,
            ⟨1, none, (60, 60), "!".toList, [], none⟩] := by
  decide
/-- test: errors are collected — a duplicate state, a duplicate name, a verbatim line — until an
unknown start state stops the parse -/
example : (match GrmVerif.LexSpecParse.parseSpec (GrmVerif.LexSpecParse.lexEnv false false (fun _ => true))
      "%s A  B\n%x A\n%%\n<A>a <+B>'X'\nb 'X'\n c ;\n<Q>d 'D'\n".toList 0 with
    | some (.error es) => some es
    | _ => none)
    = some [⟨.duplicateStartState, [(3, 4), (11, 12)]⟩, ⟨.duplicateName, [(26, 27), (32, 33)]⟩,
            ⟨.verbatimNotSupported, [(35, 39)]⟩, ⟨.unknownStartState, [(40, 40)]⟩] := by
  decide
/-- test: the hypotheses of `duplicate_names_rejected` / `duplicate_states_rejected` are satisfiable -/
example : GrmVerif.LexSpecParse.rulesSectionOf false
      (GrmVerif.LexSpecParse.splitLinesAt "%%\na 'X'\nb 'X'".toList 0)
    = some [(2, []), (3, "a 'X'".toList), (9, "b 'X'".toList)] := by decide
example : GrmVerif.LexSpecParse.ruleLinesOf false [(2, []), (3, "a 'X'".toList), (9, "b 'X'".toList)]
    = [] ++ (3, "a 'X'".toList) :: [(9, "b 'X'".toList)] := by decide
example : GrmVerif.LexSpecParse.stateOccs false
      (GrmVerif.LexSpecParse.splitLinesAt "%s A\n%x B A\n%%".toList 0)
    = [(GrmVerif.LexSpecParse.initialName, (0, 0), false)] ++ ("A".toList, (3, 4), false)
        :: [("B".toList, (8, 9), true), ("A".toList, (10, 11), true)] := by decide
/-- test: a start offset inside a character is the panic the theorems exclude -/
example : GrmVerif.LexSpecParse.parseSpec (GrmVerif.LexSpecParse.lexEnv false false (fun _ => true))
    "é%%".toList 1 = none := by decide

/-- the tables are the ones the model was written against (a change of the sources shows here) -/
example : GrmVerif.Extracted.RE_LEX_ESC_LITERAL_SRC
    = "^(([xuU][[:xdigit:]])|[[:digit:]]|[afnrtv\\\\]|[pP]|[dDsSwW]|[Az])" := by decide
example : GrmVerif.Extracted.RE_SPACE_SEP_SRC = "[\\p{Pattern_White_Space}&&[\\p{Zs}\\t]]" := by decide
example : GrmVerif.Extracted.RE_LINE_SEP_SRC = "[\\p{Pattern_White_Space}&&[\\p{Zl}\\p{Zp}\\n\\r\\v]]" := by decide
example : GrmVerif.Extracted.RE_WS_SRC = "\\p{Pattern_White_Space}" := by decide
example : GrmVerif.Extracted.RE_START_STATE_NAME_SRC = "^[a-zA-Z][a-zA-Z0-9_.]*$" := by decide
example : GrmVerif.Extracted.RE_INCLUSIVE_START_STATE_DECLARATION_SRC = "^%[sS][a-zA-Z0-9]*$" := by decide
example : GrmVerif.Extracted.RE_EXCLUSIVE_START_STATE_DECLARATION_SRC = "^%[xX][a-zA-Z0-9]*$" := by decide
example : GrmVerif.Extracted.LEX_FLAG_NAMES.length = GrmVerif.Extracted.DEFAULT_LEX_FLAGS.length := by decide

/-- test: `\!abc\` — the repaired scanner keeps the tail, the unrepaired one returned `!` -/
example : unescape (realCfg false) "\\!abc\\".toList = some "!abc\\".toList := by decide
example : unescapeOrig (realCfg false) "\\!abc\\".toList = some "!".toList := by decide
/-- test: escapes next to multi-byte characters, `\b` with and without `posix_escapes` -/
example : unescape (realCfg true) "\\é\\b\\❤\\x4\\xg".toList = some "é\\x08❤\\x4xg".toList := by decide
example : unescape (realCfg false) "\\é\\b\\❤".toList = some "é\\b❤".toList := by decide

/-- test (hypotheses of `trim_end_unescaped_spec` are satisfiable, both outcomes occur) -/
example : trimEndUnescaped isPWS "x\\  ".toList = "x\\ ".toList := by decide
example : trimEndUnescaped isPWS "x\\\\  ".toList = "x\\\\".toList := by decide
/-- test: a rule line with a restriction, an escaped multi-byte character, a target and a name;
the span (relative to the line) spells the name -/
example : (match parseRuleLine (realCfg true) isPWS isSpaceSep "<ST, a>\\é\\b+  <+ST>\"kn\" ".toList with
      | some (.ok r) => some r
      | _ => none)
    = some ⟨["ST".toList, "a".toList], "é\\x08+".toList, some (1, "ST".toList), some "kn".toList, 21, 23⟩ := by
  decide
example : sliceB "<ST, a>\\é\\b+  <+ST>\"kn\" ".toList 21 23 = some "kn".toList := by decide
example : (match parseRuleLine (realCfg false) isPWS isSpaceSep "abc".toList with
      | some (.error e) => some e
      | _ => none) = some (.missingSpace, 0) := by decide
/-- test: a declaration line with several blanks between the names -/
example : (match parseDeclLine isPWS "%x  ST a_b\t\tQ9 ".toList with
      | .ok r => some r
      | _ => none)
    = some (true, [("ST".toList, 4, 6), ("a_b".toList, 7, 10), ("Q9".toList, 12, 14)]) := by decide
/-- test: flags — builder beats section beats default -/
example : effectiveFlags GrmVerif.Extracted.DEFAULT_LEX_FLAGS
    [none, none, none, some true, none, some true, none, none, none]
    [none, none, some false, some false, none, none, none, none, none]
    = [some true, some true, some false, some false, some false, some true, none, none, none] := by decide

end GrmVerif.C11
