import GrmVerif.Lemmas.Table
/-!
# C03 — conflicts are resolved by Yacc's rules and reported exactly

Model: `Model/Table.lean` (`cellOf` = the life of one action-table cell in `StateTable::new`:
reduce/accept loop over the closed items in hash-map iteration order, then the edge loop with
`resolve_shift_reduce`). Specification: `Lemmas/TableSpec.lean` (`specReduce`, `specSR`,
`specCell`). The production precedence itself (`%prec` token, else last token) is part of grammar
construction and is covered under C10 (`prod_prec_spec`).
-/
namespace GrmVerif.C03
open GrmVerif GrmVerif.Table

/-- consistency of the precedence tables gives the side condition of `resolveSR_spec` -/
theorem precConsistent_cond (G : Grammar) (h : precConsistent G = true) (t r : Nat) :
    ∀ a b, (G.tokPrec[t]?).getD none = some a → (G.prodPrec[r]?).getD none = some b →
      a.level = b.level → a.kind = b.kind ∧ a.kind ≤ 2 := by
  intro a b ha hb hl
  simp only [precConsistent, List.all_eq_true, List.mem_filterMap, id, Bool.and_eq_true,
    decide_eq_true_eq, Bool.or_eq_true, bne_iff_ne, ne_eq, beq_iff_eq] at h
  have hma : ∃ x, x ∈ G.tokPrec ++ G.prodPrec ∧ x = some a := by
    cases hg : G.tokPrec[t]? with
    | none => simp [hg] at ha
    | some v =>
      rw [hg] at ha; simp at ha; subst ha
      exact ⟨some a, List.mem_append_left _ (List.mem_of_getElem? hg), rfl⟩
  have hmb : ∃ x, x ∈ G.tokPrec ++ G.prodPrec ∧ x = some b := by
    cases hg : G.prodPrec[r]? with
    | none => simp [hg] at hb
    | some v =>
      rw [hg] at hb; simp at hb; subst hb
      exact ⟨some b, List.mem_append_right _ (List.mem_of_getElem? hg), rfl⟩
  have h1 := h a hma
  have h2 := h1.2 b hmb
  rcases h2 with h2 | h2
  · exact absurd hl h2
  · exact ⟨h2, h1.1⟩

/-- **Every cell holds the action Yacc prescribes.** For the closed items of a state in ANY
iteration order (`R` = the candidate reductions in that order, duplicate-free because item keys
are unique), the optional shift edge on `t`, and consistent precedence declarations: the model of
`StateTable::new` leaves in the cell exactly `specCell` — earliest production among the reductions;
then the shift against that winner by precedence/associativity, `%nonassoc` ⇒ error, shift when
either side lacks a precedence —, records `|R| − 1` reduce/reduce pairs `(kept < displaced)` drawn
from `R`, records the shift/reduce conflict exactly when the default rule was used, and lists the
token under `state_actions` exactly when the final action is not an error. An accepting item
clashing with a reduction is the hard accept/reduce error. -/
theorem table_cell_spec (G : Grammar) (items : List Item) (tgt : Option Nat) (t : Nat)
    (hnd : (reduceCands G items t).Nodup) (hprec : precConsistent G = true)
    (hacc : specReduce G t (reduceCands G items t) = some .accept → tgt = none) :
    match specCell G (reduceCands G items t) tgt t with
    | none => ∃ o, cellOf G items tgt t = .acceptReduce o
    | some (a, nrr, sr) =>
      ∃ rr, cellOf G items tgt t = .ok a rr sr (decide (a ≠ .error)) ∧ rr.length = nrr ∧
        ∀ kd ∈ rr, kd.1 < kd.2 ∧ kd.1 ∈ reduceCands G items t ∧ kd.2 ∈ reduceCands G items t := by
  have hR := reducePhase_spec G t (reduceCands G items t) hnd
  unfold specCell cellOf
  cases hs : specReduce G t (reduceCands G items t) with
  | none =>
    rw [hs] at hR
    obtain ⟨o, ho⟩ := hR
    simp only [ho]; exact ⟨o, rfl⟩
  | some base =>
    rw [hs] at hR
    obtain ⟨rr, h1, h2, h3⟩ := hR
    simp only [h1]
    cases tgt with
    | none =>
      refine ⟨rr, ?_, h2, h3⟩
      -- the cell is an error exactly when there were no candidates
      have : (!(reduceCands G items t).isEmpty) = decide (base ≠ .error) := by
        unfold specReduce at hs
        by_cases he : reduceCands G items t = []
        · simp [he] at hs; subst hs; simp [he]
        · simp only [he, ↓reduceIte] at hs
          have hne : (reduceCands G items t).isEmpty = false := by
            cases hl : reduceCands G items t with
            | nil => exact absurd hl he
            | cons _ _ => rfl
          split at hs
          · split at hs
            · cases hs; simp [hne]
            · cases hs
          · cases hs; simp [hne]
      simp [this]
    | some tg =>
      cases base with
      | error =>
        refine ⟨rr, ?_, h2, h3⟩
        simp [shiftStep]
      | shift x =>
        -- impossible: the reduce loop never leaves a shift
        unfold specReduce at hs
        split at hs
        · cases hs
        · split at hs
          · split at hs <;> cases hs
          · cases hs
      | accept =>
        have := hacc hs; cases this
      | reduce r =>
        have hsr := resolveSR_spec ((G.tokPrec[t]?).getD none) ((G.prodPrec[r]?).getD none) tg r
          (precConsistent_cond G hprec t r)
        simp only [shiftStep, hsr]
        refine ⟨rr, ?_, h2, h3⟩
        cases hsp : specSR ((G.tokPrec[t]?).getD none) ((G.prodPrec[r]?).getD none) tg r with
        | mk a rep =>
          cases rep <;> cases a <;> simp

/-- **Order independence.** Permuting the iteration order of the items changes neither the cell,
nor the number of reported reduce/reduce conflicts, nor the reported shift/reduce conflict. (The
identity of the reduce/reduce *pairs* may change when three or more productions compete; their
number and the winner do not.) -/
theorem table_order_indep (G : Grammar) (R R' : List Nat) (tgt : Option Nat) (t : Nat) (h : R.Perm R') :
    specCell G R tgt t = specCell G R' tgt t := by
  have hmem : ∀ x, x ∈ R ↔ x ∈ R' := fun x => h.mem_iff
  have hlen : R.length = R'.length := h.length_eq
  have hnil : R = [] ↔ R' = [] := by
    constructor
    · intro e; subst e; exact h.nil_eq.symm
    · intro e; subst e; exact h.eq_nil
  have hred : specReduce G t R = specReduce G t R' := by
    unfold specReduce
    by_cases he : R = []
    · simp [he, hnil.mp he]
    · have he' : R' ≠ [] := fun e => he (hnil.mpr e)
      simp only [he, he', ↓reduceIte, hmem, hlen, minList_congr R R' hmem he]
  unfold specCell
  rw [hred, hlen]

/-- permuting the items permutes the candidate list -/
theorem reduceCands_perm (G : Grammar) (items items' : List Item) (t : Nat) (h : items.Perm items') :
    (reduceCands G items t).Perm (reduceCands G items' t) :=
  (h.filter _).map _

/-- **Reported conflicts are exactly the pairs settled by the two default rules** (cell level):
a shift/reduce conflict is reported iff a shift edge met a winning reduction and the token or the
production had no precedence; the number of reduce/reduce conflicts reported for the cell is the
number of candidate reductions minus one. -/
theorem conflicts_exact (G : Grammar) (R : List Nat) (tgt : Option Nat) (t : Nat) (a : Act) (nrr : Nat)
    (sr : Option Nat) (h : specCell G R tgt t = some (a, nrr, sr)) :
    nrr = R.length - 1 ∧
    (∀ r, sr = some r ↔ ∃ tg, tgt = some tg ∧ specReduce G t R = some (.reduce r) ∧
      ((G.tokPrec[t]?).getD none = none ∨ (G.prodPrec[r]?).getD none = none)) := by
  unfold specCell at h
  cases hs : specReduce G t R with
  | none => simp [hs] at h
  | some base =>
    simp only [hs] at h
    cases tgt with
    | none =>
      simp only [Option.some.injEq, Prod.mk.injEq] at h
      obtain ⟨_, h2, h3⟩ := h
      exact ⟨h2.symm, by intro r; subst h3; simp⟩
    | some tg =>
      cases base with
      | reduce r0 =>
        simp only at h
        cases hsp : specSR ((G.tokPrec[t]?).getD none) ((G.prodPrec[r0]?).getD none) tg r0 with
        | mk a' rep =>
          rw [hsp] at h
          simp only [Option.some.injEq, Prod.mk.injEq] at h
          obtain ⟨_, h2, h3⟩ := h
          refine ⟨h2.symm, ?_⟩
          intro r
          -- `rep` is true exactly when one of the two precedences is missing
          have hrep : rep = true ↔ ((G.tokPrec[t]?).getD none = none ∨ (G.prodPrec[r0]?).getD none = none) := by
            unfold specSR at hsp
            cases htp : (G.tokPrec[t]?).getD none with
            | none => simp [htp] at hsp; simp [hsp.2.symm]
            | some x =>
              cases hpp : (G.prodPrec[r0]?).getD none with
              | none => simp [htp, hpp] at hsp; simp [hsp.2.symm]
              | some y =>
                simp only [htp, hpp] at hsp
                have : rep = false := by
                  split at hsp
                  · cases hsp; rfl
                  · split at hsp
                    · cases hsp; rfl
                    · split at hsp
                      · cases hsp; rfl
                      · split at hsp <;> (cases hsp; rfl)
                simp [this]
          subst h3
          constructor
          · intro hr
            cases hrp : rep with
            | false => simp [hrp] at hr
            | true =>
              simp only [hrp, ↓reduceIte, Option.some.injEq] at hr
              subst hr
              exact ⟨tg, rfl, rfl, hrep.mp hrp⟩
          · rintro ⟨tg', _, hr0, hmiss⟩
            have : r0 = r := by simpa using hr0
            subst this
            simp [hrep.mpr hmiss]
      | error =>
        simp only [Option.some.injEq, Prod.mk.injEq] at h
        obtain ⟨_, h2, h3⟩ := h
        exact ⟨h2.symm, by intro r; subst h3; simp⟩
      | accept =>
        simp only [Option.some.injEq, Prod.mk.injEq] at h
        obtain ⟨_, h2, h3⟩ := h
        exact ⟨h2.symm, by intro r; subst h3; simp⟩
      | shift x =>
        simp only [Option.some.injEq, Prod.mk.injEq] at h
        obtain ⟨_, h2, h3⟩ := h
        exact ⟨h2.symm, by intro r; subst h3; simp⟩

/-- with unequal levels, or equal levels and equal kinds in 0..2, `resolve_shift_reduce` does not
reach `panic!("Not supported.")` -/
theorem prec_panic_unreachable (tp pp : Prec) (tgt r : Nat)
    (h : tp.level = pp.level → tp.kind = pp.kind ∧ tp.kind ≤ 2) :
    resolveSR (some tp) (some pp) tgt r ≠ none := by
  have := resolveSR_spec (some tp) (some pp) tgt r (by
    intro a b ha hb hl; cases ha; cases hb; exact h hl)
  rw [this]; simp

/-- `CTParserBuilder::build`'s decision, as written (with the repaired `else if` arm for a
conflict-free table): `conflicts = none` when the table reports no conflict at all -/
def ctBuildFails (errOnConflicts : Bool) (conflicts : Option (Nat × Nat)) (expect expectrr : Option Nat) : Bool :=
  match errOnConflicts, conflicts with
  | true, some (sr, rr) =>
    match expect, expectrr with
    | some i, some j => !(i == sr && j == rr)
    | some i, none => !(i == sr && 0 == rr)
    | none, some j => !(0 == sr && j == rr)
    | none, none => !(0 == rr && 0 == sr)
  | true, none => expect.getD 0 != 0 || expectrr.getD 0 != 0
  | false, _ => false

/-- **A compile-time build fails iff the counts differ from `%expect` / `%expect-rr` (default 0).** -/
theorem expect_iff (errOnConflicts : Bool) (sr rr : Nat) (expect expectrr : Option Nat) :
    ctBuildFails errOnConflicts (if sr = 0 ∧ rr = 0 then none else some (sr, rr)) expect expectrr =
      (errOnConflicts && (sr != expect.getD 0 || rr != expectrr.getD 0)) := by
  cases errOnConflicts
  · simp [ctBuildFails]
  · by_cases h0 : sr = 0 ∧ rr = 0
    · obtain ⟨rfl, rfl⟩ := h0
      simp only [and_self, ↓reduceIte, ctBuildFails, Bool.true_and]
      rw [Bool.eq_iff_iff]
      cases expect with
      | none =>
        cases expectrr with
        | none => simp
        | some j => simp <;> omega
      | some i =>
        cases expectrr with
        | none => simp <;> omega
        | some j => simp <;> omega
    · simp only [h0, ↓reduceIte, ctBuildFails, Bool.true_and]
      rw [Bool.eq_iff_iff]
      cases expect <;> cases expectrr <;>
        simp only [Option.getD_none, Option.getD_some, bne_iff_ne, ne_eq, Bool.or_eq_true, Bool.not_eq_true',
          Bool.and_eq_false_iff, beq_eq_false_iff_ne, Bool.and_eq_true, beq_iff_eq] <;> omega

/-! ### non-vacuity (tests) -/

/-- tables of `E: E '+' E | 'n'` without precedences -/
def exNoPrec : Grammar :=
  { ntoks := 3, nrules := 2, eof := 2, startProd := 2, prods := []
    tokPrec := [none, none, none], prodPrec := [none, none, none] }
/-- the same with `%left '+'` -/
def exLeft : Grammar :=
  { ntoks := 3, nrules := 2, eof := 2, startProd := 2, prods := []
    tokPrec := [some ⟨0, 0⟩, none, none], prodPrec := [some ⟨0, 0⟩, none, none] }
/-- state after `E + E`: reduce by production 0 meets a shift on `+`; no precedences: shift wins and
the conflict is reported; with `%left`: reduce wins, nothing reported -/
example : specCell exNoPrec [0] (some 4) 0 = some (.shift 4, 0, some 0) := by decide
example : specCell exLeft [0] (some 4) 0 = some (.reduce 0, 0, none) := by decide
example : precConsistent exLeft = true := by decide
example : ctBuildFails true none (some 1) none = true := by decide

end GrmVerif.C03
