import GrmVerif.Lemmas.Codec
import GrmVerif.Lemmas.QueryProg
/-!
# C14 — serialised grammars and tables come back observationally identical

Property theorems only. Codecs: `Model/Codec.lean` (wire format of wincode 0.5.5 in the two
configurations `lrpar::ctbuilder` uses); drivers as query programs: `Model/QueryProg.lean`.
`Codec.Law c` is: `∀ x rest, c.wf x → c.dec (c.enc x ++ rest) = some (x, rest)`.
The schema of `YaccGrammar<T>`/`StateTable<T>` (`Extracted.lean`, regenerated from the derive structs on
every run) is a closed `Ty` term; `schema_roundtrip` holds for every `Ty`, hence for it.
-/
namespace GrmVerif.C14

/-! ## integer encodings -/

/-- every unsigned integer type, fixed-width and variable-length encoding: any value of the type
(`n ≤ uN::MAX`) followed by anything decodes to itself and leaves the rest -/
theorem int_roundtrip (cfg : IntEnc) (i : IntTy) (n : Nat) (rest : Bytes) (h : n < 256 ^ i.bytes) :
    decInt cfg i (encInt cfg i n ++ rest) = some (n, rest) :=
  decInt_encInt cfg i n rest h

theorem u8_roundtrip (cfg : IntEnc) (n : Nat) (rest : Bytes) (h : n < 2 ^ 8) :
    decInt cfg .u8 (encInt cfg .u8 n ++ rest) = some (n, rest) :=
  decInt_encInt cfg .u8 n rest (by simpa [IntTy.bytes] using h)

theorem u16_roundtrip (cfg : IntEnc) (n : Nat) (rest : Bytes) (h : n < 2 ^ 16) :
    decInt cfg .u16 (encInt cfg .u16 n ++ rest) = some (n, rest) :=
  decInt_encInt cfg .u16 n rest (by simpa [IntTy.bytes] using h)

theorem u32_roundtrip (cfg : IntEnc) (n : Nat) (rest : Bytes) (h : n < 2 ^ 32) :
    decInt cfg .u32 (encInt cfg .u32 n ++ rest) = some (n, rest) :=
  decInt_encInt cfg .u32 n rest (by simpa [IntTy.bytes] using h)

theorem u64_roundtrip (cfg : IntEnc) (n : Nat) (rest : Bytes) (h : n < 2 ^ 64) :
    decInt cfg .u64 (encInt cfg .u64 n ++ rest) = some (n, rest) :=
  decInt_encInt cfg .u64 n rest (by simpa [IntTy.bytes] using h)

/-- `usize` travels as `u64` (64-bit targets: every `usize` fits) -/
theorem usize_roundtrip (cfg : IntEnc) (n : Nat) (rest : Bytes) (h : n < 2 ^ 64) :
    decInt cfg .usize (encInt cfg .usize n ++ rest) = some (n, rest) :=
  decInt_encInt cfg .usize n rest (by simpa [IntTy.bytes] using h)

/-- the fixed encoding is exactly `size_of::<T>()` little-endian bytes; the variable one is 1, 3, 5 or 9 bytes -/
theorem fixed_length (i : IntTy) (n : Nat) : (encInt .fix i n).length = i.bytes := by
  have h : ∀ k m, (encLE k m).length = k := by
    intro k; induction k with
    | zero => intro m; rfl
    | succ k ih => intro m; simp [encLE, ih]
  cases i <;> simp [encInt, h, IntTy.bytes]

/-! ## combinators -/

theorem bool_roundtrip : Codec.bool.Law := bool_law

/-- `String`: any UTF-8 byte string shorter than 2^64 -/
theorem string_roundtrip (cfg : IntEnc) : (Codec.string cfg).Law := string_law cfg

theorem option_roundtrip {α : Type} (c : Codec α) (hc : c.Law) : c.option.Law := option_law c hc

/-- `Vec<T>` and `Box<[T]>` -/
theorem vec_roundtrip {α : Type} (cfg : IntEnc) (c : Codec α) (hc : c.Law) : (c.seq cfg).Law :=
  seq_law cfg c hc

/-- consecutive fields (tuples, structs, newtypes) -/
theorem pair_roundtrip {α β : Type} (name : String) (a : Codec α) (b : Codec β) (ha : a.Law) (hb : b.Law) :
    (Codec.pair name a b).Law := pair_law name a b ha hb

/-- enums: variant `k` with payload codec `a`, later variants `b` (whose encodings start with a tag `> k`) -/
theorem enum_roundtrip {α β : Type} (cfg : IntEnc) (k : Nat) (name : String) (a : Codec α) (b : Codec β)
    (ha : a.Law) (hb : b.Law) (hbt : b.TagsFrom cfg (k + 1)) : (Codec.sum cfg k name a b).Law :=
  sum_law cfg k name a b ha hb hbt

/-! ## every schema -/

/-- for every schema term, both encodings, every well-formed value and every continuation of the byte
stream: decoding the encoding gives the value back and consumes exactly the encoding -/
theorem schema_roundtrip (cfg : IntEnc) (t : Ty) (x : t.interp) (rest : Bytes) (h : (codec cfg t).wf x) :
    (codec cfg t).dec ((codec cfg t).enc x ++ rest) = some (x, rest) :=
  codec_law cfg t x rest h

/-- a whole buffer (what `_reconstitute` is given): nothing is left over -/
theorem schema_roundtrip_buffer (cfg : IntEnc) (t : Ty) (x : t.interp) (h : (codec cfg t).wf x) :
    (codec cfg t).dec ((codec cfg t).enc x) = some (x, []) := by
  have := codec_law cfg t x [] h
  simpa using this

/-- the bytes determine the value: two well-formed values with the same serialisation are equal -/
theorem schema_enc_injective (cfg : IntEnc) (t : Ty) (x y : t.interp) (hx : (codec cfg t).wf x)
    (hy : (codec cfg t).wf y) (h : (codec cfg t).enc x = (codec cfg t).enc y) : x = y := by
  have h1 := schema_roundtrip_buffer cfg t x hx
  have h2 := schema_roundtrip_buffer cfg t y hy
  rw [h] at h1
  rw [h1] at h2
  simpa using h2

/-! ## parse congruence -/

/-- ANY driver that reaches grammar and table only through queries (`Prog`: LR loop, recoverers, …)
returns the same result against two oracles that agree on the queries it actually puts -/
theorem run_congr {Q A β : Type} (P : Prog Q A β) (o₁ o₂ : Q → A)
    (h : ∀ q ∈ P.asked o₁, o₁ q = o₂ q) : P.run o₁ = P.run o₂ :=
  Prog.run_congr P o₁ o₂ h

/-- the LR driver: if the original's queries are closed over the index ranges (`ns` states, `nt` tokens,
`nr` rules, `np` productions) and the reconstituted objects answer `action`, `goto`, `prod_len`,
`prod_to_rule`, `start_state`, `eof_token_idx` identically on every in-range index — the finite
comparison the harness makes per grammar — then every input over the tokens is parsed identically
(same outcome, same reduction sequence hence same tree, same error position and state), for every
amount of fuel. -/
theorem parse_congr (T₁ T₂ : Queries) (ns nt nr np : Nat) (hc : Closed T₁ ns nt nr np)
    (ha : Agree T₁ T₂ ns nt nr np) (fuel : Nat) (input : List Nat) (hi : ∀ t ∈ input, t < nt) :
    lrRun T₁ fuel [T₁.start] input 0 [] = lrRun T₂ fuel [T₂.start] input 0 [] := by
  rw [← ha.start]
  exact lrRun_congr hc ha fuel [T₁.start] input 0 [] (by simpa using hc.start) hi

/-! ## tests (hypotheses are satisfiable; concrete bytes as the Rust side produces them) -/

example : encInt .var .u64 2 = [2] := by decide
example : encInt .fix .u16 2 = [2, 0] := by decide
example : encInt .var .u32 300 = [251, 44, 1] := by decide
example : encInt .var .usize 70000 = [252, 112, 17, 1, 0] := by decide
example : (Codec.string .var).enc [94] = [1, 94] := by decide
example : (Codec.string .fix).enc [94] = [1, 0, 0, 0, 0, 0, 0, 0, 94] := by decide
example : validUtf8 [0xF0, 0x9F, 0xA6, 0x80, 0xC3, 0xA9] = true := by decide
example : validUtf8 [0xED, 0xA0, 0x80] = false := by decide
example : (codec .var (.struct (.cons "a" (.int .u16) (.cons "b" (.option .bool) .nil)))).enc ((300 : Nat), (some true : Option Bool), ())
    = [251, 44, 1, 1, 1] := by decide
example : (codec .fix (.enum (.cons "Rule" (.int .u8) (.cons "Token" (.int .u8) .nil)))).enc (.inr (.inl (7 : Nat)))
    = [1, 0, 0, 0, 7] := by decide
example : (Codec.seq .var (Codec.int .var .u32)).wf [1, 2, 70000] := by
  refine ⟨by decide, ?_⟩
  intro x hx
  simp only [List.mem_cons, List.not_mem_nil, or_false] at hx
  rcases hx with rfl | rfl | rfl <;> simp [Codec.int, IntTy.bytes]

end GrmVerif.C14
