import GrmVerif.Lemmas.Total
import GrmVerif.Lemmas.TableViews
import GrmVerif.Lemmas.Closure
import GrmVerif.Lemmas.CertProps
import GrmVerif.Lemmas.CloseImpl2
import GrmVerif.Props.C03
import GrmVerif.Props.C17
/-!
# C16 — state graph and table queries agree with each other

Model: `Model/Table.lean` (`cellOf`, `stateShifts`, `ntDepth`/`coreReduces`, `reduceOnly` as
`StateTable::new` computes them), `Model/Closure.lean` (reference LR(1) closure and state
reachability), `Model/CloseImpl.lean` (the Rust algorithm `Itemset::close` itself: work list, FIRST-based
lookaheads with the nullable `break`, `add`'s changed flag; hash-map order a parameter), `Model/Cert.lean` (edge/goto/shift agreement clauses of the validator).
The bit-level `decode (encode a) = a` is `C20.action_roundtrip`.
-/
namespace GrmVerif.C16
open GrmVerif GrmVerif.Table GrmVerif.Closure GrmVerif.Cert

/-- **tokens listed as having actions = tokens whose action is not an error** (cell level; with the
repaired clearing of the bit under `%nonassoc`). Same hypotheses as `C03.table_cell_spec`. -/
theorem state_actions_spec (G : Grammar) (items : List Item) (tgt : Option Nat) (t : Nat)
    (hnd : (reduceCands G items t).Nodup) (hprec : precConsistent G = true)
    (hacc : specReduce G t (reduceCands G items t) = some .accept → tgt = none)
    (a : Act) (rr : List (Nat × Nat)) (sr : Option Nat) (b : Bool)
    (h : cellOf G items tgt t = .ok a rr sr b) : b = decide (a ≠ .error) := by
  have hs := C03.table_cell_spec G items tgt t hnd hprec hacc
  cases hc : specCell G (reduceCands G items t) tgt t with
  | none =>
    rw [hc] at hs
    obtain ⟨o, ho⟩ := hs
    rw [ho] at h; cases h
  | some v =>
    obtain ⟨a', n', s'⟩ := v
    rw [hc] at hs
    obtain ⟨rr', h1, _, _⟩ := hs
    rw [h1] at h
    injection h with e1 e2 e3 e4
    subst e1; exact e4.symm

/-- **tokens listed as shifts = tokens whose action is a shift** -/
theorem state_shifts_spec (row : List Act) (t : Nat) :
    t ∈ stateShifts row ↔ t < row.length ∧ ∃ s, row[t]? = some (.shift s) := by
  simp only [stateShifts, List.mem_filter, List.mem_range]
  constructor
  · rintro ⟨hlt, hs⟩
    refine ⟨hlt, ?_⟩
    have : row.getD t .error = row[t] := by simp [List.getD, List.getElem?_eq_getElem hlt]
    rw [this] at hs
    cases hr : row[t] with
    | shift s => exact ⟨s, by simp [List.getElem?_eq_getElem hlt, hr]⟩
    | error => rw [hr] at hs; simp [isShift] at hs
    | reduce p => rw [hr] at hs; simp [isShift] at hs
    | accept => rw [hr] at hs; simp [isShift] at hs
  · rintro ⟨hlt, s, hs⟩
    refine ⟨hlt, ?_⟩
    simp [List.getD, hs, isShift]

/-- **a shift's target is the graph's edge on that token** (cell level) -/
theorem shift_target_is_edge (G : Grammar) (items : List Item) (tgt : Option Nat) (t x : Nat)
    (rr : List (Nat × Nat)) (sr : Option Nat) (b : Bool)
    (h : cellOf G items tgt t = .ok (.shift x) rr sr b) : tgt = some x := by
  simp only [cellOf] at h
  cases hr : reducePhase G t (reduceCands G items t) .error [] with
  | acceptReduce o => rw [hr] at h; cases h
  | internal => rw [hr] at h; cases h
  | ok cell rr0 =>
    rw [hr] at h
    have hns := reducePhase_not_shift G t _ .error [] cell rr0 (by simp) hr
    cases tgt with
    | none =>
      simp only at h
      injection h with e1 _ _ _
      exact absurd e1 (hns x)
    | some tg =>
      simp only at h
      cases cell with
      | shift s => exact absurd rfl (hns s)
      | error =>
        simp only [shiftStep] at h
        injection h with e1 _ _ _
        injection e1 with e1; subst e1; rfl
      | accept => simp [shiftStep] at h
      | reduce r =>
        simp only [shiftStep] at h
        cases hres : resolveSR ((G.tokPrec[t]?).getD none) ((G.prodPrec[r]?).getD none) tg r with
        | none => rw [hres] at h; cases h
        | some v =>
          obtain ⟨a, rec⟩ := v
          rw [hres] at h
          simp only at h
          injection h with e1 _ _ _
          subst e1
          -- resolveSR only ever shifts to `tg`
          unfold resolveSR at hres
          split at hres
          · split at hres
            · split at hres <;> first | (cases hres; done) | (injection hres with hres; injection hres with e _; injection e with e; subst e; rfl) | cases hres
            · split at hres
              · injection hres with hres; injection hres with e _; injection e with e; subst e; rfl
              · cases hres
          · injection hres with hres; injection hres with e _; injection e with e; subst e; rfl

/-- **core reductions: one production per distinct (rule, length) among the row's reductions, and
nothing else.** -/
theorem core_reduces_spec (G : Grammar) (row : List Act)
    (hrow : ∀ p, Act.reduce p ∈ row → p < G.nprods) :
    (∀ q, q ∈ coreReduces G row → Act.reduce q ∈ row) ∧
    (∀ p, Act.reduce p ∈ row → ∃ q, q ∈ coreReduces G row ∧ rkey G q = rkey G p) ∧
    (∀ q1 q2, q1 ∈ coreReduces G row → q2 ∈ coreReduces G row → rkey G q1 = rkey G q2 → q1 = q2) := by
  obtain ⟨hinv, hA, hB, _⟩ := ntDepth_spec G row [] (depthInv_nil G)
  have hmem : ∀ q, q ∈ coreReduces G row ↔ q < G.nprods ∧ ∃ k, (k, q) ∈ ntDepth G row [] := by
    intro q
    simp only [coreReduces, List.mem_filter, List.mem_range, List.contains_eq_mem, List.mem_map,
      decide_eq_true_eq]
    constructor
    · rintro ⟨h1, e, he, rfl⟩; exact ⟨h1, e.1, he⟩
    · rintro ⟨h1, k, hk⟩; exact ⟨h1, (k, q), hk, rfl⟩
  refine ⟨?_, ?_, ?_⟩
  · intro q hq
    obtain ⟨_, k, hk⟩ := (hmem q).mp hq
    rcases hA _ hk with h | h
    · cases h
    · exact h
  · intro p hp
    obtain ⟨q, hq⟩ := hB p hp
    have hqr : Act.reduce q ∈ row := by
      rcases hA _ hq with h | h
      · cases h
      · exact h
    refine ⟨q, (hmem q).mpr ⟨hrow q hqr, _, hq⟩, ?_⟩
    exact (hinv.2 _ hq).symm
  · intro q1 q2 h1 h2 hk
    obtain ⟨_, k1, hk1⟩ := (hmem q1).mp h1
    obtain ⟨_, k2, hk2⟩ := (hmem q2).mp h2
    have e1 := hinv.2 _ hk1
    have e2 := hinv.2 _ hk2
    simp only at e1 e2
    have := key_unique hinv.1 hk1 hk2 (by simp only; rw [e1, e2, hk])
    injection this

/-- **reduce-only flag**: set exactly when no action is a shift or accept and the reductions of the
row have exactly one distinct (rule, length). -/
theorem reduce_only_spec (G : Grammar) (row : List Act) :
    reduceOnly G row = true ↔
      (∀ a ∈ row, (∀ s, a ≠ .shift s) ∧ a ≠ .accept) ∧
      ∃ k, (∃ p, Act.reduce p ∈ row ∧ rkey G p = k) ∧ ∀ p, Act.reduce p ∈ row → rkey G p = k := by
  obtain ⟨hinv, hA, hB, _⟩ := ntDepth_spec G row [] (depthInv_nil G)
  have hall : (row.all notShiftAccept) = true ↔
      ∀ a ∈ row, (∀ s, a ≠ .shift s) ∧ a ≠ .accept := by
    simp only [List.all_eq_true]
    constructor
    · intro h a ha
      have := h a ha
      cases a <;> simp_all [notShiftAccept]
    · intro h a ha
      obtain ⟨h1, h2⟩ := h a ha
      cases a with
      | shift s => exact absurd rfl (h1 s)
      | accept => exact absurd rfl h2
      | error => rfl
      | reduce p => rfl
  simp only [reduceOnly, Bool.and_eq_true, beq_iff_eq, hall]
  constructor
  · rintro ⟨h1, hlen⟩
    refine ⟨h1, ?_⟩
    cases hd : ntDepth G row [] with
    | nil => simp [hd] at hlen
    | cons e rest =>
      cases rest with
      | cons _ _ => simp [hd] at hlen
      | nil =>
        refine ⟨e.1, ?_, ?_⟩
        · have : e ∈ ntDepth G row [] := by rw [hd]; simp
          rcases hA e this with h | h
          · cases h
          · exact ⟨e.2, h, (hinv.2 e this).symm⟩
        · intro p hp
          obtain ⟨q, hq⟩ := hB p hp
          rw [hd] at hq
          simp only [List.mem_singleton] at hq
          rw [← hq]
  · rintro ⟨h1, k, ⟨p0, hp0, hk0⟩, hall'⟩
    refine ⟨h1, ?_⟩
    obtain ⟨q0, hq0⟩ := hB p0 hp0
    -- every entry has key k, keys are distinct: at most one entry; and there is one
    have hkeys : ∀ e ∈ ntDepth G row [], e.1 = k := by
      intro e he
      rcases hA e he with h | h
      · cases h
      · rw [hinv.2 e he]; exact hall' _ h
    cases hd : ntDepth G row [] with
    | nil => rw [hd] at hq0; cases hq0
    | cons e rest =>
      cases rest with
      | nil => rfl
      | cons e2 rest2 =>
        exfalso
        have he : e ∈ ntDepth G row [] := by rw [hd]; simp
        have he2 : e2 ∈ ntDepth G row [] := by rw [hd]; simp
        have hnd := hinv.1
        rw [hd] at hnd
        simp only [List.map_cons, List.nodup_cons, List.mem_cons, not_or] at hnd
        exact hnd.1.1 ((hkeys e he).trans (hkeys e2 he2).symm)

/-- **goto and shift targets equal the graph's edges** on every certified automaton -/
theorem goto_shift_eq_edge (G : Grammar) (A : Automaton) (hc : Cert.check G A = true) :
    (∀ s r, s < A.nstates → r < G.nrules → A.goto s r = A.edge s (.rule r)) ∧
    (∀ s t s', s < A.nstates → t < G.ntoks → A.action s t = .shift s' → A.edge s (.tok t) = some s') :=
  let P := check_props G A hc
  ⟨P.gotoEdge, P.actShift⟩

/-- **the reference closure is the LR(1) closure** (least set closed under the closure rules that
contains the kernel); the check compares it with every dumped closed state for equality -/
theorem closure_exact (G : Grammar) (hwf : G.wf = true) (A : Ref.Analyses) (hA : Ref.analyses G = some A)
    (core : List Item) (hcore : CoreOk G core) (S : List CFact)
    (h : close1 G (A.nullable.contains ·) (A.first.contains ·) core = some S) :
    ∀ x, x ∈ S ↔ ClosureP G core x := by
  obtain ⟨h1, h2, _⟩ := GrmVerif.C17.analyses_exact G hwf A hA
  exact close1_exact G hwf _ _ (by intro r; simpa using h1 r) (by intro r t; simpa using h2 r t) core hcore S h

/-- **every state reachable**: the reference set is exactly the states reachable from the start
state through edges; the check requires it to contain every state -/
theorem reachable_exact (A : Automaton) (hstart : A.start < A.nstates)
    (hedges : ∀ s, s < A.nstates → ∀ e ∈ A.edges s, e.2 < A.nstates)
    (R : List Nat) (h : reachableStates A = some R) : ∀ s, s ∈ R ↔ ReachSt A s :=
  reachableStates_exact A hstart hedges R h

/-- the reference closure and the reference reachability always answer (never "fuel exhausted") -/
theorem closure_total (G : Grammar) (N : Nat → Bool) (F : Nat × Nat → Bool) (core : List Item) :
    ∃ S, Closure.close1 G N F core = some S := Total.close1_total G N F core

theorem reachable_total (A : Automaton) : ∃ R, Closure.reachableStates A = some R :=
  Total.reachableStates_total A

/-! ### the algorithm `Itemset::close` itself (`Model/CloseImpl.lean`) -/

open GrmVerif.CloseImpl in
/-- **`Itemset::close` computes exactly the LR(1) closure of its kernel.** For every well-formed
grammar, exact nullable/FIRST oracles (the hypotheses of `close1_exact`), kernel `core` = the content
of a hash map (`CoreOk`, distinct keys) and EVERY order `order` in which `self.items.keys()` may yield
the kernel's keys: with `closeFuel G order` (= |order| + |fact universe| + 1) or more units of fuel the
model of the work-list loop ends normally (no panic, no fuel exhaustion) with a map `R` of distinct
keys that denotes exactly the facts of `ClosureP G core` — the same items and, for every item, the
same lookahead set. -/
theorem close_impl_exact (G : Grammar) (hwf : G.wf = true) (N : Nat → Bool) (F : Nat × Nat → Bool)
    (hN : ∀ r, N r = true ↔ Spec.NullableR G r) (hF : ∀ r t, F (r, t) = true ↔ Spec.FirstP G r t)
    (core : List Item) (hcore : CoreOk G core) (hnd : KeysNodup core)
    (order : List (Nat × Nat)) (horder : ∀ p d, (p, d) ∈ order ↔ CloseImpl.HasItem core p d)
    (fuel : Nat) (hfuel : closeFuel G order ≤ fuel) :
    ∃ R, CloseImpl.close G N F core order fuel = .done R ∧ KeysNodup R ∧
      (∀ p d, CloseImpl.HasItem R p d ↔ ClosureP G core (.item p d)) ∧
      (∀ p d t, HasLa R p d t ↔ ClosureP G core (.la p d t)) := by
  have hinv : Inv G N F core order [] core := by
    refine ⟨⟨hnd, ?_, ?_⟩, ?_, ?_, ?_, ?_, ?_⟩
    · rintro p d ⟨i, hi, rfl, rfl⟩; exact .kitem i hi
    · rintro p d t ⟨i, hi, rfl, rfl, ht⟩; exact .kla i t hi ht
    · intro i hi; exact ⟨i, hi, rfl, rfl⟩
    · intro i hi t ht; exact ⟨i, hi, rfl, rfl, ht⟩
    · intro k hk; exact (horder k.1 k.2).mp hk
    · intro q hq; cases hq
    · intro p d h; exact Or.inl ((horder p d).mpr h)
  have hm := missingOf_le_universe G core
  obtain ⟨R, hR, hfin⟩ := loop_spec hwf hN hF hcore fuel order [] core hinv
    (by simp only [closeFuel] at hfuel; simp only [List.length_nil]; omega)
  obtain ⟨h1, h2⟩ := inv_final_exact hwf hN hF hcore hfin
  exact ⟨R, hR, hfin.sound.nodup, h1, h2⟩

open GrmVerif.CloseImpl in
/-- **the model of `Itemset::close` equals the reference closure `close1` as a set of facts** (the
reference is what the check compares every dumped closed state with) -/
theorem close_impl_eq_reference (G : Grammar) (hwf : G.wf = true) (N : Nat → Bool) (F : Nat × Nat → Bool)
    (hN : ∀ r, N r = true ↔ Spec.NullableR G r) (hF : ∀ r t, F (r, t) = true ↔ Spec.FirstP G r t)
    (core : List Item) (hcore : CoreOk G core) (hnd : KeysNodup core)
    (order : List (Nat × Nat)) (horder : ∀ p d, (p, d) ∈ order ↔ CloseImpl.HasItem core p d)
    (fuel : Nat) (hfuel : closeFuel G order ≤ fuel) :
    ∃ R S, CloseImpl.close G N F core order fuel = .done R ∧ close1 G N F core = some S ∧
      ∀ x, x ∈ S ↔ x ∈ factsOf R := by
  obtain ⟨R, hR, _, h1, h2⟩ := close_impl_exact G hwf N F hN hF core hcore hnd order horder fuel hfuel
  obtain ⟨S, hS⟩ := Total.close1_total G N F core
  refine ⟨R, S, hR, hS, ?_⟩
  intro x
  rw [close1_exact G hwf N F hN hF core hcore S hS x]
  cases x with
  | item p d => rw [mem_factsOf_item]; exact (h1 p d).symm
  | la p d t => rw [mem_factsOf_la]; exact (h2 p d t).symm

open GrmVerif.CloseImpl in
/-- **the hash map's iteration order is irrelevant**: whatever two orders `self.items.keys()` yields the
kernel's keys in, both runs end normally and their maps hold the same items with the same lookahead
sets -/
theorem close_impl_order_irrelevant (G : Grammar) (hwf : G.wf = true) (N : Nat → Bool) (F : Nat × Nat → Bool)
    (hN : ∀ r, N r = true ↔ Spec.NullableR G r) (hF : ∀ r t, F (r, t) = true ↔ Spec.FirstP G r t)
    (core : List Item) (hcore : CoreOk G core) (hnd : KeysNodup core)
    (o1 o2 : List (Nat × Nat)) (h1 : ∀ p d, (p, d) ∈ o1 ↔ CloseImpl.HasItem core p d)
    (h2 : ∀ p d, (p, d) ∈ o2 ↔ CloseImpl.HasItem core p d) :
    ∃ R1 R2, CloseImpl.close G N F core o1 (closeFuel G o1) = .done R1 ∧
      CloseImpl.close G N F core o2 (closeFuel G o2) = .done R2 ∧
      (∀ p d, CloseImpl.HasItem R1 p d ↔ CloseImpl.HasItem R2 p d) ∧ (∀ p d t, HasLa R1 p d t ↔ HasLa R2 p d t) ∧
      sameItems R1 R2 = true := by
  obtain ⟨R1, hR1, n1, a1, b1⟩ := close_impl_exact G hwf N F hN hF core hcore hnd o1 h1 _ (Nat.le_refl _)
  obtain ⟨R2, hR2, n2, a2, b2⟩ := close_impl_exact G hwf N F hN hF core hcore hnd o2 h2 _ (Nat.le_refl _)
  have ha : ∀ p d, CloseImpl.HasItem R1 p d ↔ CloseImpl.HasItem R2 p d := fun p d => (a1 p d).trans (a2 p d).symm
  have hb : ∀ p d t, HasLa R1 p d t ↔ HasLa R2 p d t := fun p d t => (b1 p d t).trans (b2 p d t).symm
  exact ⟨R1, R2, hR1, hR2, ha, hb, (sameItems_iff n1 n2).mpr ⟨fun p d => (ha p d).symm, fun p d t => (hb p d t).symm⟩⟩

open GrmVerif.CloseImpl in
/-- **the driver's model comparison decides the property**: for a dumped closed state `closed` (the
content of a hash map: distinct keys), `sameItems (model's map) closed` holds iff `closed` denotes
exactly the LR(1) closure of `core` -/
theorem close_impl_check_sound (G : Grammar) (hwf : G.wf = true) (N : Nat → Bool) (F : Nat × Nat → Bool)
    (hN : ∀ r, N r = true ↔ Spec.NullableR G r) (hF : ∀ r t, F (r, t) = true ↔ Spec.FirstP G r t)
    (core : List Item) (hcore : CoreOk G core) (hnd : KeysNodup core)
    (order : List (Nat × Nat)) (horder : ∀ p d, (p, d) ∈ order ↔ CloseImpl.HasItem core p d)
    (closed : List Item) (hcl : KeysNodup closed) :
    ∃ R, CloseImpl.close G N F core order (closeFuel G order) = .done R ∧
      (sameItems R closed = true ↔
        (∀ p d, CloseImpl.HasItem closed p d ↔ ClosureP G core (.item p d)) ∧
        (∀ p d t, HasLa closed p d t ↔ ClosureP G core (.la p d t))) := by
  obtain ⟨R, hR, n, a, b⟩ := close_impl_exact G hwf N F hN hF core hcore hnd order horder _ (Nat.le_refl _)
  refine ⟨R, hR, ?_⟩
  rw [sameItems_iff n hcl]
  constructor
  · rintro ⟨x, y⟩; exact ⟨fun p d => (x p d).trans (a p d), fun p d t => (y p d t).trans (b p d t)⟩
  · rintro ⟨x, y⟩; exact ⟨fun p d => (x p d).trans (a p d).symm, fun p d t => (y p d t).trans (b p d t).symm⟩

/-! tests (not theorems): the hypotheses are satisfiable and the model computes the textbook closures -/

/-- `S' → S; S → L = R | R; L → * R | id; R → L` (tokens `= * id $`) -/
def exDragon : Grammar :=
  { ntoks := 4, nrules := 4, eof := 3, startProd := 0,
    prods := [(0, [.rule 1]), (1, [.rule 2, .tok 0, .rule 3]), (1, [.rule 3]), (2, [.tok 1, .rule 3]),
      (2, [.tok 2]), (3, [.rule 2])] }

/-- `S' → A; A → B C d | B C; B → ε | b; C → ε | c` (tokens `b c d $`): nullable tails -/
def exNullTail : Grammar :=
  { ntoks := 4, nrules := 4, eof := 3, startProd := 0,
    prods := [(0, [.rule 1]), (1, [.rule 2, .rule 3, .tok 2]), (1, [.rule 2, .rule 3]), (2, []), (2, [.tok 0]),
      (3, []), (3, [.tok 1])] }

/-- run the model with the verified reference analyses and compare with an expected map -/
def modelGives (G : Grammar) (core : List Item) (order : List (Nat × Nat)) (expected : List Item) : Bool :=
  match Ref.analyses G with
  | none => false
  | some An =>
    match CloseImpl.close G (An.nullable.contains ·) (An.first.contains ·) core order (CloseImpl.closeFuel G order) with
    | .done R => CloseImpl.sameItems R expected
    | _ => false

example : exDragon.wf = true := by decide
example : CoreOk exDragon [⟨0, 0, [3]⟩] := by
  intro i hi; simp only [List.mem_singleton] at hi; subst hi; decide
example : CloseImpl.KeysNodup [⟨1, 1, [3]⟩, ⟨5, 1, [0, 3]⟩] := by
  unfold CloseImpl.KeysNodup CloseImpl.keysOf; decide
example : modelGives exDragon [⟨0, 0, [3]⟩] [(0, 0)]
    [⟨0, 0, [3]⟩, ⟨1, 0, [3]⟩, ⟨2, 0, [3]⟩, ⟨3, 0, [0, 3]⟩, ⟨4, 0, [3, 0]⟩, ⟨5, 0, [3]⟩] = true := by decide
example : modelGives exDragon [⟨1, 2, [3]⟩] [(1, 2)]
    [⟨1, 2, [3]⟩, ⟨5, 0, [3]⟩, ⟨3, 0, [3]⟩, ⟨4, 0, [3]⟩] = true := by decide
-- both orders of a two-item kernel
example : modelGives exNullTail [⟨1, 1, [3]⟩, ⟨2, 1, [3]⟩] [(1, 1), (2, 1)]
    [⟨1, 1, [3]⟩, ⟨2, 1, [3]⟩, ⟨5, 0, [2, 3]⟩, ⟨6, 0, [2, 3]⟩] = true := by decide
example : modelGives exNullTail [⟨1, 1, [3]⟩, ⟨2, 1, [3]⟩] [(2, 1), (1, 1)]
    [⟨1, 1, [3]⟩, ⟨2, 1, [3]⟩, ⟨5, 0, [2, 3]⟩, ⟨6, 0, [2, 3]⟩] = true := by decide
example : modelGives exNullTail [⟨0, 0, [3]⟩] [(0, 0)]
    [⟨0, 0, [3]⟩, ⟨1, 0, [3]⟩, ⟨2, 0, [3]⟩, ⟨3, 0, [1, 2, 3]⟩, ⟨4, 0, [1, 2, 3]⟩] = true := by decide
-- a wrong expectation is rejected (lookahead `$` of `B → ·` missing)
example : modelGives exNullTail [⟨0, 0, [3]⟩] [(0, 0)]
    [⟨0, 0, [3]⟩, ⟨1, 0, [3]⟩, ⟨2, 0, [3]⟩, ⟨3, 0, [1, 2]⟩, ⟨4, 0, [1, 2, 3]⟩] = false := by decide

end GrmVerif.C16
