import GrmVerif.Props.C04
import GrmVerif.Model.Canon
/-!
# C02 — state minimisation never costs an LR(1) grammar its determinism

`Canon.canonical` builds the canonical (unmerged) LR(1) automaton; it is used only after it passed
the verified validators. Two automata for the same grammar that both pass `check` and `checkLA`
— the canonical one and the minimised one the real code built — are related by the theorems below
for EVERY input.
-/
namespace GrmVerif.C02
open GrmVerif Cert LR Ref C01

/-- **Same parse tree.** If the canonical parser accepts an input with tree `t`, the minimised
parser accepts it with a tree of the same shape (same productions, same leaves). -/
theorem same_tree (G : Grammar) (Ac Ap : Automaton) (hc : check G Ac = true) (hp : check G Ap = true)
    (An : Analyses) (hAn : analyses G = some An)
    (hlp : checkLA G Ap (An.nullable.contains ·) (An.first.contains ·) = true)
    (w : List Nat) (hw : InputOk G w) (fuel : Nat) (t : Tree) (h : parse G Ac w fuel = .accept t) :
    ∃ fuel' t', parse G Ap w fuel' = .accept t' ∧ shape t' = shape t := by
  obtain ⟨hv, ⟨S, hS, hr⟩, hy⟩ := lr_sound G Ac hc w hw fuel t h
  exact lr_complete G Ap hp An hAn hlp w hw t S hv hS hr hy

/-- **Same language.** Both parsers accept exactly the sentences of the grammar, hence the same
inputs; in particular the minimised parser rejects exactly what the canonical one rejects. -/
theorem same_language (G : Grammar) (Ac Ap : Automaton) (hc : check G Ac = true) (hp : check G Ap = true)
    (An : Analyses) (hAn : analyses G = some An)
    (hlc : checkLA G Ac (An.nullable.contains ·) (An.first.contains ·) = true)
    (hlp : checkLA G Ap (An.nullable.contains ·) (An.first.contains ·) = true)
    (w : List Nat) (hw : InputOk G w) :
    (∃ fuel t, parse G Ac w fuel = .accept t) ↔ (∃ fuel t, parse G Ap w fuel = .accept t) := by
  rw [lr_accepts_iff_sentence G Ac hc An hAn hlc w hw, lr_accepts_iff_sentence G Ap hp An hAn hlp w hw]

/-- **First error, partial.** Neither parser reports its error prematurely: if the canonical parser
fails at lexeme `i` and the minimised one at lexeme `j`, then neither `w[0..i]` nor `w[0..j]`
(inclusive) is a prefix of a sentence. (Missing for `i = j`: that each parser's consumed prefix IS a
prefix of a sentence — the viable-prefix half of C04; the check compares the two positions on every
generated input.) -/
theorem same_first_error_partial (G : Grammar) (Ac Ap : Automaton) (hc : check G Ac = true) (hp : check G Ap = true)
    (An : Analyses) (hAn : analyses G = some An)
    (hlc : checkLA G Ac (An.nullable.contains ·) (An.first.contains ·) = true)
    (hlp : checkLA G Ap (An.nullable.contains ·) (An.first.contains ·) = true)
    (w : List Nat) (f1 f2 i j s1 s2 : Nat) (hi : i < w.length) (hj : j < w.length)
    (h1 : parse G Ac w f1 = .error i s1) (h2 : parse G Ap w f2 = .error j s2) :
    (¬ ∃ v, InputOk G (w.take (i + 1) ++ v) ∧ Sentence G (w.take (i + 1) ++ v)) ∧
    (¬ ∃ v, InputOk G (w.take (j + 1) ++ v) ∧ Sentence G (w.take (j + 1) ++ v)) :=
  ⟨C04.error_not_premature G Ac hc An hAn hlc w f1 i s1 hi h1,
   C04.error_not_premature G Ap hp An hAn hlp w f2 j s2 hj h2⟩

/-- **Same first-error position.** If both automata additionally pass `checkVP` (closed states hold
only closure items; all rules productive) the two parsers report their error at the same lexeme, for
every input: the position is determined by the language alone. -/
theorem same_first_error (G : Grammar) (Ac Ap : Automaton) (hc : check G Ac = true) (hp : check G Ap = true)
    (hvc : checkVP G Ac = true) (hvp : checkVP G Ap = true)
    (An : Analyses) (hAn : analyses G = some An)
    (hlc : checkLA G Ac (An.nullable.contains ·) (An.first.contains ·) = true)
    (hlp : checkLA G Ap (An.nullable.contains ·) (An.first.contains ·) = true)
    (w : List Nat) (hw : InputOk G w) (f1 f2 i j s1 s2 : Nat)
    (h1 : parse G Ac w f1 = .error i s1) (h2 : parse G Ap w f2 = .error j s2) : i = j :=
  Nat.le_antisymm
    (C04.error_position_unique G Ap Ac hp hc hvc An hAn hlp w hw f2 f1 j i s2 s1 h2 h1)
    (C04.error_position_unique G Ac Ap hc hp hvp An hAn hlc w hw f1 f2 i j s1 s2 h1 h2)

end GrmVerif.C02
