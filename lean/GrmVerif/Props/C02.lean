import GrmVerif.Props.C04
import GrmVerif.Model.Canon
import GrmVerif.Lemmas.PagerGc
import GrmVerif.Lemmas.PagerWeak
import GrmVerif.Lemmas.PagerInvB
import GrmVerif.Lemmas.PagerTotal
import GrmVerif.Lemmas.PagerCert
/-!
# C02 — state minimisation never costs an LR(1) grammar its determinism

`Canon.canonical` builds the canonical (unmerged) LR(1) automaton; it is used only after it passed
the verified validators. Two automata for the same grammar that both pass `check` and `checkLA`
— the canonical one and the minimised one the real code built — are related by the theorems below
for EVERY input.
-/
namespace GrmVerif.C02
open GrmVerif Cert LR Ref C01

/-- **Same parse tree.** If the canonical parser accepts an input with tree `t`, the minimised
parser accepts it with a tree of the same shape (same productions, same leaves). -/
theorem same_tree (G : Grammar) (Ac Ap : Automaton) (hc : check G Ac = true) (hp : check G Ap = true)
    (An : Analyses) (hAn : analyses G = some An)
    (hlp : checkLA G Ap (An.nullable.contains ·) (An.first.contains ·) = true)
    (w : List Nat) (hw : InputOk G w) (fuel : Nat) (t : Tree) (h : parse G Ac w fuel = .accept t) :
    ∃ fuel' t', parse G Ap w fuel' = .accept t' ∧ shape t' = shape t := by
  obtain ⟨hv, ⟨S, hS, hr⟩, hy⟩ := lr_sound G Ac hc w hw fuel t h
  exact lr_complete G Ap hp An hAn hlp w hw t S hv hS hr hy

/-- **Same language.** Both parsers accept exactly the sentences of the grammar, hence the same
inputs; in particular the minimised parser rejects exactly what the canonical one rejects. -/
theorem same_language (G : Grammar) (Ac Ap : Automaton) (hc : check G Ac = true) (hp : check G Ap = true)
    (An : Analyses) (hAn : analyses G = some An)
    (hlc : checkLA G Ac (An.nullable.contains ·) (An.first.contains ·) = true)
    (hlp : checkLA G Ap (An.nullable.contains ·) (An.first.contains ·) = true)
    (w : List Nat) (hw : InputOk G w) :
    (∃ fuel t, parse G Ac w fuel = .accept t) ↔ (∃ fuel t, parse G Ap w fuel = .accept t) := by
  rw [lr_accepts_iff_sentence G Ac hc An hAn hlc w hw, lr_accepts_iff_sentence G Ap hp An hAn hlp w hw]

/-- **First error, partial.** Neither parser reports its error prematurely: if the canonical parser
fails at lexeme `i` and the minimised one at lexeme `j`, then neither `w[0..i]` nor `w[0..j]`
(inclusive) is a prefix of a sentence. (Missing for `i = j`: that each parser's consumed prefix IS a
prefix of a sentence — the viable-prefix half of C04; the check compares the two positions on every
generated input.) -/
theorem same_first_error_partial (G : Grammar) (Ac Ap : Automaton) (hc : check G Ac = true) (hp : check G Ap = true)
    (An : Analyses) (hAn : analyses G = some An)
    (hlc : checkLA G Ac (An.nullable.contains ·) (An.first.contains ·) = true)
    (hlp : checkLA G Ap (An.nullable.contains ·) (An.first.contains ·) = true)
    (w : List Nat) (f1 f2 i j s1 s2 : Nat) (hi : i < w.length) (hj : j < w.length)
    (h1 : parse G Ac w f1 = .error i s1) (h2 : parse G Ap w f2 = .error j s2) :
    (¬ ∃ v, InputOk G (w.take (i + 1) ++ v) ∧ Sentence G (w.take (i + 1) ++ v)) ∧
    (¬ ∃ v, InputOk G (w.take (j + 1) ++ v) ∧ Sentence G (w.take (j + 1) ++ v)) :=
  ⟨C04.error_not_premature G Ac hc An hAn hlc w f1 i s1 hi h1,
   C04.error_not_premature G Ap hp An hAn hlp w f2 j s2 hj h2⟩

/-- **Same first-error position.** If both automata additionally pass `checkVP` (closed states hold
only closure items; all rules productive) the two parsers report their error at the same lexeme, for
every input: the position is determined by the language alone. -/
theorem same_first_error (G : Grammar) (Ac Ap : Automaton) (hc : check G Ac = true) (hp : check G Ap = true)
    (hvc : checkVP G Ac = true) (hvp : checkVP G Ap = true)
    (An : Analyses) (hAn : analyses G = some An)
    (hlc : checkLA G Ac (An.nullable.contains ·) (An.first.contains ·) = true)
    (hlp : checkLA G Ap (An.nullable.contains ·) (An.first.contains ·) = true)
    (w : List Nat) (hw : InputOk G w) (f1 f2 i j s1 s2 : Nat)
    (h1 : parse G Ac w f1 = .error i s1) (h2 : parse G Ap w f2 = .error j s2) : i = j :=
  Nat.le_antisymm
    (C04.error_position_unique G Ap Ac hp hc hvc An hAn hlp w hw f2 f1 j i s2 s1 h2 h1)
    (C04.error_position_unique G Ac Ap hc hp hvp An hAn hlc w hw f1 f2 i j s1 s2 h1 h2)

/-! ## The construction algorithm itself (`Model/PagerImpl.lean`, tied to `pager_stategraph` per grammar)

The theorems below are about the line-by-line model of `lrtable/src/lib/pager.rs`; the check replays the
hash-map iteration orders recorded by the hook and demands that the model reproduces the real pre-gc
state list, edges, `state_i` sequence and final `StateGraph` exactly (`Ig`/`Mg` lines). -/

open GrmVerif.PagerImpl GrmVerif.CloseImpl

/-- **`gc` keeps exactly the reachable states, in order, and renumbers the edges consistently.** For any
state list, any start state in range and any edge table (one map per state) whose targets are in range:
the model of `gc` ends normally (no panic: `offsets[v]` is always in range; no fuel exhaustion with the
`|states| + 1` units the model gives the reachability loop) with `(states', edges')` such that, writing
`gcIndex s` for the number of reachable states before `s`:
* there are as many kept states (and edge maps) as reachable states;
* every reachable old state `s` sits at position `gcIndex s` and its edge map there is the old one with
  every target `t` replaced by `gcIndex t` (kept edges `(s, sym, t)` appear as `(gcIndex s, sym, gcIndex t)`);
* nothing else is kept: every new index is `gcIndex s` of a reachable `s`;
* the original relative order is preserved (`gcIndex` is strictly increasing on reachable states);
* `gcIndex s` is the old index minus the number of dropped (unreachable) states before it;
* all new targets are in range;
* the start state stays 0 when it was 0. -/
theorem gc_spec {α : Type} (states : List α) (start : Nat) (edges : List (List (Sym × Nat)))
    (hlen : edges.length = states.length) (hstart : start < states.length)
    (hrange : ∀ (s : Nat) (es : List (Sym × Nat)), edges[s]? = some es → ∀ e ∈ es, e.2 < states.length) :
    ∃ states' edges', gc states start edges = .ok (states', edges') ∧
      states'.length = gcIndex edges start states.length ∧ edges'.length = states'.length ∧
      (∀ s, s < states.length → Reach edges start s →
        states'[gcIndex edges start s]? = states[s]? ∧
        edges'[gcIndex edges start s]? = (edges[s]?).map (relabel (gcIndex edges start))) ∧
      (∀ k, k < states'.length → ∃ s, s < states.length ∧ Reach edges start s ∧ gcIndex edges start s = k) ∧
      (∀ s t, s < t → Reach edges start s → gcIndex edges start s < gcIndex edges start t) ∧
      (∀ s, gcIndex edges start s + droppedBefore edges start s = s) ∧
      (∀ es ∈ edges', ∀ e ∈ es, e.2 < states'.length) ∧
      (start = 0 → gcIndex edges start start = 0) := by
  classical
  obtain ⟨states', edges', hgc, hl1, hl2, hA⟩ := gc_core states start edges hlen hstart hrange
  have hsurj : ∀ k, k < states'.length → ∃ s, s < states.length ∧ Reach edges start s ∧ gcIndex edges start s = k := by
    intro k hk
    rw [hl1] at hk
    obtain ⟨s, h1, h2, h3⟩ := keptBefore_surj _ _ _ hk
    exact ⟨s, h1, by simpa using h2, h3⟩
  refine ⟨states', edges', hgc, hl1, by omega, hA, hsurj, ?_, ?_, ?_, ?_⟩
  · intro s t hst hr
    exact keptBefore_lt _ hst (by simpa using hr)
  · exact gcIndex_add_dropped edges start
  · intro es hes e he
    obtain ⟨k, hk, hget⟩ := List.getElem_of_mem hes
    obtain ⟨s, hs, hr, hks⟩ := hsurj k (by omega)
    have h2 := (hA s hs hr).2
    rw [hks, List.getElem?_eq_getElem hk, hget] at h2
    have hes' : ∃ es0, edges[s]? = some es0 := ⟨edges[s]'(by omega), List.getElem?_eq_getElem (by omega)⟩
    obtain ⟨es0, hes0⟩ := hes'
    rw [hes0] at h2
    simp only [Option.map_some, Option.some.injEq] at h2
    rw [h2] at he
    obtain ⟨e0, he0, rfl⟩ := List.mem_map.mp he
    have hlt := hrange s es0 hes0 e0 he0
    have hr' : Reach edges start e0.2 := .step s e0.2 e0.1 es0 hr hes0 he0
    rw [hl1]
    exact keptBefore_lt _ hlt (by simpa using hr')
  · intro h0; rw [h0]; exact keptBefore_zero _

/-- **`weakly_compatible` decides Pager's condition.** For two item sets that are hash maps (distinct
keys), `self` non-empty, and `keys` any duplicate-free enumeration of the keys of `self` (the order in
which `self.items.keys()` yields them): the model ends normally and answers `true` exactly when the
declarative condition `WeaklyCompatibleSpec` holds — same core items, and for every pair `i ≠ j` of
core items: contexts (self i, other j) and (self j, other i) both disjoint, or self i ∩ self j ≠ ∅, or
other i ∩ other j ≠ ∅. (For an EMPTY `self` and `other` the real code computes `len - 1` with
`len = 0`; item sets built by `goto` are never empty.) -/
theorem weakly_compatible_spec (self other : List Item) (hs : KeysNodup self) (ho : KeysNodup other)
    (keys : List (Nat × Nat)) (hknd : keys.Nodup) (hkeys : ∀ k, k ∈ keys ↔ CloseImpl.HasItem self k.1 k.2)
    (hne : self ≠ []) :
    ∃ b, weaklyCompatible self other keys = some b ∧ (b = true ↔ WeaklyCompatibleSpec self other) :=
  weaklyCompatible_spec hs ho keys hknd hkeys hne

/-- **The answer of `weakly_compatible` does not depend on the order of `keys`**: two enumerations of
the keys of `self` give the same answer (and neither panics). -/
theorem weakly_compatible_order_irrelevant (self other : List Item) (hs : KeysNodup self) (ho : KeysNodup other)
    (k1 k2 : List (Nat × Nat)) (hn1 : k1.Nodup) (hn2 : k2.Nodup)
    (h1 : ∀ k, k ∈ k1 ↔ CloseImpl.HasItem self k.1 k.2) (h2 : ∀ k, k ∈ k2 ↔ CloseImpl.HasItem self k.1 k.2)
    (hne : self ≠ []) :
    ∃ b, weaklyCompatible self other k1 = some b ∧ weaklyCompatible self other k2 = some b := by
  obtain ⟨b1, e1, p1⟩ := weaklyCompatible_spec hs ho k1 hn1 h1 hne
  obtain ⟨b2, e2, p2⟩ := weaklyCompatible_spec hs ho k2 hn2 h2 hne
  refine ⟨b1, e1, ?_⟩
  rw [e2]
  congr 1
  cases b1 <;> cases b2 <;> simp_all

/-- **`weakly_compatible` is symmetric**: `a.weakly_compatible(b) = b.weakly_compatible(a)` for non-empty
hash maps, each call iterating over its own receiver's keys in any order. -/
theorem weakly_compatible_symm (a b : List Item) (ha : KeysNodup a) (hb : KeysNodup b)
    (ka kb : List (Nat × Nat)) (hna : ka.Nodup) (hnb : kb.Nodup)
    (h1 : ∀ k, k ∈ ka ↔ CloseImpl.HasItem a k.1 k.2) (h2 : ∀ k, k ∈ kb ↔ CloseImpl.HasItem b k.1 k.2)
    (hnea : a ≠ []) (hneb : b ≠ []) :
    ∃ r, weaklyCompatible a b ka = some r ∧ weaklyCompatible b a kb = some r := by
  obtain ⟨b1, e1, p1⟩ := weaklyCompatible_spec ha hb ka hna h1 hnea
  obtain ⟨b2, e2, p2⟩ := weaklyCompatible_spec hb ha kb hnb h2 hneb
  refine ⟨b1, e1, ?_⟩
  rw [e2]
  congr 1
  rw [weaklyCompatibleSpec_symm] at p2
  cases b1 <;> cases b2 <;> simp_all

/-- **`weakly_merge`: every context becomes the union; the flag says whether some context grew.** For
hash maps `self`, `other` where `other` has every key of `self` (true after a successful compatibility
test): the model ends normally (no missing key) with an item set that has the keys of `self` in the same
order, in which token `t` is in the context of item `[p, d]` iff it was there in `self` or is there in
`other`; the returned flag is `true` iff some token of `other`'s context of some item was not in
`self`'s. -/
theorem weakly_merge_spec (self other : List Item) (hs : KeysNodup self) (ho : KeysNodup other)
    (hsub : ∀ p d, CloseImpl.HasItem self p d → CloseImpl.HasItem other p d) :
    ∃ R ch, weaklyMerge self other = some (R, ch) ∧ keysOf R = keysOf self ∧
      (∀ p d t, HasLa R p d t ↔ HasLa self p d t ∨ (CloseImpl.HasItem self p d ∧ HasLa other p d t)) ∧
      (ch = true ↔ ∃ p d t, CloseImpl.HasItem self p d ∧ HasLa other p d t ∧ ¬ HasLa self p d t) :=
  weaklyMerge_spec self other hs ho hsub

/-- **`goto`: exactly the items with the dot before `sym`, advanced, contexts carried.** For an item set
`cl` whose items are in range (`p < prods_len`, `dot ≤ prod_len(p)`): the model ends normally (no index
panic) with a hash map `R` (distinct keys) whose items are exactly `{[p, d+1] | [p, d] ∈ cl, the symbol at
position d of p is sym}` and in which `t` is in the context of `[p, d+1]` iff it is in the context of
`[p, d]` in `cl`. -/
theorem goto_spec (G : Grammar) (sym : Sym) (cl : List Item)
    (hok : ∀ i ∈ cl, i.p < G.nprods ∧ i.dot ≤ (G.rhs i.p).length) :
    ∃ R, PagerImpl.goto G sym cl = some R ∧ KeysNodup R ∧
      (∀ p d, CloseImpl.HasItem R p d ↔ ∃ d0, d = d0 + 1 ∧ CloseImpl.HasItem cl p d0 ∧ (G.rhs p)[d0]? = some sym) ∧
      (∀ p d t, HasLa R p d t ↔ ∃ d0, d = d0 + 1 ∧ HasLa cl p d0 t ∧ (G.rhs p)[d0]? = some sym) := by
  obtain ⟨R, e, h1, h2, h3⟩ := gotoLoop_spec G sym cl hok []
  refine ⟨R, e, h3 (by simp [KeysNodup, keysOf]), ?_, ?_⟩
  · intro p d; rw [h1]; simp [CloseImpl.HasItem]
  · intro p d t; rw [h2]; simp [HasLa]

/-- **Soundness of the construction, for EVERY order parameter.** For a well-formed grammar and exact
nullable/FIRST oracles: whenever the modelled `pager_stategraph` ends normally — whatever the hash orders
`orders` and whatever `maxStates` — the final state graph (after `gc`) satisfies
(i) every core state is a hash map in range and every closed state denotes exactly the LR(1) closure
(`ClosureP`, the specification side of `C16.close_impl_exact`) of its core state;
(ii) state 0's core is the start item `[start_prod, 0]` with context `{eof}`;
(iii) for every edge `(s, sym, t)`: `t` is a state, `goto (closed s) sym` is non-empty, has exactly the core
items of `core t`, and each of its contexts is a subset of the corresponding context of `core t`
(`GotoInto`);
(iv) every symbol after a dot in a closed state has an edge;
and there is one edge map per state and fewer than `maxStates` states.
(The invariant behind it, `Lemmas/PagerInv.lean`/`PagerInvB.lean`: cores only grow; a closed state whose
core grows is re-opened, so every state that is not open has `closed = close core`; an edge is inserted with
its goto set included in the target's core at that moment; the edges of a re-processed state are all
overwritten; state 0 is never a merge target. Pager's global theorem — no new conflicts for LR(1)
grammars — is not part of this statement.) -/
theorem pager_output_certified (G : Grammar) (hwf : G.wf = true) (N : Nat → Bool) (F : Nat × Nat → Bool)
    (hN : ∀ r, N r = true ↔ Spec.NullableR G r) (hF : ∀ r t, F (r, t) = true ↔ Spec.FirstP G r t)
    (maxStates : Nat) (orders : List Order) (out : Output) (h : pager G N F maxStates orders = .ok out) :
    (∀ (k : Nat) (core cl : List Item), out.states[k]? = some (core, cl) → ItemsOk G core ∧ ClosedOf G core cl) ∧
    (∃ cl, out.states[0]? = some ([⟨G.startProd, 0, [G.eof]⟩], cl)) ∧
    (∀ (k : Nat) (core cl : List Item) (es : List (Sym × Nat)), out.states[k]? = some (core, cl) →
      out.edges[k]? = some es → ∀ e ∈ es, ∃ tcore tcl, out.states[e.2]? = some (tcore, tcl) ∧ GotoInto G cl e.1 tcore) ∧
    (∀ (k : Nat) (core cl : List Item) (es : List (Sym × Nat)), out.states[k]? = some (core, cl) →
      out.edges[k]? = some es → ∀ p d X, CloseImpl.HasItem cl p d → (G.rhs p)[d]? = some X → ∃ e ∈ es, e.1 = X) ∧
    out.edges.length = out.states.length ∧ out.states.length < maxStates := by
  obtain ⟨inv, zs, hz, hgc, hmax, _⟩ := pager_ok_invA hwf hN hF h
  have invB := pager_ok_invB hwf hN hF h
  obtain ⟨hzl, hzs⟩ := zipStates_spec _ _ zs inv.len1 hz
  have hpos : 0 < out.pre.core.length := by
    by_cases h0 : 0 < out.pre.core.length
    · exact h0
    · have := inv.start; rw [List.getElem?_eq_none (by omega)] at this; cases this
  obtain ⟨states', edges', hgc', hl1, hl2, hA, hsurj, _, _, hrange, h0⟩ :=
    gc_spec zs 0 out.pre.edges (by rw [hzl]; exact inv.len2) (by omega)
      (fun s es hes e he => by rw [hzl]; exact inv.edgeRange s es hes e he)
  rw [hgc] at hgc'
  simp only [Res.ok.injEq, Prod.mk.injEq] at hgc'
  obtain ⟨e1, e2⟩ := hgc'
  subst e1 e2
  -- every final state is a reachable pre-gc state
  have hback : ∀ (k : Nat) (core cl : List Item), out.states[k]? = some (core, cl) →
      ∃ s, s < zs.length ∧ Reach out.pre.edges 0 s ∧ gcIndex out.pre.edges 0 s = k ∧
        out.pre.core[s]? = some core ∧ out.pre.closed[s]? = some (some cl) := by
    intro k core cl hk
    have hklt : k < out.states.length := by
      by_cases hlt : k < out.states.length
      · exact hlt
      · rw [List.getElem?_eq_none (by omega)] at hk; cases hk
    obtain ⟨s, hs, hr, hks⟩ := hsurj k hklt
    have := (hA s hs hr).1
    rw [hks, hk] at this
    obtain ⟨c1, c2⟩ := hzs s (core, cl) this.symm
    exact ⟨s, hs, hr, hks, c1, c2⟩
  -- the edge map of a final state is the renumbered edge map of that pre-gc state
  have hedges : ∀ (s : Nat), s < zs.length → Reach out.pre.edges 0 s → ∀ es : List (Sym × Nat),
      out.edges[gcIndex out.pre.edges 0 s]? = some es →
      ∃ es0, out.pre.edges[s]? = some es0 ∧ es = relabel (gcIndex out.pre.edges 0) es0 := by
    intro s hs hr es hes
    have := (hA s hs hr).2
    rw [hes] at this
    cases he0 : out.pre.edges[s]? with
    | none => rw [he0] at this; cases this
    | some es0 =>
      rw [he0] at this
      simp only [Option.map_some, Option.some.injEq] at this
      exact ⟨es0, rfl, this⟩
  refine ⟨?_, ?_, ?_, ?_, hl2, hmax⟩
  · intro k core cl hk
    obtain ⟨s, _, _, _, c1, c2⟩ := hback k core cl hk
    exact ⟨inv.coreOk s core c1, inv.closedOk s cl core c2 c1⟩
  · have hz0 : ∃ z, zs[0]? = some z := ⟨zs[0]'(by omega), List.getElem?_eq_getElem (by omega)⟩
    obtain ⟨z, hz0⟩ := hz0
    have := (hA 0 (by omega) .start).1
    rw [h0 rfl, hz0] at this
    obtain ⟨c1, _⟩ := hzs 0 z hz0
    rw [inv.start] at c1
    simp only [Option.some.injEq] at c1
    refine ⟨z.2, ?_⟩
    rw [this, c1]
  · intro k core cl es hk hes e he
    obtain ⟨s, hs, hr, hks, c1, c2⟩ := hback k core cl hk
    rw [← hks] at hes
    obtain ⟨es0, hes0, rfl⟩ := hedges s hs hr es hes
    obtain ⟨e0, he0, rfl⟩ := List.mem_map.mp he
    obtain ⟨tgt, ht, hgoto⟩ := (invB.edgeOk s cl es0 (by simp) c2 hes0).1 e0 he0
    have htl : e0.2 < zs.length := by rw [hzl]; exact inv.edgeRange s es0 hes0 e0 he0
    have hr' : Reach out.pre.edges 0 e0.2 := .step s e0.2 e0.1 es0 hr hes0 he0
    obtain ⟨z, hzt⟩ : ∃ z, zs[e0.2]? = some z := ⟨zs[e0.2]'htl, List.getElem?_eq_getElem htl⟩
    obtain ⟨c1', _⟩ := hzs e0.2 z hzt
    rw [ht] at c1'
    simp only [Option.some.injEq] at c1'
    refine ⟨z.1, z.2, ?_, by rw [← c1']; exact hgoto⟩
    rw [(hA e0.2 htl hr').1, hzt]
  · intro k core cl es hk hes p d X hi hX
    obtain ⟨s, hs, hr, hks, c1, c2⟩ := hback k core cl hk
    rw [← hks] at hes
    obtain ⟨es0, hes0, rfl⟩ := hedges s hs hr es hes
    obtain ⟨e0, he0, hk0⟩ := (invB.edgeOk s cl es0 (by simp) c2 hes0).2 p d X hi hX
    exact ⟨(e0.1, gcIndex out.pre.edges 0 e0.2), List.mem_map.mpr ⟨e0, he0, rfl⟩, hk0⟩

/-- **The graph-level conditions of `Cert.check` hold of every output of the modelled construction.** Under
the hypotheses of `pager_output_certified`, the automaton view `toAutomaton out` of the final state graph
satisfies the fields of `Cert.Props` that speak about the graph — i.e. the unpacked clauses `itemsOk`, K1
(`startLt`, `startCore`, `startHas`), K2 (`kernelOfDot`, `coreSub`), K3′ (`edgeTarget`), K3 (`edgeExists`)
and K6 (`justified`) of `Cert.check`. (Not covered, because they are not about the graph: K4 and K5 — the
table built by `StateTable::new`, C03/C16 — and `wfG`, the shape of the grammar.) -/
theorem pager_output_cert_graph_clauses (G : Grammar) (hwf : G.wf = true) (N : Nat → Bool) (F : Nat × Nat → Bool)
    (hN : ∀ r, N r = true ↔ Spec.NullableR G r) (hF : ∀ r t, F (r, t) = true ↔ Spec.FirstP G r t)
    (maxStates : Nat) (orders : List Order) (out : Output) (h : pager G N F maxStates orders = .ok out) :
    let A := toAutomaton out
    (∀ s, s < A.nstates → ∀ i ∈ A.closed s ++ A.core s, i.p < G.nprods ∧ i.dot ≤ (G.rhs i.p).length) ∧
    A.start < A.nstates ∧
    (∀ i ∈ A.core A.start, i.p = G.startProd ∧ i.dot = 0) ∧
    Cert.HasItem (A.core A.start) G.startProd 0 ∧
    (∀ s, s < A.nstates → ∀ i ∈ A.closed s, i.dot > 0 → Cert.HasItem (A.core s) i.p i.dot) ∧
    (∀ s, s < A.nstates → ∀ i ∈ A.core s, Cert.HasItem (A.closed s) i.p i.dot) ∧
    (∀ s, s < A.nstates → ∀ e ∈ A.edges s, e.2 < A.nstates ∧ A.core e.2 ≠ [] ∧
      ∀ i ∈ A.core e.2, i.dot > 0 ∧ symAt G i.p (i.dot - 1) = some e.1 ∧ Cert.HasItem (A.closed s) i.p (i.dot - 1)) ∧
    (∀ s, s < A.nstates → ∀ i ∈ A.closed s, ∀ X, symAt G i.p i.dot = some X →
      ∃ t, A.edge s X = some t ∧ Cert.HasItem (A.core t) i.p (i.dot + 1)) ∧
    (∀ s, s < A.nstates → ∀ i ∈ A.closed s, i.dot = 0 →
      Cert.HasItem (A.core s) i.p 0 ∨ ∃ j ∈ A.closed s, symAt G j.p j.dot = some (.rule (G.lhs i.p))) := by
  intro A
  obtain ⟨h1, ⟨cl0, h2⟩, h3, h4, hlen, _⟩ := pager_output_certified G hwf N F hN hF maxStates orders out h
  obtain ⟨hn, hview⟩ := toAutomaton_view out hlen
  have hpos : 0 < out.states.length := by
    by_cases h0 : 0 < out.states.length
    · exact h0
    · rw [List.getElem?_eq_none (by omega)] at h2; cases h2
  have hstart : A.start = 0 := rfl
  refine ⟨?_, by rw [hstart, hn]; exact hpos, ?_, ?_, ?_, ?_, ?_, ?_, ?_⟩
  · intro s hs i hi
    obtain ⟨core, cl, es, e1, e2, v1, v2, v3⟩ := hview s (by rw [← hn]; exact hs)
    obtain ⟨hcore, hcl⟩ := h1 s core cl e1
    have hclOk := closedOf_coreOk hwf hcore.1 hcl
    rw [v1, v2] at hi
    rcases List.mem_append.mp hi with hi | hi
    · exact ⟨(hclOk.1 i hi).1, (hclOk.1 i hi).2.1⟩
    · exact ⟨(hcore.1 i hi).1, (hcore.1 i hi).2.1⟩
  · obtain ⟨core, cl, es, e1, e2, v1, v2, v3⟩ := hview 0 hpos
    rw [h2] at e1; cases e1
    rw [hstart, v1]
    intro i hi
    rw [List.mem_singleton] at hi; subst hi; exact ⟨rfl, rfl⟩
  · obtain ⟨core, cl, es, e1, e2, v1, v2, v3⟩ := hview 0 hpos
    rw [h2] at e1; cases e1
    rw [hstart, v1]
    exact ⟨_, List.mem_singleton.mpr rfl, rfl, rfl⟩
  · intro s hs i hi hd
    obtain ⟨core, cl, es, e1, e2, v1, v2, v3⟩ := hview s (by rw [← hn]; exact hs)
    obtain ⟨_, hcl⟩ := h1 s core cl e1
    rw [v2] at hi; rw [v1]
    rcases closureP_item_inv ((hcl.2.1 i.p i.dot).mp ⟨i, hi, rfl, rfl⟩) with h | ⟨h0, _⟩
    · exact h
    · omega
  · intro s hs i hi
    obtain ⟨core, cl, es, e1, e2, v1, v2, v3⟩ := hview s (by rw [← hn]; exact hs)
    obtain ⟨_, hcl⟩ := h1 s core cl e1
    rw [v1] at hi; rw [v2]
    exact (hcl.2.1 i.p i.dot).mpr (.kitem i hi)
  · intro s hs e he
    obtain ⟨core, cl, es, e1, e2, v1, v2, v3⟩ := hview s (by rw [← hn]; exact hs)
    obtain ⟨hcore, hcl⟩ := h1 s core cl e1
    have hclOk := closedOf_coreOk hwf hcore.1 hcl
    rw [v3] at he
    obtain ⟨tcore, tcl, ht, n, hg, hne, hsame, _⟩ := h3 s core cl es e1 e2 e he
    have htlt : e.2 < out.states.length := getElem?_some_lt ht
    obtain ⟨core', cl', es', e1', _, v1', _, _⟩ := hview e.2 htlt
    rw [ht] at e1'; cases e1'
    obtain ⟨_, a1, _⟩ := goto_itemsOk hclOk.1 hg
    rw [v1', v2, hn]
    refine ⟨htlt, ?_, ?_⟩
    · intro hempty
      cases n with
      | nil => exact hne rfl
      | cons x xs =>
        obtain ⟨j, hj, _⟩ := (hsame x.p x.dot).mp ⟨x, List.mem_cons_self .., rfl, rfl⟩
        rw [hempty] at hj; cases hj
    · intro i hi
      obtain ⟨d0, hd0, hitem, hsym⟩ := (a1 i.p i.dot).mp ((hsame i.p i.dot).mpr ⟨i, hi, rfl, rfl⟩)
      rw [hd0]
      exact ⟨by omega, by simpa [symAt] using hsym, by simpa using (show Cert.HasItem cl i.p d0 from hitem)⟩
  · intro s hs i hi X hX
    obtain ⟨core, cl, es, e1, e2, v1, v2, v3⟩ := hview s (by rw [← hn]; exact hs)
    obtain ⟨hcore, hcl⟩ := h1 s core cl e1
    have hclOk := closedOf_coreOk hwf hcore.1 hcl
    rw [v2] at hi
    have hX' : (G.rhs i.p)[i.dot]? = some X := by simpa [symAt] using hX
    obtain ⟨e0, he0, hk0⟩ := h4 s core cl es e1 e2 i.p i.dot X ⟨i, hi, rfl, rfl⟩ hX'
    cases hedge : A.edge s X with
    | none =>
      exfalso
      simp only [Automaton.edge, Option.map_eq_none_iff, List.find?_eq_none] at hedge
      have := hedge e0 (by rw [v3]; exact he0)
      simp [hk0] at this
    | some t =>
      refine ⟨t, rfl, ?_⟩
      have hmem := Cert.edge_mem hedge
      rw [v3] at hmem
      obtain ⟨tcore, tcl, ht, n, hg, _, hsame, _⟩ := h3 s core cl es e1 e2 (X, t) hmem
      obtain ⟨core', cl', es', e1', _, v1', _, _⟩ := hview t (getElem?_some_lt ht)
      rw [ht] at e1'; cases e1'
      obtain ⟨_, a1, _⟩ := goto_itemsOk hclOk.1 hg
      rw [v1']
      exact (hsame i.p (i.dot + 1)).mp ((a1 i.p (i.dot + 1)).mpr ⟨i.dot, rfl, ⟨i, hi, rfl, rfl⟩, hX'⟩)
  · intro s hs i hi hd
    obtain ⟨core, cl, es, e1, e2, v1, v2, v3⟩ := hview s (by rw [← hn]; exact hs)
    obtain ⟨_, hcl⟩ := h1 s core cl e1
    rw [v2] at hi; rw [v1, v2]
    rcases closureP_item_inv ((hcl.2.1 i.p i.dot).mp ⟨i, hi, rfl, rfl⟩) with h | ⟨_, p', d', hc, hsym⟩
    · left; rw [hd] at h; exact h
    · right
      obtain ⟨j, hj, e1', e2'⟩ := (hcl.2.1 p' d').mpr hc
      exact ⟨j, hj, by rw [e1', e2']; simpa [symAt, Closure.symAfter] using hsym⟩

/-- **The modelled `pager_stategraph` never panics, whatever the hash-map iteration orders, as long as
`StorageT` is not exhausted.** For a well-formed grammar, exact nullable/FIRST oracles and ANY list of
orders (well-formed or not, too short or too long): if `maxStates` (= `StorageT::max_value()`) exceeds
`1 +` the total number of keys the orders make the loop `for &(pidx, dot) in cl_state.items.keys()` visit
(each visit creates at most one state, so this bounds the number of states ever created; for `u32` it
means fewer than 2^32 - 2 key visits in the whole run), the model does not answer `panic`. Since the model
answers `panic` for every index out of range, every `unwrap()` of `None`, the `len - 1` underflow in
`weakly_compatible`, a missing key in `weakly_merge`/`vob_intersect`, the explicit `panic!` of the
`StorageT` guard and `StateGraph::new`'s `assert!`, this says that under the hypothesis:
`closed_states.iter().position(Option::is_none).unwrap()` finds an entry whenever `todo > 0` (`todo` IS the
number of `None` entries); `core_states[state_i]`, `edges[state_i]`, `closed_states[k]`, `core_states[k]`,
`cnd_rule_weaklies[r]`, `cnd_token_weaklies[t]`, `seen_rules[r]`, `seen_tokens[t]`, `prod[dot]` are in range;
`close` and `goto` do not panic; no core state is empty; a weakly compatible candidate has the keys
`weakly_merge` looks up; after the loop every `closed_states` entry is `Some`; `gc`'s `offsets[v]` is in
range; and the final state count fits. Without the hypothesis the only way to `panic` that is left is the
documented `StorageT` one (see the example below, `maxStates = 3`). The invariant is `PagerImpl.InvT`
(`Lemmas/PagerTotal.lean`) on top of `InvA`. -/
theorem pager_never_panics (G : Grammar) (hwf : G.wf = true) (N : Nat → Bool) (F : Nat × Nat → Bool)
    (hN : ∀ r, N r = true ↔ Spec.NullableR G r) (hF : ∀ r t, F (r, t) = true ↔ Spec.FirstP G r t)
    (maxStates : Nat) (orders : List Order)
    (hmax : 1 + (orders.map (fun o => o.closedKeys.length)).sum < maxStates) :
    pager G N F maxStates orders ≠ .panic := by
  intro h
  rcases pager_total hwf hN hF orders (by rw [budget_eq]; exact hmax) with ⟨h1, _⟩ | ⟨h1, _⟩ | ⟨_, out, _, h1⟩ <;>
    (rw [h1] at h; cases h)

/-- **The three outcomes of the modelled `pager_stategraph`, and where they come from.** Under the
hypotheses of `pager_never_panics`, for any orders exactly one of these holds. Write `Steps os st st'` for
"the main loop performs one normal iteration per element of `os` (with `todo > 0` before each) and gets from
`st` to `st'`".
* `badOrder`: the loop ran normally through a prefix `pre` of the orders, `todo` was still positive, and the
  next order `o` was refused (`BadOrderAt`): `o.coreKeys` is not an enumeration of the keys of the core state
  picked next, or `o.closedKeys` is not an enumeration of the keys of its closure. Nothing else answers
  `badOrder`.
* `fuelOut`: the loop ran normally through ALL the orders and `todo` is still positive: the list of orders
  was too short. Nothing else answers `fuelOut`: `close` and `gc` never run out of the fuel the model gives
  them.
* the main loop ended normally (`todo = 0`), and then so does the whole function: the final `unwrap`s, `gc`
  and the `StorageT` checks all pass.
(Termination — that some list of orders leads to the third case — is not part of this statement.) -/
theorem pager_outcomes (G : Grammar) (hwf : G.wf = true) (N : Nat → Bool) (F : Nat × Nat → Bool)
    (hN : ∀ r, N r = true ↔ Spec.NullableR G r) (hF : ∀ r t, F (r, t) = true ↔ Spec.FirstP G r t)
    (maxStates : Nat) (orders : List Order)
    (hmax : 1 + (orders.map (fun o => o.closedKeys.length)).sum < maxStates) :
    (pager G N F maxStates orders = .badOrder ∧ ∃ pre o post st', orders = pre ++ o :: post ∧
      Steps G N F maxStates pre (initSt G) st' ∧ st'.todo ≠ 0 ∧ BadOrderAt G N F o st') ∨
    (pager G N F maxStates orders = .fuelOut ∧
      ∃ st', Steps G N F maxStates orders (initSt G) st' ∧ st'.todo ≠ 0) ∨
    (∃ r out, mainLoop G N F maxStates orders (initSt G) = .ok r ∧ pager G N F maxStates orders = .ok out) :=
  pager_total hwf hN hF orders (by rw [budget_eq]; exact hmax)

/-! ### non-vacuity (tests, evaluated by `decide`) -/

/-- `^ → R0; R0 → R1; R1 → R4 R4; R4 → t0` (tokens `t0 $`, rules `^ R0 R1 R4`) -/
def exMerge : Grammar :=
  { ntoks := 2, nrules := 4, eof := 1, startProd := 0,
    prods := [(0, [.rule 1]), (1, [.rule 2]), (2, [.rule 3, .rule 3]), (3, [.tok 0])] }

/-- hash orders under which the state reached over `t0` is numbered (and closed) before the state
reached over `R4`: the second `R4 → t0 ·` (context `$`) is then merged into a closed state, which is
re-opened -/
def exMergeOrders : List Order :=
  [⟨[(0, 0)], [(3, 0), (0, 0), (1, 0), (2, 0)]⟩, ⟨[(3, 1)], [(3, 1)]⟩, ⟨[(0, 1)], [(0, 1)]⟩, ⟨[(1, 1)], [(1, 1)]⟩,
   ⟨[(2, 1)], [(2, 1), (3, 0)]⟩, ⟨[(2, 2)], [(2, 2)]⟩, ⟨[(3, 1)], [(3, 1)]⟩]

def exMergeRun : Res Output := pager exMerge (fun _ => false) (fun x => x.2 == 0) 1000 exMergeOrders

/-- the modelled pager runs 7 iterations on it (state 1 twice), merges once, re-opens one state, ends
with 6 states, and state 1's core context has become `{t0, $}` -/
example : (match exMergeRun with
    | .ok o => o.log.map (·.1) == [0, 1, 2, 3, 4, 5, 1] && o.pre.nmerge == 1 && o.pre.nreopen == 1 &&
        o.states.length == 6 && (o.states.getD 1 ([], [])).1 == [⟨3, 1, [0, 1]⟩] &&
        o.edges.getD 4 [] == [(.rule 3, 5), (.tok 0, 1)]
    | _ => false) = true := by decide

/-- an order that is not an enumeration of the keys is refused -/
example : (match pager exMerge (fun _ => false) (fun x => x.2 == 0) 1000 [⟨[(0, 0)], [(3, 0)]⟩] with
    | .badOrder => true
    | _ => false) = true := by decide

/-- too few orders: the loop is cut off -/
example : (match pager exMerge (fun _ => false) (fun x => x.2 == 0) 1000 (exMergeOrders.take 3) with
    | .fuelOut => true
    | _ => false) = true := by decide

/-- `pager_never_panics` is not vacuous: the run above satisfies its `maxStates` hypothesis (11 key
visits, `maxStates = 1000`) and ends normally -/
example : 1 + (exMergeOrders.map (fun o => o.closedKeys.length)).sum < 1000 := by decide
example : (match exMergeRun with
    | .ok _ => true
    | _ => false) = true := by decide

/-- the hypothesis is needed: with `StorageT::max_value() = 3` the same run hits the documented `panic!`
of the `StorageT` guard -/
example : (match pager exMerge (fun _ => false) (fun x => x.2 == 0) 3 exMergeOrders with
    | .panic => true
    | _ => false) = true := by decide

/-- `gc` on four states whose second state is unreachable: it is dropped, the edges to states 2 and 3 are
renumbered to 1 and 2 -/
example : (match gc ["s0", "s1", "s2", "s3"] 0 [[(.tok 0, 2)], [(.tok 0, 3)], [(.tok 1, 3), (.rule 0, 0)], []] with
    | .ok r => r.1 == ["s0", "s2", "s3"] && r.2 == [[(.tok 0, 1)], [(.tok 1, 2), (.rule 0, 0)], []]
    | _ => false) = true := by decide

/-- Pager's condition on a pair: `{[0,1]:{0}, [1,1]:{1}}` against `{[0,1]:{1}, [1,1]:{0}}` is NOT weakly
compatible (merging would create a reduce/reduce conflict); against `{[0,1]:{2}, [1,1]:{3}}` it is -/
example : weaklyCompatible [⟨0, 1, [0]⟩, ⟨1, 1, [1]⟩] [⟨1, 1, [0]⟩, ⟨0, 1, [1]⟩] [(0, 1), (1, 1)] = some false := by decide
example : weaklyCompatible [⟨0, 1, [0]⟩, ⟨1, 1, [1]⟩] [⟨1, 1, [3]⟩, ⟨0, 1, [2]⟩] [(1, 1), (0, 1)] = some true := by decide

end GrmVerif.C02
