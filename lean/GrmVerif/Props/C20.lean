import GrmVerif.Lemmas.Width
/-!
# C20 — results are independent of the index storage width; too-small widths are refused cleanly

Property theorems only (helper lemmas: `GrmVerif/Lemmas/Width.lean`).  The model is
`GrmVerif/Model/Width.lean`: the size guards and `as_()` conversions of
`YaccGrammar::new_from_ast_with_validity_info` (repaired source), the state-count guards of
`pager.rs`/`stategraph.rs`/`statetable.rs`, the goto `+1` and action encodings, and the lexer's
`StorageT::try_from` for token ids.  `as_()` is truncation `n % 2^w`; a panic is `none`.

Every theorem holds for every width `w` (8, 16, 32 are instances), every count and every list of
production lengths.
-/
namespace GrmVerif.C20
open GrmVerif.Width

/-- **Guards prevent wrap-around.** If construction succeeds at width `w`, every reported size is the
true size (so nothing wrapped), every true size is `< 2^w`, and converting *any* rule, token,
production or symbol index of the grammar to `StorageT` is the identity. -/
theorem guards_prevent_wrap (w : Nat) (s : Src) (r : Sizes) (h : build w s = some r) :
    r = trueSizes s ∧
    s.rulesTrue < 2 ^ w ∧ s.tokensTrue < 2 ^ w ∧ s.prodsTrue < 2 ^ w ∧
    (∀ i, i ≤ s.rulesTrue → idx w i = i) ∧
    (∀ i, i ≤ s.tokensTrue → idx w i = i) ∧
    (∀ i, i ≤ s.prodsTrue → idx w i = i) ∧
    (∀ l ∈ s.prodLens, l < 2 ^ w ∧ ∀ d, d ≤ l → idx w d = d) := by
  obtain ⟨⟨hr, ht, hp, hs⟩, rfl⟩ := (build_eq_some_iff w s r).mp h
  refine ⟨rfl, le_maxVal_iff.mp hr, le_maxVal_iff.mp ht, le_maxVal_iff.mp hp, ?_, ?_, ?_, ?_⟩
  · intro i hi; exact trunc_of_le (Nat.le_trans hi hr)
  · intro i hi; exact trunc_of_le (Nat.le_trans hi ht)
  · intro i hi; exact trunc_of_le (Nat.le_trans hi hp)
  · intro l hl
    exact ⟨le_maxVal_iff.mp (hs l hl), fun d hd => trunc_of_le (Nat.le_trans hd (hs l hl))⟩

/-- **Refusal is exact.** Construction is refused (the "not big enough" panic) precisely when some
size the grammar object has to store does not fit `w` bits: never an accepted grammar with a size that
does not fit, never a refusal of one whose sizes all fit. -/
theorem refused_iff_too_small (w : Nat) (s : Src) : build w s = none ↔ ¬ s.Fits w := by
  constructor
  · intro h hf
    have := (build_eq_some_iff w s (trueSizes s)).mpr ⟨hf, rfl⟩
    rw [h] at this; cases this
  · intro h
    cases hb : build w s with
    | none => rfl
    | some r => exact absurd ((build_eq_some_iff w s r).mp hb).1 h

/-- **Widths agree.** Two widths that both accept a grammar report identical sizes and distinguished
indices, and number every rule, token, production and symbol position identically. -/
theorem widths_agree (w₁ w₂ : Nat) (s : Src) (r₁ r₂ : Sizes)
    (h₁ : build w₁ s = some r₁) (h₂ : build w₂ s = some r₂) :
    r₁ = r₂ ∧
    (∀ i, i ≤ s.rulesTrue → idx w₁ i = idx w₂ i) ∧
    (∀ i, i ≤ s.tokensTrue → idx w₁ i = idx w₂ i) ∧
    (∀ i, i ≤ s.prodsTrue → idx w₁ i = idx w₂ i) ∧
    (∀ l ∈ s.prodLens, ∀ d, d ≤ l → idx w₁ d = idx w₂ d) := by
  obtain ⟨e₁, _, _, _, a₁, b₁, c₁, d₁⟩ := guards_prevent_wrap w₁ s r₁ h₁
  obtain ⟨e₂, _, _, _, a₂, b₂, c₂, d₂⟩ := guards_prevent_wrap w₂ s r₂ h₂
  refine ⟨e₁.trans e₂.symm, ?_, ?_, ?_, ?_⟩
  · intro i hi; rw [a₁ i hi, a₂ i hi]
  · intro i hi; rw [b₁ i hi, b₂ i hi]
  · intro i hi; rw [c₁ i hi, c₂ i hi]
  · intro l hl d hd; rw [(d₁ l hl).2 d hd, (d₂ l hl).2 d hd]

/-- A wider storage type accepts whatever a narrower one accepts, with the same result. -/
theorem wider_accepts (w₁ w₂ : Nat) (hw : w₁ ≤ w₂) (s : Src) (r : Sizes)
    (h : build w₁ s = some r) : build w₂ s = some r := by
  obtain ⟨⟨hr, ht, hp, hs⟩, rfl⟩ := (build_eq_some_iff w₁ s r).mp h
  have hm := maxVal_mono hw
  exact (build_eq_some_iff w₂ s _).mpr
    ⟨⟨Nat.le_trans hr hm, Nat.le_trans ht hm, Nat.le_trans hp hm,
      fun l hl => Nat.le_trans (hs l hl) hm⟩, rfl⟩

/-- **State-count guards are sound.** If `pager_stategraph` returns a graph (all three guards passed:
`pre` core states before garbage collection, `post` after), `all_states_len()` is the true number of
states, it is `< 2^w - 1`, and every state index converts to `StorageT` unchanged. -/
theorem state_guards_sound (w pre post n : Nat) (h : stategraph w pre post = some n) :
    n = post ∧ post < maxVal w ∧ (pre ≤ 1 ∨ pre ≤ maxVal w) ∧ ∀ i, i ≤ post → stIdx w i = i := by
  unfold stategraph at h
  split at h
  · rename_i hc
    simp only [Bool.and_eq_true] at hc
    obtain ⟨⟨hp, _⟩, hn⟩ := hc
    have hlt : post < maxVal w := by simpa [sgNewOk] using hn
    have : allStatesLen w post = post := trunc_of_le (Nat.le_of_lt hlt)
    refine ⟨by rw [← this]; exact (Option.some.inj h).symm, hlt, (pagerOk_iff w pre).mp hp, ?_⟩
    intro i hi; exact trunc_of_le (by omega)
  · cases h

/-- Two widths that both build the state graph report the same number of states. -/
theorem state_widths_agree (w₁ w₂ pre post n₁ n₂ : Nat)
    (h₁ : stategraph w₁ pre post = some n₁) (h₂ : stategraph w₂ pre post = some n₂) : n₁ = n₂ := by
  rw [(state_guards_sound _ _ _ _ h₁).1, (state_guards_sound _ _ _ _ h₂).1]

/-- **The goto `+1` encoding fits.** If `StateTable::new`'s assertions pass for a graph with `n`
states (`n` as reported by a graph that was built, i.e. not wrapped), then for every state the cell
value `st + 1` is non-zero, fits `usize` and even fits `StorageT`, and `goto` decodes it to `st`. -/
theorem goto_plus_one_fits (w n rl : Nat) (h : tableOk w n rl = true) (st : Nat) (hst : st < n) :
    gotoEnc st ≠ 0 ∧ gotoEnc st < 2 ^ usizeBits ∧ gotoEnc st < maxVal w ∧
    gotoDec w (gotoEnc st) = some st := by
  unfold tableOk at h
  simp only [Bool.and_eq_true, decide_eq_true_eq] at h
  obtain ⟨⟨h1, _⟩, h3⟩ := h
  unfold gotoEnc gotoDec
  refine ⟨by omega, by omega, by omega, ?_⟩
  have : trunc w st = st := trunc_of_le (by omega)
  simp [this]

/-- **Actions survive the table.** A shift to a state / a reduction by a production whose index fits
`w` bits (`w ≤ 62`, so that the two tag bits fit a 64-bit `usize`) decodes to itself; so do accept
and error. -/
theorem action_roundtrip (w : Nat) (hw : w ≤ 62) (a : Action)
    (ha : match a with | .shift st => st < 2 ^ w | .reduce p => p < 2 ^ w | _ => True) :
    decode w (encode a) = a := by
  have hpow : 2 ^ w * 4 ≤ 2 ^ usizeBits := by
    have : 2 ^ w ≤ 2 ^ 62 := Nat.pow_le_pow_right (by decide) hw
    unfold usizeBits; omega
  cases a with
  | shift st =>
    simp only at ha
    have h4 : st <<< 2 = st * 4 := by rw [Nat.shiftLeft_eq]
    have hm : (st <<< 2) % 2 ^ usizeBits = st <<< 2 := Nat.mod_eq_of_lt (by rw [h4]; omega)
    simp only [encode, decode, hm, Extracted.SHIFT, Extracted.REDUCE, Extracted.ACCEPT]
    rw [tag_or_shl 1 st (by decide), and3, shr2]
    have e1 : (st * 4 + 1) % 4 = 1 := by omega
    have e2 : (st * 4 + 1) / 4 = st := by omega
    simp [e1, e2, trunc_of_lt ha]
  | reduce p =>
    simp only at ha
    have h4 : p <<< 2 = p * 4 := by rw [Nat.shiftLeft_eq]
    have hm : (p <<< 2) % 2 ^ usizeBits = p <<< 2 := Nat.mod_eq_of_lt (by rw [h4]; omega)
    simp only [encode, decode, hm, Extracted.SHIFT, Extracted.REDUCE, Extracted.ACCEPT]
    rw [tag_or_shl 2 p (by decide), and3, shr2]
    have e1 : (p * 4 + 2) % 4 = 2 := by omega
    have e2 : (p * 4 + 2) / 4 = p := by omega
    simp [e1, e2, trunc_of_lt ha]
  | accept => simp [encode, decode, Extracted.SHIFT, Extracted.REDUCE, Extracted.ACCEPT]
  | error => simp [encode, decode, Extracted.SHIFT, Extracted.REDUCE, Extracted.ACCEPT,
      Extracted.ERROR, and3]

/-- **Lexer token ids.** A lexer definition with `n` rules is accepted at width `w` iff `n ≤ 2^w`;
if accepted, rule `k` gets id `k` and every id is `< 2^w` (no wrapped id). -/
theorem lexer_ids_fit (w n : Nat) :
    (lexIds w n = some (List.range n) ∧ n ≤ 2 ^ w) ∨ (lexIds w n = none ∧ 2 ^ w < n) := by
  have hpos := two_pow_pos' w
  have key : ∀ (l : List Nat), (∀ k ∈ l, k ≤ maxVal w) → l.mapM (lexTokId w) = some l := by
    intro l
    induction l with
    | nil => intro _; rfl
    | cons a t ih =>
      intro h
      have ha : a ≤ maxVal w := h a (by simp)
      simp [List.mapM_cons, lexTokId, ha, ih (fun k hk => h k (by simp [hk]))]
  have bad : ∀ (l : List Nat), (∃ k ∈ l, ¬ k ≤ maxVal w) → l.mapM (lexTokId w) = none := by
    intro l
    induction l with
    | nil => intro ⟨_, hk, _⟩; cases hk
    | cons a t ih =>
      intro ⟨k, hk, hbad⟩
      by_cases ha : a ≤ maxVal w
      · have : ∃ k ∈ t, ¬ k ≤ maxVal w := by
          rcases List.mem_cons.mp hk with rfl | hk'
          · exact absurd ha hbad
          · exact ⟨k, hk', hbad⟩
        simp [List.mapM_cons, lexTokId, ha, ih this]
      · simp [List.mapM_cons, lexTokId, ha]
  by_cases hn : n ≤ 2 ^ w
  · left
    refine ⟨key _ ?_, hn⟩
    intro k hk
    have := List.mem_range.mp hk
    unfold maxVal; omega
  · right
    refine ⟨bad _ ⟨2 ^ w, List.mem_range.mpr (by omega), ?_⟩, by omega⟩
    unfold maxVal; omega

/-! ### Tests (labelled as such): the hypotheses are satisfiable, and the defect is real -/

/-- test: a u8 grammar at the limit (254 user rules + `^` = 255 = `u8::MAX`) is accepted unwrapped -/
example : build 8 ⟨254, 254, [(255, 255), (0, 0)], false, none⟩ =
    some ⟨255, 255, 3, 254, 2, [255, 0, 1]⟩ := by decide

/-- test: one more rule is refused by the repaired guards -/
example : build 8 ⟨255, 1, [(1, 1)], false, none⟩ = none := by decide

/-- test (the defect this check re-found): the unrepaired guards accept 255 user rules at u8 and the
constructor then reports `rules_len() = 0`; likewise 255 tokens give `tokens_len() = 0` -/
example : buildOld 8 ⟨255, 255, [(1, 1)], false, none⟩ = some ⟨0, 0, 2, 255, 1, [1, 1]⟩ := by decide

/-- test: Eco with two implicit tokens: three added rules, five added productions, doubled tokens -/
example : build 8 ⟨2, 4, [(2, 1), (127, 127)], true, some 2⟩ =
    some ⟨5, 5, 7, 4, 2, [3, 254, 1, 2, 2, 0, 2]⟩ := by decide

/-- test: the unrepaired guards let an Eco production of 128 tokens through; its length wraps to 0 -/
example : (buildOld 8 ⟨1, 2, [(128, 128)], true, some 1⟩).map (·.prodLens) =
    some [0, 1, 2, 0, 2] := by decide

/-- test: state counts at u8: 253 states pass everything, 254 only the graph, 255 and 256 nothing -/
example : stategraph 8 253 253 = some 253 ∧ tableOk 8 253 2 = true ∧
    stategraph 8 254 254 = some 254 ∧ tableOk 8 254 2 = false ∧
    stategraph 8 255 255 = none ∧ stategraph 8 256 256 = none := by
  have h253 := (pagerOk_iff 8 253).mpr (by decide)
  have h254 := (pagerOk_iff 8 254).mpr (by decide)
  have h255 := (pagerOk_iff 8 255).mpr (by decide)
  have h256 : pagerOk 8 256 = false := by
    cases h : pagerOk 8 256 with
    | false => rfl
    | true => exact absurd ((pagerOk_iff 8 256).mp h) (by decide)
  refine ⟨?_, by decide, ?_, by decide, ?_, ?_⟩
  · simp [stategraph, h253, gcOk, sgNewOk, allStatesLen, trunc, maxVal]
  · simp [stategraph, h254, gcOk, sgNewOk, allStatesLen, trunc, maxVal]
  · simp [stategraph, h255, gcOk, sgNewOk, maxVal]
  · simp [stategraph, h256]

/-- test: lexer ids at u8: 256 rules (ids 0..255) are accepted, 257 are refused -/
example : (lexIds 8 256).isSome = true ∧ lexIds 8 257 = none := by
  constructor
  · rcases lexer_ids_fit 8 256 with ⟨h, _⟩ | ⟨_, h⟩
    · simp [h]
    · exact absurd h (by decide)
  · rcases lexer_ids_fit 8 257 with ⟨_, h⟩ | ⟨h, _⟩
    · exact absurd h (by decide)
    · exact h

end GrmVerif.C20
