import GrmVerif.Lemmas.Build2
/-! # C18 — an incremental compile-time build ends in the state a clean build would

All theorems quantify over every generator `G` (what `CTParserBuilder`/`CTLexerBuilder` compute from
texts and settings is abstract), every initial configuration, and **every** sequence of operations
{edit grammar (incl. make invalid / restore / delete), edit lexer, change option, build} with arbitrary
non-negative time steps. The model (`Model/Build.lean`) is the control flow of the repaired builders.

`KeyCovers G` is the explicit hypothesis on the cache string (see `Lemmas/Build.lean`).
-/
namespace GrmVerif.C18
open GrmVerif.Build

/-- **Every build, successful or not, ends in the clean build's state — for the outputs of the builders
that the build script invoked.** After any history, the observable result of `build` (status kinds, and
existence + text of each invoked builder's output) is that of the same build into an empty directory. -/
theorem build_state_equals_clean_invoked (G : Gen) (hk : KeyCovers G) (g l : Nat) (s : Settings)
    (ops : List Op) (dt : Nat) :
    let st := tick (run G (init g l s) ops) dt
    obs (buildAll G st) = obs (buildAll G (wipe st)) := by
  intro st
  have hi : Inv G st := inv_tick (inv_run ops (inv_init G g l s)) dt
  have hw : Inv G (wipe st) := inv_wipe hi
  have c1 := buildParser_clean hk hi
  have c2 := buildParser_clean hk hw
  have s1 := buildParser_status hk hi
  have s2 := buildParser_status hk hw
  have k1 := pKind_buildParser G st
  have k2 := pKind_buildParser G (wipe st)
  have n1 := buildParser_invoked G st
  have n2 := buildParser_invoked G (wipe st)
  have ww : (wipe st).world = st.world := rfl
  have ws : (wipe st).s = st.s := rfl
  rw [ww] at c2 s2
  have hf : pFailed (buildParser G (wipe st)).2 = pFailed (buildParser G st).2 := by rw [s1, s2]
  have hkind : pKind (buildParser G (wipe st)).2 = pKind (buildParser G st).2 := by rw [k1, k2, hf]
  have hc : pContent (buildParser G (wipe st)).1 = pContent (buildParser G st).1 := by rw [c1, c2]
  have fl := finishLexer_clean (G.l st.world)
  have lk1 := lKind_finishLexer (G.l st.world) (buildParser G st).1 (buildParser G (wipe st)).1
  have lk2 := lKind_finishLexer (G.l st.world) (buildParser G (wipe st)).1 (buildParser G st).1
  have fp : ∀ X : State, pContent (finishLexer (G.l st.world) X).1 = pContent X := by
    intro X
    simp only [pContent, (finishLexer_frame (G.l st.world) X).2.2.2.2.2.2]
  simp only [buildAll, ws, ww, hf]
  split
  · split
    · simp [obs, pKind, lKind, lContent, removeL]
    · split
      · simp only [obs, pKind, lKind]
        simp [lContent, removeL, pContent] at hc ⊢
        exact hc.symm
      · simp only [obs, n1, n2, lk1.2, lk2.2, if_false, fl, fp]
        rw [lk1.1, hc, hkind]
  · split
    · simp only [obs, pKind, lKind, if_true]
      simp [hc]
    · simp only [obs, n1, n2, lk1.2, lk2.2, if_false, fl, fp]
      rw [lk1.1, hc, hkind]

/-- **build_equals_clean**: if the cache string covers what the parser generator depends on, then after
*any* sequence of operations a build in which both builders succeed leaves exactly the parser and lexer
texts that a build of the current sources and settings into an empty output directory leaves (and that
clean build succeeds too). -/
theorem build_equals_clean (G : Gen) (hk : KeyCovers G) (g l : Nat) (s : Settings)
    (ops : List Op) (dt : Nat) :
    let st := tick (run G (init g l s) ops) dt
    let r := buildAll G st
    let c := buildAll G (wipe st)
    pKind r.2.1 = 0 → lKind r.2.2 = 0 →
      pContent r.1 = pContent c.1 ∧ lContent r.1 = lContent c.1 ∧ pKind c.2.1 = 0 ∧ lKind c.2.2 = 0 := by
  intro st r c hp hl
  have h : obs r = obs c := build_state_equals_clean_invoked G hk g l s ops dt
  have e1 : pKind c.2.1 = 0 := by
    have := congrArg (·.1) h
    simp only [obs] at this
    exact this ▸ hp
  have e2 : lKind c.2.2 = 0 := by
    have := congrArg (·.2.1) h
    simp only [obs] at this
    exact this ▸ hl
  have np : r.2.1 ≠ .notInvoked := by intro hh; simp [hh, pKind] at hp
  have nl : r.2.2 ≠ .notInvoked := by intro hh; simp [hh, lKind] at hl
  have npc : c.2.1 ≠ .notInvoked := by intro hh; simp [hh, pKind] at e1
  have nlc : c.2.2 ≠ .notInvoked := by intro hh; simp [hh, lKind] at e2
  have h3 := congrArg (·.2.2.1) h
  have h4 := congrArg (·.2.2.2) h
  simp only [obs, np, nl, npc, nlc, if_false] at h3 h4
  exact ⟨h3, h4, e1, e2⟩

/-- **unchanged_not_regenerated**: take any state (reachable or not), run a build in which the parser
builder reports success, then any operations that neither edit the grammar nor build (lexer edits, option
changes — including changing an option and changing it back), then build again. If the parser generator's
result for the configuration is the same as at the first build, the parser builder (when the script
invokes it) reports `regenerated = false` and the output file is untouched (same text, same mtime).
If moreover the lexer builder succeeded the first time and the lexer generator's result is unchanged,
it does not rewrite its output either. Side condition (`hstrict`): the first build runs at a strictly
later time than the last grammar edit (`mtime(out) > mtime(grammar)` is a strict test in the code). -/
theorem unchanged_not_regenerated (G : Gen) (st : State) (dt dt2 : Nat) (mid : List Op)
    (hstrict : st.gmt < st.clock + dt)
    (hmid : ∀ op ∈ mid, isBuild op = false ∧ isEditGrammar op = false) :
    let st1 := tick st dt
    let r1 := buildAll G st1
    let st2 := tick (run G r1.1 mid) dt2
    let r2 := buildAll G st2
    pKind r1.2.1 = 0 → G.p st2.world = G.p st1.world →
      (r2.2.1 = .ok false ∨ r2.2.1 = .notInvoked) ∧ r2.1.pout = r1.1.pout ∧
      (lKind r1.2.2 = 0 → G.l st2.world = G.l st1.world → G.nested st2.s = G.nested st1.s →
        r2.2.2 = .ok false ∧ r2.1.lout = r1.1.lout) := by
  intro st1 r1 st2 r2 hp1 hgp
  -- the first build: the parser builder ran and succeeded
  have hs1 : st1.gmt < st1.clock := by simp [st1, tick]; exact hstrict
  have fr1 := buildParser_frame G st1
  obtain ⟨hnf, hr1⟩ := buildAll_of_parser_ok G st1 hp1
  have ff := finishLexer_frame (G.l st1.world) (buildParser G st1).1
  have hb1 : ∃ b, (buildParser G st1).2 = .ok b ∧ r1.1.pout = (buildParser G st1).1.pout ∧
      r1.1.gmt = st1.gmt ∧ r1.1.g = st1.g := by
    cases hb : (buildParser G st1).2 with
    | ok b =>
      refine ⟨b, rfl, ?_, ?_, ?_⟩
      · simp only [r1, hr1]; exact ff.2.2.2.2.2.2
      · simp only [r1, hr1]; rw [ff.2.2.1, fr1.2.2.1]
      · simp only [r1, hr1]; rw [ff.2.1, fr1.2.1]
    | err => simp [hb, pFailed] at hnf
    | notInvoked => exact absurd hb (buildParser_invoked G st1)
  obtain ⟨b, hb, hpo, hgm, _⟩ := hb1
  obtain ⟨k, hk, hu⟩ := buildParser_ok_upToDate G st1 b hs1 hb
  have keep := run_keeps_parser G mid r1.1 hmid
  have hu2 : upToDate st2.pout st2.gmt k = true := by
    simp only [st2, tick]
    rw [keep.1, keep.2.1, hpo, hgm]
    exact hu
  have hk2 : keyOf (G.p st2.world) = some k := by rw [hgp]; exact hk
  have hskip := buildParser_skip G st2 k hk2 hu2
  have hpo2 : st2.pout = r1.1.pout := by simp only [st2, tick]; exact keep.1
  have hlo2 : st2.lout = r1.1.lout := by simp only [st2, tick]; exact keep.2.2.2
  have ff2 := finishLexer_frame (G.l st2.world) st2
  refine ⟨?_, ?_, ?_⟩
  · simp only [r2, buildAll, hskip, pFailed]
    split
    · split <;> simp
    · simp
  · simp only [r2, buildAll, hskip, pFailed]
    split
    · split
      · simp [removeL, hpo2]
      · simp [ff2.2.2.2.2.2.2, hpo2]
    · simp [ff2.2.2.2.2.2.2, hpo2]
  · intro hl1 hgl hnest
    -- the lexer generator's result at the first build was `ok out`, and `out` is what the file holds
    have hl : ∃ out, G.l st1.world = .ok out ∧ sameText r1.1.lout out = true := by
      simp only [r1, buildAll] at hl1 ⊢
      have key : ∀ s0 : State, lKind (finishLexer (G.l st1.world) s0).2 = 0 →
          ∃ out, G.l st1.world = .ok out ∧ sameText (finishLexer (G.l st1.world) s0).1.lout out = true := by
        intro s0 h0
        cases hr : G.l st1.world with
        | pre => simp [hr, finishLexer, lKind] at h0
        | post => simp [hr, finishLexer, lKind] at h0
        | missing => simp [hr, finishLexer, lKind] at h0
        | ok out =>
          refine ⟨out, rfl, ?_⟩
          simp only [finishLexer]
          split
          · rename_i h; exact h
          · simp [writeL, sameText]
      split at hl1
      · split at hl1
        · simp [lKind] at hl1
        · split at hl1
          · simp [lKind] at hl1
          · rename_i h1 h2 h3
            simp only [h1, h2, h3, if_true] at *
            exact key _ hl1
      · split at hl1
        · simp [lKind] at hl1
        · rename_i h1 h2
          simp only [h1, h2] at *
          exact key _ hl1
    obtain ⟨out, ho, hsame⟩ := hl
    have ho2 : G.l st2.world = .ok out := by rw [hgl]; exact ho
    have hsame2 : sameText st2.lout out = true := by rw [hlo2]; exact hsame
    simp only [r2, buildAll, hskip, pFailed, ho2, isPre, finishLexer, hsame2]
    split <;> simp [hlo2]

/-- **changed_regenerated** (grammar): after any history, edit the grammar (any new text, also the same
text again, any time step ≥ 0), do anything except building, then build: the parser builder never answers
"not regenerated" — it regenerates or fails (or, under `lrpar_config` with an unparsable lexer, is not
reached). -/
theorem changed_regenerated (G : Gen) (g l : Nat) (s : Settings) (ops mid : List Op)
    (g' dt dt2 : Nat) (hmid : ∀ op ∈ mid, isBuild op = false) :
    let st := run G (init g l s) ops
    let st2 := tick (run G (step G st (.editGrammar g' dt)) mid) dt2
    (buildParser G st2).2 ≠ .ok false ∧ (buildAll G st2).2.1 ≠ .ok false := by
  intro st st2
  have hi : Inv G st := inv_run ops (inv_init G g l s)
  have hi1 : Inv G (step G st (.editGrammar g' dt)) := inv_step hi _
  have nb := run_nobuild G mid _ hi1 hmid
  have hnu : ∀ k, upToDate st2.pout st2.gmt k = false := by
    intro k
    simp only [st2, tick]
    rw [nb.1]
    cases hp : st.pout with
    | none => simp [step, hp, upToDate]
    | some f =>
      have := (hi.2 f hp).1
      have h3 := nb.2.2
      simp only [step, hp, upToDate] at h3 ⊢
      simp
      intro hlt
      omega
  have hbp : (buildParser G st2).2 ≠ .ok false := by
    simp only [buildParser]
    split
    · simp
    · simp [hnu]
    · simp [hnu]
  refine ⟨hbp, ?_⟩
  simp only [buildAll]
  split
  · split
    · simp
    · split
      · simp
      · exact hbp
  · split
    · simp
    · exact hbp

/-- **changed_regenerated** (settings): in any state, if the cache string of the current configuration
differs from the one embedded in the existing output, the parser builder does not skip: it regenerates
(writing the current text) or fails. That a change of a builder option changes the cache string is the
extractor's obligation (field list of `rebuild_cache`) and is exercised by the correspondence run. -/
theorem changed_regenerated_settings (G : Gen) (st : State) (f : PFile) (k : Nat)
    (hf : st.pout = some f) (hk : keyOf (G.p st.world) = some k) (hne : f.key ≠ k) :
    (buildParser G st).2 ≠ .ok false ∧
      (∀ out, G.p st.world = .ok k out → buildParser G st = (writeP st k out, .ok true)) := by
  have hnu : upToDate st.pout st.gmt k = false := by simp [hf, upToDate, hne]
  constructor
  · simp only [buildParser]
    split
    · simp
    · rename_i k' hp; simp [hp, keyOf] at hk; subst hk; simp [hnu]
    · rename_i k' out hp; simp [hp, keyOf] at hk; subst hk; simp [hnu]
  · intro out hp
    simp [buildParser, hp, hnu]

/-- **changed_regenerated** (lexer): in any state a successful lexer build leaves the text generated
from the current sources and settings, and reports "rewritten" exactly when that differs from what was
there (there is no cache on the lexer side: the text is always generated and compared). -/
theorem changed_regenerated_lexer (st : State) (out : Nat) :
    lContent (finishLexer (.ok out) st).1 = some out ∧
      ((finishLexer (.ok out) st).2 = .ok true ↔ lContent st ≠ some out) := by
  refine ⟨finishLexer_clean (.ok out) st, ?_⟩
  simp only [finishLexer, lContent]
  cases hl : st.lout with
  | none => simp [sameText]
  | some f =>
    simp only [sameText]
    by_cases h : f.content = out <;> simp [h]

/-- **failed_build_leaves_no_stale_file** (`_partial`: covers the output of every builder that the build
script *invoked*; see `full_statement_refuted` for what is missing). In every state — reachable or not —
a builder that reports an error (or panics) has removed its own output file. -/
theorem failed_build_leaves_no_stale_file_partial (G : Gen) (st : State) :
    let r := buildAll G st
    (r.2.1 = .err → r.1.pout = none) ∧ ((r.2.2 = .err ∨ r.2.2 = .panic) → r.1.lout = none) := by
  have pb : (buildParser G st).2 = .err → (buildParser G st).1.pout = none := by
    simp only [buildParser]
    split <;> try split
    all_goals simp [removeP]
  have pf : pFailed (buildParser G st).2 = true → (buildParser G st).1.pout = none := by
    intro h
    cases hb : (buildParser G st).2 <;> simp [hb, pFailed] at h
    exact pb hb
  have fl : ∀ r s0, ((finishLexer r s0).2 = .err ∨ (finishLexer r s0).2 = .panic) → (finishLexer r s0).1.lout = none := by
    intro r s0
    cases r <;> simp [finishLexer, removeL]
    split <;> simp
  have ff := finishLexer_frame (G.l st.world) (buildParser G st).1
  have fr := buildParser_frame G st
  simp only [buildAll]
  split
  · split
    · simp [removeL]
    · split
      · rename_i h; simp [removeL, pf h]
      · rename_i h
        refine ⟨fun he => ?_, fl _ _⟩
        have he' : (buildParser G st).2 = .err := he
        simp [he', pFailed] at h
  · split
    · rename_i h; simp [pf h]
    · rename_i h
      refine ⟨fun he => ?_, fl _ _⟩
      have he' : (buildParser G st).2 = .err := he
      simp [he', pFailed] at h

/-- over all histories, as the property is worded -/
theorem failed_build_leaves_no_stale_file_all_histories_partial (G : Gen) (g l : Nat) (s : Settings) (ops : List Op) (dt : Nat) :
    let r := buildAll G (tick (run G (init g l s) ops) dt)
    (r.2.1 = .err → r.1.pout = none) ∧ ((r.2.2 = .err ∨ r.2.2 = .panic) → r.1.lout = none) :=
  failed_build_leaves_no_stale_file_partial G _

/-- The full statement "after a failed build no output of an earlier build remains" does **not** hold of
the builders, because a builder that the failing build never invoked cannot remove its output: in the
two-builder pipeline a failing `CTParserBuilder::build` ends the build script before `CTLexerBuilder`
runs, so the lexer module generated from the earlier grammar stays. Concrete model history: build (ok),
make the grammar invalid, build (parser fails) — the lexer output of the first build is still there. -/
theorem full_statement_refuted :
    ∃ (G : Gen) (g l : Nat) (s : Settings) (ops : List Op),
      let r := buildAll G (run G (init g l s) ops)
      r.2.1 = .err ∧ r.1.lout ≠ none := by
  refine ⟨⟨fun w => if w.g = 1 then .ok 7 8 else .early, fun _ => .ok 9, fun _ => false⟩, 1, 1, [],
    [.build 1, .makeInvalid 2 1], ?_⟩
  decide

/-! ## tests: the hypotheses are satisfiable and the model distinguishes the cases -/

/-- a generator whose cache string is the settings' first entry and whose text depends on it only -/
def exG : Gen := ⟨fun w => if w.g = 0 then .early else .ok (w.s.headD 0) (10 * w.g + w.s.headD 0),
  fun w => if w.l = 0 then .pre else .ok (100 + w.l), fun _ => false⟩

example : KeyCovers exG := by
  intro w w' hg k h1 h2
  simp only [exG] at *
  rw [← hg] at h2 ⊢
  split at h1
  · simp [keyOf] at h1
  · simp only [keyOf, Option.some.injEq] at h1 h2
    simp_all

-- test: build, rebuild unchanged (not regenerated), toggle option (regenerated), break (removed)
example : (trace exG (init 1 1 [0]) [.build 1, .build 1, .changeOption 0 1 1, .build 1, .makeInvalid 0 1, .build 1]).map
    (fun r => (r.2.1, r.2.2, pContent r.1, lContent r.1)) =
    [(.ok true, .ok true, some 10, some 101), (.ok false, .ok false, some 10, some 101),
     (.ok true, .ok false, some 11, some 101), (.err, .notInvoked, none, some 101)] := by decide

end GrmVerif.C18
