import GrmVerif.Lemmas.Total
import GrmVerif.Lemmas.Analyses2
import GrmVerif.Lemmas.Recog
import GrmVerif.Lemmas.FollowsImpl
import GrmVerif.Lemmas.MaxCostsUB
import GrmVerif.Lemmas.MinSentenceTerm
import GrmVerif.Lemmas.MinSentencesTerm
import GrmVerif.Lemmas.MinSentencesTrees
/-!
# C17 — grammar analyses (FIRST, FOLLOW, nullable, reachability, costs) are exact

The functions of `Model/AnalysesRef.lean`, `Model/CostsRef.lean`, `Model/Recog.lean` are the
specification-side (reference) computations the driver evaluates on every dumped grammar; the
theorems below say that whenever they return a result it is *exactly* the textbook notion
(`Lemmas/Analyses.lean`: `NullableR`, `FirstP`, `FollowP`, `Reach`; `Lemmas/Costs.lean`: `Derives`).
The implementation's answers are compared with them for equality on every run.
-/
namespace GrmVerif.C17
open GrmVerif Ref Spec

/-- **nullable / FIRST / FOLLOW exact.** -/
theorem analyses_exact (G : Grammar) (hwf : G.wf = true) (A : Analyses) (h : analyses G = some A) :
    (∀ r, r ∈ A.nullable ↔ NullableR G r) ∧
    (∀ r t, (r, t) ∈ A.first ↔ FirstP G r t) ∧
    (∀ r t, (r, t) ∈ A.follow ↔ FollowP G r t) := by
  unfold analyses at h
  split at h
  · cases h
  · next N hn =>
    split at h
    · cases h
    · next F hf =>
      split at h
      · cases h
      · next W hw =>
        simp only [Option.some.injEq] at h
        subst h
        have h1 := nullables_exact G hwf N hn
        have h1' : ∀ r, (fun x => N.contains x) r = true ↔ NullableR G r := by
          intro r; simpa using h1 r
        have h2 := firsts_exact G hwf _ h1' F hf
        have h2' : ∀ r t, (fun x => F.contains x) (r, t) = true ↔ FirstP G r t := by
          intro r t; simpa using h2 r t
        exact ⟨h1, h2, follows_exact G hwf _ _ h1' h2' W hw⟩

/-- **path query exact**: the reference reachable set from `A` is `Reach G A` (one or more
production steps; a rule reaches itself only through a cycle). -/
theorem has_path_spec (G : Grammar) (hwf : G.wf = true) (A : Nat) (R : List Nat)
    (h : reach G A = some R) : ∀ B, B ∈ R ↔ Reach G A B :=
  reach_exact G hwf A R h

/-- **minimal costs exact**: `none` means no token string is derivable; `some v` is the cost of a
derivable string and no derivable string is cheaper. For every token-cost function. -/
theorem min_cost_exact (G : Grammar) (hwf : G.wf = true) (tc : Nat → Nat) (c : List (Option Nat))
    (h : minCosts G tc = some c) (r : Nat) (hr : r < G.nrules) :
    (look c r = none → ¬ ∃ w, Derives G (.rule r) w) ∧
    (∀ v, look c r = some v →
      (∃ w, Derives G (.rule r) w ∧ cost tc w = v) ∧ ∀ w, Derives G (.rule r) w → v ≤ cost tc w) := by
  obtain ⟨hreal, hfix⟩ := minCostsFrom_realised _ _ c (realised_init G tc G.nrules) h
  have hfix' : ∀ q, q < G.nrules → look c q = ruleCost G tc (look c) q := by
    intro q hq
    have := look_stepCosts G tc c q
    rw [hfix] at this
    simpa [hq] using this
  have hok : G.symOk (.rule r) = true := by simpa [Grammar.symOk] using hr
  constructor
  · rintro hn ⟨w, hw⟩
    obtain ⟨v, hv, _⟩ := derives_lower hfix' hwf hw hok
    simp only [symCost] at hv
    rw [hn] at hv; cases hv
  · intro v hv
    refine ⟨hreal r v hv, ?_⟩
    intro w hw
    obtain ⟨v', hv', hle⟩ := derives_lower hfix' hwf hw hok
    simp only [symCost] at hv'
    rw [hv] at hv'
    cases hv'; exact hle

/-- **maximal cost, upper half**: a bound table that passes the certificate check bounds every
derivable string of every rule it claims bounded. (Used with the implementation's own answers as
the table: each `Some v` it reports is then a proven upper bound.) -/
theorem max_cost_upper_bound (G : Grammar) (tc : Nat → Nat) (prodv : Nat → Bool) (ub : Nat → Option Nat)
    (hcert : upperBoundOk G tc prodv ub = true)
    (hprod : ∀ q, prodv q = false → ¬ ∃ w, Derives G (.rule q) w)
    (r b : Nat) (hb : ub r = some b) (w : List Nat) (hw : Derives G (.rule r) w) : cost tc w ≤ b :=
  derives_upper hcert hprod hw b (by simpa [symCost] using hb)

/-- **derivability check sound**: what the bounded recogniser accepts is derivable (used for the
generated minimal sentences and for the maximal-cost witnesses). -/
theorem recog_sound (G : Grammar) (allow : Nat → Bool) (fuel : Nat) (s : Sym) (w : List Nat)
    (h : recogSym G allow fuel s w = true) : Derives G s w :=
  recogSym_sound G allow fuel s w h

/-! The full statement for maximal costs — "the reported value is the exact maximum, `None` exactly
when the costs of derivable strings are unbounded" — is decided per grammar by the driver as:
upper half by `max_cost_upper_bound` on the implementation's table, lower half by a witness string
(from `maxIter`) accepted by `recog_sound`. The "unbounded" verdict itself is NOT proved in Lean
(it needs a pumping argument); see DESIGN.md C17, `max_cost_unbounded` is listed as not proved. -/

/-- **the reference analyses terminate**: nullable, FIRST and FOLLOW are each computed with
`|universe| + 1` rounds of fuel, and every non-final round adds a fact (`Fix.lfp_total`), so the
references used as oracle here (and as lookahead oracle by C01/C02/C04/C16) never answer "fuel
exhausted", for any grammar. -/
theorem reference_analyses_total (G : Grammar) : ∃ An, analyses G = some An := Total.analyses_total G

/-- likewise the reference rule reachability -/
theorem reference_reach_total (G : Grammar) (A : Nat) : ∃ R, reach G A = some R := Total.reach_total G A

/-! ### the Rust algorithms themselves

`Model/FirstsFollowsImpl.lean` transcribes the loops of `YaccFirsts::new` (firsts.rs) and
`YaccFollows::new` (follows.rs): rules and productions in index order, the token loop of every row
union, the epsilon bits, the early `break`s, the right-to-left pass over a production with its local
`epsilon`, the `changed` flag; the outer `loop` takes fuel and an out-of-range symbol index is a panic.
The theorems below are about these models (the driver prints their answers next to the real code's on
every generated grammar, line `Mf`). -/

/-- **`YaccFirsts::new` is exact and terminates.** For every well-formed grammar the model of the
constructor neither panics nor needs more than `nrules·(ntoks+1)+1` rounds of its outer loop (every
round but the last sets a bit that was clear) — with that or any larger fuel it returns the same table
`fst` — and in `fst` the bit of rule `r` and token `t` is set exactly when `t` can begin a string
derived from `r` (`FirstP`), the epsilon bit of `r` exactly when `r` derives the empty string
(`NullableR`). -/
theorem firsts_impl_exact (G : Grammar) (hwf : G.wf = true) :
    ∃ fst : Impl.Firsts,
      (∀ fuel, G.nrules * (G.ntoks + 1) + 1 ≤ fuel → Impl.firstsNew G fuel = .done fst) ∧
      (∀ r t, fst.isSet r t = true ↔ FirstP G r t) ∧
      (∀ r, fst.isEpsilonSet r = true ↔ NullableR G r) := by
  obtain ⟨fst, h1, hx⟩ := Impl.firstsNew_exact G hwf
  exact ⟨fst, h1, hx.first, hx.eps⟩

/-- **`YaccFollows::new` is exact and terminates.** For every well-formed grammar, run on the table
`fst` that (the model of) `YaccFirsts::new` returns, the model of the constructor neither panics nor
needs more than `nrules·ntoks+1` rounds, returns the same table `W` for every larger fuel, and the
bit of rule `A` and token `t` (`G.eof` = end of input) is set in `W` exactly when `t` can follow `A`
in a sentential form (`FollowP`). -/
theorem follows_impl_exact (G : Grammar) (hwf : G.wf = true) :
    ∃ (fst : Impl.Firsts) (W : List (List Bool)),
      (∀ fuel, G.nrules * (G.ntoks + 1) + 1 ≤ fuel → Impl.firstsNew G fuel = .done fst) ∧
      (∀ fuel, G.nrules * G.ntoks + 1 ≤ fuel → Impl.followsNew G fst fuel = .done W) ∧
      (∀ A t, Impl.mget W A t = true ↔ FollowP G A t) := by
  obtain ⟨fst, h1, hx⟩ := Impl.firstsNew_exact G hwf
  obtain ⟨W, h2, h3⟩ := Impl.followsNew_exact G hwf fst hx
  exact ⟨fst, W, h1, h2, h3⟩

/-- equivalently: the models of the two constructors compute exactly the verified reference analyses
(the `S` line of the driver), bit for bit. -/
theorem impl_equals_reference (G : Grammar) (hwf : G.wf = true) :
    ∃ (fst : Impl.Firsts) (W : List (List Bool)) (A : Analyses),
      Impl.firstsNew G (Impl.firstsFuel G) = .done fst ∧
      Impl.followsNew G fst (Impl.followsFuel G) = .done W ∧
      analyses G = some A ∧
      (∀ r, fst.isEpsilonSet r = A.nullable.contains r) ∧
      (∀ r t, fst.isSet r t = A.first.contains (r, t)) ∧
      (∀ r t, Impl.mget W r t = A.follow.contains (r, t)) := by
  obtain ⟨fst, W, h1, h2, h3⟩ := follows_impl_exact G hwf
  obtain ⟨_, h1', hF, hE⟩ := firsts_impl_exact G hwf
  have e := (h1' _ (Nat.le_refl _)).symm.trans (h1 _ (Nat.le_refl _))
  simp only [Impl.Outcome.done.injEq] at e
  subst e
  obtain ⟨A, hA⟩ := Total.analyses_total G
  obtain ⟨a1, a2, a3⟩ := analyses_exact G hwf A hA
  refine ⟨_, W, A, h1 _ (Nat.le_refl _), h2 _ (Nat.le_refl _), hA, ?_, ?_, ?_⟩
  · intro r
    rw [Bool.eq_iff_iff, hE r, ← a1 r]; simp
  · intro r t
    rw [Bool.eq_iff_iff, hF r t, ← a2 r t]; simp
  · intro r t
    rw [Bool.eq_iff_iff, h3 r t, ← a3 r t]; simp

/-! ### `has_path`, `rule_min_costs`, `rule_max_costs`, `min_sentence` themselves

`Model/CostsImpl.lean` transcribes the four functions of grammar.rs: the work-list sweeps of `has_path`
with its `seen`/`todo` vectors and the early `return true`; the rounds of `rule_min_costs` (per rule the
cheapest production all of whose rules are done, `break` at the first rule that is not, `checked_add` with
its `expect`, the two update loops, the final `all done` test); `rule_max_costs` (the `has_path(r, r)` marking
loop, the sweeps with `hs_cmplt`/`hs_noncmplt`, `break 'a` at a rule of cost `u16::MAX`, the two panics, the
three `debug_assert!`s — checked when `dbg` is set); `min_sentence` (the closure `cheapest_prod` with its
`saturating_add`, the explicit stack of `(pidx, sym_idx)` frames). Every unbounded loop takes fuel; a panic
is the outcome `panic`. The driver prints what these models compute next to the real code's answers on every
generated grammar (line `Mc` against the harness's `Ic`). -/

/-- **`has_path` is exact and terminates.** For every well-formed grammar, every rule `A` of it and every
`T`, the model of `has_path(A, T)` does not panic, needs at most `nrules + 1` sweeps of its outer loop
(every sweep but the last moves a rule into `seen`) — with that or any larger fuel it returns the same
`b` — and `b` is true exactly when `T` is reachable from `A` through one or more production steps
(`Reach`, the relation `has_path_spec` is about); equivalently `b` is the answer of the verified reference
`reach`. (`A < nrules` says that `from` is a rule index of this grammar; for any other value
`todo[from] = true` is out of bounds: `has_path_impl_out_of_range`.) -/
theorem has_path_impl_exact (G : Grammar) (hwf : G.wf = true) (A T : Nat) (hA : A < G.nrules) :
    ∃ b, (∀ fuel, G.nrules + 1 ≤ fuel → Impl.hasPath G A T fuel = .done b) ∧
      (b = true ↔ Reach G A T) ∧
      (reach G A).map (fun R => R.contains T) = some b := by
  obtain ⟨b, h1, h2⟩ := Impl.hasPath_exact G hwf A T hA
  refine ⟨b, h1, h2, ?_⟩
  obtain ⟨R, hR⟩ := Total.reach_total G A
  have h3 := has_path_spec G hwf A R hR T
  rw [hR]
  simp only [Option.map_some, Option.some.injEq]
  cases b with
  | true => simpa using h3.mpr (h2.mp rfl)
  | false =>
    cases hc : R.contains T with
    | false => rfl
    | true =>
      have : T ∈ R := by simpa using hc
      have := h2.mpr (h3.mp this)
      cases this

/-- a `from` that is not a rule index makes `has_path` panic (index out of bounds) -/
theorem has_path_impl_out_of_range (G : Grammar) (A T fuel : Nat) (hA : ¬ A < G.nrules) :
    Impl.hasPath G A T fuel = .panic := by
  simp [Impl.hasPath, hA]

/-- **the reference cost iteration converges** (the gap left by `reference_analyses_total`): for every
well-formed grammar and every token-cost function the Bellman–Ford iteration `minCosts`, which is given
`nrules + 2` rounds, reaches its fixed point — it never answers "fuel exhausted". (Proof: Knuth's
generalisation of Dijkstra's algorithm, `Spec.dijkstra`, fixes at least one more rule per round, and by
induction the `k`-th Bellman–Ford table contains the `k`-th Dijkstra table.) -/
theorem reference_min_costs_total (G : Grammar) (hwf : G.wf = true) (tc : Nat → Nat) :
    ∃ c, minCosts G tc = some c := by
  obtain ⟨m, _, hm, _⟩ := minCosts_total G hwf tc
  exact ⟨m, hm⟩

/-- **`rule_min_costs` is exact and terminates.** For every well-formed grammar and every vector of token
costs (one per token; zero costs allowed) let `c` be the reference table of minimal costs (`min_cost_exact`:
`none` = the rule derives no sentence, `some v` = the least cost of a sentence it derives; it exists by
`reference_min_costs_total`). If no sum the loop forms can overflow — `sumsFit`: in every production the
costs of the symbols before the first rule deriving nothing add up to at most `u16::MAX`, rules counted
with their minimal cost — then the model of `rule_min_costs` does not panic, needs at most `nrules + 1`
rounds (every round but the last completes a rule), returns the same vector for every larger fuel, and the
vector is `c` with `u16::MAX` for `none`. Without `sumsFit` the real code can panic although every minimal
cost fits (finding C17-mincost-overflow-dearer-production); `sumsFit` is decidable and evaluated by the
driver's model run implicitly (the model panics where the code does). -/
theorem min_costs_impl_exact (G : Grammar) (hwf : G.wf = true) (tc : List Nat) (htc : tc.length = G.ntoks) :
    ∃ c, minCosts G (Impl.tcF tc) = some c ∧
      (Impl.sumsFit G (Impl.tcF tc) c = true →
        ∀ fuel, G.nrules + 1 ≤ fuel → Impl.ruleMinCosts G tc fuel = .done (Impl.concr c)) := by
  obtain ⟨m, hm, _, h⟩ := Impl.ruleMinCosts_exact G hwf tc htc
  exact ⟨m, hm, h⟩

/-- the same, spelled out: under `sumsFit` the vector `v` the model of `rule_min_costs` returns has, for
every rule `r`, either `v[r] = u16::MAX` and `r` derives no sentence, or `v[r]` is the cost of a sentence `r`
derives and no sentence `r` derives is cheaper. -/
theorem min_costs_impl_meaning (G : Grammar) (hwf : G.wf = true) (tc : List Nat) (htc : tc.length = G.ntoks)
    (c : List (Option Nat)) (hc : minCosts G (Impl.tcF tc) = some c)
    (hfit : Impl.sumsFit G (Impl.tcF tc) c = true) :
    ∃ v, (∀ fuel, G.nrules + 1 ≤ fuel → Impl.ruleMinCosts G tc fuel = .done v) ∧ v.length = G.nrules ∧
      ∀ r, r < G.nrules →
        (Impl.cget v r = Impl.U16MAX ∧ look c r = none ∧ ¬ ∃ w, Derives G (.rule r) w) ∨
        (look c r = some (Impl.cget v r) ∧
          (∃ w, Derives G (.rule r) w ∧ cost (Impl.tcF tc) w = Impl.cget v r) ∧
          ∀ w, Derives G (.rule r) w → Impl.cget v r ≤ cost (Impl.tcF tc) w) := by
  obtain ⟨m, hm, hmt, h⟩ := Impl.ruleMinCosts_exact G hwf tc htc
  rw [hc] at hm
  simp only [Option.some.injEq] at hm
  subst hm
  refine ⟨Impl.concr c, h hfit, by simp [Impl.concr, hmt.len], ?_⟩
  intro r hr
  have hex := min_cost_exact G hwf (Impl.tcF tc) c hc r hr
  have hcg := Impl.cget_concr c r (by rw [hmt.len]; exact hr)
  cases hl : look c r with
  | none =>
    left
    rw [hl] at hcg
    exact ⟨hcg, rfl, hex.1 hl⟩
  | some x =>
    right
    rw [hl] at hcg
    simp only [Option.getD_some] at hcg
    rw [hcg]
    exact ⟨rfl, hex.2 x hl⟩

/-- **what `rule_max_costs` computes.** For every well-formed grammar in which every rule has a production
(true of every `YaccGrammar`; without it the real loop never ends), every vector of token costs, in a
release or a debug build (`dbg`): if the sums fit — `maxFits`, decidable: with rules counted at `maxUB` (the
largest cost of a sentential form a rule derives without expanding a recursive rule; for a rule that
reaches no recursive rule this is its maximal sentence cost), in every production of a rule that is not
recursive the costs of the symbols before the first recursive rule add up to less than `u16::MAX` — then
the model of `rule_max_costs` (as repaired by 290e7fe) does not panic — none of its three `debug_assert!`s
fails either —, needs at most `nrules + 1` sweeps, returns the same vector `v` for every larger fuel, and
for every rule `r`:
* `v[r] = u16::MAX` (`max_sentence_cost` = `None`) exactly when `r` is recursive or reaches a recursive rule
  (`Inf`) — this is the documented over-approximation of finding C17-maxcost-recursive: such a rule need
  not derive arbitrarily expensive sentences (`A: A | 'a'`);
* otherwise `v[r]` is the exact maximum: the cost of a sentence `r` derives, and no sentence `r` derives
  costs more.
So a finite answer is always the true maximum, and a rule whose sentences have unbounded cost is always
answered `None` (`max_costs_impl_unbounded_none`). When `maxFits` fails for a production of a rule that
reaches no recursive rule the real code panics by design ("Overflow occurred…" / "Unable to represent
cost…"). -/
theorem max_costs_impl_spec (G : Grammar) (hwf : G.wf = true) (hprods : Impl.everyRuleHasProd G = true)
    (tc : List Nat) (htc : tc.length = G.ntoks) (hfit : Impl.maxFits G (Impl.tcF tc) = true) (dbg : Bool) :
    ∃ v : List Nat, (∀ fuel, G.nrules + 1 ≤ fuel → Impl.ruleMaxCosts G tc dbg fuel = .done v) ∧
      v.length = G.nrules ∧
      ∀ r, r < G.nrules →
        (Impl.cget v r = Impl.U16MAX ↔ Impl.Inf G r) ∧
        (Impl.cget v r ≠ Impl.U16MAX →
          (∃ w, Derives G (.rule r) w ∧ cost (Impl.tcF tc) w = Impl.cget v r) ∧
          ∀ w, Derives G (.rule r) w → cost (Impl.tcF tc) w ≤ Impl.cget v r) :=
  Impl.ruleMaxCosts_spec G hwf ((Impl.everyRuleHasProd_iff G).mp hprods) tc htc _
    (Impl.maxCert_maxUB G hwf (Impl.tcF tc) hfit) dbg

/-- the same with any bound table `U` that passes the certificate `maxCert` in place of `maxUB` (a table
with smaller entries for the rules that reach a recursive rule can pass where `maxFits` fails) -/
theorem max_costs_impl_spec_cert (G : Grammar) (hwf : G.wf = true) (hprods : Impl.everyRuleHasProd G = true)
    (tc : List Nat) (htc : tc.length = G.ntoks) (U : Nat → Nat)
    (hcert : Impl.maxCert G (Impl.tcF tc) U = true) (dbg : Bool) :
    ∃ v : List Nat, (∀ fuel, G.nrules + 1 ≤ fuel → Impl.ruleMaxCosts G tc dbg fuel = .done v) ∧
      v.length = G.nrules ∧
      ∀ r, r < G.nrules →
        (Impl.cget v r = Impl.U16MAX ↔ Impl.Inf G r) ∧
        (Impl.cget v r ≠ Impl.U16MAX →
          (∃ w, Derives G (.rule r) w ∧ cost (Impl.tcF tc) w = Impl.cget v r) ∧
          ∀ w, Derives G (.rule r) w → cost (Impl.tcF tc) w ≤ Impl.cget v r) :=
  Impl.ruleMaxCosts_spec G hwf ((Impl.everyRuleHasProd_iff G).mp hprods) tc htc U hcert dbg

/-- under the hypotheses of `max_costs_impl_spec`: a rule that derives sentences of unbounded cost is
answered `u16::MAX` (`None`) -/
theorem max_costs_impl_unbounded_none (G : Grammar) (hwf : G.wf = true)
    (hprods : Impl.everyRuleHasProd G = true) (tc : List Nat) (htc : tc.length = G.ntoks)
    (hfit : Impl.maxFits G (Impl.tcF tc) = true) (dbg : Bool) (v : List Nat)
    (hv : Impl.ruleMaxCosts G tc dbg (Impl.maxCostsFuel G) = .done v) (r : Nat) (hr : r < G.nrules)
    (hunb : ∀ b, ∃ w, Derives G (.rule r) w ∧ b < cost (Impl.tcF tc) w) :
    Impl.cget v r = Impl.U16MAX := by
  obtain ⟨v', h1, _, h3⟩ := max_costs_impl_spec G hwf hprods tc htc hfit dbg
  have := h1 (Impl.maxCostsFuel G) (Nat.le_refl _)
  rw [hv] at this
  simp only [Impl.Outcome.done.injEq] at this
  subst this
  apply Classical.byContradiction
  intro hne
  obtain ⟨w, hw, hlt⟩ := hunb (Impl.cget v r)
  have := ((h3 r hr).2 hne).2 w hw
  omega

/-- **`min_sentence` is sound.** For every well-formed grammar and vector of token costs, with `c` the
reference table of minimal costs: if no sum of `rule_min_costs` overflows (`sumsFit`, as in
`min_costs_impl_exact`), then for every rule `r` whose minimal cost `x` is below `u16::MAX` (the rules for
which a minimal sentence exists and `min_sentence_cost` does not answer `u16::MAX`) the model of
`min_sentence(r)` never panics, and whenever it returns — the `while` loop ends within the given fuel —
the sentence `w` it returns is derived by `r` and costs exactly `x`, i.e. `min_sentence_cost(r)`. (It does
not always return: `min_sentence_impl_terminates_iff` says exactly when.) -/
theorem min_sentence_impl_sound (G : Grammar) (hwf : G.wf = true) (tc : List Nat) (htc : tc.length = G.ntoks)
    (c : List (Option Nat)) (hc : minCosts G (Impl.tcF tc) = some c)
    (hfit : Impl.sumsFit G (Impl.tcF tc) c = true) (r x : Nat) (hr : r < G.nrules)
    (hx : look c r = some x) (hlt : x < Impl.U16MAX) (fuel : Nat) :
    Impl.minSentence G tc r fuel ≠ .panic ∧
    ∀ w, Impl.minSentence G tc r fuel = .done w → Derives G (.rule r) w ∧ cost (Impl.tcF tc) w = x := by
  obtain ⟨m, hm, hmt, h⟩ := Impl.ruleMinCosts_exact G hwf tc htc
  rw [hc] at hm
  simp only [Option.some.injEq] at hm
  subst hm
  have hmc := h hfit (Impl.minCostsFuel G) (Nat.le_refl _)
  have hs := Impl.minSentenceWith_sound G hwf tc c htc hmt hr hx hlt fuel
  unfold Impl.minSentence
  rw [hmc]
  simp only []
  cases hres : Impl.minSentenceWith G tc (some (Impl.concr c)) r fuel with
  | panic => rw [hres] at hs; exact hs.elim
  | fuelOut => exact ⟨(by intro h; cases h), (by intro w h; cases h)⟩
  | done w =>
    rw [hres] at hs
    refine ⟨(by intro h; cases h), ?_⟩
    intro w' hw'
    cases hw'
    exact hs

/-- **on which grammars `min_sentence` returns** (the exact extent of finding C17-minsent-tight-cycle).
Under the hypotheses of `min_sentence_impl_sound`, let `tightInf r` be the decidable predicate "in the
graph that joins every rule to the rules of the production `cheapest_prod` returns for it, `r` is or reaches
a rule that reaches itself" (`Impl.tightInf`: the verified reference reachability on the grammar `tightG`
that keeps exactly these productions). Then
* if `tightInf r` is false the model of `min_sentence(r)` returns, within `minSentenceFuel` iterations of
  its `while` loop (a bound that only depends on the number of rules and the longest production) and with
  the same sentence for every larger fuel — a sentence derived by `r` at cost `min_sentence_cost(r)` by
  `min_sentence_impl_sound`;
* if `tightInf r` is true the model runs out of every fuel: the real `min_sentence(r)` does not return
  (the stack of frames need not even grow: `A: A | 'a'`). -/
theorem min_sentence_impl_terminates_iff (G : Grammar) (hwf : G.wf = true) (tc : List Nat)
    (htc : tc.length = G.ntoks) (c : List (Option Nat)) (hc : minCosts G (Impl.tcF tc) = some c)
    (hfit : Impl.sumsFit G (Impl.tcF tc) c = true) (r x : Nat) (hr : r < G.nrules)
    (hx : look c r = some x) (hlt : x < Impl.U16MAX) :
    (Impl.tightInf G tc (some (Impl.concr c)) r = false →
      ∃ w, ∀ fuel, Impl.minSentenceFuel G ≤ fuel → Impl.minSentence G tc r fuel = .done w) ∧
    (Impl.tightInf G tc (some (Impl.concr c)) r = true →
      ∀ fuel, Impl.minSentence G tc r fuel = .fuelOut) := by
  obtain ⟨m, hm, hmt, h⟩ := Impl.ruleMinCosts_exact G hwf tc htc
  rw [hc] at hm
  simp only [Option.some.injEq] at hm
  subst hm
  have hmc := h hfit (Impl.minCostsFuel G) (Nat.le_refl _)
  have hunf : ∀ fuel, Impl.minSentence G tc r fuel = Impl.minSentenceWith G tc (some (Impl.concr c)) r fuel := by
    intro fuel; unfold Impl.minSentence; rw [hmc]
  constructor
  · intro hti
    have hni : ¬ Impl.Inf (Impl.tightG G tc (some (Impl.concr c))) r := by
      intro hinf
      rw [(Impl.tightInf_iff G tc _ hwf r).mpr hinf] at hti
      cases hti
    obtain ⟨w, hw⟩ := Impl.minSentenceWith_terminates G hwf tc c htc hmt hr hx hlt hni
    exact ⟨w, fun fuel hf => by rw [hunf]; exact hw fuel hf⟩
  · intro hti fuel
    have hinf := (Impl.tightInf_iff G tc _ hwf r).mp hti
    have hs := Impl.minSentenceWith_sound G hwf tc c htc hmt hr hx hlt fuel
    rw [hunf]
    cases hres : Impl.minSentenceWith G tc (some (Impl.concr c)) r fuel with
    | panic => rw [hres] at hs; exact hs.elim
    | fuelOut => rfl
    | done w => exact absurd hres (Impl.minSentenceWith_diverges G tc _ hinf fuel w)

/-! ### `min_sentences` (plural) itself

`Model/MinSentencesImpl.lean` transcribes `SentenceGenerator::min_sentences`: the closure `cheapest_prods`
(the saturating sums of `cheapest_prod`, `<=` with `clear()` on `<`, so ALL productions of lowest cost in
production order), for every such production the empty-production shortcut, the vector `ms` with one vector
of sentences per symbol (a recursive call per rule symbol, `[[t]]` per token) and the odometer `'b: loop`
over `todo` (the LAST column advances first; a column that spills is reset and the one before it advances;
the loop ends when the first column spills; `cur` is the concatenation of `ms[i][todo[i]]` for `i = 0 …`;
index errors are panics). The recursion takes its DEPTH as fuel; the odometer loop is given the number of
combinations plus one as fuel and `Lemmas/Odometer.lean` proves that it pushes exactly `Impl.combos ms` —
the concatenations of one sentence per column, first column varying slowest — without running out. -/

/-- **`min_sentences` is sound.** Under the hypotheses of `min_sentence_impl_sound` — a well-formed grammar,
a vector of token costs, `c` the reference table of minimal costs, no sum of `rule_min_costs` overflowing
(`sumsFit`), a rule `r` whose minimal cost `x` is below `u16::MAX` — the model of `min_sentences(r)` never
panics (in particular the odometer never indexes out of range), whatever recursion depth `fuel` it is
allowed; and whenever it returns a vector `L`, `L` is not empty and EVERY sentence in `L` is derived by `r`
and costs exactly `x` = `min_sentence_cost(r)`. (It does not always return:
`min_sentences_impl_terminates_iff`.) -/
theorem min_sentences_impl_sound (G : Grammar) (hwf : G.wf = true) (tc : List Nat) (htc : tc.length = G.ntoks)
    (c : List (Option Nat)) (hc : minCosts G (Impl.tcF tc) = some c)
    (hfit : Impl.sumsFit G (Impl.tcF tc) c = true) (r x : Nat) (hr : r < G.nrules)
    (hx : look c r = some x) (hlt : x < Impl.U16MAX) (fuel : Nat) :
    Impl.minSentences G tc r fuel ≠ .panic ∧
    ∀ L, Impl.minSentences G tc r fuel = .done L →
      L ≠ [] ∧ ∀ w ∈ L, Derives G (.rule r) w ∧ cost (Impl.tcF tc) w = x := by
  obtain ⟨hmt, hunf⟩ := Impl.minSentences_unfold G hwf tc htc c hc hfit
  have hs := Impl.minSentencesWith_sound G hwf tc c htc hmt fuel r x hr hx hlt
  rw [hunf]
  cases hres : Impl.minSentencesWith G tc (some (Impl.concr c)) fuel r with
  | panic => rw [hres] at hs; exact hs.elim
  | fuelOut => exact ⟨(by intro h; cases h), (by intro L h; cases h)⟩
  | done L =>
    rw [hres] at hs
    refine ⟨(by intro h; cases h), ?_⟩
    intro L' hL'
    cases hL'
    exact hs

/-- **`min_sentences` is complete.** Under the same hypotheses, whenever the model of `min_sentences(r)`
returns a vector `L`, EVERY sentence that `r` derives at cost `x` = `min_sentence_cost(r)` is in `L`: the
set enumerated is the set of ALL minimal-cost sentences of the rule, nothing less. (By
`min_cost_sentences_are_cheapest_derivations` these are exactly the sentences that have a derivation using
one of the productions `cheapest_prods` returns at every step — the two readings of "minimal sentences"
coincide.) `L` can contain a sentence more than once: `min_sentences_impl_order` and
`min_sentences_impl_trees` say exactly what `L` is. -/
theorem min_sentences_impl_complete (G : Grammar) (hwf : G.wf = true) (tc : List Nat)
    (htc : tc.length = G.ntoks) (c : List (Option Nat)) (hc : minCosts G (Impl.tcF tc) = some c)
    (hfit : Impl.sumsFit G (Impl.tcF tc) c = true) (r x : Nat) (hr : r < G.nrules)
    (hx : look c r = some x) (hlt : x < Impl.U16MAX) (fuel : Nat) (L : List (List Nat))
    (hL : Impl.minSentences G tc r fuel = .done L) :
    ∀ w, Derives G (.rule r) w → cost (Impl.tcF tc) w = x → w ∈ L := by
  obtain ⟨hmt, hunf⟩ := Impl.minSentences_unfold G hwf tc htc c hc hfit
  rw [hunf] at hL
  exact Impl.minSentencesWith_complete G hwf tc c htc hmt fuel r x hr hx hlt L hL

/-- **minimal-cost sentences = sentences derived through cheapest productions only.** For every well-formed
grammar, token-cost function and the reference table `c` of minimal costs: a rule `r` derives `w` at its
minimal cost (`look c r = some (cost w)`) if and only if `w` has a derivation from `r` in which every rule
is expanded by a production whose cost — every rule counted at its minimal cost — equals the minimal cost
of its rule (`Impl.TightDerives`; for rules of minimal cost below `u16::MAX` these are the productions
`cheapest_prods` returns, `Impl.cheapestProds_spec`). So "all sentences of minimal cost" and "all sentences
derivable through cheapest productions at every step" are the same set, and a derivation of a minimal-cost
sentence can never use a production that is not a cheapest one. -/
theorem min_cost_sentences_are_cheapest_derivations (G : Grammar) (hwf : G.wf = true) (tc : Nat → Nat)
    (c : List (Option Nat)) (hc : minCosts G tc = some c) (r : Nat) (hr : r < G.nrules) (w : List Nat) :
    (Derives G (.rule r) w ∧ look c r = some (cost tc w)) ↔ Impl.TightDerives G tc (look c) (.rule r) w := by
  obtain ⟨_, hfix⟩ := minCostsFrom_realised _ _ c (realised_init G tc G.nrules) hc
  have hfix' : ∀ q, q < G.nrules → look c q = ruleCost G tc (look c) q := by
    intro q hq
    have := look_stepCosts G tc c q
    rw [hfix] at this
    simpa [hq] using this
  constructor
  · rintro ⟨hd, hcw⟩
    exact Impl.tightDerives_of_min hfix' hwf hd (by simpa [Grammar.symOk] using hr) (by simpa [symCost] using hcw)
  · intro h
    have := Impl.tightDerives_sound h
    exact ⟨this.1, by simpa [symCost] using this.2⟩

/-- **what the vector is, in which order, and when it has duplicates.** Under the hypotheses of
`min_sentences_impl_sound`: if the model of `min_sentences(r)` returns `L` at recursion depth `fuel + 1`,
then the calls for the rules of the cheapest productions returned at depth `fuel`, and `L` is the
concatenation, over the cheapest productions `p` of `r` in production order (`Impl.cheapSet`: the
productions of `r` whose cost, rules at their minimal cost, is `x`), of the combinations `Impl.combos` of
the vectors of the symbols of `p` — `[[t]]` for a token, the returned vector for a rule (`Impl.gatherP`) —,
i.e. all concatenations of one sentence per symbol, the FIRST symbol's sentence varying slowest and the last
one's fastest (for an empty production: the empty sentence once). So `L` has one entry per choice of a
cheapest production and of one entry per symbol, not one per sentence: `min_sentences_impl_trees` turns this
into the exact account of duplicates. -/
theorem min_sentences_impl_order (G : Grammar) (hwf : G.wf = true) (tc : List Nat)
    (htc : tc.length = G.ntoks) (c : List (Option Nat)) (hc : minCosts G (Impl.tcF tc) = some c)
    (hfit : Impl.sumsFit G (Impl.tcF tc) c = true) (r x : Nat) (hr : r < G.nrules)
    (hx : look c r = some x) (hlt : x < Impl.U16MAX) (fuel : Nat) (L : List (List Nat))
    (hL : Impl.minSentences G tc r (fuel + 1) = .done L) :
    (∀ p ∈ Impl.cheapSet G tc c r x, ∀ q, Sym.rule q ∈ G.rhs p →
      ∃ Lq, Impl.minSentences G tc q fuel = .done Lq) ∧
    L = (Impl.cheapSet G tc c r x).flatMap (fun p =>
      Impl.combos (Impl.gatherP (fun q => (Impl.minSentences G tc q fuel).val []) (G.rhs p))) := by
  obtain ⟨hmt, hunf⟩ := Impl.minSentences_unfold G hwf tc htc c hc hfit
  rw [hunf] at hL
  simp only [Impl.minSentencesWith, Impl.cheapestProds_spec G hwf tc c htc hmt hr hx hlt] at hL
  have hinv := Impl.iterO_mssProd_inv G _ _ _ _ hL
  have hdone := Impl.iterO_mssProd_done G (Impl.minSentencesWith G tc (some (Impl.concr c)) fuel)
    (Impl.cheapSet G tc c r x) []
    (fun p hp q hq => by
      obtain ⟨L', hL'⟩ := hinv p hp q hq
      obtain ⟨_, _, _, hall⟩ := Impl.cheap_rules G hwf tc c hp hlt
      obtain ⟨hq1, x', hx', hlt'⟩ := hall q hq
      have := Impl.minSentencesWith_sound G hwf tc c htc hmt fuel q x' hq1 hx' hlt'
      rw [hL'] at this
      exact ⟨L', hL', this.1⟩)
  rw [hL] at hdone
  simp only [Impl.Outcome.done.injEq, List.nil_append] at hdone
  constructor
  · intro p hp q hq
    rw [hunf]
    exact hinv p hp q hq
  · rw [hdone]
    simp only [hunf]
    rfl

/-- **the vector has one entry per derivation tree, not per sentence.** Under the hypotheses of
`min_sentences_impl_sound`, whenever the model of `min_sentences(r)` returns `L` there is a list `T` of
derivation trees (`Impl.DTree`: a token, or a production with one subtree per symbol) such that `T` has no
duplicates, `T` contains exactly the derivation trees of `r` all of whose nodes carry a cheapest production
of their rule (`Impl.TightTree`; by `min_cost_sentences_are_cheapest_derivations` these are exactly the
derivation trees of the minimal-cost sentences of `r`), and `L` is the list of the yields of the trees of `T`
in order. So a sentence occurs in `L` exactly as many times as it has such trees: the code does NOT guarantee
a vector without duplicates — `min_sentences_impl_nodup_iff`. -/
theorem min_sentences_impl_trees (G : Grammar) (hwf : G.wf = true) (tc : List Nat)
    (htc : tc.length = G.ntoks) (c : List (Option Nat)) (hc : minCosts G (Impl.tcF tc) = some c)
    (hfit : Impl.sumsFit G (Impl.tcF tc) c = true) (r x : Nat) (hr : r < G.nrules)
    (hx : look c r = some x) (hlt : x < Impl.U16MAX) (fuel : Nat) (L : List (List Nat))
    (hL : Impl.minSentences G tc r fuel = .done L) :
    ∃ T : List Impl.DTree, T.Nodup ∧
      (∀ t, t ∈ T ↔ Impl.TightTree G (Impl.tcF tc) (look c) t (.rule r)) ∧
      L = T.map Impl.DTree.yield := by
  obtain ⟨hmt, hunf⟩ := Impl.minSentences_unfold G hwf tc htc c hc hfit
  rw [hunf] at hL
  obtain ⟨h1, h2, h3⟩ := Impl.msw_trees G hwf tc c htc hmt fuel r x hr hx hlt L hL
  exact ⟨_, h2, h3, h1⟩

/-- **when the vector has duplicates.** Under the same hypotheses, the vector `L` the model of
`min_sentences(r)` returns is free of duplicates if and only if no two different derivation trees of `r` built
from cheapest productions have the same yield, i.e. if and only if the grammar is unambiguous on the
minimal-cost sentences of `r`. (`A: 'a' | 'a'` and `S: B | C; B: 'a'; C: 'a'` — example `exDup` below — give
the sentence `a` twice.) -/
theorem min_sentences_impl_nodup_iff (G : Grammar) (hwf : G.wf = true) (tc : List Nat)
    (htc : tc.length = G.ntoks) (c : List (Option Nat)) (hc : minCosts G (Impl.tcF tc) = some c)
    (hfit : Impl.sumsFit G (Impl.tcF tc) c = true) (r x : Nat) (hr : r < G.nrules)
    (hx : look c r = some x) (hlt : x < Impl.U16MAX) (fuel : Nat) (L : List (List Nat))
    (hL : Impl.minSentences G tc r fuel = .done L) :
    L.Nodup ↔ ∀ t t', Impl.TightTree G (Impl.tcF tc) (look c) t (.rule r) →
      Impl.TightTree G (Impl.tcF tc) (look c) t' (.rule r) → t.yield = t'.yield → t = t' := by
  obtain ⟨T, hn, hmem, rfl⟩ := min_sentences_impl_trees G hwf tc htc c hc hfit r x hr hx hlt fuel L hL
  rw [Impl.nodup_map_iff_injOn _ T hn]
  constructor
  · intro h t t' ht ht' e
    exact h t ((hmem t).mpr ht) t' ((hmem t').mpr ht') e
  · intro h a ha b hb e
    exact h a b ((hmem a).mp ha) ((hmem b).mp hb) e

/-- **on which grammars `min_sentences` returns** (the exact extent of finding C17-minsents-tight-cycle).
Under the hypotheses of `min_sentences_impl_sound`, let `tightInfAll r` be the decidable predicate "in the
graph that joins every rule to the rules of ALL the productions `cheapest_prods` returns for it (not only the
first one, as for `min_sentence`), `r` is or reaches a rule that reaches itself" (`Impl.tightInfAll`: the
verified reference reachability on the grammar `allTightG` that keeps exactly these productions). Then
* if `tightInfAll r` is false the recursion of the model of `min_sentences(r)` ends: it returns within the
  recursion depth `minSentencesFuel` = `nrules + 1`, with the same vector for every larger depth — a vector
  that is sound and complete by the two theorems above;
* if `tightInfAll r` is true the model exceeds EVERY recursion depth: the real `min_sentences(r)` recurses
  until the stack overflows (`A: A | 'a'`, and also `A: 'a' | A`, on which `min_sentence` returns). -/
theorem min_sentences_impl_terminates_iff (G : Grammar) (hwf : G.wf = true) (tc : List Nat)
    (htc : tc.length = G.ntoks) (c : List (Option Nat)) (hc : minCosts G (Impl.tcF tc) = some c)
    (hfit : Impl.sumsFit G (Impl.tcF tc) c = true) (r x : Nat) (hr : r < G.nrules)
    (hx : look c r = some x) (hlt : x < Impl.U16MAX) :
    (Impl.tightInfAll G tc (some (Impl.concr c)) r = false →
      ∃ L, ∀ fuel, Impl.minSentencesFuel G ≤ fuel → Impl.minSentences G tc r fuel = .done L) ∧
    (Impl.tightInfAll G tc (some (Impl.concr c)) r = true →
      ∀ fuel, Impl.minSentences G tc r fuel = .fuelOut) := by
  obtain ⟨hmt, hunf⟩ := Impl.minSentences_unfold G hwf tc htc c hc hfit
  constructor
  · intro hti
    have hni : ¬ Impl.Inf (Impl.allTightG G tc (some (Impl.concr c))) r := by
      intro hinf
      rw [(Impl.tightInfAll_iff G tc _ hwf r).mpr hinf] at hti
      cases hti
    obtain ⟨L, hLf⟩ := Impl.minSentencesWith_terminates G hwf tc c htc hmt hr hx hlt hni
    exact ⟨L, fun fuel hf => by rw [hunf]; exact hLf fuel hf⟩
  · intro hti fuel
    have hinf := (Impl.tightInfAll_iff G tc _ hwf r).mp hti
    have hs := Impl.minSentencesWith_sound G hwf tc c htc hmt fuel r x hr hx hlt
    rw [hunf]
    cases hres : Impl.minSentencesWith G tc (some (Impl.concr c)) fuel r with
    | panic => rw [hres] at hs; exact hs.elim
    | fuelOut => rfl
    | done L => exact absurd hres (Impl.minSentencesWith_diverges G tc _ hinf fuel L)

/-- **`min_sentence` picks one of `min_sentences`.** Under the same hypotheses, whenever the model of
`min_sentence(r)` returns a sentence `w` (its loop ends within `fuel₁` iterations) and the model of
`min_sentences(r)` returns a vector `L` (within recursion depth `fuel₂`), `w` is an element of `L`. -/
theorem min_sentence_in_min_sentences (G : Grammar) (hwf : G.wf = true) (tc : List Nat)
    (htc : tc.length = G.ntoks) (c : List (Option Nat)) (hc : minCosts G (Impl.tcF tc) = some c)
    (hfit : Impl.sumsFit G (Impl.tcF tc) c = true) (r x : Nat) (hr : r < G.nrules)
    (hx : look c r = some x) (hlt : x < Impl.U16MAX) (fuel₁ fuel₂ : Nat) (w : List Nat) (L : List (List Nat))
    (hw : Impl.minSentence G tc r fuel₁ = .done w) (hL : Impl.minSentences G tc r fuel₂ = .done L) :
    w ∈ L := by
  obtain ⟨hd, hcw⟩ := (min_sentence_impl_sound G hwf tc htc c hc hfit r x hr hx hlt fuel₁).2 w hw
  exact min_sentences_impl_complete G hwf tc htc c hc hfit r x hr hx hlt fuel₂ L hL w hd hcw

/-! ### non-vacuity (tests) -/

/-- `^: S; S: A B 'c'; A: 'a' | ; B: 'b' | ;` tokens a=0 b=1 c=2 eof=3; rules ^=0 S=1 A=2 B=3 -/
def exG : Grammar :=
  { ntoks := 4, nrules := 4, eof := 3, startProd := 5,
    prods := [(1, [.rule 2, .rule 3, .tok 2]), (2, [.tok 0]), (2, []), (3, [.tok 1]), (3, []), (0, [.rule 1])] }

example : exG.wf = true := by decide
example : (analyses exG).map (·.nullable) = some [2, 3] := by decide
example : ((analyses exG).map (fun a => a.follow.contains (2, 2))) = some true := by decide
example : minCosts exG (fun _ => 1) = some [some 1, some 1, some 0, some 0] := by decide
example : (match Impl.firstsNew exG (Impl.firstsFuel exG) with
    | .done f => some f.epsilons | _ => none) = some [false, false, true, true] := by decide

/-- `exG` with unit token costs: the hypotheses of the theorems about the cost loops hold -/
example : Impl.everyRuleHasProd exG = true := by decide
example : Impl.sumsFit exG (Impl.tcF [1, 1, 1, 1]) [some 1, some 1, some 0, some 0] = true := by decide
example : Impl.maxCert exG (Impl.tcF [1, 1, 1, 1]) (fun r => [3, 3, 1, 1].getD r 0) = true := by decide
example : Impl.maxFits exG (Impl.tcF [1, 1, 1, 1]) = true := by decide
example : (List.range 4).map (Impl.maxUB exG (Impl.tcF [1, 1, 1, 1])) = [3, 3, 1, 1] := by decide
example : Impl.ruleMinCosts exG [1, 1, 1, 1] (Impl.minCostsFuel exG) = .done [1, 1, 0, 0] := by decide
example : Impl.ruleMaxCosts exG [1, 1, 1, 1] true (Impl.maxCostsFuel exG) = .done [3, 3, 1, 1] := by decide
example : Impl.hasPath exG 0 3 (Impl.hasPathFuel exG) = .done true := by decide
example : Impl.hasPath exG 2 2 (Impl.hasPathFuel exG) = .done false := by decide
example : Impl.minSentence exG [1, 1, 1, 1] 0 50 = .done [2] := by decide

/-- `^: A; A: A | 'a'` (finding C17-maxcost-recursive): the model answers `u16::MAX` for both rules although
the maximum is 1 -/
def exRec : Grammar :=
  { ntoks := 2, nrules := 2, eof := 1, startProd := 0, prods := [(0, [.rule 1]), (1, [.rule 1]), (1, [.tok 0])] }
example : Impl.ruleMaxCosts exRec [1, 1] true (Impl.maxCostsFuel exRec) = .done [65535, 65535] := by decide
/-- … and `min_sentence` runs out of any fuel on it (finding C17-minsent-tight-cycle) -/
example : Impl.minSentence exRec [1, 1] 1 200 = .fuelOut := by decide
example : Impl.tightInf exRec [1, 1] (some [1, 1]) 1 = true := by decide
example : Impl.tightInf exG [1, 1, 1, 1] (some [1, 1, 0, 0]) 0 = false := by decide
example : Impl.minSentenceFuel exG = 485 := by decide

/-- a grammar with two cheapest productions and a nullable symbol (tests of the `min_sentences` theorems):
`^: S; S: N X Y | 'c' 'c' | 'a' 'b' 'c'; N: ; X: 'a' | 'b'; Y: 'a' | 'b' | 'c' 'c'`
tokens a=0 b=1 c=2 eof=3; rules ^=0 S=1 N=2 X=3 Y=4; unit costs. `S` has minimal cost 2 with the two cheapest
productions `N X Y` and `'c' 'c'`; `N` is nullable; the third production of `Y` and of `S` are dearer. -/
def exMany : Grammar :=
  { ntoks := 4, nrules := 5, eof := 3, startProd := 0,
    prods := [(0, [.rule 1]), (1, [.rule 2, .rule 3, .rule 4]), (1, [.tok 2, .tok 2]), (1, [.tok 0, .tok 1, .tok 2]),
      (2, []), (3, [.tok 0]), (3, [.tok 1]), (4, [.tok 0]), (4, [.tok 1]), (4, [.tok 2, .tok 2])] }

example : exMany.wf = true := by decide
example : minCosts exMany (Impl.tcF [1, 1, 1, 1]) = some [some 2, some 2, some 0, some 1, some 1] := by decide
example : Impl.sumsFit exMany (Impl.tcF [1, 1, 1, 1]) [some 2, some 2, some 0, some 1, some 1] = true := by decide
example : Impl.cheapestProds exMany [1, 1, 1, 1] (some [2, 2, 0, 1, 1]) 1 = some [1, 2] := by decide
example : Impl.cheapSet exMany [1, 1, 1, 1] [some 2, some 2, some 0, some 1, some 1] 1 2 = [1, 2] := by decide
/-- the odometer: the last column (`Y`) advances first; the sentences of the second cheapest production follow -/
example : Impl.minSentences exMany [1, 1, 1, 1] 1 (Impl.minSentencesFuel exMany) =
    .done [[0, 0], [0, 1], [1, 0], [1, 1], [2, 2]] := by decide
example : Impl.minSentences exMany [1, 1, 1, 1] 2 (Impl.minSentencesFuel exMany) = .done [[]] := by decide
example : Impl.tightInfAll exMany [1, 1, 1, 1] (some [2, 2, 0, 1, 1]) 1 = false := by decide
example : Impl.minSentence exMany [1, 1, 1, 1] 1 (Impl.minSentenceFuel exMany) = .done [0, 0] := by decide
/-- too shallow a recursion is reported as such, not as an answer -/
example : Impl.minSentences exMany [1, 1, 1, 1] 0 2 = .fuelOut := by decide
example : Impl.odoLoop [[[0], [1]], [[5]], [[2], [3], [4]]] 7 [0, 0, 0] [] =
    .done [[0, 5, 2], [0, 5, 3], [0, 5, 4], [1, 5, 2], [1, 5, 3], [1, 5, 4]] := by decide
example : Impl.combos [[[0], [1]], [[5]], [[2], [3], [4]]] =
    [[0, 5, 2], [0, 5, 3], [0, 5, 4], [1, 5, 2], [1, 5, 3], [1, 5, 4]] := by decide
/-- a column without a sentence: the out-of-range panic of `ms[i][todo[i]]` -/
example : Impl.odoLoop [[[0]], []] (Impl.odoFuel [[[0]], []]) [0, 0] [] = .panic := by decide

/-- duplicates: `^: S; S: B | C; B: 'a'; C: 'a'` — two derivation trees for the one minimal sentence -/
def exDup : Grammar :=
  { ntoks := 2, nrules := 4, eof := 1, startProd := 0,
    prods := [(0, [.rule 1]), (1, [.rule 2]), (1, [.rule 3]), (2, [.tok 0]), (3, [.tok 0])] }
example : Impl.minSentences exDup [1, 1] 1 (Impl.minSentencesFuel exDup) = .done [[0], [0]] := by decide

/-- finding C17-minsents-tight-cycle: on `exRec` (`A: A | 'a'`) and on `^: A; A: 'a' | A` — where `min_sentence`
returns because the FIRST cheapest production is `'a'` — `min_sentences` exceeds every recursion depth -/
def exRec2 : Grammar :=
  { ntoks := 2, nrules := 2, eof := 1, startProd := 0, prods := [(0, [.rule 1]), (1, [.tok 0]), (1, [.rule 1])] }
example : Impl.tightInfAll exRec [1, 1] (some [1, 1]) 1 = true := by decide
example : Impl.tightInfAll exRec2 [1, 1] (some [1, 1]) 1 = true := by decide
example : Impl.tightInf exRec2 [1, 1] (some [1, 1]) 1 = false := by decide
example : Impl.minSentence exRec2 [1, 1] 1 50 = .done [0] := by decide
example : Impl.minSentences exRec2 [1, 1] 1 12 = .fuelOut := by decide

/-- a rule without productions (excluded by `everyRuleHasProd`): the sweeps of `rule_max_costs` never end -/
def exNoProd : Grammar :=
  { ntoks := 1, nrules := 2, eof := 0, startProd := 0, prods := [(0, [.tok 0])] }
example : Impl.ruleMaxCosts exNoProd [1] true 40 = .fuelOut := by decide

end GrmVerif.C17
