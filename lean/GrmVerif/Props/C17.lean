import GrmVerif.Lemmas.Total
import GrmVerif.Lemmas.Analyses2
import GrmVerif.Lemmas.Recog
import GrmVerif.Lemmas.FollowsImpl
/-!
# C17 — grammar analyses (FIRST, FOLLOW, nullable, reachability, costs) are exact

The functions of `Model/AnalysesRef.lean`, `Model/CostsRef.lean`, `Model/Recog.lean` are the
specification-side (reference) computations the driver evaluates on every dumped grammar; the
theorems below say that whenever they return a result it is *exactly* the textbook notion
(`Lemmas/Analyses.lean`: `NullableR`, `FirstP`, `FollowP`, `Reach`; `Lemmas/Costs.lean`: `Derives`).
The implementation's answers are compared with them for equality on every run.
-/
namespace GrmVerif.C17
open GrmVerif Ref Spec

/-- **nullable / FIRST / FOLLOW exact.** -/
theorem analyses_exact (G : Grammar) (hwf : G.wf = true) (A : Analyses) (h : analyses G = some A) :
    (∀ r, r ∈ A.nullable ↔ NullableR G r) ∧
    (∀ r t, (r, t) ∈ A.first ↔ FirstP G r t) ∧
    (∀ r t, (r, t) ∈ A.follow ↔ FollowP G r t) := by
  unfold analyses at h
  split at h
  · cases h
  · next N hn =>
    split at h
    · cases h
    · next F hf =>
      split at h
      · cases h
      · next W hw =>
        simp only [Option.some.injEq] at h
        subst h
        have h1 := nullables_exact G hwf N hn
        have h1' : ∀ r, (fun x => N.contains x) r = true ↔ NullableR G r := by
          intro r; simpa using h1 r
        have h2 := firsts_exact G hwf _ h1' F hf
        have h2' : ∀ r t, (fun x => F.contains x) (r, t) = true ↔ FirstP G r t := by
          intro r t; simpa using h2 r t
        exact ⟨h1, h2, follows_exact G hwf _ _ h1' h2' W hw⟩

/-- **path query exact**: the reference reachable set from `A` is `Reach G A` (one or more
production steps; a rule reaches itself only through a cycle). -/
theorem has_path_spec (G : Grammar) (hwf : G.wf = true) (A : Nat) (R : List Nat)
    (h : reach G A = some R) : ∀ B, B ∈ R ↔ Reach G A B :=
  reach_exact G hwf A R h

/-- **minimal costs exact**: `none` means no token string is derivable; `some v` is the cost of a
derivable string and no derivable string is cheaper. For every token-cost function. -/
theorem min_cost_exact (G : Grammar) (hwf : G.wf = true) (tc : Nat → Nat) (c : List (Option Nat))
    (h : minCosts G tc = some c) (r : Nat) (hr : r < G.nrules) :
    (look c r = none → ¬ ∃ w, Derives G (.rule r) w) ∧
    (∀ v, look c r = some v →
      (∃ w, Derives G (.rule r) w ∧ cost tc w = v) ∧ ∀ w, Derives G (.rule r) w → v ≤ cost tc w) := by
  obtain ⟨hreal, hfix⟩ := minCostsFrom_realised _ _ c (realised_init G tc G.nrules) h
  have hfix' : ∀ q, q < G.nrules → look c q = ruleCost G tc (look c) q := by
    intro q hq
    have := look_stepCosts G tc c q
    rw [hfix] at this
    simpa [hq] using this
  have hok : G.symOk (.rule r) = true := by simpa [Grammar.symOk] using hr
  constructor
  · rintro hn ⟨w, hw⟩
    obtain ⟨v, hv, _⟩ := derives_lower hfix' hwf hw hok
    simp only [symCost] at hv
    rw [hn] at hv; cases hv
  · intro v hv
    refine ⟨hreal r v hv, ?_⟩
    intro w hw
    obtain ⟨v', hv', hle⟩ := derives_lower hfix' hwf hw hok
    simp only [symCost] at hv'
    rw [hv] at hv'
    cases hv'; exact hle

/-- **maximal cost, upper half**: a bound table that passes the certificate check bounds every
derivable string of every rule it claims bounded. (Used with the implementation's own answers as
the table: each `Some v` it reports is then a proven upper bound.) -/
theorem max_cost_upper_bound (G : Grammar) (tc : Nat → Nat) (prodv : Nat → Bool) (ub : Nat → Option Nat)
    (hcert : upperBoundOk G tc prodv ub = true)
    (hprod : ∀ q, prodv q = false → ¬ ∃ w, Derives G (.rule q) w)
    (r b : Nat) (hb : ub r = some b) (w : List Nat) (hw : Derives G (.rule r) w) : cost tc w ≤ b :=
  derives_upper hcert hprod hw b (by simpa [symCost] using hb)

/-- **derivability check sound**: what the bounded recogniser accepts is derivable (used for the
generated minimal sentences and for the maximal-cost witnesses). -/
theorem recog_sound (G : Grammar) (allow : Nat → Bool) (fuel : Nat) (s : Sym) (w : List Nat)
    (h : recogSym G allow fuel s w = true) : Derives G s w :=
  recogSym_sound G allow fuel s w h

/-! The full statement for maximal costs — "the reported value is the exact maximum, `None` exactly
when the costs of derivable strings are unbounded" — is decided per grammar by the driver as:
upper half by `max_cost_upper_bound` on the implementation's table, lower half by a witness string
(from `maxIter`) accepted by `recog_sound`. The "unbounded" verdict itself is NOT proved in Lean
(it needs a pumping argument); see DESIGN.md C17, `max_cost_unbounded` is listed as not proved. -/

/-- **the reference analyses terminate**: nullable, FIRST and FOLLOW are each computed with
`|universe| + 1` rounds of fuel, and every non-final round adds a fact (`Fix.lfp_total`), so the
references used as oracle here (and as lookahead oracle by C01/C02/C04/C16) never answer "fuel
exhausted", for any grammar. -/
theorem reference_analyses_total (G : Grammar) : ∃ An, analyses G = some An := Total.analyses_total G

/-- likewise the reference rule reachability -/
theorem reference_reach_total (G : Grammar) (A : Nat) : ∃ R, reach G A = some R := Total.reach_total G A

/-! ### the Rust algorithms themselves

`Model/FirstsFollowsImpl.lean` transcribes the loops of `YaccFirsts::new` (firsts.rs) and
`YaccFollows::new` (follows.rs): rules and productions in index order, the token loop of every row
union, the epsilon bits, the early `break`s, the right-to-left pass over a production with its local
`epsilon`, the `changed` flag; the outer `loop` takes fuel and an out-of-range symbol index is a panic.
The theorems below are about these models (the driver prints their answers next to the real code's on
every generated grammar, line `Mf`). -/

/-- **`YaccFirsts::new` is exact and terminates.** For every well-formed grammar the model of the
constructor neither panics nor needs more than `nrules·(ntoks+1)+1` rounds of its outer loop (every
round but the last sets a bit that was clear) — with that or any larger fuel it returns the same table
`fst` — and in `fst` the bit of rule `r` and token `t` is set exactly when `t` can begin a string
derived from `r` (`FirstP`), the epsilon bit of `r` exactly when `r` derives the empty string
(`NullableR`). -/
theorem firsts_impl_exact (G : Grammar) (hwf : G.wf = true) :
    ∃ fst : Impl.Firsts,
      (∀ fuel, G.nrules * (G.ntoks + 1) + 1 ≤ fuel → Impl.firstsNew G fuel = .done fst) ∧
      (∀ r t, fst.isSet r t = true ↔ FirstP G r t) ∧
      (∀ r, fst.isEpsilonSet r = true ↔ NullableR G r) := by
  obtain ⟨fst, h1, hx⟩ := Impl.firstsNew_exact G hwf
  exact ⟨fst, h1, hx.first, hx.eps⟩

/-- **`YaccFollows::new` is exact and terminates.** For every well-formed grammar, run on the table
`fst` that (the model of) `YaccFirsts::new` returns, the model of the constructor neither panics nor
needs more than `nrules·ntoks+1` rounds, returns the same table `W` for every larger fuel, and the
bit of rule `A` and token `t` (`G.eof` = end of input) is set in `W` exactly when `t` can follow `A`
in a sentential form (`FollowP`). -/
theorem follows_impl_exact (G : Grammar) (hwf : G.wf = true) :
    ∃ (fst : Impl.Firsts) (W : List (List Bool)),
      (∀ fuel, G.nrules * (G.ntoks + 1) + 1 ≤ fuel → Impl.firstsNew G fuel = .done fst) ∧
      (∀ fuel, G.nrules * G.ntoks + 1 ≤ fuel → Impl.followsNew G fst fuel = .done W) ∧
      (∀ A t, Impl.mget W A t = true ↔ FollowP G A t) := by
  obtain ⟨fst, h1, hx⟩ := Impl.firstsNew_exact G hwf
  obtain ⟨W, h2, h3⟩ := Impl.followsNew_exact G hwf fst hx
  exact ⟨fst, W, h1, h2, h3⟩

/-- equivalently: the models of the two constructors compute exactly the verified reference analyses
(the `S` line of the driver), bit for bit. -/
theorem impl_equals_reference (G : Grammar) (hwf : G.wf = true) :
    ∃ (fst : Impl.Firsts) (W : List (List Bool)) (A : Analyses),
      Impl.firstsNew G (Impl.firstsFuel G) = .done fst ∧
      Impl.followsNew G fst (Impl.followsFuel G) = .done W ∧
      analyses G = some A ∧
      (∀ r, fst.isEpsilonSet r = A.nullable.contains r) ∧
      (∀ r t, fst.isSet r t = A.first.contains (r, t)) ∧
      (∀ r t, Impl.mget W r t = A.follow.contains (r, t)) := by
  obtain ⟨fst, W, h1, h2, h3⟩ := follows_impl_exact G hwf
  obtain ⟨_, h1', hF, hE⟩ := firsts_impl_exact G hwf
  have e := (h1' _ (Nat.le_refl _)).symm.trans (h1 _ (Nat.le_refl _))
  simp only [Impl.Outcome.done.injEq] at e
  subst e
  obtain ⟨A, hA⟩ := Total.analyses_total G
  obtain ⟨a1, a2, a3⟩ := analyses_exact G hwf A hA
  refine ⟨_, W, A, h1 _ (Nat.le_refl _), h2 _ (Nat.le_refl _), hA, ?_, ?_, ?_⟩
  · intro r
    rw [Bool.eq_iff_iff, hE r, ← a1 r]; simp
  · intro r t
    rw [Bool.eq_iff_iff, hF r t, ← a2 r t]; simp
  · intro r t
    rw [Bool.eq_iff_iff, h3 r t, ← a3 r t]; simp

/-! ### non-vacuity (tests) -/

/-- `^: S; S: A B 'c'; A: 'a' | ; B: 'b' | ;` tokens a=0 b=1 c=2 eof=3; rules ^=0 S=1 A=2 B=3 -/
def exG : Grammar :=
  { ntoks := 4, nrules := 4, eof := 3, startProd := 5,
    prods := [(1, [.rule 2, .rule 3, .tok 2]), (2, [.tok 0]), (2, []), (3, [.tok 1]), (3, []), (0, [.rule 1])] }

example : exG.wf = true := by decide
example : (analyses exG).map (·.nullable) = some [2, 3] := by decide
example : ((analyses exG).map (fun a => a.follow.contains (2, 2))) = some true := by decide
example : minCosts exG (fun _ => 1) = some [some 1, some 1, some 0, some 0] := by decide
example : (match Impl.firstsNew exG (Impl.firstsFuel exG) with
    | .done f => some f.epsilons | _ => none) = some [false, false, true, true] := by decide

end GrmVerif.C17
