import GrmVerif.Lemmas.Dollar
import GrmVerif.Lemmas.LexCodegen
import GrmVerif.Extracted
/-!
# C13 — a compile-time generated parser and lexer behave exactly like the run-time ones

What Lean carries of this property is the part of the code generator that is a pure function of the
grammar text: the `$`-substitution of action code (`gen_user_actions`) and the order in which the
generated wrapper binds the popped values to `__gt_arg_1 … __gt_arg_n` (`gen_wrappers`). Equivalence of
whole generated programs with the run-time pipeline is not provable here (the program only exists after
`rustc`); it is checked per generated program by the translation-validation part of the check
(`harness/src/props/c13.rs`, `harness/ctgen/`).

Model: `GrmVerif/Model/Dollar.lean` (transcription of the loop in lrpar/src/lib/ctbuilder.rs).
Specification: `dollarSpec` (`GrmVerif/Lemmas/Dollar.lean`). `num` is Rust's `char::is_numeric`, `pfx` is
`ACTION_PREFIX`; all theorems hold for every `num` and `pfx`.
-/
namespace GrmVerif.C13
open GrmVerif.Dollar

/-- **The routine is its specification**, for every action text (any characters, any length, multi-byte
included): the byte-offset `find`/slice loop computes exactly the one-pass substitution `dollarSpec`:
`$$` ↦ `$`, `$lexer`/`$span` ↦ `<pfx>lexer`/`<pfx>span`, `$`+numeric ↦ `<pfx>arg_` followed by the
digits as written, any other `$` ↦ error positioned just after that `$`. -/
theorem dollar_eq_spec (num : Char → Bool) (pfx s : List Char) :
    dollar num pfx s = dollarSpec num pfx s := by
  have h := loop_eq_spec num pfx (byteLen s + 1) [] s []
    (by have := length_le_byteLen s; omega)
  simpa [dollar, dollarSpec, byteLen, prepend_nil] using h

/-- the specification only ever answers `ok` or `err`, and an error position is the offset just after
a `$` of the text that starts none of `$$`, `$lexer`, `$span`, `$<numeric>` -/
theorem spec_err_located (num : Char → Bool) (pfx : List Char) (s : List Char) (pos : Nat) :
    (∃ o, specGo num pfx s pos = .ok o) ∨
    (∃ a r, s = a ++ '$' :: r ∧ specGo num pfx s pos = .err (pos + byteLen a + 1) ∧
      startsWith ('$' :: r) kwDollar = false ∧ startsWith ('$' :: r) kwLexer = false ∧
      startsWith ('$' :: r) kwSpan = false ∧ firstIs num r = false) := by
  induction hn : s.length using Nat.strongRecOn generalizing s pos with
  | _ n ih =>
    have lift : ∀ (pre t : List Char) (q : Nat) (out : List Char),
        s = pre ++ t → t.length < n → byteLen pre = q →
        specGo num pfx s pos = (specGo num pfx t (pos + q)).prepend out →
        (∃ o, specGo num pfx s pos = .ok o) ∨
        (∃ a r, s = a ++ '$' :: r ∧ specGo num pfx s pos = .err (pos + byteLen a + 1) ∧
          startsWith ('$' :: r) kwDollar = false ∧ startsWith ('$' :: r) kwLexer = false ∧
          startsWith ('$' :: r) kwSpan = false ∧ firstIs num r = false) := by
      intro pre t q out hs hlt hq he
      rcases ih t.length hlt t (pos + q) rfl with ⟨o, ho⟩ | ⟨a, r, ht, herr, h0, h1, h2, h3⟩
      · left; exact ⟨out ++ o, by rw [he, ho]; rfl⟩
      · right
        refine ⟨pre ++ a, r, by rw [hs, ht]; simp, ?_, h0, h1, h2, h3⟩
        rw [he, herr]; simp [Res.prepend, byteLen_append, hq, Nat.add_assoc]
    cases s with
    | nil => left; exact ⟨[], by simp [specGo]⟩
    | cons c r =>
      simp only [List.length_cons] at hn
      by_cases hc : c = '$'
      · subst hc
        by_cases h0 : startsWith ('$' :: r) kwDollar = true
        · have hr := startsWith_drop _ _ h0
          simp only [kwDollar, List.length_cons, List.length_nil, List.drop_succ_cons] at hr
          have hs : specGo num pfx ('$' :: r) pos
              = (specGo num pfx (r.drop 1) (pos + 2)).prepend ['$'] := by
            rw [specGo]; simp [h0]
          exact lift ['$', '$'] (r.drop 1) 2 ['$'] (by simpa using hr) (by simp; omega) (by decide) hs
        · have h0 : startsWith ('$' :: r) kwDollar = false := by simpa using h0
          by_cases h1 : startsWith ('$' :: r) kwLexer = true
          · have hr := startsWith_drop _ _ h1
            simp only [kwLexer, List.length_cons, List.length_nil, List.drop_succ_cons] at hr
            have hs : specGo num pfx ('$' :: r) pos
                = (specGo num pfx (r.drop 5) (pos + 6)).prepend (pfx ++ idLexer) := by
              rw [specGo]; simp [h0, h1]
            exact lift kwLexer (r.drop 5) 6 _ (by simpa [kwLexer] using hr) (by simp; omega)
              kwLexer_len hs
          · have h1 : startsWith ('$' :: r) kwLexer = false := by simpa using h1
            by_cases h2 : startsWith ('$' :: r) kwSpan = true
            · have hr := startsWith_drop _ _ h2
              simp only [kwSpan, List.length_cons, List.length_nil, List.drop_succ_cons] at hr
              have hs : specGo num pfx ('$' :: r) pos
                  = (specGo num pfx (r.drop 4) (pos + 5)).prepend (pfx ++ idSpan) := by
                rw [specGo]; simp [h0, h1, h2]
              exact lift kwSpan (r.drop 4) 5 _ (by simpa [kwSpan] using hr) (by simp; omega)
                kwSpan_len hs
            · have h2 : startsWith ('$' :: r) kwSpan = false := by simpa using h2
              by_cases h3 : firstIs num r = true
              · have hs : specGo num pfx ('$' :: r) pos
                    = (specGo num pfx r (pos + 1)).prepend (pfx ++ idArg) := by
                  rw [specGo]; simp [h0, h1, h2, h3]
                exact lift ['$'] r 1 _ rfl (by omega) (by decide) hs
              · have h3 : firstIs num r = false := by simpa using h3
                right
                exact ⟨[], r, rfl, by rw [specGo]; simp [h0, h1, h2, h3, byteLen], h0, h1, h2, h3⟩
      · have hs : specGo num pfx (c :: r) pos
            = (specGo num pfx r (pos + c.utf8Size)).prepend [c] := by
          rw [specGo]; simp [hc]
        exact lift [c] r c.utf8Size [c] rfl (by omega) (by simp [byteLen]) hs

/-- **No panic, no divergence**: on every action text the loop terminates within its fuel and never
slices off a character boundary (multi-byte text included); and when it reports an error at offset
`pos`, `Span::new(span.start() + pos, span.end())` does not panic for the span the Yacc parser records
for an action (`end = start + len`): the position is within the text. -/
theorem dollar_no_panic (num : Char → Bool) (pfx s : List Char) :
    dollar num pfx s ≠ .panic ∧ dollar num pfx s ≠ .fuel ∧
    ∀ pos, dollar num pfx s = .err pos →
      1 ≤ pos ∧ pos ≤ byteLen s ∧
      ∀ st, errSpan st (st + byteLen s) pos = some (st + pos, st + byteLen s) := by
  rw [dollar_eq_spec, dollarSpec]
  rcases spec_err_located num pfx s 0 with ⟨o, ho⟩ | ⟨a, r, hs, herr, _⟩
  · simp [ho]
  · have hb : byteLen s = byteLen a + 1 + byteLen r := by
      rw [hs]; simp [byteLen_append, byteLen, dollar_size]; omega
    rw [herr]
    refine ⟨by simp, by simp, ?_⟩
    intro pos hp
    have hp : pos = byteLen a + 1 := by simpa using hp.symm
    subst hp
    refine ⟨by omega, by omega, ?_⟩
    intro st
    have : ¬ (st + byteLen s < st + (byteLen a + 1)) := by omega
    simp [errSpan, this]

/-- **`$k` denotes the k-th argument identifier.** A `$` followed by a run of digits `d :: ds` (first one
numeric, none of them `$`; `d` is not `l`/`s`, which holds for every numeric character) is replaced by
`<pfx>arg_` followed by exactly those digits, i.e. by the name that `gen_user_actions` gives the
parameter and `gen_wrappers` the `let` binding with that number (`argName`); the rest of the text is
processed independently. Nothing checks that the number is between 1 and the production's length:
see the `example`s below. -/
theorem dollar_arg_denotes (num : Char → Bool) (pfx : List Char) (d : Char) (ds t : List Char)
    (pos : Nat) (hd : num d = true) (h1 : d ≠ '$') (h2 : d ≠ 'l') (h3 : d ≠ 's') (hds : '$' ∉ ds) :
    specGo num pfx ('$' :: ((d :: ds) ++ t)) pos
      = (specGo num pfx t (pos + 1 + byteLen (d :: ds))).prepend (pfx ++ idArg ++ (d :: ds)) := by
  have hp : '$' ∉ d :: ds := by
    intro h; rcases List.mem_cons.mp h with h | h
    · exact h1 h.symm
    · exact hds h
  have e1 : startsWith ('$' :: ((d :: ds) ++ t)) kwDollar = false := by
    simp [startsWith, kwDollar, List.isPrefixOf, Ne.symm h1]
  have e2 : startsWith ('$' :: ((d :: ds) ++ t)) kwLexer = false := by
    simp [startsWith, kwLexer, List.isPrefixOf, Ne.symm h2]
  have e3 : startsWith ('$' :: ((d :: ds) ++ t)) kwSpan = false := by
    simp [startsWith, kwSpan, List.isPrefixOf, Ne.symm h3]
  rw [specGo]
  simp only [ne_eq, not_true_eq_false, if_false, e1, e2, e3, Bool.false_eq_true]
  have : firstIs num ((d :: ds) ++ t) = true := by simp [firstIs, hd]
  simp only [this, if_true]
  have hh := specGo_plain num pfx (d :: ds) t (pos + 1) hp
  rw [hh, prepend_prepend]

/-- the identifier produced for `$k` is the k-th parameter name (decimal `k`) -/
theorem arg_name_is_param (pfx : List Char) (n k : Nat) (hk : k < n) :
    (argNames pfx n)[k]? = some (pfx ++ idArg ++ (toString (k + 1)).toList) := by
  simp [argNames, argName, hk]

/-! ### wrapper: the k-th popped value is bound to the k-th argument -/

/-- what the action receives for one stack entry: `Ok(lexeme)` for a lexeme of the input, `Err(lexeme)`
for one inserted by error recovery (`faulty()`), the inner value for a rule -/
def argOf : AStack → Arg
  | .lexeme id false => .okLex id
  | .lexeme id true => .errLex id
  | .value _ v => .val v

/-- the stack entry fits the production's symbol (what the parser guarantees for a reduction) -/
def fits : Sym → AStack → Prop
  | .tok _, .lexeme _ _ => True
  | .rule r, .value variant _ => variant = r
  | _, _ => False

/-- every symbol of the production has a fitting entry at the same position of the drain -/
def agree : List Sym → List AStack → Prop
  | [], _ => True
  | _ :: _, [] => False
  | s :: ss, a :: as => fits s a ∧ agree ss as

/-- **Wrapper binding order.** For a drain that fits the production, the generated `let` sequence
binds `__gt_arg_{k+1}` to the k-th popped value, for every k: `Ok` for real lexemes, `Err` for inserted
ones, the action value for rules; no `unwrap`/`unreachable!` panic. The call passes them in the same
order as the action function declares its parameters (`argNames`, used by both generators). -/
theorem wrapper_binds_in_order (syms : List Sym) (drain : List AStack) (h : agree syms drain) :
    unpack syms drain = some ((drain.take syms.length).map argOf) ∧
    ∀ k, k < syms.length →
      ((drain.take syms.length).map argOf)[k]? = (drain[k]?).map argOf := by
  constructor
  · induction syms generalizing drain with
    | nil => simp [unpack]
    | cons s ss ih =>
      cases drain with
      | nil => simp [agree] at h
      | cons a as =>
        obtain ⟨hf, hr⟩ := h
        have h1 : unpack1 s (some a) = some (argOf a) := by
          cases s <;> cases a <;> simp_all [fits, unpack1, argOf]
          rename_i f; cases f <;> rfl
        simp [unpack, h1, ih as hr]
  · intro k hk
    simp [hk]

/-- conversely the wrapper never mis-binds silently: if it returns at all, the drain fitted -/
theorem wrapper_ok_only_if_agree (syms : List Sym) (drain : List AStack) (bound : List Arg)
    (h : unpack syms drain = some bound) : agree syms drain := by
  induction syms generalizing drain bound with
  | nil => simp [agree]
  | cons s ss ih =>
    cases drain with
    | nil => simp [unpack, unpack1] at h
    | cons a as =>
      simp only [unpack, List.head?_cons, List.tail_cons] at h
      cases h1 : unpack1 s (some a) with
      | none => simp [h1] at h
      | some x =>
        simp only [h1] at h
        cases h2 : unpack ss as with
        | none => simp [h2] at h
        | some b =>
          refine ⟨?_, ih as b h2⟩
          cases s <;> cases a <;> simp_all [fits, unpack1]


/-! ## The wiring of the lexer code generator

`CTLexerBuilder::build` writes a `lexerdef()` that rebuilds the flags, the start states and the rules of
the run-time lexer definition. Which flag goes where, which accessor each argument of the generated
`Rule::new` is read from and which iterators are walked is re-read from the Rust source on every run
(`GrmVerif/Extracted.lean`, `C13_*`). The first two theorems say what a correct wiring gives, for EVERY
wiring that passes the decidable checks; the third says that the wiring found in the source passes them. It
is the third that stops checking when the generator is rewired. -/

open GrmVerif.LexCodegen GrmVerif.Extracted

/-- **The generated flags are the source's flags.** For any list of flag fields and any generated
assignment lines that pass `flagWiringOk`, and for any user flags and default flags: every field `f` of
`LexFlags` has, in the generated lexer, the value `user.f.or(default.f)` — the user's setting if there is
one, the default otherwise; which is what the run-time lexer is built with. -/
theorem generated_flags_are_source_flags (fields : List String) (w : FlagWiring)
    (hok : flagWiringOk fields w = true) (user dflt : Flags) :
    ∀ f ∈ fields, emitFlags w user dflt f = (user f).or (dflt f) := by
  intro f hf
  simp only [flagWiringOk, Bool.and_eq_true, List.all_eq_true, beq_iff_eq] at hok
  obtain ⟨h1, h2⟩ := hok
  have hany := filter_len_one_any _ _ (h1 f hf)
  rw [emitFlags, applyLines_self user dflt w (fun l hl => ⟨(h2 l hl).1.1, (h2 l hl).1.2⟩), hany]
  simp

/-- **The generated rules are the source's rules, in the source's order.** For any rule wirings that pass
`ruleWiringOk` and iterator expressions that pass `iterOk`: the generated definition exists, has the
run-time definition's start states (same number, same order), has exactly one `Rule::new` call per
run-time rule in the same order, and what `Rule::new` builds from the k-th call has, in every field that
`Rule::new` stores (every field that is not derived from the regex text and the flags), the value of that
field in the k-th run-time rule. -/
theorem generated_rules_are_source_rules (fields derived : List String)
    (rw stores acc : List (String × String)) (rulesIter statesIter : String)
    (hok : ruleWiringOk fields derived rw stores acc = true) (hit : iterOk rulesIter statesIter = true)
    (d : LexCodegen.RDef) (dv : RRule) :
    (∀ r : RRule, ∀ f ∈ fields, f ∉ derived →
        rebuildRule stores dv (emitRule rw acc fields r) f = r f) ∧
    ∃ g, emitDef rulesIter statesIter rw acc fields d = some g ∧ g.states = d.states ∧
      g.rules.length = d.rules.length ∧
      ∀ k (hk : k < d.rules.length), ∀ f ∈ fields, f ∉ derived →
        (g.rules[k]?.map (rebuildRule stores dv)).map (· f) = some (d.rules[k] f) := by
  have hrule : ∀ r : RRule, ∀ f ∈ fields, f ∉ derived →
      rebuildRule stores dv (emitRule rw acc fields r) f = r f := by
    intro r f hf hnd
    simp only [ruleWiringOk, Bool.and_eq_true, List.all_eq_true, Bool.or_eq_true, beq_iff_eq] at hok
    obtain ⟨⟨⟨h1, h2⟩, _⟩, _⟩ := hok
    have hlen : (stores.filter (fun s => s.2 == f)).length = 1 := by
      rcases h2 f hf with h | h
      · exact absurd (by simpa using h) hnd
      · exact h
    obtain ⟨s, hfind, hmem, hs⟩ := find_of_filter_len_one _ _ hlen
    have hsf : s.2 = f := by simpa using hs
    have h1s := h1 s hmem
    simp only [rebuildRule, hfind, emitRule]
    cases hl : rw.lookup s.1 with
    | none => simp [hl] at h1s
    | some a =>
      simp only [hl, beq_iff_eq] at h1s
      simp [h1s, hsf]
  refine ⟨hrule, ?_⟩
  refine ⟨{ states := d.states.map id, rules := d.rules.map (emitRule rw acc fields) },
    by simp only [emitDef, hit, if_true], by simp, by simp, ?_⟩
  intro k hk f hf hnd
  simp [List.getElem?_map, List.getElem?_eq_getElem hk, hrule _ f hf hnd]

/-- **The generator's wiring, as found in the source on this run, is the correct one**: each of the
`LexFlags` fields is assigned exactly once, from the user's value of that same field, with that same
field's default; every argument of the generated `Rule::new` is read through the accessor of the field its
parameter is stored in, every field of `Rule` but `re` is stored from exactly one parameter; rules and
start states are taken from `lexerdef.iter_rules()` / `lexerdef.iter_start_states()` with nothing in
between. This is the obligation that stops checking when the generator is rewired (a flag ignored, two
flags crossed, states filtered, rules reordered, a field of a rule dropped). -/
theorem extracted_lexer_wiring_ok :
    flagWiringOk C13_LEXFLAGS_FIELDS C13_FLAG_WIRING = true ∧
    ruleWiringOk C13_RULE_FIELDS C13_RULE_DERIVED_FIELDS C13_RULE_WIRING C13_RULE_NEW_STORES
      C13_RULE_ACCESSORS = true ∧
    C13_RULE_DERIVED_FIELDS = ["re"] ∧
    iterOk C13_RULES_ITER C13_STATES_ITER = true := by decide

/-- the two general theorems applied to the source as it is: the generated `lexerdef()` of this source
tree has the user-or-default value in every `LexFlags` field -/
theorem generated_flags_of_this_source (user dflt : Flags) :
    ∀ f ∈ C13_LEXFLAGS_FIELDS, emitFlags C13_FLAG_WIRING user dflt f = (user f).or (dflt f) :=
  generated_flags_are_source_flags _ _ extracted_lexer_wiring_ok.1 user dflt

/-! ### tests (labelled as such): the hypotheses are satisfiable and the boundary cases behave as read
off the code -/

private def isDigit (c : Char) : Bool := c.isDigit
private def gt : List Char := "__gt_".toList

-- the ordinary case
example : dollar isDigit gt "Ok($1 + $2)".toList = .ok "Ok(__gt_arg_1 + __gt_arg_2)".toList := by decide
-- `$$`, `$span`, `$lexer`, multi-byte text
example : dollar isDigit gt "\"é$$\", $span, $lexer.x".toList
    = .ok "\"é$\", __gt_span, __gt_lexer.x".toList := by decide
-- a digit run is copied as written; no range check: `$0`, `$12`, `$1x` all go through
example : dollar isDigit gt "$0 $12 $1x".toList = .ok "__gt_arg_0 __gt_arg_12 __gt_arg_1x".toList := by decide
-- `$` followed by anything else, and `$` at the end of the text, are errors just after that `$`
example : dollar isDigit gt "ab $x".toList = .err 4 := by decide
example : dollar isDigit gt "é$".toList = .err 3 := by decide
-- `$$$1` is a literal dollar followed by argument 1
example : dollar isDigit gt "$$$1".toList = .ok "$__gt_arg_1".toList := by decide
-- wrapper: token (real), rule, token (inserted)
example : unpack [.tok 0, .rule 2, .tok 1] [.lexeme 10 false, .value 2 77, .lexeme 11 true]
    = some [.okLex 10, .val 77, .errLex 11] := by decide
example : agree [.tok 0, .rule 2, .tok 1] [.lexeme 10 false, .value 2 77, .lexeme 11 true] := by
  simp [agree, fits]

-- wiring tests: two crossed flags are rejected
example : flagWiringOk ["swap_greed", "ignore_whitespace"]
    [("ignore_whitespace", "swap_greed", "ignore_whitespace"), ("swap_greed", "ignore_whitespace", "swap_greed")] = false := by decide
-- a flag that is never assigned (ignored) is rejected, and so is one assigned with another's default
example : flagWiringOk ["octal", "unicode"] [("octal", "octal", "octal")] = false := by decide
example : flagWiringOk ["octal", "unicode"] [("octal", "octal", "octal"), ("unicode", "unicode", "octal")] = false := by decide
-- the straight wiring is accepted, and the crossed one really computes something else
example : flagWiringOk ["octal", "unicode"] [("unicode", "unicode", "unicode"), ("octal", "octal", "octal")] = true := by decide
example : emitFlags [("a", "b", "a"), ("b", "a", "b")] (fun f => if f = "a" then some 1 else none) (fun _ => some 0) "b"
    = some 1 := by decide
-- iterators: a filter, a reversal, swapped iterators are rejected
example : iterOk "lexerdef.iter_rules()" "lexerdef.iter_start_states().filter(|ss| ss.id == 0)" = false := by decide
example : iterOk "lexerdef.iter_rules().rev()" "lexerdef.iter_start_states()" = false := by decide
-- rules: a target state read from another accessor, or not passed at all, is rejected
example : ruleWiringOk ["name", "target_state", "re"] ["re"]
    [("name", "name()"), ("target_state", "name()"), ("lex_flags", "&lex_flags")]
    [("name", "name"), ("target_state", "target_state")]
    [("name()", "name"), ("target_state()", "target_state")] = false := by decide
example : ruleWiringOk ["name", "target_state", "re"] ["re"]
    [("name", "name()"), ("lex_flags", "&lex_flags")]
    [("name", "name"), ("target_state", "target_state")]
    [("name()", "name"), ("target_state()", "target_state")] = false := by decide
example : ruleWiringOk ["name", "target_state", "re"] ["re"]
    [("name", "name()"), ("target_state", "target_state()"), ("lex_flags", "&lex_flags")]
    [("name", "name"), ("target_state", "target_state")]
    [("name()", "name"), ("target_state()", "target_state")] = true := by decide

end GrmVerif.C13
