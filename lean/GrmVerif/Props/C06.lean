import GrmVerif.Lemmas.Search
import GrmVerif.Lemmas.RankImpl2
import GrmVerif.Lemmas.SearchImpl7
import GrmVerif.Lemmas.CpctRun
import GrmVerif.Lemmas.CpctEx
import GrmVerif.Lemmas.NoPanic2
/-!
# C06 — repair sequences are the complete minimum-cost set, ranked as documented

Specification: `Rec.Search` (declarative: which complete repair sequences a cost-`k` search from a
configuration yields) and the executable reference `Rec.enumerate` / `Rec.minCostRepairs` /
`Rec.refRepairs` (`Model/Recover.lean`). The theorems say the reference IS the declarative
search, at the minimum cost, complete at that cost. The real recoverer's reported set must equal
`refRepairs` (as a set) for every error within the cost cap, and its order is checked against the
documented ranking.

Post-processing (`Model/RankImpl.lean`, a transcription of `rank_cnds`, `apply_repairs`, `lr_upto`
and `simplify_repairs` of `lrpar/src/lib/cpctplus.rs`): the second half of this file proves, for
EVERY output of `collect_repairs` (a list of groups of sequences), every table, every hasher order
and every `%avoid_insert` set, what the reported list looks like: `rank_keeps_furthest`,
`simplify_no_trailing_shift`, `simplify_nodup`, `simplify_preserves`, `simplify_ranked`.

The search itself (`Model/SearchImpl.lean`, a transcription of `dijkstra.rs` and of `recover` /
`insert` / `delete` / `shift` / `collect_repairs` of `cpctplus.rs`: cost buckets, `IndexMap` buckets
with `PathFNode::eq` as key equality, node merging, the two loops, `u16` costs): the third part of this
file proves, for EVERY table, stack, input, cost function (costs ≥ 1) and cost — no cap —, that when
the modelled search ends properly its expansion is sound (`search_sound`), of minimum cost
(`search_minimal`), complete at that cost although compatible nodes are merged and the second loop
follows Shifts only (`search_complete`), finds nothing only if nothing of representable cost exists
(`search_none`), and equals the reference enumeration (`search_eq_reference`).
-/
namespace GrmVerif.C06
open GrmVerif Rec LR

/-- **The reference enumeration is the search relation** (with the fuel the reference uses). -/
theorem enumerate_iff_search (G : Grammar) (A : Automaton) (w : List Nat) (cost : Nat → Nat) (N : Nat)
    (start : Pos) (c : Nat) (seq : List Repair) :
    seq ∈ enumerate G A w cost N (2 * (c + w.length) + 6) c ⟨start, [], 0⟩ ↔
      Search G A w cost N ⟨start, [], 0⟩ c seq := by
  constructor
  · exact enumerate_sound G A w cost N _ c _ seq
  · intro h
    exact enumerate_complete G A w cost N _ c seq h _ (by simp only; omega)

theorem minCostFrom_spec (G : Grammar) (A : Automaton) (w : List Nat) (cost : Nat → Nat) (N : Nat)
    (start : Pos) :
    ∀ (remaining c0 c : Nat) (rs : List (List Repair)),
      minCostFrom G A w cost N start remaining c0 = some (c, rs) →
      c0 ≤ c ∧ rs ≠ [] ∧ (∀ seq, seq ∈ rs ↔ Search G A w cost N ⟨start, [], 0⟩ c seq) ∧
      ∀ c', c0 ≤ c' → c' < c → ∀ seq, ¬ Search G A w cost N ⟨start, [], 0⟩ c' seq := by
  intro remaining
  induction remaining with
  | zero => intro c0 c rs h; simp [minCostFrom] at h
  | succ r ih =>
    intro c0 c rs h
    simp only [minCostFrom] at h
    by_cases he : (enumerate G A w cost N (2 * (c0 + w.length) + 6) c0 ⟨start, [], 0⟩).isEmpty = true
    · rw [if_pos he] at h
      obtain ⟨h1, h2, h3, h4⟩ := ih (c0 + 1) c rs h
      refine ⟨by omega, h2, h3, ?_⟩
      intro c' hc0 hc seq hs
      by_cases heq : c' = c0
      · subst heq
        have := (enumerate_iff_search G A w cost N start c' seq).mpr hs
        rw [List.isEmpty_iff] at he
        rw [he] at this; cases this
      · exact h4 c' (by omega) hc seq hs
    · rw [if_neg he] at h
      simp only [Option.some.injEq, Prod.mk.injEq] at h
      obtain ⟨rfl, rfl⟩ := h
      refine ⟨Nat.le_refl _, ?_, fun seq => enumerate_iff_search G A w cost N start c0 seq, ?_⟩
      · intro hnil; rw [hnil] at he; simp at he
      · intro c' h1 h2; omega

/-- **Minimum cost, complete at that cost.** If the reference finds cost `c` with the set `rs`:
`rs` is exactly the set of complete repair sequences of cost `c` (every one of them is found), it
is not empty, and no repair of lower cost exists. -/
theorem min_cost_complete (G : Grammar) (A : Automaton) (w : List Nat) (cost : Nat → Nat) (N : Nat)
    (start : Pos) (cap c : Nat) (rs : List (List Repair))
    (h : minCostRepairs G A w cost N start cap = some (c, rs)) :
    rs ≠ [] ∧ (∀ seq, seq ∈ rs ↔ Search G A w cost N ⟨start, [], 0⟩ c seq) ∧
    ∀ c', c' < c → ∀ seq, ¬ Search G A w cost N ⟨start, [], 0⟩ c' seq := by
  obtain ⟨_, h2, h3, h4⟩ := minCostFrom_spec G A w cost N start _ 0 c rs h
  exact ⟨h2, h3, fun c' hc => h4 c' (Nat.zero_le _) hc⟩

/-- **What a reported sequence is.** Every sequence of the search applies from the error
configuration with plain LR semantics, costs exactly the search cost (sum of the costs of inserted
and deleted tokens), never inserts the end-of-input token, and ends in a success configuration
(`N` trailing shifts or acceptance). -/
theorem search_sequence_valid (G : Grammar) (A : Automaton) (w : List Nat) (cost : Nat → Nat) (N : Nat)
    (start : Pos) (c : Nat) (seq : List Repair) (h : Search G A w cost N ⟨start, [], 0⟩ c seq) :
    ∃ cf, applySeq G A w start seq = some cf ∧ seqCost w cost start.pos seq = c ∧
      Repair.insert G.eof ∉ seq ∧ ∃ m : Node, m.c = cf ∧ isSuccess G A w N m = true := by
  obtain ⟨suf, cf, h1, h2, h3, h4, m, hm1, _, hm3⟩ := search_applies G A w cost N _ c seq h
  simp only [List.reverse_nil, List.nil_append] at h1
  subst h1
  exact ⟨cf, h2, h3, h4, m, hm1, hm3⟩

/-- **No sequence ends in a shift** -/
theorem stripShifts_no_trailing (rs : List Repair) : (stripShifts rs).getLast? ≠ some .shift := by
  unfold stripShifts
  rw [List.getLast?_reverse]
  cases h : rs.reverse.dropWhile (· == Repair.shift) with
  | nil => simp
  | cons a as =>
    have := List.head_dropWhile_not (fun x => x == Repair.shift) (l := rs.reverse) (by rw [h]; simp)
    simp only [h, List.head_cons] at this
    simp only [List.head?_cons, ne_eq, Option.some.injEq]
    intro e; subst e; simp at this

/-- **The reference answer**: every reported sequence is a minimum-cost search sequence with its
trailing shifts removed, that lets parsing continue as far as the best; none ends in a shift; none
is reported twice. -/
theorem refRepairs_spec (G : Grammar) (A : Automaton) (w : List Nat) (cost : Nat → Nat) (N win : Nat)
    (start : Pos) (cap c : Nat) (out : List (List Repair))
    (h : refRepairs G A w cost N win start cap = some (c, out)) :
    out.Nodup ∧ (∀ r ∈ out, r.getLast? ≠ some .shift) ∧
    ∀ r ∈ out, ∃ seq, Search G A w cost N ⟨start, [], 0⟩ c seq ∧ r = stripShifts seq ∧
      ∀ seq', Search G A w cost N ⟨start, [], 0⟩ c seq' →
        distance G A w win start seq' ≤ distance G A w win start seq := by
  unfold refRepairs at h
  cases hm : minCostRepairs G A w cost N start cap with
  | none => rw [hm] at h; cases h
  | some v =>
    obtain ⟨c0, rs⟩ := v
    rw [hm] at h
    simp only [Option.some.injEq, Prod.mk.injEq] at h
    obtain ⟨rfl, rfl⟩ := h
    obtain ⟨_, hiff, _⟩ := min_cost_complete G A w cost N start cap c0 rs hm
    refine ⟨nodup_dedup _, ?_, ?_⟩
    · intro r hr
      rw [mem_dedup] at hr
      simp only [List.mem_map, List.mem_filter] at hr
      obtain ⟨seq, _, rfl⟩ := hr
      exact stripShifts_no_trailing seq
    · intro r hr
      rw [mem_dedup] at hr
      simp only [List.mem_map, List.mem_filter, beq_iff_eq] at hr
      obtain ⟨seq, ⟨hseq, hfar⟩, rfl⟩ := hr
      refine ⟨seq, (hiff seq).mp hseq, rfl, ?_⟩
      intro seq' hs'
      have hm' := (hiff seq').mpr hs'
      rw [hfar]
      -- the fold of max over the distances bounds each of them
      have : ∀ (l : List Nat) (init x : Nat), x ∈ l → x ≤ l.foldl max init := by
        intro l
        induction l with
        | nil => intro init x hx; cases hx
        | cons a as ih =>
          intro init x hx
          simp only [List.foldl_cons]
          rcases List.mem_cons.mp hx with rfl | hx
          · have : ∀ (l : List Nat) (i : Nat), i ≤ l.foldl max i := by
              intro l
              induction l with
              | nil => intro i; exact Nat.le_refl _
              | cons b bs ihb => intro i; simp only [List.foldl_cons]; exact Nat.le_trans (Nat.le_max_left _ _) (ihb _)
            exact Nat.le_trans (Nat.le_max_right _ _) (this as _)
          · exact ih _ x hx
      exact this _ 0 _ (List.mem_map.mpr ⟨seq', hm', rfl⟩)

/-! ## The post-processing pipeline: `rank_cnds` and `simplify_repairs` -/

open RankImpl

/-- **`rank_cnds` keeps exactly the groups whose first sequence gets furthest.** If `rank_cnds`
returns (no panic): every group was non-empty and its first sequence was replayed and parsed on
without a panic; the result is the concatenation, in the order of the search, of exactly those
groups `g` whose distance (`reachD`: `apply_repairs` on the first sequence, then `lr_upto` up to
`in_laidx + TRY_PARSE_AT_MOST`) is not exceeded by any group's. -/
theorem rank_keeps_furthest (G : Grammar) (A : Automaton) (w : List Nat) (win : Nat) (start : Pos)
    (cnds : List (List Seq)) (out : List Seq) (h : rankCnds G A w win start cnds = some out) :
    (∀ g ∈ cnds, ∃ d, groupReach G A w win start g = some d) ∧
    out = (cnds.filter (fun g => cnds.all (fun g' =>
      decide (reachD G A w win start g' ≤ reachD G A w win start g)))).flatten ∧
    ∀ s, s ∈ out ↔ ∃ g ∈ cnds, s ∈ g ∧
      ∀ g' ∈ cnds, reachD G A w win start g' ≤ reachD G A w win start g := by
  unfold rankCnds at h
  cases hsc : scoreCnds G A w win start cnds with
  | none => rw [hsc] at h; cases h
  | some sc =>
    rw [hsc] at h
    simp only [Option.some.injEq] at h
    obtain ⟨hmap, hall⟩ := scoreCnds_some hsc
    subst hmap
    obtain ⟨hle, hatt⟩ := furthest_spec (cnds.map (fun g => (reachD G A w win start g, g)))
    generalize hF : furthest (cnds.map (fun g => (reachD G A w win start g, g))) = F at h hle hatt
    have heq : out = (cnds.filter (fun g => cnds.all (fun g' =>
        decide (reachD G A w win start g' ≤ reachD G A w win start g)))).flatten := by
      rw [← h]
      have hle' : ∀ g' ∈ cnds, reachD G A w win start g' ≤ F := by
        intro g' hg'
        exact hle (reachD G A w win start g', g') (List.mem_map.mpr ⟨g', hg', rfl⟩)
      have hcongr : ∀ g ∈ cnds,
          ((fun p : Nat × List Seq => p.1 == F) ∘ (fun g => (reachD G A w win start g, g))) g =
          cnds.all (fun g' => decide (reachD G A w win start g' ≤ reachD G A w win start g)) := by
        intro g hg
        rw [Bool.eq_iff_iff]
        simp only [Function.comp, beq_iff_eq, List.all_eq_true, decide_eq_true_eq]
        constructor
        · intro e g' hg'; rw [e]; exact hle' g' hg'
        · intro hmax
          have hne : cnds.map (fun g => (reachD G A w win start g, g)) ≠ [] := by
            intro hnil
            have := List.map_eq_nil_iff.mp hnil
            rw [this] at hg; cases hg
          obtain ⟨p, hp, hpf⟩ := hatt hne
          obtain ⟨g0, hg0, rfl⟩ := List.mem_map.mp hp
          have h1 := hmax g0 hg0
          have h2 := hle' g hg
          simp only at hpf
          omega
      rw [List.filter_map, List.flatMap_map, List.filter_congr hcongr]
      simp only [List.flatMap_id']
    refine ⟨hall, heq, ?_⟩
    intro s
    rw [heq]
    simp only [List.mem_flatten, List.mem_filter, List.all_eq_true, decide_eq_true_eq]
    constructor
    · rintro ⟨g, ⟨hg, hmax⟩, hs⟩; exact ⟨g, hg, hs, hmax⟩
    · rintro ⟨g, hg, hs, hmax⟩; exact ⟨g, ⟨hg, hmax⟩, hs⟩

/-- `rank_cnds` panics exactly when some group is empty (`rpr_seqs[0]`) or the replay of a first
sequence runs into a missing goto / an empty stack (or the model's fuel) -/
theorem rank_panics_iff (G : Grammar) (A : Automaton) (w : List Nat) (win : Nat) (start : Pos)
    (cnds : List (List Seq)) :
    rankCnds G A w win start cnds = none ↔ ∃ g ∈ cnds, groupReach G A w win start g = none := by
  constructor
  · intro h
    unfold rankCnds at h
    cases hsc : scoreCnds G A w win start cnds with
    | none => exact scoreCnds_none hsc
    | some sc => rw [hsc] at h; cases h
  · rintro ⟨g, hg, hn⟩
    cases hr : rankCnds G A w win start cnds with
    | none => rfl
    | some out =>
      obtain ⟨d, hd⟩ := (rank_keeps_furthest G A w win start cnds out hr).1 g hg
      rw [hn] at hd; cases hd

/-- **The distance `rank_cnds` measures is the specification's `distance`** (the one
`refRepairs_spec` speaks of), for a first sequence that applies with plain LR semantics — as every
sequence of the search does, `search_sequence_valid` — and ends within the window, under a table
that never shifts end-of-input. -/
theorem rank_distance_is_spec (G : Grammar) (A : Automaton) (w : List Nat) (hEof : EofNeverShifted G A)
    (win : Nat) (start c' : Pos) (s : Seq) (rest : List Seq) (hpos : start.pos ≤ w.length)
    (happ : applySeq G A w start (s.map PRepair.erase) = some c') (hwin : c'.pos ≤ start.pos + win)
    (d : Nat) (hr : groupReach G A w win start (s :: rest) = some d) :
    reachD G A w win start (s :: rest) = distance G A w win start (s.map PRepair.erase) := by
  have := reach_eq_distance hEof hpos happ hwin hr
  simp only [reachD, hr, Option.getD_some, this]

/-- **No reported sequence ends in a Shift.** -/
theorem simplify_no_trailing_shift (hs : List Seq → List Seq) (h : HashSetLike hs) (avoid : Nat → Bool)
    (start : Nat → Nat) (l : List Seq) :
    ∀ r ∈ simplify hs avoid start l, ∀ k, r.getLast? ≠ some (.shift k) := by
  intro r hr k
  obtain ⟨s, _, rfl⟩ := (mem_simplify h avoid start l r).mp hr
  exact stripTrailing_no_trailing s k

/-- **No sequence is reported twice.** -/
theorem simplify_nodup (hs : List Seq → List Seq) (h : HashSetLike hs) (avoid : Nat → Bool)
    (start : Nat → Nat) (l : List Seq) : (simplify hs avoid start l).Nodup :=
  (simplify_perm hs avoid start l).nodup_iff.mpr (h _).1

/-- **Nothing lost, nothing invented**: the reported sequences are exactly the input sequences with
their trailing Shifts removed. -/
theorem simplify_preserves (hs : List Seq → List Seq) (h : HashSetLike hs) (avoid : Nat → Bool)
    (start : Nat → Nat) (l : List Seq) (r : Seq) :
    r ∈ simplify hs avoid start l ↔ ∃ s ∈ l, stripTrailing s = r :=
  mem_simplify h avoid start l r

/-- **Ranked as documented, and the order is a function of the SET of input sequences.**
(1) Whatever the hasher and the input order: a sequence inserting an `%avoid_insert` token is never
followed by one that does not, and among sequences of the same kind lengths never decrease (indeed
the whole list is sorted by the comparison closure `seqLe`).
(2) When distinct lexemes start at distinct offsets — or all sequences name the lexemes of the input
from one position on, in order, as `repair_to_parse_repair` makes them — any other hasher order and
any other list with the same set of stripped sequences (in particular any permutation of the input)
give the same list in the same order; and whichever algorithm `sort_unstable_by` uses, a sorted
arrangement of the deduplicated sequences is this list. -/
theorem simplify_ranked (hs : List Seq → List Seq) (h : HashSetLike hs) (avoid : Nat → Bool)
    (start : Nat → Nat) (l : List Seq) :
    (simplify hs avoid start l).Pairwise (fun x y =>
      (containsAvoidInsert avoid x = true → containsAvoidInsert avoid y = true) ∧
      (containsAvoidInsert avoid x = containsAvoidInsert avoid y → x.length ≤ y.length) ∧
      seqLe avoid start x y = true) ∧
    ((∀ i j, start i = start j → i = j) ∨ (∃ la, ∀ s ∈ l, WellLexed la s = true) →
      (∀ (hs' : List Seq → List Seq) (l' : List Seq), HashSetLike hs' →
        (∀ x, x ∈ l'.map stripTrailing ↔ x ∈ l.map stripTrailing) →
        simplify hs' avoid start l' = simplify hs avoid start l) ∧
      (∀ (hs' : List Seq → List Seq) (l' : List Seq), HashSetLike hs' → l'.Perm l →
        simplify hs' avoid start l' = simplify hs avoid start l) ∧
      (∀ out : List Seq, out.Perm (hs (l.map stripTrailing)) →
        out.Pairwise (fun x y => seqLe avoid start x y = true) → out = simplify hs avoid start l)) := by
  refine ⟨?_, ?_⟩
  · refine (simplify_sorted hs avoid start l).imp ?_
    intro x y hxy
    exact ⟨(seqLe_documented hxy).1, (seqLe_documented hxy).2, hxy⟩
  · intro hyp
    have hanti : ∀ a b, a ∈ l.map stripTrailing → b ∈ l.map stripTrailing →
        cmpSeq avoid start a b = .eq → a = b := by
      intro a b ha hb hab
      rcases hyp with hinj | ⟨la, hwl⟩
      · exact cmpSeq_eq_eq hinj hab
      · obtain ⟨sa, hsa, rfl⟩ := List.mem_map.mp ha
        obtain ⟨sb, hsb, rfl⟩ := List.mem_map.mp hb
        exact cmpSeq_eq_eq_of_wellLexed (wellLexed_stripTrailing (hwl sa hsa))
          (wellLexed_stripTrailing (hwl sb hsb)) hab
    have hset : ∀ (hs' : List Seq → List Seq) (l' : List Seq), HashSetLike hs' →
        (∀ x, x ∈ l'.map stripTrailing ↔ x ∈ l.map stripTrailing) →
        simplify hs' avoid start l' = simplify hs avoid start l := by
      intro hs' l' h' hset
      exact (simplify_eq_of_antisymm h h' (fun x => (hset x).symm) hanti).symm
    refine ⟨hset, ?_, ?_⟩
    · intro hs' l' h' hp
      exact hset hs' l' h' (fun x => (hp.map stripTrailing).mem_iff)
    · intro out hp hsorted
      refine List.Perm.eq_of_pairwise ?_ hsorted (simplify_sorted hs avoid start l)
        (hp.trans (simplify_perm hs avoid start l).symm)
      intro a b ha hb hab hba
      have ha' : a ∈ l.map stripTrailing := (h _).2 a |>.mp (hp.mem_iff.mp ha)
      have hb' : b ∈ l.map stripTrailing :=
        (h _).2 b |>.mp ((simplify_perm hs avoid start l).mem_iff.mp hb)
      exact hanti a b ha' hb' (Std.OrientedCmp.isLE_antisymm (cmp := cmpSeq avoid start) hab hba)

/-- **A reported list is a fixed point** (the per-error tie of the check): stripping, deduplicating
and sorting a list that `simplify_repairs` produced gives the list back, in the same order. -/
theorem simplify_fixed_point (hs : List Seq → List Seq) (h : HashSetLike hs) (avoid : Nat → Bool)
    (start : Nat → Nat) (l : List Seq) :
    simplify dedup avoid start (simplify hs avoid start l) = simplify hs avoid start l := by
  have h1 : (simplify hs avoid start l).map stripTrailing = simplify hs avoid start l :=
    map_stripTrailing_of_no_trailing (simplify_no_trailing_shift hs h avoid start l)
  have h2 : dedup (simplify hs avoid start l) = simplify hs avoid start l :=
    dedup_of_nodup (simplify_nodup hs h avoid start l)
  show sortSeqs avoid start (dedup ((simplify hs avoid start l).map stripTrailing)) = _
  rw [h1, h2]
  exact sortSeqs_of_pairwise (simplify_sorted hs avoid start l)

/-- the whole tail of `CPCTPlus::recover`: what is reported is `simplify_repairs` of what
`rank_cnds` kept -/
theorem postProcess_eq (hs : List Seq → List Seq) (h : HashSetLike hs) (avoid : Nat → Bool)
    (lexStart : Nat → Nat) (G : Grammar) (A : Automaton) (w : List Nat) (win : Nat) (start : Pos)
    (cnds : List (List Seq)) (out : List Seq)
    (hp : postProcess hs avoid lexStart G A w win start cnds = some out) :
    ∃ kept, rankCnds G A w win start cnds = some kept ∧ out = simplify hs avoid lexStart kept := by
  unfold postProcess at hp
  cases hr : rankCnds G A w win start cnds with
  | none => rw [hr] at hp; cases hp
  | some kept =>
    rw [hr] at hp
    simp only at hp
    refine ⟨kept, rfl, ?_⟩
    by_cases he : kept.isEmpty = true
    · rw [if_pos he] at hp
      simp only [Option.some.injEq] at hp
      rw [List.isEmpty_iff] at he
      subst he
      have : hs [] = [] := by
        cases hh : hs [] with
        | nil => rfl
        | cons a as =>
          have := ((h []).2 a).mp (by rw [hh]; exact List.mem_cons_self)
          cases this
      rw [← hp]
      simp [simplify, sortSeqs, this]
    · rw [if_neg he] at hp
      simp only [Option.some.injEq] at hp
      exact hp.symm

/-! ## The search: `dijkstra` with node merging, `collect_repairs` -/

open SearchImpl

/-- **(a) Soundness of the modelled search.** Hypotheses (`Hyps`): every token costs at least 1
(`parse_actions` asserts `token_cost(tidx) > 0`); the table never shifts the end-of-input token (true
of every table `StateTable::new` builds); the error position is inside the input; `state_actions(st)`
lists exactly the tokens whose action in `st` is not Error (`C16.state_actions_spec`); the error
configuration is not itself a success (`recover` is called when the action on the next token is
Error). No hypothesis on `u16` overflow is needed: a neighbour whose cost is not representable is
dropped, and every statement below is about costs the search did represent. If the model of
`dijkstra` ends properly (`.ok res`: enough fuel, no panic) then ALL returned nodes have the same cost
`c` — the bucket at which the search stopped —, and every sequence `collect_repairs` expands from
them (`traverse`) is a sequence of the declarative search relation `Rec.Search` of cost exactly `c`:
by `search_sequence_valid` it applies from the error configuration with plain LR semantics, costs
`c`, never inserts end-of-input and ends in a success configuration. -/
theorem search_sound (E : Env) (start : Pos) (H : Hyps E start) (fuel : Nat) (res : List PNode)
    (h : dijkstra E fuel start = .ok res) :
    ∃ c, c ≤ U16MAX ∧ (∀ m ∈ res, m.cf = c) ∧
      ∀ m ∈ res, ∀ s ∈ traverse m.repairs, Search E.G E.A E.w E.cost E.N ⟨start, [], 0⟩ c s := by
  by_cases hne : res = []
  · subst hne
    exact ⟨0, Nat.zero_le _, fun m hm => (by cases hm), fun m hm => (by cases hm)⟩
  · obtain ⟨c, hf⟩ := found_of_dijkstra H h hne
    exact ⟨c, hf.bound, hf.cost, hf.sound⟩

/-- **(b) Minimality.** Under the hypotheses of `search_sound`: no repair sequence of the declarative
search has a cost below the cost of a returned node. -/
theorem search_minimal (E : Env) (start : Pos) (H : Hyps E start) (fuel : Nat) (res : List PNode)
    (h : dijkstra E fuel start = .ok res) :
    ∀ m ∈ res, ∀ c', c' < m.cf → ∀ seq, ¬ Search E.G E.A E.w E.cost E.N ⟨start, [], 0⟩ c' seq := by
  intro m hm c' hc' seq
  have hne : res ≠ [] := by intro e; rw [e] at hm; cases hm
  obtain ⟨c, hf⟩ := found_of_dijkstra H h hne
  rw [hf.cost m hm] at hc'
  exact hf.minimal c' hc' seq

/-- **(c) Completeness: merging loses nothing.** Under the hypotheses of `search_sound`: every repair
sequence of the declarative search whose cost is the cost of the returned nodes occurs in the
expansion of some returned node. The proof (`Lemmas/SearchImpl3–5.lean`) rests on: nodes that
`PathFNode::eq` identifies have the same stack, position, number of trailing shifts and "last repair
is a Delete" flag, so every edge of the search graph out of one plain sequence of a (merged) node is
an edge out of all of them and appears among the node's neighbours (`neighbours_complete_step`); the
merge closure makes the kept chain stand for the union of both sets of sequences
(`mergeRepairs_spec`, `upsert_spec`); a node pushed after a compatible one was popped simply becomes a
new entry and is explored again; and the second loop, which follows Shifts of the same cost only,
misses nothing because Inserts and Deletes cost at least 1 (`expand_tracks`). -/
theorem search_complete (E : Env) (start : Pos) (H : Hyps E start) (fuel : Nat) (res : List PNode)
    (h : dijkstra E fuel start = .ok res) :
    ∀ m ∈ res, ∀ seq, Search E.G E.A E.w E.cost E.N ⟨start, [], 0⟩ m.cf seq →
      ∃ m' ∈ res, seq ∈ traverse m'.repairs := by
  intro m hm seq hs
  have hne : res ≠ [] := by intro e; rw [e] at hm; cases hm
  obtain ⟨c, hf⟩ := found_of_dijkstra H h hne
  rw [hf.cost m hm] at hs
  exact hf.complete seq hs

/-- **Nodes that `PathFNode::eq` identifies have the same continuations** (the fact that makes merging
sound). For any two search nodes that `PathFNode::eq` regards as equal (same stack, same position,
both-or-neither last repair a Delete, the same number of trailing Shifts) and that cost the same (as
two nodes of one bucket do): the `success` closure answers the same for both, and the `neighbours`
closure produces for both — in the same order, with either value of `explore_all` — neighbours with
the same cost, stack and position, made by appending the same repair to the node's own chain (or
keeping the chain, for the accept-after-reductions node); it panics or runs out of fuel for both or
for neither. Hence whatever suffix leads one of them to a success node at some extra cost leads the
other there too. -/
theorem compatible_same_continuations (E : Env) (a b : PNode) (hc : compat a b = true)
    (hcf : a.cf = b.cf) (exploreAll : Bool) :
    success E a = success E b ∧
      outShape a.repairs (neighbours E exploreAll a) = outShape b.repairs (neighbours E exploreAll b) :=
  compat_same_continuations hc hcf exploreAll

/-- **Merging makes the kept node stand for both nodes.** When the merge closure of `recover` merges
the chain `new` into the chain `old` (neither containing the bare `Terminator` as an alternative, `new`
not being it), `collect_repairs` expands from the result exactly the sequences it would have expanded
from `old` together with those from `new`; the result is again free of bare `Terminator`
alternatives. (The search only ever merges such chains: `upsert_spec`, `term_of_compat`.) -/
theorem merge_is_union (old new r : RTree) (h : mergeRepairs old new = some r)
    (ho : okT old = true) (hn : okT new = true) (hnt : isTerm new = false) :
    okT r = true ∧ isTerm r = false ∧
      ∀ s, s ∈ traverse r ↔ s ∈ traverse old ∨ s ∈ traverse new := by
  obtain ⟨_, _, m3, m4, m5⟩ := mergeRepairs_spec h
  have hot : isTerm old = false := by
    cases old with
    | term =>
      unfold mergeRepairs at h
      by_cases hb : RTree.beq .term new = true
      · have := beq_eq _ _ hb
        subst this
        simp [isTerm] at hnt
      · rw [if_neg hb] at h; cases h
    | rep p r0 => rfl
    | merge p r0 v => rfl
  have hr : okT r = true := m4 ho hn (fun e => by rw [hnt] at e; cases e)
  refine ⟨hr, by rw [m5, hot], ?_⟩
  intro s
  rw [traverse_eq r hr, traverse_eq old ho, traverse_eq new hn, m5, hot, hnt]
  simp only [Bool.false_eq_true, ↓reduceIte]
  exact m3 s

/-- **No nodes only if no repair of representable cost exists.** Under the hypotheses of
`search_sound`: if the search returns no node (`return Vec::new()`: it ran out of buckets or of
representable costs) then no repair sequence of cost `≤ u16::MAX` exists. -/
theorem search_none (E : Env) (start : Pos) (H : Hyps E start) (fuel : Nat)
    (h : dijkstra E fuel start = .ok []) :
    ∀ c, c ≤ U16MAX → ∀ seq, ¬ Search E.G E.A E.w E.cost E.N ⟨start, [], 0⟩ c seq :=
  none_of_dijkstra H h

/-- **(d) The modelled search computes the reference set — for every cost.** Under the hypotheses of
`search_sound`: if the search returns nodes, their common cost `c` and the union of their expansions
are exactly what the verified reference enumeration `minCostRepairs` answers for ANY cap `≥ c`; every
returned node contributes at least one sequence. -/
theorem search_eq_reference (E : Env) (start : Pos) (H : Hyps E start) (fuel : Nat) (res : List PNode)
    (h : dijkstra E fuel start = .ok res) (hne : res ≠ []) :
    ∃ c, (∀ m ∈ res, m.cf = c ∧ traverse m.repairs ≠ []) ∧ ∀ cap, c ≤ cap →
      ∃ rs, minCostRepairs E.G E.A E.w E.cost E.N start cap = some (c, rs) ∧
        ∀ seq, seq ∈ rs ↔ ∃ m ∈ res, seq ∈ traverse m.repairs := by
  obtain ⟨c, hf⟩ := found_of_dijkstra H h hne
  exact ⟨c, fun m hm => ⟨hf.cost m hm, hf.nonempty m hm⟩, fun cap hcap => reference_of_found hf hne cap hcap⟩

/-- **(d) The whole modelled `recover` reports the reference answer — for every cost, no cap.**
Under the hypotheses of `search_sound`, for any `HashSet` order `hs`, and when every candidate sequence
ends inside the window `rank_cnds` parses on in (`WithinWindow`; e.g. `withinWindow_of_short`: the input
ends inside it): if `recoverImpl` (search with node merging, `collect_repairs`, `rank_cnds`,
`simplify_repairs`) ends properly with the list `out`, then
* `out` is empty only if no repair sequence of representable cost exists;
* otherwise, for the cost `c` of the search and ANY cap `≥ c`, the reference `refRepairs` answers `c`
  with a set `rs` that is exactly the set of the reported sequences (lexemes forgotten), and every
  reported sequence names the input's lexemes from the error position on, in order — so it is
  determined by its image in `rs`.
`rank_cnds` replays only the first sequence of every group: that is enough because all sequences of a
returned (possibly merged) node let parsing continue equally far (`distance_of_resOK`). The order of
`out` is described by `simplify_ranked`, its lack of duplicates by `simplify_nodup`. -/
theorem recover_eq_reference (E : Env) (start : Pos) (H : Hyps E start) (hs : List Seq → List Seq)
    (hhs : HashSetLike hs) (avoid : Nat → Bool) (lexStart : Nat → Nat) (win : Nat)
    (hwin : WithinWindow E start win) (fuel : Nat) (c' : Pos) (out : List Seq)
    (h : recoverImpl E hs avoid lexStart win fuel start = .ok (c', out)) :
    (out = [] → ∀ c, c ≤ U16MAX → ∀ seq, ¬ Search E.G E.A E.w E.cost E.N ⟨start, [], 0⟩ c seq) ∧
    (out ≠ [] → ∃ c, ∀ cap, c ≤ cap →
      ∃ rs, refRepairs E.G E.A E.w E.cost E.N win start cap = some (c, rs) ∧
        (∀ r, r ∈ rs ↔ ∃ s ∈ out, s.map PRepair.erase = r) ∧
        ∀ s ∈ out, WellLexed start.pos s = true) := by
  unfold recoverImpl at h
  cases hd : dijkstra E fuel start with
  | panic => rw [hd] at h; cases h
  | fuelOut => rw [hd] at h; cases h
  | ok res =>
    rw [hd] at h
    simp only at h
    cases res with
    | nil =>
      simp only [recoverTail, Out.ok.injEq, Prod.mk.injEq] at h
      obtain ⟨_, rfl⟩ := h
      exact ⟨fun _ => search_none E start H fuel hd, fun hne => absurd rfl hne⟩
    | cons cnd cnds =>
      have hne : cnd :: cnds ≠ [] := by simp
      obtain ⟨c, hf⟩ := found_of_dijkstra H hd hne
      simp only [recoverTail] at h
      cases hrkO : rankCndsO E.G E.A E.w win start (collectRepairs start.pos (cnd :: cnds)) with
      | panic => rw [hrkO] at h; cases h
      | fuelOut => rw [hrkO] at h; cases h
      | ok kept =>
        have hrk := rankCnds_of_O hrkO
        rw [hrkO] at h
        simp only at h
        obtain ⟨hall, _, hmem⟩ := rank_keeps_furthest E.G E.A E.w win start _ kept hrk
        rw [collectRepairs_eq] at hall hmem
        -- the distance `rank_cnds` measures for the group of a node
        have hreach : ∀ m ∈ cnd :: cnds,
            reachD E.G E.A E.w win start (groupOf start m) = nodeDist E start win m := by
          intro m hm
          obtain ⟨d, hd'⟩ := hall (groupOf start m) (List.mem_map.mpr ⟨m, hm, rfl⟩)
          exact reachD_group H hwin hf hm hd'
        have hkept : ∀ s, s ∈ kept ↔ ∃ m ∈ cnd :: cnds, (∃ seq ∈ traverse m.repairs, s = attach start.pos seq) ∧
            ∀ m' ∈ cnd :: cnds, nodeDist E start win m' ≤ nodeDist E start win m := by
          intro s
          rw [hmem s]
          constructor
          · rintro ⟨g, hg, hsg, hmax⟩
            obtain ⟨m, hm, rfl⟩ := List.mem_map.mp hg
            obtain ⟨seq, hseq, rfl⟩ := List.mem_map.mp hsg
            refine ⟨m, hm, ⟨seq, hseq, rfl⟩, ?_⟩
            intro m' hm'
            have := hmax (groupOf start m') (List.mem_map.mpr ⟨m', hm', rfl⟩)
            rw [hreach m hm, hreach m' hm'] at this
            exact this
          · rintro ⟨m, hm, ⟨seq, hseq, rfl⟩, hmax⟩
            refine ⟨groupOf start m, List.mem_map.mpr ⟨m, hm, rfl⟩, List.mem_map.mpr ⟨seq, hseq, rfl⟩, ?_⟩
            intro g' hg'
            obtain ⟨m', hm', rfl⟩ := List.mem_map.mp hg'
            rw [hreach m hm, hreach m' hm']
            exact hmax m' hm'
        -- something is kept
        have hkne : kept.isEmpty = false := by
          obtain ⟨m, hm, hmax⟩ := exists_max (nodeDist E start win) (cnd :: cnds) hne
          obtain ⟨s0, hs0⟩ := List.exists_mem_of_ne_nil _ (hf.nonempty m hm)
          have : attach start.pos s0 ∈ kept := (hkept _).mpr ⟨m, hm, ⟨s0, hs0, rfl⟩, hmax⟩
          cases hk : kept with
          | nil => rw [hk] at this; cases this
          | cons a as => rfl
        rw [hkne] at h
        simp only [Bool.false_eq_true, ↓reduceIte] at h
        cases hsim : simplify hs avoid lexStart kept with
        | nil => rw [hsim] at h; cases h
        | cons s0 rest =>
          rw [hsim] at h
          simp only at h
          cases hapO : applyRepairsO E.G E.A E.w start s0 with
          | panic => rw [hapO] at h; cases h
          | fuelOut => rw [hapO] at h; cases h
          | ok cfin =>
            rw [hapO] at h
            simp only [Out.ok.injEq, Prod.mk.injEq] at h
            obtain ⟨_, hout⟩ := h
            have hmo : ∀ x, x ∈ out ↔ ∃ s ∈ kept, stripTrailing s = x := by
              intro x
              rw [← hout, ← hsim]
              exact mem_simplify hhs avoid lexStart kept x
            refine ⟨fun e => (by rw [← hout] at e; cases e), fun _ => ⟨c, ?_⟩⟩
            intro cap hcap
            obtain ⟨rs0, hmc, hrs⟩ := reference_of_found hf hne cap hcap
            -- distances of the reference sequences
            have hdist : ∀ m ∈ cnd :: cnds, ∀ seq ∈ traverse m.repairs,
                distance E.G E.A E.w win start seq = nodeDist E start win m := by
              intro m hm seq hseq
              rw [traverse_of_resOK H (hf.resOK m hm)] at hseq
              exact (distance_of_resOK (hf.resOK m hm) hseq).1
            have hfar : ∀ m ∈ cnd :: cnds,
                (nodeDist E start win m = (rs0.map (distance E.G E.A E.w win start)).foldl max 0 ↔
                  ∀ m' ∈ cnd :: cnds, nodeDist E start win m' ≤ nodeDist E start win m) := by
              intro m hm
              obtain ⟨sm, hsm⟩ := List.exists_mem_of_ne_nil _ (hf.nonempty m hm)
              have hsm0 : sm ∈ rs0 := (hrs sm).mpr ⟨m, hm, hsm⟩
              have hge : nodeDist E start win m ≤ (rs0.map (distance E.G E.A E.w win start)).foldl max 0 := by
                rw [← hdist m hm sm hsm]
                exact foldl_max_ge _ 0 _ (List.mem_map.mpr ⟨sm, hsm0, rfl⟩)
              constructor
              · intro e m' hm'
                obtain ⟨s', hs'⟩ := List.exists_mem_of_ne_nil _ (hf.nonempty m' hm')
                rw [e, ← hdist m' hm' s' hs']
                exact foldl_max_ge _ 0 _ (List.mem_map.mpr ⟨s', (hrs s').mpr ⟨m', hm', hs'⟩, rfl⟩)
              · intro hmax
                refine Nat.le_antisymm hge ?_
                refine foldl_max_le _ 0 _ (Nat.zero_le _) ?_
                intro x hx
                obtain ⟨s', hs', rfl⟩ := List.mem_map.mp hx
                obtain ⟨m', hm', hs''⟩ := (hrs s').mp hs'
                rw [hdist m' hm' s' hs'']
                exact hmax m' hm'
            simp only [refRepairs, hmc]
            refine ⟨_, rfl, ?_, ?_⟩
            · intro r
              rw [Rec.mem_dedup]
              simp only [List.mem_map, List.mem_filter, beq_iff_eq]
              constructor
              · rintro ⟨seq, ⟨hseq, hd'⟩, rfl⟩
                obtain ⟨m, hm, hsm⟩ := (hrs seq).mp hseq
                have hmax := (hfar m hm).mp (by rw [← hdist m hm seq hsm]; exact hd')
                refine ⟨stripTrailing (attach start.pos seq), (hmo _).mpr ⟨_, (hkept _).mpr ⟨m, hm, ⟨seq, hsm, rfl⟩, hmax⟩, rfl⟩, ?_⟩
                rw [map_erase_stripTrailing, erase_map_attach]
              · rintro ⟨s, hso, rfl⟩
                obtain ⟨s1, hs1, rfl⟩ := (hmo s).mp hso
                obtain ⟨m, hm, ⟨seq, hseq, rfl⟩, hmax⟩ := (hkept s1).mp hs1
                refine ⟨seq, ⟨(hrs seq).mpr ⟨m, hm, hseq⟩, ?_⟩, ?_⟩
                · rw [hdist m hm seq hseq]; exact (hfar m hm).mpr hmax
                · rw [map_erase_stripTrailing, erase_map_attach]
            · intro s hso
              obtain ⟨s1, hs1, rfl⟩ := (hmo s).mp hso
              obtain ⟨m, hm, ⟨seq, hseq, rfl⟩, _⟩ := (hkept s1).mp hs1
              exact wellLexed_stripTrailing (wellLexed_attach _ _)

/-- **The hypotheses of the search theorems are decidable** (and the driver evaluates them for every
reported error): if every token costs at least 1 and the Boolean `checkHyps` holds — no state shifts
end-of-input, `state_actions` of every state lists exactly the tokens with a non-Error action, the
error position is inside the input, the error configuration is not a success — then `Hyps` holds. -/
theorem hyps_decidable (E : Env) (start : Pos) (hcost : ∀ t, 1 ≤ E.cost t)
    (h : checkHyps E start = true) : Hyps E start :=
  hyps_of_check hcost h

/-! ## Capstone: the modelled recoverer inside the recovering parser

`Cpct.cpctRecover` (`Model/Cpct.lean`) is `recoverImpl` seen through the interface of the recovering
driver `Rec.recRun`; `Cpct.recCalls` lists the configurations at which the driver consults it during a
run. -/

open Cpct

/-- **A minimum-cost search sequence still repairs after its trailing Shifts are stripped**
(`validSeq_stripShifts`). For every table, input, cost function, `N` and configuration `c`: if `seq` is
a sequence of the declarative search from `c` (any cost), then `stripShifts seq` — what
`simplify_repairs` reports for it — applies from `c` with plain LR semantics, satisfies
`validSeq … N` (the plain parse that follows performs the stripped Shifts itself and then has made `N`
Shifts or accepts), and inserts only tokens of the grammar other than end-of-input. No hypothesis. -/
theorem stripped_search_sequence_repairs (G : Grammar) (A : Automaton) (w : List Nat) (cost : Nat → Nat)
    (N : Nat) (c : Pos) (k : Nat) (seq : List Repair) (h : Search G A w cost N ⟨c, [], 0⟩ k seq) :
    validSeq G A w N c (stripShifts seq) = true ∧
    (∃ c1, applySeq G A w c (stripShifts seq) = some c1) ∧
    (∀ t, Repair.insert t ∈ stripShifts seq → t < G.ntoks ∧ t ≠ G.eof) :=
  search_stripped_valid h

/-- **Capstone: at every error of a run of the modelled recovering parser, what is reported is the
reference answer for the configuration the run is in.** On a table with `Cpct.TableOK` (costs ≥ 1, no
shift of end-of-input, `state_actions` exact, `PARSE_AT_LEAST ≥ 1`), for every `HashSet` order,
`%avoid_insert` set, lexeme offsets, window, search budget, driver fuel and start within the input:
(1) the errors the run appends are, in order, the calls of the recoverer: position of the call, and
    what `cpctRecover` reported there (`recCalls`, `errOf`);
(2) every call is made at a configuration whose top state refuses the next lexeme, inside the input
    (`errCfg`), so the hypotheses `Hyps` of the search theorems hold there — they are not assumed;
(3) if the search of a call ended properly with nothing to report (`cpctOutcome = noRepair`) then no
    repair sequence of representable cost exists at that configuration (no window hypothesis:
    `rank_cnds` always keeps a group);
(4) at every call whose candidates all end inside the `TRY_PARSE_AT_MOST` window (`WithinWindow`, the
    hypothesis of `recover_eq_reference`, carried explicitly; it holds e.g. when the input ends inside
    the window, `withinWindow_of_short`): if sequences are reported, there is a cost `k` such that for
    every cap `≥ k` the reference `refRepairs` of THAT configuration answers `k` with exactly the
    reported set. -/
theorem cpct_reports_minimum_cost_repairs_at_every_error (E : Env) (hT : TableOK E)
    (hs : List Seq → List Seq) (hhs : HashSetLike hs) (avoid : Nat → Bool) (lexStart : Nat → Nat)
    (win sfuel : Nat) (fuel : Nat) (c0 : Pos) (hc0 : c0.pos ≤ E.w.length) (errs : List Err) :
    (recRun E.G E.A E.w (cpctRecover E hs avoid lexStart win sfuel) fuel c0 errs).2 =
      errs ++ (recCalls E.G E.A E.w (cpctRecover E hs avoid lexStart win sfuel) fuel c0).map
        (errOf (cpctRecover E hs avoid lexStart win sfuel)) ∧
    ∀ c ∈ recCalls E.G E.A E.w (cpctRecover E hs avoid lexStart win sfuel) fuel c0,
      errCfg E.G E.A E.w c = true ∧
      (cpctOutcome E hs avoid lexStart win sfuel c = .noRepair →
        ∀ k, k ≤ U16MAX → ∀ seq, ¬ Search E.G E.A E.w E.cost E.N ⟨c, [], 0⟩ k seq) ∧
      (WithinWindow E c win →
        ∀ c' rs, cpctRecover E hs avoid lexStart win sfuel c = some (c', rs) →
          ∃ k, ∀ cap, k ≤ cap → ∃ ref, refRepairs E.G E.A E.w E.cost E.N win c cap = some (k, ref) ∧
            ∀ r, r ∈ ref ↔ r ∈ rs) := by
  refine ⟨recRun_eq_calls _ _ _ _ fuel c0 errs, ?_⟩
  intro c hc
  have he := recCalls_cpct_errCfg hT hhs fuel c0 hc0 c hc
  have H := hyps_of_errCfg hT he
  refine ⟨he, ?_, fun hwin => ?_⟩
  · intro ho
    unfold cpctOutcome at ho
    cases hri : recoverImpl E hs avoid lexStart win sfuel c with
    | panic => rw [hri] at ho; cases ho
    | fuelOut => rw [hri] at ho; cases ho
    | ok x =>
      obtain ⟨c', out⟩ := x
      rw [hri] at ho
      simp only at ho
      by_cases hemp : out.isEmpty = true
      · have : out = [] := by simpa using hemp
        subst this
        exact search_none E c H sfuel (noRepair_dijkstra_nil hhs H hri)
      · rw [if_neg hemp] at ho; cases ho
  · intro c' rs h
    obtain ⟨out, hri, hne, rfl⟩ := cpct_some_unpack h
    obtain ⟨k, hk⟩ := (recover_eq_reference E c H hs hhs avoid lexStart win hwin sfuel c' out hri).2 hne
    refine ⟨k, fun cap hcap => ?_⟩
    obtain ⟨ref, h1, h2, _⟩ := hk cap hcap
    refine ⟨ref, h1, fun r => ?_⟩
    rw [h2 r]
    simp only [eraseAll, List.mem_map]

/-- **The same without the window hypothesis, for inputs that end inside the window.** If the input is
no longer than `TRY_PARSE_AT_MOST` (`|w| ≤ win`; decidable, and what the driver counts per error as
`errors_within_the_window_hypothesis` is the weaker `|w| ≤ pos + win`), every call of the recoverer in a
run of the modelled recovering parser reports exactly the reference set of the configuration the run is
in, or — when the search ended properly with nothing to report — no repair of representable cost exists
there. Hypotheses on the table and the costs only (`TableOK`). -/
theorem cpct_reports_minimum_cost_repairs_at_every_error_of_short_input (E : Env) (hT : TableOK E)
    (hs : List Seq → List Seq) (hhs : HashSetLike hs) (avoid : Nat → Bool) (lexStart : Nat → Nat)
    (win sfuel : Nat) (hshort : E.w.length ≤ win) (fuel : Nat) (c0 : Pos) (hc0 : c0.pos ≤ E.w.length) :
    ∀ c ∈ recCalls E.G E.A E.w (cpctRecover E hs avoid lexStart win sfuel) fuel c0,
      (∀ c' rs, cpctRecover E hs avoid lexStart win sfuel c = some (c', rs) →
        ∃ k, ∀ cap, k ≤ cap → ∃ ref, refRepairs E.G E.A E.w E.cost E.N win c cap = some (k, ref) ∧
          ∀ r, r ∈ ref ↔ r ∈ rs) ∧
      (cpctOutcome E hs avoid lexStart win sfuel c = .noRepair →
        ∀ k, k ≤ U16MAX → ∀ seq, ¬ Search E.G E.A E.w E.cost E.N ⟨c, [], 0⟩ k seq) := by
  intro c hc
  obtain ⟨he, hno, h⟩ := (cpct_reports_minimum_cost_repairs_at_every_error E hT hs hhs avoid lexStart win sfuel
    fuel c0 hc0 []).2 c hc
  have hpos : c.pos ≤ E.w.length := by
    simp only [errCfg, Bool.and_eq_true, decide_eq_true_eq] at he
    exact he.1
  exact ⟨h (withinWindow_of_short hpos (by omega)), hno⟩

/-! ## Panic-freedom of the modelled recoverer

Every place of `CPCTPlus::recover` that can panic is an explicit `.panic` of the model: `unwrap` of a
goto / of the top of an empty stack in `lr_cactus`/`lr_upto` (`feed … = .crash`), `*n.pstack.val().unwrap()`
in `success`/`insert`, `state_actions(st)` of a state that does not exist, `next_lexeme` past the end in
`insert`/`apply_repairs`, `unreachable!()` in the merge closure, `todo[..]` out of range, `rpr_seqs[0]` in
`rank_cnds`, `rnk_rprs[0]` in `recover`. The model's OWN fuels are a different result, `.fuelOut`: the
loop fuel of the search, and the constant `FUEL` of `feed` (one run of reductions under one lookahead),
in the search and — through `rankCndsO`/`applyRepairsO`, the refinements of `rankCnds`/`applyRepairs`
that keep a crash of `lr_upto` apart from exhausted `FUEL` — in the post-processing. -/

/-- **The refinement of the post-processing model agrees with the model the earlier theorems are about.**
`rankCndsO`, `applyRepairsO`, `lrUptoO` (what `recoverTail` runs) answer `.ok x` exactly when `rankCnds`,
`applyRepairs`, `lrUpto` answer `some x`; where the latter answer `none` the former say WHY: `.panic` (a
crash of `lr_upto`, `rpr_seqs[0]` on an empty group, `next_lexeme` past the end) or `.fuelOut` (the
model's fuel). For every table, input, window, configuration and list of groups. -/
theorem postprocessing_refinement_agrees (G : Grammar) (A : Automaton) (w : List Nat) (win : Nat)
    (start : Pos) (cnds : List (List Seq)) (seq : Seq) (endIdx fuel : Nat) :
    (rankCndsO G A w win start cnds).toOption = rankCnds G A w win start cnds ∧
    (applyRepairsO G A w start seq).toOption = applyRepairs G A w start seq ∧
    (lrUptoO G A w endIdx fuel start).toOption = lrUpto G A w endIdx fuel start :=
  ⟨rankCndsO_toOption G A w win start cnds, applyRepairsO_toOption G A w seq start,
    lrUptoO_toOption G A w endIdx fuel start⟩

/-- **The model of `CPCTPlus::recover` never panics.** On an automaton that passes `Cert.check`, with
`state_actions` exact (`stateActionsExactB`, decidable; `C16.state_actions_spec` for tables
`StateTable::new` builds), every token costing at least 1 (asserted by `parse_actions`),
`PARSE_AT_LEAST = E.N ≥ 1` (the constant 3 of the code; with 0 the start node would be a success node
with no repairs and `rank_cnds` WOULD index an empty group), an input of tokens of the grammar other
than end-of-input (what a lexer produces), at every configuration `c` at which `Parser::lr` calls
`recover` (`errCfg`: inside the input, the top state refuses the next lexeme) whose state stack is a
PATH of the automaton from the start state (`Term.IsPath`; true of every configuration of a run:
`recover_never_panics_in_a_run`), for every `HashSet` order (`HashSetLike`), `%avoid_insert` set, lexeme
offsets, window and search fuel:
* the search `dijkstra` does not panic — every node it creates has a path stack and a position inside
  the input (`nodeInv_pathOK`), so `lr_cactus` never unwraps a missing goto, `success`/`insert` see a
  non-empty stack of existing states, `next_lexeme` stays inside the input; `todo[off]`/`todo[c]` are in
  range; the merge closure never reaches `unreachable!()`;
* whatever nodes the search returned, the post-processing `recoverTail` does not panic — `rpr_seqs[0]`
  and `rnk_rprs[0]` exist, `apply_repairs`/`lr_upto` replay sequences that apply, on path stacks;
* hence neither does `recoverImpl`, and `cpctOutcome` is never `panicked`.
No termination hypothesis: the model's fuels (`.fuelOut`) are not panics, see
`recover_answers_or_runs_out_of_model_fuel`. -/
theorem recover_never_panics (E : Env) (hc : Cert.check E.G E.A = true)
    (hsa : stateActionsExactB E.G E.A = true) (hcost : ∀ t, 1 ≤ E.cost t) (hN : 1 ≤ E.N)
    (hw : Cert.InputOk E.G E.w) (c : Pos) (he : errCfg E.G E.A E.w c = true)
    (hp : Term.IsPath E.A c.stack) (hs : List Seq → List Seq) (hhs : HashSetLike hs)
    (avoid : Nat → Bool) (lexStart : Nat → Nat) (win sfuel : Nat) :
    dijkstra E sfuel c ≠ .panic ∧
    (∀ res, dijkstra E sfuel c = .ok res → recoverTail E hs avoid lexStart win c res ≠ .panic) ∧
    recoverImpl E hs avoid lexStart win sfuel c ≠ .panic ∧
    cpctOutcome E hs avoid lexStart win sfuel c ≠ .panicked := by
  have hT := tableOK_of_cert hc hsa hcost hN
  have P := Cert.check_props E.G E.A hc
  have H := hyps_of_errCfg hT he
  refine ⟨dijkstra_ne_panic H P hw hp sfuel, ?_, recoverImpl_ne_panic H P hw hp hhs,
    cpctOutcome_ne_panicked H P hw hp hhs⟩
  intro res hd
  rcases recoverTail_cases (avoid := avoid) (lexStart := lexStart) (win := win) H P hw hp hhs hd with
    ⟨r, h⟩ | ⟨h, _⟩ <;> (rw [h]; intro e; cases e)

/-- **What is left besides a proper answer is the model's fuel, and in the post-processing exactly the
constant `FUEL` of `feed`.** Under the hypotheses of `recover_never_panics`: `recoverImpl` answers
(`.ok`), or it answers `.fuelOut` and then either the search did (`dijkstra … = .fuelOut`: its loop fuel
`sfuel` — the real code: the deadline — or the `FUEL` of a `feed` inside it) or, the search having ended
properly, `Cpct.FeedStuck` holds: there are a token `la` of the grammar and a stack that is a path of the
automaton on which the reductions under `la` are not over after `FUEL` = 2000 steps (a table with a
reduction loop, or one needing more than 2000 reductions under one lookahead; the real code has no such
bound, so the model is silent there — it is not a panic of the real code, which `feed_path` excludes
for every fuel). In particular the `|w| + 2` iterations the model gives the loop of `lr_upto` always
suffice. -/
theorem recover_answers_or_runs_out_of_model_fuel (E : Env) (hc : Cert.check E.G E.A = true)
    (hsa : stateActionsExactB E.G E.A = true) (hcost : ∀ t, 1 ≤ E.cost t) (hN : 1 ≤ E.N)
    (hw : Cert.InputOk E.G E.w) (c : Pos) (he : errCfg E.G E.A E.w c = true)
    (hp : Term.IsPath E.A c.stack) (hs : List Seq → List Seq) (hhs : HashSetLike hs)
    (avoid : Nat → Bool) (lexStart : Nat → Nat) (win sfuel : Nat) :
    ((∃ r, recoverImpl E hs avoid lexStart win sfuel c = .ok r) ∨
      (recoverImpl E hs avoid lexStart win sfuel c = .fuelOut ∧
        (dijkstra E sfuel c = .fuelOut ∨ FeedStuck E.G E.A))) ∧
    (∀ res, dijkstra E sfuel c = .ok res →
      (∃ r, recoverTail E hs avoid lexStart win c res = .ok r) ∨
      (recoverTail E hs avoid lexStart win c res = .fuelOut ∧ FeedStuck E.G E.A)) := by
  have hT := tableOK_of_cert hc hsa hcost hN
  have P := Cert.check_props E.G E.A hc
  have H := hyps_of_errCfg hT he
  exact ⟨recoverImpl_cases H P hw hp hhs, fun res hd => recoverTail_cases H P hw hp hhs hd⟩

/-- **`repair_to_parse_repair` asks `next_lexeme` for lexemes of the input only.** `collect_repairs`
names the lexeme of every Delete and Shift with `next_lexeme(laidx)`, which indexes `lexemes[laidx - 1]`
(a panic) for `laidx > |w|`; the model's `attach` is total. Under the hypotheses `Hyps` of the search
theorems (no certificate needed): if the search ends properly, every Delete and Shift of every sequence
`collect_repairs` produces names a lexeme index `< |w|` — the call is made inside the input. -/
theorem collected_sequences_name_lexemes_of_the_input (E : Env) (start : Pos) (H : Hyps E start)
    (fuel : Nat) (res : List PNode) (h : dijkstra E fuel start = .ok res) :
    ∀ g ∈ collectRepairs start.pos res, ∀ s ∈ g, LexemesIn E.w.length s :=
  collectRepairs_lexemesIn H h

/-- **The hypotheses of `recover_never_panics` are decidable** (and the driver evaluates them at every
error: `errors_where_the_model_of_recover_cannot_panic_by_theorem`): if every token costs at least 1
and the Booleans `noPanicTableB` (the automaton passes `Cert.check`, `state_actions` is exact,
`PARSE_AT_LEAST ≥ 1`) and `noPanicCfgB` (the input consists of real tokens, the configuration is an
error configuration, its stack is a path: `isPathB`) hold, the conclusion of `recover_never_panics`
holds. -/
theorem recover_never_panics_checked (E : Env) (hcost : ∀ t, 1 ≤ E.cost t)
    (ht : noPanicTableB E.G E.A E.N = true) (c : Pos) (hcfg : noPanicCfgB E.G E.A E.w c = true)
    (hs : List Seq → List Seq) (hhs : HashSetLike hs) (avoid : Nat → Bool) (lexStart : Nat → Nat)
    (win sfuel : Nat) :
    dijkstra E sfuel c ≠ .panic ∧
    (∀ res, dijkstra E sfuel c = .ok res → recoverTail E hs avoid lexStart win c res ≠ .panic) ∧
    recoverImpl E hs avoid lexStart win sfuel c ≠ .panic ∧
    cpctOutcome E hs avoid lexStart win sfuel c ≠ .panicked := by
  simp only [noPanicTableB, Bool.and_eq_true, decide_eq_true_eq] at ht
  simp only [noPanicCfgB, Bool.and_eq_true] at hcfg
  obtain ⟨⟨h1, h2⟩, h3⟩ := ht
  obtain ⟨⟨h4, h5⟩, h6⟩ := hcfg
  exact recover_never_panics E h1 h2 hcost h3 (inputOk_of_B h4) c h5 ((isPathB_iff _ _).mp h6) hs hhs
    avoid lexStart win sfuel

/-- **In a run of the modelled recovering parser no call of the recoverer panics.** On an automaton that
passes `Cert.check`, with `stateActionsExactB`, costs ≥ 1, `PARSE_AT_LEAST ≥ 1` and an input of real
tokens, for every `HashSet` order, `%avoid_insert` set, lexeme offsets, window, search budget and driver
fuel, from every start configuration inside the input whose stack is a path (the initial one,
`⟨[start], 0⟩`, is): every configuration at which the driver consults the recoverer (`recCalls`) is an
error configuration (`errCfg`) whose stack is a path of the automaton — the hypotheses of
`recover_never_panics` are INVARIANTS of the run, not assumptions about it (`feed` keeps paths,
`C07.feed_path`; the recoverer hands back the stack `applySeq` of its first sequence leaves, a path,
`C07.applySeq_isPath`) — and there the outcome of the modelled `recover` is never `panicked`. -/
theorem recover_never_panics_in_a_run (E : Env) (hc : Cert.check E.G E.A = true)
    (hsa : stateActionsExactB E.G E.A = true) (hcost : ∀ t, 1 ≤ E.cost t) (hN : 1 ≤ E.N)
    (hw : Cert.InputOk E.G E.w) (hs : List Seq → List Seq) (hhs : HashSetLike hs)
    (avoid : Nat → Bool) (lexStart : Nat → Nat) (win sfuel : Nat) (fuel : Nat) (c0 : Pos)
    (hp0 : Term.IsPath E.A c0.stack) (hc0 : c0.pos ≤ E.w.length) :
    ∀ c ∈ recCalls E.G E.A E.w (cpctRecover E hs avoid lexStart win sfuel) fuel c0,
      errCfg E.G E.A E.w c = true ∧ Term.IsPath E.A c.stack ∧
      cpctOutcome E hs avoid lexStart win sfuel c ≠ .panicked :=
  cpct_calls_never_panic (tableOK_of_cert hc hsa hcost hN) (Cert.check_props E.G E.A hc) hw hhs fuel c0 hp0 hc0

/-- **Capstone without the escape for panics: every error of a run is repaired minimally, or has no
repair, or the budget ran out.** Under the hypotheses of `recover_never_panics_in_a_run`, at every call
`c` of the recoverer in a run of the modelled recovering parser EXACTLY one of three things happened —
there is no fourth case "the model panicked":
* `repaired`: sequences are reported, parsing continues, and — if the candidates end inside the
  `TRY_PARSE_AT_MOST` window (`WithinWindow`, as in `cpct_reports_minimum_cost_repairs_at_every_error`) —
  there is a cost `k` such that for every cap `≥ k` the reference `refRepairs` of THAT configuration
  answers `k` with exactly the reported set;
* `noRepair`: nothing is reported and no repair sequence of representable cost exists there;
* `outOfBudget`: nothing is reported because the model's fuel ran out — the search's (`dijkstra … =
  .fuelOut`; the real code: its deadline) or the `FUEL` of one `feed` on a path stack (`FeedStuck`). -/
theorem cpct_every_error_repaired_minimally_or_no_repair_or_out_of_budget (E : Env)
    (hc : Cert.check E.G E.A = true) (hsa : stateActionsExactB E.G E.A = true)
    (hcost : ∀ t, 1 ≤ E.cost t) (hN : 1 ≤ E.N) (hw : Cert.InputOk E.G E.w)
    (hs : List Seq → List Seq) (hhs : HashSetLike hs) (avoid : Nat → Bool) (lexStart : Nat → Nat)
    (win sfuel : Nat) (fuel : Nat) (c0 : Pos) (hp0 : Term.IsPath E.A c0.stack)
    (hc0 : c0.pos ≤ E.w.length) :
    ∀ c ∈ recCalls E.G E.A E.w (cpctRecover E hs avoid lexStart win sfuel) fuel c0,
      (cpctOutcome E hs avoid lexStart win sfuel c = .repaired ∧
        ∃ c' rs, cpctRecover E hs avoid lexStart win sfuel c = some (c', rs) ∧ rs ≠ [] ∧
          (WithinWindow E c win → ∃ k, ∀ cap, k ≤ cap →
            ∃ ref, refRepairs E.G E.A E.w E.cost E.N win c cap = some (k, ref) ∧ ∀ r, r ∈ ref ↔ r ∈ rs)) ∨
      (cpctOutcome E hs avoid lexStart win sfuel c = .noRepair ∧
        cpctRecover E hs avoid lexStart win sfuel c = none ∧
        ∀ k, k ≤ U16MAX → ∀ seq, ¬ Search E.G E.A E.w E.cost E.N ⟨c, [], 0⟩ k seq) ∨
      (cpctOutcome E hs avoid lexStart win sfuel c = .outOfBudget ∧
        cpctRecover E hs avoid lexStart win sfuel c = none ∧
        (dijkstra E sfuel c = .fuelOut ∨ FeedStuck E.G E.A)) := by
  intro c hcall
  have hT := tableOK_of_cert hc hsa hcost hN
  have P := Cert.check_props E.G E.A hc
  obtain ⟨he, hp, hnp⟩ := cpct_calls_never_panic (avoid := avoid) (lexStart := lexStart) (win := win)
    (fuel := sfuel) hT P hw hhs fuel c0 hp0 hc0 c hcall
  have H := hyps_of_errCfg hT he
  obtain ⟨_, hno, hwin⟩ := (cpct_reports_minimum_cost_repairs_at_every_error E hT hs hhs avoid lexStart win
    sfuel fuel c0 hc0 []).2 c hcall
  cases ho : cpctOutcome E hs avoid lexStart win sfuel c with
  | panicked => exact absurd ho hnp
  | outOfBudget => exact Or.inr (Or.inr ⟨rfl, cpctOutcome_outOfBudget H P hw hp hhs ho⟩)
  | noRepair =>
    refine Or.inr (Or.inl ⟨rfl, ?_, hno ho⟩)
    unfold cpctOutcome at ho
    cases hri : recoverImpl E hs avoid lexStart win sfuel c with
    | panic => rw [hri] at ho; cases ho
    | fuelOut => rw [hri] at ho; cases ho
    | ok x =>
      obtain ⟨c', out⟩ := x
      rw [hri] at ho
      simp only at ho
      by_cases hemp : out.isEmpty = true
      · simp only [cpctRecover, hri, hemp, ↓reduceIte]
      · rw [if_neg hemp] at ho; cases ho
  | repaired =>
    refine Or.inl ⟨rfl, ?_⟩
    unfold cpctOutcome at ho
    cases hri : recoverImpl E hs avoid lexStart win sfuel c with
    | panic => rw [hri] at ho; cases ho
    | fuelOut => rw [hri] at ho; cases ho
    | ok x =>
      obtain ⟨c', out⟩ := x
      rw [hri] at ho
      simp only at ho
      by_cases hemp : out.isEmpty = true
      · rw [if_pos hemp] at ho; cases ho
      · have hrec : cpctRecover E hs avoid lexStart win sfuel c = some (c', eraseAll out) := by
          simp only [cpctRecover, hri, hemp]
          rfl
        refine ⟨c', eraseAll out, hrec, ?_, fun hw' => hwin hw' c' _ hrec⟩
        intro e
        simp only [eraseAll, List.map_eq_nil_iff] at e
        subst e
        simp at hemp

/-! Tests: the hypotheses are satisfiable, the model computes, and the hypothesis of the second part
of `simplify_ranked` is needed. -/
example : HashSetLike dedup := hashSetLike_dedup
example (la : Nat) (rs : List Repair) : WellLexed la (attach la rs) = true := wellLexed_attach la rs
example : ∀ i j : Nat, 3 * i + 1 = 3 * j + 1 → i = j := by omega

/-- `S: 'a' 'b'` (tokens a = 0, b = 1, end-of-input = 2; rules ^ = 0, S = 1; productions
0 = S → a b, 1 = ^ → S) -/
def exG : Grammar := ⟨3, 2, 2, 1, [(1, [.tok 0, .tok 1]), (0, [.rule 1])], [], []⟩
def exSt (actions : List Act) (gotos : List (Option Nat)) : StateD := ⟨[], [], [], actions, gotos, [], [], [], false⟩
def exA : Automaton :=
  ⟨0, [exSt [.shift 1, .error, .error] [none, some 2], exSt [.error, .shift 3, .error] [none, none],
       exSt [.error, .error, .accept] [none, none], exSt [.error, .error, .reduce 0] [none, none]], [], []⟩
example : EofNeverShifted exG exA := by
  intro st s' h
  have : st < 4 ∨ 4 ≤ st := by omega
  rcases this with h4 | h4
  · have : st = 0 ∨ st = 1 ∨ st = 2 ∨ st = 3 := by omega
    rcases this with rfl | rfl | rfl | rfl <;> simp [Automaton.action, exA, exSt, exG] at h
  · have : exA.states[st]? = none := by simp [exA]; omega
    simp [Automaton.action, this] at h
/-- input `a a b`, error at the second `a` (state 1 on top): inserting `b` gets nowhere, deleting the
`a` lets the parse reach the end — only the second group survives -/
example : rankCnds exG exA [0, 0, 1] 250 ⟨[1, 0], 1⟩ [[[.insert 1]], [[.delete 1, .shift 2], [.delete 1]]] =
    some [[.delete 1, .shift 2], [.delete 1]] := by decide
example : rankCnds exG exA [0, 0, 1] 250 ⟨[1, 0], 1⟩ [[[.insert 1]], []] = none := by decide
example : postProcess dedup (fun _ => false) (fun i => 3 * i + 1) exG exA [0, 0, 1] 250 ⟨[1, 0], 1⟩
    [[[.insert 1]], [[.delete 1, .shift 2], [.delete 1]]] = some [[.delete 1]] := by decide
example : simplify dedup (fun t => t == 7) (fun i => 3 * i + 1)
    [[.insert 7, .shift 4], [.delete 4, .shift 5, .shift 6], [.insert 2, .insert 3], [.delete 4],
     [.insert 3, .insert 2], [.insert 1, .shift 4, .shift 5]] =
    [[.insert 1], [.delete 4], [.insert 2, .insert 3], [.insert 3, .insert 2], [.insert 7]] := by decide
example : simplify dedup (fun _ => false) (fun _ => 0) [[.delete 0], [.delete 1]] ≠
    simplify dedup (fun _ => false) (fun _ => 0) [[.delete 1], [.delete 0]] := by decide

/-! Tests for the search theorems: a concrete instance satisfies `Hyps`, the modelled search ends
properly on it, and it merges nodes. -/

/-- `S: T 'd' 'c'; T: 'a' | 'b'` (tokens a b c d = 0 1 2 3, end-of-input = 4; rules ^ S T = 0 1 2;
productions 0 = S → T d c, 1 = T → a, 2 = T → b, 3 = ^ → S) -/
def mG : Grammar := ⟨5, 3, 4, 3, [(1, [.rule 2, .tok 3, .tok 2]), (2, [.tok 0]), (2, [.tok 1]), (0, [.rule 1])], [], []⟩
def mSt (actions : List Act) (gotos : List (Option Nat)) (sa : List Nat) : StateD :=
  ⟨[], [], [], actions, gotos, sa, [], [], false⟩
def mA : Automaton :=
  ⟨0, [mSt [.shift 1, .shift 2, .error, .error, .error] [none, some 3, some 4] [0, 1],
       mSt [.error, .error, .error, .reduce 1, .error] [none, none, none] [3],
       mSt [.error, .error, .error, .reduce 2, .error] [none, none, none] [3],
       mSt [.error, .error, .error, .error, .accept] [none, none, none] [4],
       mSt [.error, .error, .error, .shift 5, .error] [none, none, none] [3],
       mSt [.error, .error, .shift 6, .error, .error] [none, none, none] [2],
       mSt [.error, .error, .error, .error, .reduce 0] [none, none, none] [4]], [], []⟩
def mE : Env := ⟨mG, mA, [2], fun _ => 1, 3⟩
/-- input `c`: the error is at the first lexeme in the start state. The two minimum-cost repairs `Insert b,
Insert d` and `Insert a, Insert d` reach the same stack at the same position: the second node is MERGED
into the first (one returned node, two sequences) -/
example : (match dijkstra mE 100 ⟨[0], 0⟩ with
    | .ok l => l.map (fun (n : PNode) => (n.cf, traverse n.repairs))
    | _ => []) = [(2, [[.insert 1, .insert 3, .shift], [.insert 0, .insert 3, .shift]])] := by decide +kernel

/-- the hypotheses of the search theorems hold of this instance (through the decidable check) -/
example : Hyps mE ⟨[0], 0⟩ := hyps_decidable mE _ (fun _ => Nat.le_refl _) (by decide +kernel)
example : checkHyps mE ⟨[0], 0⟩ = true := by decide +kernel
/-- the window hypothesis of `recover_eq_reference` holds of this instance (the input is shorter than
the window) -/
example : WithinWindow mE ⟨[0], 0⟩ 250 := withinWindow_of_short (by decide) (by decide)
/-- the whole modelled `recover` on this instance: both repairs are reported, trailing Shifts
stripped, in content order; parsing continues after `Insert a, Insert d` -/
example : (match recoverImpl mE dedup (fun _ => false) (fun i => 3 * i + 1) 250 100 ⟨[0], 0⟩ with
    | .ok (c', out) => some (c'.stack, c'.pos, out)
    | _ => none) = some ([5, 4, 0], 0, [[.insert 0, .insert 3], [.insert 1, .insert 3]]) := by decide +kernel
/-- … and it is what the reference answers -/
example : refRepairs mE.G mE.A mE.w mE.cost mE.N 250 ⟨[0], 0⟩ 2 =
    some (2, [[.insert 0, .insert 3], [.insert 1, .insert 3]]) := by decide +kernel

/-- the merge closure on two chains: the result expands to both sequences, the kept node's first -/
example : (mergeRepairs (.rep (.rep .term (.insert 1)) (.insert 3)) (.rep (.rep .term (.insert 0)) (.insert 3))).map
    traverse = some [[.insert 1, .insert 3], [.insert 0, .insert 3]] := by decide


/-! Tests for the capstone (`Lemmas/CpctEx.lean`: the certified merged LALR table with its
`state_actions` view, input `x a d`): the run consults the modelled recoverer once, at the configuration
left by the reduction kept under the refused `d`; the hypotheses hold there; the conclusion is the
evaluated one. -/
example : recCalls C05.exG2 exA3 [0, 2, 4] exRec 10 ⟨[0], 0⟩ = [⟨[4, 2, 0], 2⟩] := by decide +kernel
example : TableOK exE := tableOK_of_check ex3_cost (by decide) (by decide)
example : WithinWindow exE ⟨[4, 2, 0], 2⟩ 250 := withinWindow_of_short (by decide) (by decide)
/-- the conclusion of `cpct_reports_minimum_cost_repairs_at_every_error` at that call, from the theorem:
the reference answers cost 2 with exactly the reported set … -/
example : ∃ k, ∀ cap, k ≤ cap → ∃ ref, refRepairs C05.exG2 exA3 [0, 2, 4] (fun _ => 1) 3 250 ⟨[4, 2, 0], 2⟩ cap = some (k, ref) ∧
    ∀ r, r ∈ ref ↔ r ∈ [[Repair.insert 3, Repair.delete]] :=
  ((cpct_reports_minimum_cost_repairs_at_every_error exE (tableOK_of_check ex3_cost (by decide) (by decide)) dedup
    hashSetLike_dedup (fun _ => false) (fun i => 3 * i + 1) 250 200 10 ⟨[0], 0⟩ (by decide) []).2 ⟨[4, 2, 0], 2⟩
    (by decide +kernel)).2.2 (withinWindow_of_short (by decide) (by decide)) ⟨[9, 4, 2, 0], 3⟩ [[.insert 3, .delete]] (by decide +kernel)
/-- … and by evaluation -/
example : refRepairs C05.exG2 exA3 [0, 2, 4] (fun _ => 1) 3 250 ⟨[4, 2, 0], 2⟩ 2 =
    some (2, [[.insert 3, .delete]]) := by decide +kernel
/-- the full search sequence behind the reported one, and its stripped form -/
example : validSeq C05.exG2 exA3 [0, 2, 4] 3 ⟨[4, 2, 0], 2⟩ (stripShifts [.insert 3, .delete]) = true := by decide

/-! Tests for panic-freedom (`recover_never_panics`): the decidable hypotheses hold of the instance of
`Lemmas/CpctEx.lean` at the error of the input `x a d`; the conclusion from the theorem and by
evaluation; each of the hypotheses "the stack is a path" and `PARSE_AT_LEAST ≥ 1` is needed — without it
the model DOES panic. -/
example : noPanicTableB exE.G exE.A exE.N = true := by decide +kernel
example : noPanicCfgB exE.G exE.A exE.w ⟨[4, 2, 0], 2⟩ = true := by decide +kernel
example : Term.IsPath exA3 [4, 2, 0] := (isPathB_iff _ _).mp (by decide +kernel)
example : cpctOutcome exE dedup (fun _ => false) (fun i => 3 * i + 1) 250 200 ⟨[4, 2, 0], 2⟩ ≠ .panicked :=
  (recover_never_panics_checked exE ex3_cost (by decide +kernel) ⟨[4, 2, 0], 2⟩ (by decide +kernel) dedup
    hashSetLike_dedup (fun _ => false) (fun i => 3 * i + 1) 250 200).2.2.2
example : cpctOutcome exE dedup (fun _ => false) (fun i => 3 * i + 1) 250 200 ⟨[4, 2, 0], 2⟩ = .repaired := by
  decide +kernel
/-- a budget of 3 iterations: out of budget, not a panic -/
example : cpctOutcome exE dedup (fun _ => false) (fun i => 3 * i + 1) 250 3 ⟨[4, 2, 0], 2⟩ = .outOfBudget := by
  decide +kernel
/-- the stack `[4]` is not a path (state 4 is not the start state); the top state refuses the next lexeme
(`errCfg` holds), and the model panics: the reduction the inserted token asks for pops below the stack -/
example : errCfg exE.G exE.A exE.w ⟨[4], 2⟩ = true ∧ isPathB exA3 [4] = false ∧
    cpctOutcome exE dedup (fun _ => false) (fun i => 3 * i + 1) 250 200 ⟨[4], 2⟩ = .panicked := by
  decide +kernel
/-- with `PARSE_AT_LEAST = 0` the start node is a success node without repairs and `rank_cnds` indexes an
empty group: the model panics -/
example : cpctOutcome { exE with N := 0 } dedup (fun _ => false) (fun i => 3 * i + 1) 250 200 ⟨[4, 2, 0], 2⟩ =
    .panicked := by decide +kernel
/-- the whole run on `x a d`: one call of the recoverer, which does not panic — from the theorem -/
example : ∀ c ∈ recCalls C05.exG2 exA3 [0, 2, 4] exRec 10 ⟨[0], 0⟩,
    cpctOutcome exE dedup (fun _ => false) (fun i => 3 * i + 1) 250 200 c ≠ .panicked := fun c hc =>
  (recover_never_panics_in_a_run exE (C05.wholeRunCert_unpack ex3_cert).1 ex3_sa ex3_cost (by decide)
    ex3_inputOk dedup hashSetLike_dedup (fun _ => false) (fun i => 3 * i + 1) 250 200 10 ⟨[0], 0⟩
    (Term.IsPath.start exA3) (by decide) c hc).2.2

end GrmVerif.C06
