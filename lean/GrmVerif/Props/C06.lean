import GrmVerif.Lemmas.Search
import GrmVerif.Lemmas.RankImpl2
/-!
# C06 — repair sequences are the complete minimum-cost set, ranked as documented

Specification: `Rec.Search` (declarative: which complete repair sequences a cost-`k` search from a
configuration yields) and the executable reference `Rec.enumerate` / `Rec.minCostRepairs` /
`Rec.refRepairs` (`Model/Recover.lean`). The theorems say the reference IS the declarative
search, at the minimum cost, complete at that cost. The real recoverer's reported set must equal
`refRepairs` (as a set) for every error within the cost cap, and its order is checked against the
documented ranking.

Post-processing (`Model/RankImpl.lean`, a transcription of `rank_cnds`, `apply_repairs`, `lr_upto`
and `simplify_repairs` of `lrpar/src/lib/cpctplus.rs`): the second half of this file proves, for
EVERY output of `collect_repairs` (a list of groups of sequences), every table, every hasher order
and every `%avoid_insert` set, what the reported list looks like: `rank_keeps_furthest`,
`simplify_no_trailing_shift`, `simplify_nodup`, `simplify_preserves`, `simplify_ranked`.
-/
namespace GrmVerif.C06
open GrmVerif Rec LR

/-- **The reference enumeration is the search relation** (with the fuel the reference uses). -/
theorem enumerate_iff_search (G : Grammar) (A : Automaton) (w : List Nat) (cost : Nat → Nat) (N : Nat)
    (start : Pos) (c : Nat) (seq : List Repair) :
    seq ∈ enumerate G A w cost N (2 * (c + w.length) + 6) c ⟨start, [], 0⟩ ↔
      Search G A w cost N ⟨start, [], 0⟩ c seq := by
  constructor
  · exact enumerate_sound G A w cost N _ c _ seq
  · intro h
    exact enumerate_complete G A w cost N _ c seq h _ (by simp only; omega)

theorem minCostFrom_spec (G : Grammar) (A : Automaton) (w : List Nat) (cost : Nat → Nat) (N : Nat)
    (start : Pos) :
    ∀ (remaining c0 c : Nat) (rs : List (List Repair)),
      minCostFrom G A w cost N start remaining c0 = some (c, rs) →
      c0 ≤ c ∧ rs ≠ [] ∧ (∀ seq, seq ∈ rs ↔ Search G A w cost N ⟨start, [], 0⟩ c seq) ∧
      ∀ c', c0 ≤ c' → c' < c → ∀ seq, ¬ Search G A w cost N ⟨start, [], 0⟩ c' seq := by
  intro remaining
  induction remaining with
  | zero => intro c0 c rs h; simp [minCostFrom] at h
  | succ r ih =>
    intro c0 c rs h
    simp only [minCostFrom] at h
    by_cases he : (enumerate G A w cost N (2 * (c0 + w.length) + 6) c0 ⟨start, [], 0⟩).isEmpty = true
    · rw [if_pos he] at h
      obtain ⟨h1, h2, h3, h4⟩ := ih (c0 + 1) c rs h
      refine ⟨by omega, h2, h3, ?_⟩
      intro c' hc0 hc seq hs
      by_cases heq : c' = c0
      · subst heq
        have := (enumerate_iff_search G A w cost N start c' seq).mpr hs
        rw [List.isEmpty_iff] at he
        rw [he] at this; cases this
      · exact h4 c' (by omega) hc seq hs
    · rw [if_neg he] at h
      simp only [Option.some.injEq, Prod.mk.injEq] at h
      obtain ⟨rfl, rfl⟩ := h
      refine ⟨Nat.le_refl _, ?_, fun seq => enumerate_iff_search G A w cost N start c0 seq, ?_⟩
      · intro hnil; rw [hnil] at he; simp at he
      · intro c' h1 h2; omega

/-- **Minimum cost, complete at that cost.** If the reference finds cost `c` with the set `rs`:
`rs` is exactly the set of complete repair sequences of cost `c` (every one of them is found), it
is not empty, and no repair of lower cost exists. -/
theorem min_cost_complete (G : Grammar) (A : Automaton) (w : List Nat) (cost : Nat → Nat) (N : Nat)
    (start : Pos) (cap c : Nat) (rs : List (List Repair))
    (h : minCostRepairs G A w cost N start cap = some (c, rs)) :
    rs ≠ [] ∧ (∀ seq, seq ∈ rs ↔ Search G A w cost N ⟨start, [], 0⟩ c seq) ∧
    ∀ c', c' < c → ∀ seq, ¬ Search G A w cost N ⟨start, [], 0⟩ c' seq := by
  obtain ⟨_, h2, h3, h4⟩ := minCostFrom_spec G A w cost N start _ 0 c rs h
  exact ⟨h2, h3, fun c' hc => h4 c' (Nat.zero_le _) hc⟩

/-- **What a reported sequence is.** Every sequence of the search applies from the error
configuration with plain LR semantics, costs exactly the search cost (sum of the costs of inserted
and deleted tokens), never inserts the end-of-input token, and ends in a success configuration
(`N` trailing shifts or acceptance). -/
theorem search_sequence_valid (G : Grammar) (A : Automaton) (w : List Nat) (cost : Nat → Nat) (N : Nat)
    (start : Pos) (c : Nat) (seq : List Repair) (h : Search G A w cost N ⟨start, [], 0⟩ c seq) :
    ∃ cf, applySeq G A w start seq = some cf ∧ seqCost w cost start.pos seq = c ∧
      Repair.insert G.eof ∉ seq ∧ ∃ m : Node, m.c = cf ∧ isSuccess G A w N m = true := by
  obtain ⟨suf, cf, h1, h2, h3, h4, m, hm1, _, hm3⟩ := search_applies G A w cost N _ c seq h
  simp only [List.reverse_nil, List.nil_append] at h1
  subst h1
  exact ⟨cf, h2, h3, h4, m, hm1, hm3⟩

/-- **No sequence ends in a shift** -/
theorem stripShifts_no_trailing (rs : List Repair) : (stripShifts rs).getLast? ≠ some .shift := by
  unfold stripShifts
  rw [List.getLast?_reverse]
  cases h : rs.reverse.dropWhile (· == Repair.shift) with
  | nil => simp
  | cons a as =>
    have := List.head_dropWhile_not (fun x => x == Repair.shift) (l := rs.reverse) (by rw [h]; simp)
    simp only [h, List.head_cons] at this
    simp only [List.head?_cons, ne_eq, Option.some.injEq]
    intro e; subst e; simp at this

/-- **The reference answer**: every reported sequence is a minimum-cost search sequence with its
trailing shifts removed, that lets parsing continue as far as the best; none ends in a shift; none
is reported twice. -/
theorem refRepairs_spec (G : Grammar) (A : Automaton) (w : List Nat) (cost : Nat → Nat) (N win : Nat)
    (start : Pos) (cap c : Nat) (out : List (List Repair))
    (h : refRepairs G A w cost N win start cap = some (c, out)) :
    out.Nodup ∧ (∀ r ∈ out, r.getLast? ≠ some .shift) ∧
    ∀ r ∈ out, ∃ seq, Search G A w cost N ⟨start, [], 0⟩ c seq ∧ r = stripShifts seq ∧
      ∀ seq', Search G A w cost N ⟨start, [], 0⟩ c seq' →
        distance G A w win start seq' ≤ distance G A w win start seq := by
  unfold refRepairs at h
  cases hm : minCostRepairs G A w cost N start cap with
  | none => rw [hm] at h; cases h
  | some v =>
    obtain ⟨c0, rs⟩ := v
    rw [hm] at h
    simp only [Option.some.injEq, Prod.mk.injEq] at h
    obtain ⟨rfl, rfl⟩ := h
    obtain ⟨_, hiff, _⟩ := min_cost_complete G A w cost N start cap c0 rs hm
    refine ⟨nodup_dedup _, ?_, ?_⟩
    · intro r hr
      rw [mem_dedup] at hr
      simp only [List.mem_map, List.mem_filter] at hr
      obtain ⟨seq, _, rfl⟩ := hr
      exact stripShifts_no_trailing seq
    · intro r hr
      rw [mem_dedup] at hr
      simp only [List.mem_map, List.mem_filter, beq_iff_eq] at hr
      obtain ⟨seq, ⟨hseq, hfar⟩, rfl⟩ := hr
      refine ⟨seq, (hiff seq).mp hseq, rfl, ?_⟩
      intro seq' hs'
      have hm' := (hiff seq').mpr hs'
      rw [hfar]
      -- the fold of max over the distances bounds each of them
      have : ∀ (l : List Nat) (init x : Nat), x ∈ l → x ≤ l.foldl max init := by
        intro l
        induction l with
        | nil => intro init x hx; cases hx
        | cons a as ih =>
          intro init x hx
          simp only [List.foldl_cons]
          rcases List.mem_cons.mp hx with rfl | hx
          · have : ∀ (l : List Nat) (i : Nat), i ≤ l.foldl max i := by
              intro l
              induction l with
              | nil => intro i; exact Nat.le_refl _
              | cons b bs ihb => intro i; simp only [List.foldl_cons]; exact Nat.le_trans (Nat.le_max_left _ _) (ihb _)
            exact Nat.le_trans (Nat.le_max_right _ _) (this as _)
          · exact ih _ x hx
      exact this _ 0 _ (List.mem_map.mpr ⟨seq', hm', rfl⟩)

/-! ## The post-processing pipeline: `rank_cnds` and `simplify_repairs` -/

open RankImpl

/-- **`rank_cnds` keeps exactly the groups whose first sequence gets furthest.** If `rank_cnds`
returns (no panic): every group was non-empty and its first sequence was replayed and parsed on
without a panic; the result is the concatenation, in the order of the search, of exactly those
groups `g` whose distance (`reachD`: `apply_repairs` on the first sequence, then `lr_upto` up to
`in_laidx + TRY_PARSE_AT_MOST`) is not exceeded by any group's. -/
theorem rank_keeps_furthest (G : Grammar) (A : Automaton) (w : List Nat) (win : Nat) (start : Pos)
    (cnds : List (List Seq)) (out : List Seq) (h : rankCnds G A w win start cnds = some out) :
    (∀ g ∈ cnds, ∃ d, groupReach G A w win start g = some d) ∧
    out = (cnds.filter (fun g => cnds.all (fun g' =>
      decide (reachD G A w win start g' ≤ reachD G A w win start g)))).flatten ∧
    ∀ s, s ∈ out ↔ ∃ g ∈ cnds, s ∈ g ∧
      ∀ g' ∈ cnds, reachD G A w win start g' ≤ reachD G A w win start g := by
  unfold rankCnds at h
  cases hsc : scoreCnds G A w win start cnds with
  | none => rw [hsc] at h; cases h
  | some sc =>
    rw [hsc] at h
    simp only [Option.some.injEq] at h
    obtain ⟨hmap, hall⟩ := scoreCnds_some hsc
    subst hmap
    obtain ⟨hle, hatt⟩ := furthest_spec (cnds.map (fun g => (reachD G A w win start g, g)))
    generalize hF : furthest (cnds.map (fun g => (reachD G A w win start g, g))) = F at h hle hatt
    have heq : out = (cnds.filter (fun g => cnds.all (fun g' =>
        decide (reachD G A w win start g' ≤ reachD G A w win start g)))).flatten := by
      rw [← h]
      have hle' : ∀ g' ∈ cnds, reachD G A w win start g' ≤ F := by
        intro g' hg'
        exact hle (reachD G A w win start g', g') (List.mem_map.mpr ⟨g', hg', rfl⟩)
      have hcongr : ∀ g ∈ cnds,
          ((fun p : Nat × List Seq => p.1 == F) ∘ (fun g => (reachD G A w win start g, g))) g =
          cnds.all (fun g' => decide (reachD G A w win start g' ≤ reachD G A w win start g)) := by
        intro g hg
        rw [Bool.eq_iff_iff]
        simp only [Function.comp, beq_iff_eq, List.all_eq_true, decide_eq_true_eq]
        constructor
        · intro e g' hg'; rw [e]; exact hle' g' hg'
        · intro hmax
          have hne : cnds.map (fun g => (reachD G A w win start g, g)) ≠ [] := by
            intro hnil
            have := List.map_eq_nil_iff.mp hnil
            rw [this] at hg; cases hg
          obtain ⟨p, hp, hpf⟩ := hatt hne
          obtain ⟨g0, hg0, rfl⟩ := List.mem_map.mp hp
          have h1 := hmax g0 hg0
          have h2 := hle' g hg
          simp only at hpf
          omega
      rw [List.filter_map, List.flatMap_map, List.filter_congr hcongr]
      simp only [List.flatMap_id']
    refine ⟨hall, heq, ?_⟩
    intro s
    rw [heq]
    simp only [List.mem_flatten, List.mem_filter, List.all_eq_true, decide_eq_true_eq]
    constructor
    · rintro ⟨g, ⟨hg, hmax⟩, hs⟩; exact ⟨g, hg, hs, hmax⟩
    · rintro ⟨g, hg, hs, hmax⟩; exact ⟨g, ⟨hg, hmax⟩, hs⟩

/-- `rank_cnds` panics exactly when some group is empty (`rpr_seqs[0]`) or the replay of a first
sequence runs into a missing goto / an empty stack (or the model's fuel) -/
theorem rank_panics_iff (G : Grammar) (A : Automaton) (w : List Nat) (win : Nat) (start : Pos)
    (cnds : List (List Seq)) :
    rankCnds G A w win start cnds = none ↔ ∃ g ∈ cnds, groupReach G A w win start g = none := by
  constructor
  · intro h
    unfold rankCnds at h
    cases hsc : scoreCnds G A w win start cnds with
    | none => exact scoreCnds_none hsc
    | some sc => rw [hsc] at h; cases h
  · rintro ⟨g, hg, hn⟩
    cases hr : rankCnds G A w win start cnds with
    | none => rfl
    | some out =>
      obtain ⟨d, hd⟩ := (rank_keeps_furthest G A w win start cnds out hr).1 g hg
      rw [hn] at hd; cases hd

/-- **The distance `rank_cnds` measures is the specification's `distance`** (the one
`refRepairs_spec` speaks of), for a first sequence that applies with plain LR semantics — as every
sequence of the search does, `search_sequence_valid` — and ends within the window, under a table
that never shifts end-of-input. -/
theorem rank_distance_is_spec (G : Grammar) (A : Automaton) (w : List Nat) (hEof : EofNeverShifted G A)
    (win : Nat) (start c' : Pos) (s : Seq) (rest : List Seq) (hpos : start.pos ≤ w.length)
    (happ : applySeq G A w start (s.map PRepair.erase) = some c') (hwin : c'.pos ≤ start.pos + win)
    (d : Nat) (hr : groupReach G A w win start (s :: rest) = some d) :
    reachD G A w win start (s :: rest) = distance G A w win start (s.map PRepair.erase) := by
  have := reach_eq_distance hEof hpos happ hwin hr
  simp only [reachD, hr, Option.getD_some, this]

/-- **No reported sequence ends in a Shift.** -/
theorem simplify_no_trailing_shift (hs : List Seq → List Seq) (h : HashSetLike hs) (avoid : Nat → Bool)
    (start : Nat → Nat) (l : List Seq) :
    ∀ r ∈ simplify hs avoid start l, ∀ k, r.getLast? ≠ some (.shift k) := by
  intro r hr k
  obtain ⟨s, _, rfl⟩ := (mem_simplify h avoid start l r).mp hr
  exact stripTrailing_no_trailing s k

/-- **No sequence is reported twice.** -/
theorem simplify_nodup (hs : List Seq → List Seq) (h : HashSetLike hs) (avoid : Nat → Bool)
    (start : Nat → Nat) (l : List Seq) : (simplify hs avoid start l).Nodup :=
  (simplify_perm hs avoid start l).nodup_iff.mpr (h _).1

/-- **Nothing lost, nothing invented**: the reported sequences are exactly the input sequences with
their trailing Shifts removed. -/
theorem simplify_preserves (hs : List Seq → List Seq) (h : HashSetLike hs) (avoid : Nat → Bool)
    (start : Nat → Nat) (l : List Seq) (r : Seq) :
    r ∈ simplify hs avoid start l ↔ ∃ s ∈ l, stripTrailing s = r :=
  mem_simplify h avoid start l r

/-- **Ranked as documented, and the order is a function of the SET of input sequences.**
(1) Whatever the hasher and the input order: a sequence inserting an `%avoid_insert` token is never
followed by one that does not, and among sequences of the same kind lengths never decrease (indeed
the whole list is sorted by the comparison closure `seqLe`).
(2) When distinct lexemes start at distinct offsets — or all sequences name the lexemes of the input
from one position on, in order, as `repair_to_parse_repair` makes them — any other hasher order and
any other list with the same set of stripped sequences (in particular any permutation of the input)
give the same list in the same order; and whichever algorithm `sort_unstable_by` uses, a sorted
arrangement of the deduplicated sequences is this list. -/
theorem simplify_ranked (hs : List Seq → List Seq) (h : HashSetLike hs) (avoid : Nat → Bool)
    (start : Nat → Nat) (l : List Seq) :
    (simplify hs avoid start l).Pairwise (fun x y =>
      (containsAvoidInsert avoid x = true → containsAvoidInsert avoid y = true) ∧
      (containsAvoidInsert avoid x = containsAvoidInsert avoid y → x.length ≤ y.length) ∧
      seqLe avoid start x y = true) ∧
    ((∀ i j, start i = start j → i = j) ∨ (∃ la, ∀ s ∈ l, WellLexed la s = true) →
      (∀ (hs' : List Seq → List Seq) (l' : List Seq), HashSetLike hs' →
        (∀ x, x ∈ l'.map stripTrailing ↔ x ∈ l.map stripTrailing) →
        simplify hs' avoid start l' = simplify hs avoid start l) ∧
      (∀ (hs' : List Seq → List Seq) (l' : List Seq), HashSetLike hs' → l'.Perm l →
        simplify hs' avoid start l' = simplify hs avoid start l) ∧
      (∀ out : List Seq, out.Perm (hs (l.map stripTrailing)) →
        out.Pairwise (fun x y => seqLe avoid start x y = true) → out = simplify hs avoid start l)) := by
  refine ⟨?_, ?_⟩
  · refine (simplify_sorted hs avoid start l).imp ?_
    intro x y hxy
    exact ⟨(seqLe_documented hxy).1, (seqLe_documented hxy).2, hxy⟩
  · intro hyp
    have hanti : ∀ a b, a ∈ l.map stripTrailing → b ∈ l.map stripTrailing →
        cmpSeq avoid start a b = .eq → a = b := by
      intro a b ha hb hab
      rcases hyp with hinj | ⟨la, hwl⟩
      · exact cmpSeq_eq_eq hinj hab
      · obtain ⟨sa, hsa, rfl⟩ := List.mem_map.mp ha
        obtain ⟨sb, hsb, rfl⟩ := List.mem_map.mp hb
        exact cmpSeq_eq_eq_of_wellLexed (wellLexed_stripTrailing (hwl sa hsa))
          (wellLexed_stripTrailing (hwl sb hsb)) hab
    have hset : ∀ (hs' : List Seq → List Seq) (l' : List Seq), HashSetLike hs' →
        (∀ x, x ∈ l'.map stripTrailing ↔ x ∈ l.map stripTrailing) →
        simplify hs' avoid start l' = simplify hs avoid start l := by
      intro hs' l' h' hset
      exact (simplify_eq_of_antisymm h h' (fun x => (hset x).symm) hanti).symm
    refine ⟨hset, ?_, ?_⟩
    · intro hs' l' h' hp
      exact hset hs' l' h' (fun x => (hp.map stripTrailing).mem_iff)
    · intro out hp hsorted
      refine List.Perm.eq_of_pairwise ?_ hsorted (simplify_sorted hs avoid start l)
        (hp.trans (simplify_perm hs avoid start l).symm)
      intro a b ha hb hab hba
      have ha' : a ∈ l.map stripTrailing := (h _).2 a |>.mp (hp.mem_iff.mp ha)
      have hb' : b ∈ l.map stripTrailing :=
        (h _).2 b |>.mp ((simplify_perm hs avoid start l).mem_iff.mp hb)
      exact hanti a b ha' hb' (Std.OrientedCmp.isLE_antisymm (cmp := cmpSeq avoid start) hab hba)

/-- **A reported list is a fixed point** (the per-error tie of the check): stripping, deduplicating
and sorting a list that `simplify_repairs` produced gives the list back, in the same order. -/
theorem simplify_fixed_point (hs : List Seq → List Seq) (h : HashSetLike hs) (avoid : Nat → Bool)
    (start : Nat → Nat) (l : List Seq) :
    simplify dedup avoid start (simplify hs avoid start l) = simplify hs avoid start l := by
  have h1 : (simplify hs avoid start l).map stripTrailing = simplify hs avoid start l :=
    map_stripTrailing_of_no_trailing (simplify_no_trailing_shift hs h avoid start l)
  have h2 : dedup (simplify hs avoid start l) = simplify hs avoid start l :=
    dedup_of_nodup (simplify_nodup hs h avoid start l)
  show sortSeqs avoid start (dedup ((simplify hs avoid start l).map stripTrailing)) = _
  rw [h1, h2]
  exact sortSeqs_of_pairwise (simplify_sorted hs avoid start l)

/-- the whole tail of `CPCTPlus::recover`: what is reported is `simplify_repairs` of what
`rank_cnds` kept -/
theorem postProcess_eq (hs : List Seq → List Seq) (h : HashSetLike hs) (avoid : Nat → Bool)
    (lexStart : Nat → Nat) (G : Grammar) (A : Automaton) (w : List Nat) (win : Nat) (start : Pos)
    (cnds : List (List Seq)) (out : List Seq)
    (hp : postProcess hs avoid lexStart G A w win start cnds = some out) :
    ∃ kept, rankCnds G A w win start cnds = some kept ∧ out = simplify hs avoid lexStart kept := by
  unfold postProcess at hp
  cases hr : rankCnds G A w win start cnds with
  | none => rw [hr] at hp; cases hp
  | some kept =>
    rw [hr] at hp
    simp only at hp
    refine ⟨kept, rfl, ?_⟩
    by_cases he : kept.isEmpty = true
    · rw [if_pos he] at hp
      simp only [Option.some.injEq] at hp
      rw [List.isEmpty_iff] at he
      subst he
      have : hs [] = [] := by
        cases hh : hs [] with
        | nil => rfl
        | cons a as =>
          have := ((h []).2 a).mp (by rw [hh]; exact List.mem_cons_self)
          cases this
      rw [← hp]
      simp [simplify, sortSeqs, this]
    · rw [if_neg he] at hp
      simp only [Option.some.injEq] at hp
      exact hp.symm

/-! Tests: the hypotheses are satisfiable, the model computes, and the hypothesis of the second part
of `simplify_ranked` is needed. -/
example : HashSetLike dedup := hashSetLike_dedup
example (la : Nat) (rs : List Repair) : WellLexed la (attach la rs) = true := wellLexed_attach la rs
example : ∀ i j : Nat, 3 * i + 1 = 3 * j + 1 → i = j := by omega

/-- `S: 'a' 'b'` (tokens a = 0, b = 1, end-of-input = 2; rules ^ = 0, S = 1; productions
0 = S → a b, 1 = ^ → S) -/
def exG : Grammar := ⟨3, 2, 2, 1, [(1, [.tok 0, .tok 1]), (0, [.rule 1])], [], []⟩
def exSt (actions : List Act) (gotos : List (Option Nat)) : StateD := ⟨[], [], [], actions, gotos, [], [], [], false⟩
def exA : Automaton :=
  ⟨0, [exSt [.shift 1, .error, .error] [none, some 2], exSt [.error, .shift 3, .error] [none, none],
       exSt [.error, .error, .accept] [none, none], exSt [.error, .error, .reduce 0] [none, none]], [], []⟩
example : EofNeverShifted exG exA := by
  intro st s' h
  have : st < 4 ∨ 4 ≤ st := by omega
  rcases this with h4 | h4
  · have : st = 0 ∨ st = 1 ∨ st = 2 ∨ st = 3 := by omega
    rcases this with rfl | rfl | rfl | rfl <;> simp [Automaton.action, exA, exSt, exG] at h
  · have : exA.states[st]? = none := by simp [exA]; omega
    simp [Automaton.action, this] at h
/-- input `a a b`, error at the second `a` (state 1 on top): inserting `b` gets nowhere, deleting the
`a` lets the parse reach the end — only the second group survives -/
example : rankCnds exG exA [0, 0, 1] 250 ⟨[1, 0], 1⟩ [[[.insert 1]], [[.delete 1, .shift 2], [.delete 1]]] =
    some [[.delete 1, .shift 2], [.delete 1]] := by decide
example : rankCnds exG exA [0, 0, 1] 250 ⟨[1, 0], 1⟩ [[[.insert 1]], []] = none := by decide
example : postProcess dedup (fun _ => false) (fun i => 3 * i + 1) exG exA [0, 0, 1] 250 ⟨[1, 0], 1⟩
    [[[.insert 1]], [[.delete 1, .shift 2], [.delete 1]]] = some [[.delete 1]] := by decide
example : simplify dedup (fun t => t == 7) (fun i => 3 * i + 1)
    [[.insert 7, .shift 4], [.delete 4, .shift 5, .shift 6], [.insert 2, .insert 3], [.delete 4],
     [.insert 3, .insert 2], [.insert 1, .shift 4, .shift 5]] =
    [[.insert 1], [.delete 4], [.insert 2, .insert 3], [.insert 3, .insert 2], [.insert 7]] := by decide
example : simplify dedup (fun _ => false) (fun _ => 0) [[.delete 0], [.delete 1]] ≠
    simplify dedup (fun _ => false) (fun _ => 0) [[.delete 1], [.delete 0]] := by decide

end GrmVerif.C06
