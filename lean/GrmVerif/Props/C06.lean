import GrmVerif.Lemmas.Search
/-!
# C06 — repair sequences are the complete minimum-cost set, ranked as documented

Specification: `Rec.Search` (declarative: which complete repair sequences a cost-`k` search from a
configuration yields) and the executable reference `Rec.enumerate` / `Rec.minCostRepairs` /
`Rec.refRepairs` (`Model/Recover.lean`). The theorems say the reference IS the declarative
search, at the minimum cost, complete at that cost. The real recoverer's reported set must equal
`refRepairs` (as a set) for every error within the cost cap, and its order is checked against the
documented ranking.
-/
namespace GrmVerif.C06
open GrmVerif Rec LR

/-- **The reference enumeration is the search relation** (with the fuel the reference uses). -/
theorem enumerate_iff_search (G : Grammar) (A : Automaton) (w : List Nat) (cost : Nat → Nat) (N : Nat)
    (start : Pos) (c : Nat) (seq : List Repair) :
    seq ∈ enumerate G A w cost N (2 * (c + w.length) + 6) c ⟨start, [], 0⟩ ↔
      Search G A w cost N ⟨start, [], 0⟩ c seq := by
  constructor
  · exact enumerate_sound G A w cost N _ c _ seq
  · intro h
    exact enumerate_complete G A w cost N _ c seq h _ (by simp only; omega)

theorem minCostFrom_spec (G : Grammar) (A : Automaton) (w : List Nat) (cost : Nat → Nat) (N : Nat)
    (start : Pos) :
    ∀ (remaining c0 c : Nat) (rs : List (List Repair)),
      minCostFrom G A w cost N start remaining c0 = some (c, rs) →
      c0 ≤ c ∧ rs ≠ [] ∧ (∀ seq, seq ∈ rs ↔ Search G A w cost N ⟨start, [], 0⟩ c seq) ∧
      ∀ c', c0 ≤ c' → c' < c → ∀ seq, ¬ Search G A w cost N ⟨start, [], 0⟩ c' seq := by
  intro remaining
  induction remaining with
  | zero => intro c0 c rs h; simp [minCostFrom] at h
  | succ r ih =>
    intro c0 c rs h
    simp only [minCostFrom] at h
    by_cases he : (enumerate G A w cost N (2 * (c0 + w.length) + 6) c0 ⟨start, [], 0⟩).isEmpty = true
    · rw [if_pos he] at h
      obtain ⟨h1, h2, h3, h4⟩ := ih (c0 + 1) c rs h
      refine ⟨by omega, h2, h3, ?_⟩
      intro c' hc0 hc seq hs
      by_cases heq : c' = c0
      · subst heq
        have := (enumerate_iff_search G A w cost N start c' seq).mpr hs
        rw [List.isEmpty_iff] at he
        rw [he] at this; cases this
      · exact h4 c' (by omega) hc seq hs
    · rw [if_neg he] at h
      simp only [Option.some.injEq, Prod.mk.injEq] at h
      obtain ⟨rfl, rfl⟩ := h
      refine ⟨Nat.le_refl _, ?_, fun seq => enumerate_iff_search G A w cost N start c0 seq, ?_⟩
      · intro hnil; rw [hnil] at he; simp at he
      · intro c' h1 h2; omega

/-- **Minimum cost, complete at that cost.** If the reference finds cost `c` with the set `rs`:
`rs` is exactly the set of complete repair sequences of cost `c` (every one of them is found), it
is not empty, and no repair of lower cost exists. -/
theorem min_cost_complete (G : Grammar) (A : Automaton) (w : List Nat) (cost : Nat → Nat) (N : Nat)
    (start : Pos) (cap c : Nat) (rs : List (List Repair))
    (h : minCostRepairs G A w cost N start cap = some (c, rs)) :
    rs ≠ [] ∧ (∀ seq, seq ∈ rs ↔ Search G A w cost N ⟨start, [], 0⟩ c seq) ∧
    ∀ c', c' < c → ∀ seq, ¬ Search G A w cost N ⟨start, [], 0⟩ c' seq := by
  obtain ⟨_, h2, h3, h4⟩ := minCostFrom_spec G A w cost N start _ 0 c rs h
  exact ⟨h2, h3, fun c' hc => h4 c' (Nat.zero_le _) hc⟩

/-- **What a reported sequence is.** Every sequence of the search applies from the error
configuration with plain LR semantics, costs exactly the search cost (sum of the costs of inserted
and deleted tokens), never inserts the end-of-input token, and ends in a success configuration
(`N` trailing shifts or acceptance). -/
theorem search_sequence_valid (G : Grammar) (A : Automaton) (w : List Nat) (cost : Nat → Nat) (N : Nat)
    (start : Pos) (c : Nat) (seq : List Repair) (h : Search G A w cost N ⟨start, [], 0⟩ c seq) :
    ∃ cf, applySeq G A w start seq = some cf ∧ seqCost w cost start.pos seq = c ∧
      Repair.insert G.eof ∉ seq ∧ ∃ m : Node, m.c = cf ∧ isSuccess G A w N m = true := by
  obtain ⟨suf, cf, h1, h2, h3, h4, m, hm1, _, hm3⟩ := search_applies G A w cost N _ c seq h
  simp only [List.reverse_nil, List.nil_append] at h1
  subst h1
  exact ⟨cf, h2, h3, h4, m, hm1, hm3⟩

/-- **No sequence ends in a shift** -/
theorem stripShifts_no_trailing (rs : List Repair) : (stripShifts rs).getLast? ≠ some .shift := by
  unfold stripShifts
  rw [List.getLast?_reverse]
  cases h : rs.reverse.dropWhile (· == Repair.shift) with
  | nil => simp
  | cons a as =>
    have := List.head_dropWhile_not (fun x => x == Repair.shift) (l := rs.reverse) (by rw [h]; simp)
    simp only [h, List.head_cons] at this
    simp only [List.head?_cons, ne_eq, Option.some.injEq]
    intro e; subst e; simp at this

/-- **The reference answer**: every reported sequence is a minimum-cost search sequence with its
trailing shifts removed, that lets parsing continue as far as the best; none ends in a shift; none
is reported twice. -/
theorem refRepairs_spec (G : Grammar) (A : Automaton) (w : List Nat) (cost : Nat → Nat) (N win : Nat)
    (start : Pos) (cap c : Nat) (out : List (List Repair))
    (h : refRepairs G A w cost N win start cap = some (c, out)) :
    out.Nodup ∧ (∀ r ∈ out, r.getLast? ≠ some .shift) ∧
    ∀ r ∈ out, ∃ seq, Search G A w cost N ⟨start, [], 0⟩ c seq ∧ r = stripShifts seq ∧
      ∀ seq', Search G A w cost N ⟨start, [], 0⟩ c seq' →
        distance G A w win start seq' ≤ distance G A w win start seq := by
  unfold refRepairs at h
  cases hm : minCostRepairs G A w cost N start cap with
  | none => rw [hm] at h; cases h
  | some v =>
    obtain ⟨c0, rs⟩ := v
    rw [hm] at h
    simp only [Option.some.injEq, Prod.mk.injEq] at h
    obtain ⟨rfl, rfl⟩ := h
    obtain ⟨_, hiff, _⟩ := min_cost_complete G A w cost N start cap c0 rs hm
    refine ⟨nodup_dedup _, ?_, ?_⟩
    · intro r hr
      rw [mem_dedup] at hr
      simp only [List.mem_map, List.mem_filter] at hr
      obtain ⟨seq, _, rfl⟩ := hr
      exact stripShifts_no_trailing seq
    · intro r hr
      rw [mem_dedup] at hr
      simp only [List.mem_map, List.mem_filter, beq_iff_eq] at hr
      obtain ⟨seq, ⟨hseq, hfar⟩, rfl⟩ := hr
      refine ⟨seq, (hiff seq).mp hseq, rfl, ?_⟩
      intro seq' hs'
      have hm' := (hiff seq').mpr hs'
      rw [hfar]
      -- the fold of max over the distances bounds each of them
      have : ∀ (l : List Nat) (init x : Nat), x ∈ l → x ≤ l.foldl max init := by
        intro l
        induction l with
        | nil => intro init x hx; cases hx
        | cons a as ih =>
          intro init x hx
          simp only [List.foldl_cons]
          rcases List.mem_cons.mp hx with rfl | hx
          · have : ∀ (l : List Nat) (i : Nat), i ≤ l.foldl max i := by
              intro l
              induction l with
              | nil => intro i; exact Nat.le_refl _
              | cons b bs ihb => intro i; simp only [List.foldl_cons]; exact Nat.le_trans (Nat.le_max_left _ _) (ihb _)
            exact Nat.le_trans (Nat.le_max_right _ _) (this as _)
          · exact ih _ x hx
      exact this _ 0 _ (List.mem_map.mpr ⟨seq', hm', rfl⟩)

end GrmVerif.C06
