import GrmVerif.Lemmas.LexSpec
import GrmVerif.Lemmas.LexSync
/-!
# C09 — longest match, earliest rule on ties, start states; the lexemes tile the input

Property theorems only (helper lemmas: `GrmVerif/Lemmas/Lex*.lean`).
Model: `GrmVerif/Model/Lex.lean`, a transcription of the scan loop of `LRNonStreamingLexerDef::lexer`,
of `state_matches` and of `set_rule_ids_spanned` (lrlex/src/lib/lexer.rs). The regex engine is the
parameter `ml : rule index → byte offset → Option length` (`none` = no match); all theorems hold for
every `ml`, every definition `cfg` and every input length `n`.
Specification: `GrmVerif/Lemmas/Lex.lean` (`plainOp`, `Active`, `LongestEarliest`, `Stuck`, `Tiles`).
-/
namespace GrmVerif.C09
open GrmVerif.Lex

/-! ## start-state stack -/

/-- **One operation.** On a well-formed encoded stack (positive counts, states are the ones
`get_start_state_by_id` returns) push/pop/replace never take the error arm and have exactly the
effect of the plain-stack operation on the decoded stack; well-formedness is preserved. -/
theorem rle_refines_plain (ss : List St) (init : St) (stk : Stack) (s : St) (op : Op)
    (hok : StackOK ss stk) (hne : stk ≠ [])
    (hs : getState ss s.id = some s) (hi : getState ss init.id = some init) :
    ∃ stk', applyOp init stk s op = some stk' ∧ decode stk' = plainOp init (decode stk) s op ∧
      StackOK ss stk' ∧ stk' ≠ [] :=
  applyOp_refines ss init stk s op hok hne hs hi

/-- **Every operation sequence**, starting from the lexer's initial stack `[(1, INITIAL)]`: the
encoded run succeeds and decodes to the plain run from `[INITIAL]`. The states are those looked up by
id in the definition, as in the lexer. -/
theorem rle_refines_plain_run (ss : List St) (init : St) (ops : List (St × Op))
    (hi : getState ss init.id = some init) (hops : ∀ p ∈ ops, getState ss p.1.id = some p.1) :
    ∃ stk, rleRun init [(1, init)] ops = some stk ∧ decode stk = plainRun init [init] ops := by
  obtain ⟨stk, h1, h2, _, _⟩ := rleRun_refines ss init hi ops [(1, init)] (stackOK_init hi) (by simp) hops
  exact ⟨stk, h1, by simpa [decode] using h2⟩

/-- `state_matches` is the specification's `Active`: an unqualified rule is active exactly in the
inclusive states, a qualified rule exactly in the states it lists. -/
theorem state_matches_spec (cur : St) (r : Rule) : stateMatches cur r.states = true ↔ Active cur r :=
  stateMatches_iff cur r

/-! ## choice of the rule -/

/-- **Longest match, earliest rule on ties.** If the scan over all rules ends with `longest > 0`, the
pair `(longest_ridx, longest)` is the active rule with the maximal non-empty match length, of least
index among those of that length; if it ends with `longest = 0`, no active rule has a non-empty match. -/
theorem choose_spec (cfg : Cfg) (ml : Nat → Nat → Option Nat) (cur : St) (i : Nat) :
    (0 < (scanRules cur (fun r => ml r i) cfg.rules 0 (0, 0)).1 →
      LongestEarliest cfg ml cur i (scanRules cur (fun r => ml r i) cfg.rules 0 (0, 0)).2
        (scanRules cur (fun r => ml r i) cfg.rules 0 (0, 0)).1) ∧
    ((scanRules cur (fun r => ml r i) cfg.rules 0 (0, 0)).1 = 0 → Stuck cfg ml cur i) :=
  scan_spec cfg ml cur i

/-- the specification determines the choice: there is at most one longest/earliest pair, and a
position with one is not stuck -/
theorem choice_unique (cfg : Cfg) (ml : Nat → Nat → Option Nat) (cur : St) (i a la b lb : Nat)
    (h1 : LongestEarliest cfg ml cur i a la) (h2 : LongestEarliest cfg ml cur i b lb) :
    a = b ∧ la = lb ∧ ¬ Stuck cfg ml cur i :=
  ⟨(h1.unique h2).1, (h1.unique h2).2, h1.not_stuck⟩

/-! ## the run -/

/-- **Termination.** With `|input|` units of fuel the loop never runs out: every continuing iteration
consumes at least one byte. -/
theorem lex_terminates (cfg : Cfg) (ml : Nat → Nat → Option Nat) (n : Nat) :
    ∃ res, lexRun cfg ml n = some res := by
  unfold lexRun
  cases h : getState cfg.states 0 with
  | none => exact ⟨_, rfl⟩
  | some init =>
    have := lexLoop_isSome cfg ml n init n 0 [(1, init)] (by omega)
    exact Option.isSome_iff_exists.mp this

/-- progress, stated on one iteration -/
theorem step_progress (cfg : Cfg) (ml : Nat → Nat → Option Nat) (init : St) (i i' : Nat)
    (stk stk' : Stack) (ev : Ev) (h : step cfg ml init i stk = .cont ev i' stk') : i < i' :=
  step_cont_progress h

/-- **Tiling (run relation).** The events of a run (lexemes, skipped matches, errors) satisfy the
declarative relation `Tiles` from offset 0 with the plain stack `[INITIAL]`: each step is the
longest/earliest choice among the rules active in the current state, starts where the previous one
ended, named rules emit a lexeme carrying the id assigned to the name and unnamed rules nothing, the
rule's operation is applied to the plain stack, and the run stops at the end of the input or with one
error at the first position where the current state is stuck (or the winner's id is unset, or — only
through `from_rules` — its target state does not exist). The final encoded stack is well-formed. -/
theorem tiling (cfg : Cfg) (ml : Nat → Nat → Option Nat) (n : Nat) (init : St) (evs : List Ev) (fin : Stack)
    (hinit : getState cfg.states 0 = some init) (h : lexRun cfg ml n = some (evs, fin)) :
    Tiles cfg ml n init 0 [init] evs ∧ StackOK cfg.states fin ∧ fin ≠ [] := by
  unfold lexRun at h
  rw [hinit] at h
  have hi := getState_id hinit
  have := lexLoop_tiles cfg ml n init hi n 0 [(1, init)] evs fin (stackOK_init hi) (by simp) h
  simpa [decode] using this

/-- without an initial state (only through `from_rules`): a single error at offset 0 -/
theorem no_initial_state (cfg : Cfg) (ml : Nat → Nat → Option Nat) (n : Nat)
    (hinit : getState cfg.states 0 = none) : lexRun cfg ml n = some ([.err 0 none], []) := by
  simp [lexRun, hinit]

/-- **Tiling (shape).** When the target states exist (parsed definitions): the events are a chain of
non-empty lexemes/skips, contiguous and in order from offset 0 to some offset `e`, followed by
nothing — then `e ≥ n`, and `e = n` when matches lie inside the input — or by exactly one error placed
at `e < n`. -/
theorem tiling_contiguous (cfg : Cfg) (ml : Nat → Nat → Option Nat) (n : Nat) (init : St) (evs : List Ev)
    (fin : Stack) (htg : TargetsOK cfg)
    (hinit : getState cfg.states 0 = some init) (h : lexRun cfg ml n = some (evs, fin)) :
    ∃ steps e, Chain 0 steps e ∧ (MlBounded ml n → e ≤ n) ∧
      ((evs = steps ∧ n ≤ e) ∨ (∃ st, evs = steps ++ [.err e st] ∧ e < n)) := by
  obtain ⟨steps, e, h1, h2, h3⟩ := tiles_shape htg (tiling cfg ml n init evs fin hinit h).1
  exact ⟨steps, e, h1, fun hb => h2 hb (Nat.zero_le _), h3⟩

/-- **Tiling (positions).** Every lexeme/skip of the run is the longest/earliest choice in the state
on top of the plain stack reached by the preceding events (so no earlier position is stuck), and a
final error carrying a state id sits at a position where exactly that state — the top of the plain
stack at that moment — is stuck: the first position of the run where no active rule matches. -/
theorem tiling_error_first_stuck (cfg : Cfg) (ml : Nat → Nat → Option Nat) (n : Nat) (init : St)
    (evs : List Ev) (fin : Stack)
    (hinit : getState cfg.states 0 = some init) (h : lexRun cfg ml n = some (evs, fin)) :
    (∀ pre ev post, evs = pre ++ ev :: post → ev.isStep = true →
      ∃ cur rest, stackAfter cfg init [init] pre = cur :: rest ∧
        LongestEarliest cfg ml cur ev.start ev.ridx ev.len ∧ ¬ Stuck cfg ml cur ev.start) ∧
    (∀ pre e id, evs = pre ++ [.err e (some id)] →
      ∃ cur rest, stackAfter cfg init [init] pre = cur :: rest ∧ id = cur.id ∧ Stuck cfg ml cur e) := by
  have ht := tiles_positions (tiling cfg ml n init evs fin hinit h).1
  refine ⟨?_, ht.2⟩
  intro pre ev post he hs
  obtain ⟨cur, rest, h1, h2⟩ := ht.1 pre ev post he hs
  exact ⟨cur, rest, h1, h2, h2.not_stuck⟩

/-- with all target states present and an id on every named rule, every error of a run carries the
lexing state (i.e. it is the stuck error); and no run ever hits the `unwrap` panic -/
theorem errors_are_stuck_errors (cfg : Cfg) (ml : Nat → Nat → Option Nat) (n : Nat) (init : St)
    (evs : List Ev) (fin : Stack) (htg : TargetsOK cfg) (hids : AllIds cfg)
    (hinit : getState cfg.states 0 = some init) (h : lexRun cfg ml n = some (evs, fin)) :
    (∀ e st, Ev.err e st ∈ evs → ∃ id, st = some id) :=
  tiles_error_kind htg hids (tiling cfg ml n init evs fin hinit h).1

theorem no_panic (cfg : Cfg) (ml : Nat → Nat → Option Nat) (n : Nat) (evs : List Ev) (fin : Stack)
    (h : lexRun cfg ml n = some (evs, fin)) : Ev.panic ∉ evs := by
  cases hinit : getState cfg.states 0 with
  | none => rw [no_initial_state cfg ml n hinit] at h; injection h with h; injection h with h1 _; subst h1; simp
  | some init => exact tiles_no_panic (tiling cfg ml n init evs fin hinit h).1

/-- **The specification fixes the output.** Two event lists that are both correct for the same
definition, matcher, input length, offset and plain stack are equal: any lexeme stream that differs from
the model's violates the specification. -/
theorem tiling_unique (cfg : Cfg) (ml : Nat → Nat → Option Nat) (n : Nat) (init : St) (i : Nat) (ps : List St)
    (evs evs' : List Ev) (h : Tiles cfg ml n init i ps evs) (h' : Tiles cfg ml n init i ps evs') : evs = evs' :=
  tiles_unique h evs' h'

/-- The reference lexer behind the `S` line of the check (plain stack, right-to-left choice function
`bestFrom`) produces exactly the model's events, for every definition (well-formed or not). -/
theorem spec_lexer_eq_model (cfg : Cfg) (ml : Nat → Nat → Option Nat) (n : Nat) (evs : List Ev) (fin : Stack)
    (h : lexRun cfg ml n = some (evs, fin)) : (specRun cfg ml n).1 = evs := by
  cases hinit : getState cfg.states 0 with
  | none =>
    rw [no_initial_state cfg ml n hinit] at h
    injection h with h; injection h with h1 _
    simp [specRun, hinit, h1]
  | some init =>
    have h1 := (tiling cfg ml n init evs fin hinit h).1
    have h2 := specLoop_tiles cfg ml n init n 0 [init] (by omega) (by simp)
    simp only [specRun, hinit]
    exact tiles_unique h2 evs h1

/-! ## synchronising ids with a parser (`set_rule_ids_spanned`, `set_rule_ids`)
`map` is the parser's name → id map (distinct keys); rule names are naturals (interned). -/

/-- every named rule gets the id the map assigns to its name, or none; unnamed rules keep theirs -/
theorem ids_sync_ids (rules : List Rule) (map : List (Nat × Nat)) :
    (setRuleIdsSpanned rules map).rules.map (·.tokId) = specIds rules map :=
  (syncLoop_rules map rules 0).1

/-- **Names missing from the parser** (second component): `None` iff there is none, otherwise exactly
the (name, name span) of the named rules whose name is not a key of the map — for all rule lists. -/
theorem ids_sync_missing_from_parser (rules : List Rule) (map : List (Nat × Nat)) :
    (setRuleIdsSpanned rules map).missingFromParser =
      if (specMissingFromParser rules map).isEmpty then none else some (specMissingFromParser rules map) := by
  have hl := (syncLoop_rules map rules 0).2.2.2
  have hn := syncLoop_namesAt map rules 0 [] rfl
  simp only [List.nil_append] at hn
  simp only [setRuleIdsSpanned, hn]
  cases h1 : (syncLoop map rules 0).2.1 with
  | nil =>
    rw [h1] at hl
    have : specMissingFromParser rules map = [] := List.length_eq_zero_iff.mp hl.symm
    simp [this]
  | cons a l =>
    rw [h1] at hl
    cases h2 : specMissingFromParser rules map with
    | nil => rw [h2] at hl; simp at hl
    | cons b m => simp

theorem missing_from_parser_mem (rules : List Rule) (map : List (Nat × Nat)) (nm : Nat) (sp : Nat × Nat) :
    (nm, sp) ∈ specMissingFromParser rules map ↔
      ∃ r ∈ rules, r.name = some nm ∧ r.span = sp ∧ nm ∉ map.map (·.1) := by
  simp only [specMissingFromParser, List.mem_filterMap]
  constructor
  · rintro ⟨r, hr, h⟩
    cases hn : r.name with
    | none => rw [hn] at h; cases h
    | some nm' =>
      rw [hn] at h
      dsimp only at h
      by_cases hc : (map.map (·.1)).contains nm' = true
      · rw [if_pos hc] at h; cases h
      · rw [if_neg hc] at h
        injection h with h; injection h with h1 h2; subst h1; subst h2
        exact ⟨r, hr, hn, rfl, fun hm => hc (List.contains_iff_mem.mpr hm)⟩
  · rintro ⟨r, hr, hn, rfl, hc⟩
    refine ⟨r, hr, ?_⟩
    rw [hn]
    dsimp only
    have : ¬ (map.map (·.1)).contains nm = true := fun h => hc (List.contains_iff_mem.mp h)
    rw [if_neg this]

/-- **Names missing from the lexer** (first component), when rule names are pairwise distinct (what the
`.l` parser guarantees) and the map's keys are distinct (a `HashMap`): `None` iff there is none,
otherwise exactly the keys of the map that name no rule. (With duplicate rule names — only through
`from_rules` — the counting shortcut of the code can report `None` although a key is missing;
see the `example` below.) -/
theorem ids_sync_spec (rules : List Rule) (map : List (Nat × Nat))
    (hn : (ruleNames rules).Nodup) (hk : (map.map (·.1)).Nodup) :
    (setRuleIdsSpanned rules map).missingFromLexer =
      if (specMissingFromLexer rules map).isEmpty then none else some (specMissingFromLexer rules map) := by
  obtain ⟨_, _, hcnt, hlen⟩ := syncLoop_rules map rules 0
  have hrn := ruleNames_sync map rules
  have hsplit := names_split rules map
  have hsym := inter_card_symm (ruleNames rules) (map.map (·.1)) hn hk
  have hfl := filter_length_eq_iff (map.map (·.1)) (fun k => (ruleNames rules).contains k)
  have hmlen : (map.map (·.1)).length = map.length := List.length_map ..
  unfold ruleNames at hrn
  simp only [setRuleIdsSpanned, hcnt, hlen, hrn]
  by_cases hall : ∀ x ∈ map.map (·.1), (ruleNames rules).contains x = true
  · have h1 := hfl.mpr hall
    have hnil : specMissingFromLexer rules map = [] := by
      unfold specMissingFromLexer
      apply List.filter_eq_nil_iff.mpr
      intro a ha; rw [hall a ha]; simp
    have hc : ((ruleNames rules).length - (specMissingFromParser rules map).length == map.length) = true := by
      simp; omega
    simp [hc, hnil]
  · have h1 : (List.filter (fun k => (ruleNames rules).contains k) (map.map (·.1))).length ≠ (map.map (·.1)).length :=
      fun h => hall (hfl.mp h)
    have hne : specMissingFromLexer rules map ≠ [] := by
      unfold specMissingFromLexer
      intro h
      apply hall
      intro a ha
      have := List.filter_eq_nil_iff.mp h a ha
      simpa using this
    have hc : ((ruleNames rules).length - (specMissingFromParser rules map).length == map.length) = false := by
      simp; omega
    have hne' : (specMissingFromLexer rules map).isEmpty = false := by
      cases h : specMissingFromLexer rules map with
      | nil => exact absurd h hne
      | cons _ _ => rfl
    simp only [hc, hne', Bool.false_eq_true, if_false]
    rfl

theorem missing_from_lexer_mem (rules : List Rule) (map : List (Nat × Nat)) (nm : Nat) :
    nm ∈ specMissingFromLexer rules map ↔ MissingFromLexer rules map nm := by
  simp [specMissingFromLexer, MissingFromLexer]

theorem missing_from_parser_names (rules : List Rule) (map : List (Nat × Nat)) (nm : Nat) :
    (∃ sp, (nm, sp) ∈ specMissingFromParser rules map) ↔ MissingFromParser rules map nm := by
  constructor
  · rintro ⟨sp, h⟩
    obtain ⟨r, hr, hn, _, hc⟩ := (missing_from_parser_mem rules map nm sp).mp h
    exact ⟨by simp only [ruleNames, List.mem_filterMap]; exact ⟨r, hr, hn⟩, hc⟩
  · rintro ⟨h1, h2⟩
    simp only [ruleNames, List.mem_filterMap] at h1
    obtain ⟨r, hr, hn⟩ := h1
    exact ⟨r.span, (missing_from_parser_mem rules map nm r.span).mpr ⟨r, hr, hn, rfl, h2⟩⟩

/-- `set_rule_ids` is `set_rule_ids_spanned` with the spans dropped -/
theorem set_rule_ids_projection (rules : List Rule) (map : List (Nat × Nat)) :
    setRuleIds rules map = ((setRuleIdsSpanned rules map).rules, (setRuleIdsSpanned rules map).missingFromLexer,
      (setRuleIdsSpanned rules map).missingFromParser.map (fun l => l.map (·.1))) := rfl

/-! ## tests (non-vacuity): concrete instances, evaluated by `decide` -/

/-- rules `a|ab 'X'`, `ab 'Y'`, `b 'Z'` on "abab" (the alternation matches only "a"): Y(0,2) Y(2,2) -/
example :
    let cfg : Cfg := ⟨[⟨0, false⟩], [⟨some 0, some 0, [], none, (0, 0)⟩, ⟨some 1, some 1, [], none, (0, 0)⟩,
      ⟨some 2, some 2, [], none, (0, 0)⟩]⟩
    let ml : Nat → Nat → Option Nat := fun r i =>
      if r = 0 then (if i % 2 = 0 then some 1 else none)
      else if r = 1 then (if i % 2 = 0 then some 2 else none) else (if i % 2 = 1 then some 1 else none)
    lexRun cfg ml 4 = some ([.tok 1 1 0 2, .tok 1 1 2 2], [(1, ⟨0, false⟩)]) := by decide

/-- the hypotheses of `rle_refines_plain` are satisfiable with a count > 1: pushing state 1 twice -/
example : applyOp ⟨0, false⟩ [(2, ⟨1, true⟩), (1, ⟨0, false⟩)] ⟨1, true⟩ .pop
    = some [(1, ⟨1, true⟩), (1, ⟨0, false⟩)] := by decide

example : StackOK [⟨0, false⟩, ⟨1, true⟩] [(2, ⟨1, true⟩), (1, ⟨0, false⟩)] := by
  intro e he; simp at he; rcases he with rfl | rfl <;> simp [getState]

/-- TEST documenting why `ids_sync_spec` needs distinct rule names: two rules named 0, map {0 ↦ 5, 1 ↦ 6}:
name 1 is missing from the lexer but the model (like the code) reports `None` -/
example : (setRuleIdsSpanned [⟨some 0, none, [], none, (0, 0)⟩, ⟨some 0, none, [], none, (0, 0)⟩] [(0, 5), (1, 6)]).missingFromLexer = none
    ∧ specMissingFromLexer [⟨some 0, none, [], none, (0, 0)⟩, ⟨some 0, none, [], none, (0, 0)⟩] [(0, 5), (1, 6)] = [1] := by decide

/-- TEST: hypotheses of `ids_sync_spec` satisfiable with both sets non-empty -/
example : (setRuleIdsSpanned [⟨some 0, none, [], none, (2, 3)⟩, ⟨none, none, [], none, (0, 0)⟩] [(7, 5)]).missingFromLexer = some [7]
    ∧ (setRuleIdsSpanned [⟨some 0, none, [], none, (2, 3)⟩, ⟨none, none, [], none, (0, 0)⟩] [(7, 5)]).missingFromParser = some [(0, (2, 3))] := by decide

end GrmVerif.C09
