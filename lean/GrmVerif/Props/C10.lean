import GrmVerif.Lemmas.YaccBuild7
import GrmVerif.Lemmas.YaccLex
import GrmVerif.Lemmas.YaccRoundtrip8
import GrmVerif.Lemmas.YaccFile
import GrmVerif.Lemmas.YaccDeclView
import GrmVerif.Lemmas.YaccProdSpan
import GrmVerif.Extracted
/-!
# C10 — a grammar object is a faithful, well-formed image of its `.y` source

Property theorems only.

* Stage A (AST → grammar object): `Model/YaccBuild.lean` is a transcription of
  `YaccGrammar::new_from_ast_with_validity_info` (REPAIRED code: `prod_spans`, `actions`, `action_spans`
  have one entry per production). `buildGrammar … = some g` means "the construction did not panic".
  The theorems are about every AST, every kind, every iteration order of the implicit-token map.
* Stage B (lexical layer): `Model/YaccLex.lean` is a transcription of `parse_ws` (REPAIRED: a newline
  inside `/* */` no longer falls through to the end-of-comment test) and of the other lexical helpers.
* Stage T (text → AST): `Model/YaccParse.lean` is the line-by-line model of the text parser (written
  for C12 and tied to the real parser on every run by C12's `Iy`/`My` lines). The theorems of the
  section "Stage T" say that the rules section of a canonically rendered description
  (`Lemmas/YaccRender.lean`) is read back exactly: `parse_rules (render rs) = image rs`. The harness
  oracle (`harness/src/props/c10.rs`: real AST = the AST the rendering defines) remains for the
  generator's own, freer layout.
-/
namespace GrmVerif.C10
open GrmVerif GrmVerif.YaccBuild

variable {cfg : Cfg} {a : AST} {k : Kind} {g : IGrammar}

/-- **Dense numbering.** Rules, tokens and productions are numbered `0 … len-1` with exactly the
source's rules plus the added ones (`^`; `~`, `^~` for Eco with implicit tokens), the source's tokens
plus one, and the source's productions plus the added ones (`^: S;` — for Eco with implicit tokens
`^: ^~;`, one per implicit token, the empty one and `^~: ~ S;`, i.e. `|implicit tokens| + 3`); EVERY
per-rule, per-token and per-production table of the object has exactly `rules_len` / `tokens_len` /
`prods_len` entries — in particular `prod_span`, `action`, `action_span` are defined on every `PIdx`
(this is what was false before the repair). `cfgOk` is a property of the three name constants
(an `example` below shows the extracted ones have it). -/
theorem dense_numbering (hc : cfgOk cfg = true) (h : buildGrammar cfg a k = some g) :
    g.rulesLen = a.rules.length + addedRules a k ∧ g.tokensLen = a.tokens.length + 1 ∧
    g.prodsLen = a.prods.length + addedProds a k ∧
    g.tokenPrecs.length = g.tokensLen ∧ g.tokenEpp.length = g.tokensLen ∧
    g.rulesProds.length = g.rulesLen ∧ g.actiontypes.length = g.rulesLen ∧
    g.prods.length = g.prodsLen ∧ g.prodsRules.length = g.prodsLen ∧ g.prodPrecs.length = g.prodsLen ∧
    g.actions.length = g.prodsLen ∧ g.actionSpans.length = g.prodsLen ∧ g.prodSpans.length = g.prodsLen := by
  obtain ⟨us, sp, st, _, hm, _, _, hrn, htn, htp, hte, _, hrp, hat, _⟩ := build_fields h
  obtain ⟨_, _, _, _, hb⟩ := build_shape hc h
  have hinv := mainLoop_inv _ (Inv (ruleNamesOf cfg a k).length (a.tokens.length + 1))
    (stepRule_inv (mkCtx_mapsOk cfg a k us)) _ _ _ (st0_inv cfg a k) hm
  refine ⟨?_, ?_, ?_, ?_, ?_, ?_, ?_, ?_⟩
  · simp only [IGrammar.rulesLen, hrn]; exact ruleNamesOf_length cfg a k
  · simp [IGrammar.tokensLen, htn]
  · rw [IGrammar.prodsLen, hb.len, addedShape_length hb.shape]
  · simp [IGrammar.tokensLen, htn, htp]
  · simp [IGrammar.tokensLen, htn, hte]
  · simp only [IGrammar.rulesLen, hrn, hrp]; exact hinv.rpLen
  · simp only [IGrammar.rulesLen, hrn, hat]; exact hinv.atLen
  · simp [IGrammar.prods, IGrammar.prodsRules, IGrammar.prodPrecs, IGrammar.actions, IGrammar.actionSpans,
      IGrammar.prodSpans, IGrammar.prodsLen]

/-- **Every index the object stores is in range**: the rule of every production, every symbol of
every right-hand side, every production listed for a rule, the start production, the end-of-input
token, the implicit rule, and the `%avoid_insert` bit vector has one bit per token. For EVERY AST on
which the construction does not panic — no validity assumption is needed. -/
theorem indices_in_range (h : buildGrammar cfg a k = some g) :
    (∀ r ∈ g.recs, r.rule < g.rulesLen ∧ ∀ s ∈ r.rhs, SymOk g.rulesLen g.tokensLen s) ∧
    (∀ l ∈ g.rulesProds, ∀ p ∈ l, p < g.prodsLen) ∧
    g.startProd < g.prodsLen ∧ g.eof < g.tokensLen ∧
    (∀ r, g.implicitRule = some r → r < g.rulesLen) ∧
    (∀ v, g.avoidInsert = some v → v.length = g.tokensLen) := by
  obtain ⟨us, sp, st, _, hm, hu, hsp, hrn, htn, _, _, heof, hrp, _, hir, _, _, hav⟩ := build_fields h
  have hmaps := mkCtx_mapsOk cfg a k us
  have hinv := mainLoop_inv _ (Inv (ruleNamesOf cfg a k).length (a.tokens.length + 1))
    (stepRule_inv hmaps) _ _ _ (st0_inv cfg a k) hm
  have hslots := unwrapAll_spec _ _ hu
  have hR : g.rulesLen = (ruleNamesOf cfg a k).length := by simp [IGrammar.rulesLen, hrn]
  have hT : g.tokensLen = a.tokens.length + 1 := by simp [IGrammar.tokensLen, htn]
  have hP : st.slots.length = g.prodsLen := by simp [hslots, IGrammar.prodsLen]
  refine ⟨?_, ?_, ?_, ?_, ?_, ?_⟩
  · intro r hr
    rw [hR, hT]
    exact hinv.recs r (by rw [hslots]; exact List.mem_map.mpr ⟨r, hr, rfl⟩)
  · intro l hl p hp
    rw [← hP]; exact hinv.rp l (hrp ▸ hl) p hp
  · rw [← hP]
    cases h1 : (mkCtx cfg a k us).rmap (mkCtx cfg a k us).startName with
    | none => simp [h1] at hsp
    | some r =>
      simp only [h1, Option.bind_some] at hsp
      cases h2 : st.rulesProds[r]? with
      | none => simp [h2] at hsp
      | some l =>
        simp only [h2, Option.bind_some] at hsp
        exact hinv.rp l (List.mem_of_getElem? h2) _ (List.mem_of_getElem? hsp)
  · rw [hT, heof]; omega
  · intro r hr
    rw [hR]
    rw [hir] at hr
    cases hn : (mkCtx cfg a k us).implName with
    | none => simp [hn] at hr
    | some nm => simp only [hn, Option.bind_some] at hr; exact hmaps.r _ _ hr
  · intro v hv
    rw [hT]
    cases hai : a.avoidInsert with
    | none => simp only [hai] at hav; rw [hav] at hv; cases hv
    | some l =>
      simp only [hai] at hav
      obtain ⟨v', hv', hg⟩ := hav
      rw [hg] at hv
      simp only [Option.some.injEq] at hv
      subst hv
      rw [avoidBits_length _ _ _ _ hv']; simp

/-- **One unnamed end-of-input token, numbered last.** Tokens `0 … eof-1` are the source's tokens in
AST order with their names, spans, declared precedences and `%epp` strings (the token's own name when
it has no `%epp`); token `eof = tokens_len - 1` has no name, span, precedence or `%epp`. -/
theorem eof_last_unnamed (h : buildGrammar cfg a k = some g) :
    g.eof + 1 = g.tokensLen ∧ g.eof = a.tokens.length ∧
    g.tokenNames[g.eof]? = some none ∧ g.tokenPrecs[g.eof]? = some none ∧ g.tokenEpp[g.eof]? = some none ∧
    (∀ (i : Nat) (name : Str) (sp : Span), a.tokens[i]? = some (name, sp) →
      g.tokenNames[i]? = some (some (sp, name)) ∧ g.tokenPrecs[i]? = some (assoc a.precs name) ∧
      g.tokenEpp[i]? = some (some ((assoc a.epp name).getD name))) := by
  obtain ⟨us, sp, st, _, _, _, _, _, htn, htp, hte, heof, _⟩ := build_fields h
  refine ⟨by simp [IGrammar.tokensLen, htn, heof], heof, ?_, ?_, ?_, ?_⟩
  · rw [htn, heof]; simp
  · rw [htp, heof]; simp
  · rw [hte, heof]; simp
  · intro i name sp hi
    have hlt : i < a.tokens.length := (List.getElem?_eq_some_iff.mp hi).1
    have hget : a.tokens[i] = (name, sp) := (List.getElem?_eq_some_iff.mp hi).2
    refine ⟨?_, ?_, ?_⟩
    · rw [htn, List.getElem?_append_left (by simpa using hlt)]; simp [hget, hlt]
    · rw [htp, List.getElem?_append_left (by simpa using hlt)]; simp [hget, hlt]
    · rw [hte, List.getElem?_append_left (by simpa using hlt)]; simp [hget, hlt]

/-- **The added start rule's name.** Rule 0 carries a name that no rule of the source has (however
the source's rules are called: the loop that lengthens `^` always ends with a fresh name), with the
empty span at 0; a reference to a rule of the source never resolves to rule 0. -/
theorem start_rule_name_fresh (hs : cfg.startRule ≠ []) (h : buildGrammar cfg a k = some g) :
    ∃ nm, g.ruleNames[0]? = some (nm, (0, 0)) ∧ nm = fresh (a.rules.map (·.name)) cfg.startRule ∧
      nm ∉ a.rules.map (·.name) ∧
      ∀ n ∈ a.rules.map (·.name), lastIdx (g.ruleNames.map (·.1)) n ≠ some 0 := by
  obtain ⟨us, sp, st, _, _, _, _, hrn, _⟩ := build_fields h
  have hfresh := fresh_not_mem (a.rules.map (·.name)) cfg.startRule hs
  have h0 : g.ruleNames[0]? = some (fresh (a.rules.map (·.name)) cfg.startRule, (0, 0)) := by
    rw [hrn]; unfold ruleNamesOf addedNames
    cases k <;> cases a.implicitTokens <;> simp
  refine ⟨_, h0, rfl, hfresh, ?_⟩
  intro n hn hl
  have := (lastIdx_lt hl).2
  rw [List.getElem?_map, h0] at this
  simp only [Option.map_some, Option.some.injEq] at this
  exact hfresh (this ▸ hn)

/-- **The added start rule.** With `tgt` the rule the user's `%start` names (a rule of the source,
numbered after the added ones): the start production is the first added production (`PIdx` =
number of source productions), it is the only production of rule 0, and it is `^: S;` — for Eco
with `%implicit_tokens` it is `^: ^~;`, the implicit rule is rule 1, and rule 2 (`^~`) has the single
production `^~: ~ S;`. Rule 0 occurs in no right-hand side of the built grammar. `refsOk` (the
`%start` name and every rule symbol name a rule of the AST) is what `complete_and_validate`
guarantees; without it `A: ^;` would resolve `^` to rule 0. -/
theorem start_rule_shape (hc : cfgOk cfg = true) (hr : refsOk a = true) (h : buildGrammar cfg a k = some g) :
    ∃ us sp tgt, a.start = some (us, sp) ∧
      lastIdx (g.ruleNames.map (·.1)) us = some tgt ∧ addedRules a k ≤ tgt ∧
      (a.rules[tgt - addedRules a k]?).map (·.name) = some us ∧
      g.startProd = a.prods.length ∧ g.rulesProds[0]? = some [g.startProd] ∧
      (match g.implicitRule with
       | none => g.recs[g.startProd]? = some (addedRec [.rule tgt] 0)
       | some ir => ir = 1 ∧ g.recs[g.startProd]? = some (addedRec [.rule 2] 0) ∧
           ∃ q, g.rulesProds[2]? = some [q] ∧ g.recs[q]? = some (addedRec [.rule 1, .rule tgt] 2)) ∧
      (∀ r ∈ g.recs, Sym.rule 0 ∉ r.rhs) := by
  obtain ⟨us, tgt, added, low, hb⟩ := build_shape hc h
  obtain ⟨sp, hstart⟩ := hb.start
  have ok := mkCtx_ok hc a k us
  have hR0 := specialNames_length cfg a k
  have hast := mkCtx_ast cfg a k us
  have hus := refsOk_start hr hstart
  obtain ⟨j, hj, hrm⟩ := rmap_user ok hus
  rw [hb.tgt, hR0] at hrm
  simp only [Option.some.injEq] at hrm
  have hpos : 0 < addedRules a k := by unfold addedRules; cases k <;> cases a.implicitTokens <;> simp
  have hlt : ∀ i, a.prods.length ≤ i → g.recs[i]? = added[i - a.prods.length]? := hb.addedRecs
  refine ⟨us, sp, tgt, hstart, ?_, by omega, ?_, hb.startProd, ?_, ?_, ?_⟩
  · rw [hb.names, ← mkCtx_rmap]; exact hb.tgt
  · have := (lastIdx_lt hj).2
    rw [hrm, Nat.add_sub_cancel]
    simpa [userNames] using this
  · rw [hb.lowRp 0 hpos, hb.startProd]
    rcases hb.shape with ⟨_, _, _, _, hl⟩ | ⟨_, _, _, _, _, _, _, _, _, hl⟩ <;> rw [hl] <;> rfl
  · rw [hb.implicitRule, hb.startProd, hlt _ (Nat.le_refl _), Nat.sub_self]
    rcases hb.shape with ⟨hi, _, _, ha, _⟩ | ⟨its, tis, _, _, hi, _, h3, hm, ha, hl⟩
    · rw [hi, ha]; rfl
    · rw [hi, Option.bind_some, rmap_implName hc a k us hi, ha]
      have hlen : tis.length = its.length := by simpa using (congrArg List.length hm).symm
      refine ⟨rfl, ecoAdded_first _ _, a.prods.length + its.length + 2, ?_, ?_⟩
      · rw [hb.lowRp 2 (by omega), hl]; rfl
      · rw [hlt _ (by omega), ha, show a.prods.length + its.length + 2 - a.prods.length = tis.length + 2 by omega]
        exact ecoAdded_last _ _
  · intro r hrm' h0
    obtain ⟨i, hi⟩ := List.mem_iff_getElem?.mp hrm'
    by_cases hip : i < a.prods.length
    · obtain ⟨p, hp⟩ : ∃ p, a.prods[i]? = some p := ⟨a.prods[i], List.getElem?_eq_getElem hip⟩
      obtain ⟨ridx, r', _, hur, hri⟩ := hb.userRecs i p hp
      rw [hi] at hri
      simp only [Option.some.injEq] at hri
      subst hri
      rcases resolveSyms_rule_mem _ _ (userRec_rule hur).2.1 h0 with ⟨n, sp', hn, hn0⟩ | ⟨ir, hir, hn0⟩
      · obtain ⟨j', _, hj'⟩ := rmap_user ok (refsOk_sym hr (List.mem_of_getElem? hp) hn)
        rw [hn0, hR0] at hj'
        simp only [Option.some.injEq] at hj'
        omega
      · rw [rmap_implName hc a k us hir] at hn0
        cases hn0
    · rw [hlt i (by omega)] at hi
      obtain ⟨rhs, ridx, rfl, ht⟩ := addedShape_added hb.shape r (List.mem_of_getElem? hi)
      have := ht h0
      omega

/-- **Per-production precedence** as computed for one production of the source equals the
declarative `prodPrecSpec`: the precedence of its `%prec` token if it has one (a `%prec` token without
declared precedence is the panic `none`), otherwise the declared precedence of its LAST token symbol
— `none` if there is no token symbol or if that last token has no declared precedence (earlier
tokens are not consulted). -/
theorem prod_prec_fn_spec (precs : List (Str × Prec)) (p : AProd) :
    prodPrec precs p =
      match p.prec with
      | some n => (assoc precs n).map some
      | none => some ((lastTok p.syms).bind (assoc precs)) :=
  prodPrec_eq_spec precs p

/-- **`prod_precedence` of the built grammar.** Source production `i` is production `i` of the
grammar (the construction maps AST production indices 1:1 to `PIdx`), and `prod_precedence(i)` is
`prodPrecSpec` of that source production (see `prod_prec_fn_spec` for its reading); every added
production has no precedence. -/
theorem prod_prec_spec (hc : cfgOk cfg = true) (h : buildGrammar cfg a k = some g) :
    (∀ (i : Nat) (p : AProd), a.prods[i]? = some p → g.prodPrecs[i]? = prodPrecSpec a.precs p) ∧
    (∀ i, a.prods.length ≤ i → i < g.prodsLen → g.prodPrecs[i]? = some none) := by
  obtain ⟨us, tgt, added, low, hb⟩ := build_shape hc h
  refine ⟨?_, ?_⟩
  · intro i p hp
    obtain ⟨ridx, r, _, hur, hri⟩ := hb.userRecs i p hp
    have := (userRec_rule hur).2.2.1
    rw [mkCtx_ast, prodPrec_eq_spec] at this
    rw [this, IGrammar.prodPrecs, List.getElem?_map, hri]; rfl
  · intro i hi hlt
    have hri := hb.addedRecs i hi
    obtain ⟨r, hr⟩ : ∃ r, g.recs[i]? = some r := ⟨g.recs[i], List.getElem?_eq_getElem hlt⟩
    rw [hr] at hri
    obtain ⟨rhs, ridx, rfl, _⟩ := addedShape_added hb.shape r (List.mem_of_getElem? hri.symm)
    rw [IGrammar.prodPrecs, List.getElem?_map, hr]; rfl

/-- **Every source production is imaged faithfully** (no assumption on the AST): production `i` of
the grammar has as right-hand side the source production's symbols resolved through the rule map
(last index carrying the name in the grammar's rule names) and the token map, in order, with the
implicit rule after every token symbol (`resolveSpec`, see also `eco_rewrite_spec`); its action,
action span and production span are the source's; its rule is a user rule under which it is listed
in `rule_to_prods`. More generally `prod_to_rule` and `rule_to_prods` agree on EVERY production. -/
theorem prod_image_spec (hc : cfgOk cfg = true) (h : buildGrammar cfg a k = some g) :
    (∀ (i : Nat) (p : AProd), a.prods[i]? = some p → ∃ r, g.recs[i]? = some r ∧
      resolveSpec (lastIdx (g.ruleNames.map (·.1))) (lastIdx (a.tokens.map (·.1))) g.implicitRule p.syms
        = some r.rhs ∧
      r.action = p.action.map (·.1) ∧ r.actionSpan = p.action.map (·.2) ∧ r.span = p.span ∧
      addedRules a k ≤ r.rule) ∧
    (∀ (i : Nat) (r : PRec), g.recs[i]? = some r → ∃ l, g.rulesProds[r.rule]? = some l ∧ i ∈ l) := by
  obtain ⟨us, tgt, added, low, hb⟩ := build_shape hc h
  refine ⟨?_, build_listed h⟩
  intro i p hp
  obtain ⟨ridx, r, hlo, hur, hri⟩ := hb.userRecs i p hp
  obtain ⟨h1, h2, _, h4, h5, h6⟩ := userRec_rule hur
  refine ⟨r, hri, ?_, h4, h5, h6, by omega⟩
  rw [resolveSyms_eq_spec (fun ir hir => ⟨1, rmap_implName hc a k us hir⟩), ← hb.implicitRule, mkCtx_rmap,
    mkCtx_tmap, ← hb.names] at h2
  exact h2

/-- **Productions in source order.** When the AST's rule names are distinct (they are the keys of an
`IndexMap`): user rule `j` of the AST is rule `added + j` of the grammar with its name, name span and
action type, and `rule_to_prods` of it is exactly the rule's `pidxs`, in the AST's order; every source
production `i` belongs to such a rule whose `pidxs` contain `i`. Together with `prod_image_spec`
(symbols, actions, spans of production `i` are those of AST production `i`) this fixes the user part
of the grammar completely. -/
theorem prods_in_source_order (hc : cfgOk cfg = true) (hn : (a.rules.map (·.name)).Nodup)
    (h : buildGrammar cfg a k = some g) :
    (∀ (j : Nat) (r : ARule), a.rules[j]? = some r →
      g.ruleNames[addedRules a k + j]? = some (r.name, r.nameSpan) ∧
      g.rulesProds[addedRules a k + j]? = some r.pidxs ∧
      g.actiontypes[addedRules a k + j]? = some r.actiont) ∧
    (∀ (i : Nat) (p : AProd), a.prods[i]? = some p → ∃ rec j r, g.recs[i]? = some rec ∧
      a.rules[j]? = some r ∧ rec.rule = addedRules a k + j ∧ i ∈ r.pidxs) := by
  obtain ⟨us, tgt, added, low, hb⟩ := build_shape hc h
  obtain ⟨_, _, _, _, _, _, _, hrn, _⟩ := build_fields h
  have hlen := (dense_numbering hc h).1
  have hrpl := (dense_numbering hc h).2.2.2.2.2.1
  refine ⟨?_, ?_⟩
  · intro j r hj
    obtain ⟨h1, h2⟩ := hb.order hn j r hj
    exact ⟨by rw [hrn, ruleNamesOf_user, hj]; rfl, h1, h2⟩
  · intro i p hp
    obtain ⟨rec, hri, _, _, _, _, hlo⟩ := (prod_image_spec hc h).1 i p hp
    obtain ⟨l, hl, hil⟩ := (prod_image_spec hc h).2 i rec hri
    have hlt : rec.rule < g.rulesProds.length := (List.getElem?_eq_some_iff.mp hl).1
    rw [hrpl, hlen] at hlt
    have hj : rec.rule - addedRules a k < a.rules.length := by omega
    refine ⟨rec, rec.rule - addedRules a k, a.rules[rec.rule - addedRules a k], hri,
      List.getElem?_eq_getElem hj, by omega, ?_⟩
    have := (hb.order hn _ _ (List.getElem?_eq_getElem hj)).1
    rw [show addedRules a k + (rec.rule - addedRules a k) = rec.rule by omega, hl] at this
    simp only [Option.some.injEq] at this
    exact this ▸ hil

/-- **Eco's implicit rule.** For an Eco grammar with `%implicit_tokens` (iterated in the order `its`):
the implicit rule is rule 1 (`~`), its productions are the `|its| + 1` productions that follow the
start production, in order `~: T ~;` for each implicit token `T` in iteration order and finally the
empty production. -/
theorem implicit_rule_shape (hc : cfgOk cfg = true) (h : buildGrammar cfg a .eco = some g) {its : List Str}
    (hits : a.implicitTokens = some its) :
    g.implicitRule = some 1 ∧
    g.rulesProds[1]? = some (List.range' (a.prods.length + 1) (its.length + 1)) ∧
    (∀ (j : Nat) (t : Str), its[j]? = some t → ∃ ti, lastIdx (a.tokens.map (·.1)) t = some ti ∧
      g.recs[a.prods.length + 1 + j]? = some (addedRec [.tok ti, .rule 1] 1)) ∧
    g.recs[a.prods.length + 1 + its.length]? = some (addedRec [] 1) := by
  obtain ⟨us, tgt, added, low, hb⟩ := build_shape hc h
  rcases hb.shape with ⟨_, _, h1, _, _⟩ | ⟨its', tis, _, hits', hi, _, h3, hm, ha, hl⟩
  · simp [addedRules, hits] at h1
  · rw [hits] at hits'
    simp only [Option.some.injEq] at hits'
    subst hits'
    have hlen : tis.length = its.length := by simpa using (congrArg List.length hm).symm
    refine ⟨?_, ?_, ?_, ?_⟩
    · rw [hb.implicitRule, hi, Option.bind_some, rmap_implName hc a .eco us hi]
    · rw [hb.lowRp 1 (by omega), hl]; rfl
    · intro j t hj
      have hjlt : j < its.length := (List.getElem?_eq_some_iff.mp hj).1
      have hmj := congrArg (fun l => l[j]?) hm
      simp only [List.getElem?_map, hj, Option.map_some] at hmj
      obtain ⟨ti, hti⟩ : ∃ ti, tis[j]? = some ti := ⟨tis[j]'(by omega), List.getElem?_eq_getElem (by omega)⟩
      rw [hti, Option.map_some, Option.some.injEq, mkCtx_tmap] at hmj
      refine ⟨ti, hmj, ?_⟩
      rw [hb.addedRecs _ (by omega), ha, show a.prods.length + 1 + j - a.prods.length = j + 1 by omega]
      unfold ecoAdded
      rw [List.getElem?_cons_succ, List.getElem?_append_left (by simp; omega), List.getElem?_map, hti]
      rfl
    · rw [hb.addedRecs _ (by omega), ha, show a.prods.length + 1 + its.length - a.prods.length = tis.length + 1 by omega]
      unfold ecoAdded
      rw [List.getElem?_cons_succ, List.getElem?_append_right (by simp)]
      simp

/-- no implicit rule for the other kinds, or for Eco without `%implicit_tokens` -/
theorem implicit_rule_absent (hc : cfgOk cfg = true) (h : buildGrammar cfg a k = some g)
    (hk : k ≠ .eco ∨ a.implicitTokens = none) : g.implicitRule = none := by
  obtain ⟨us, tgt, added, low, hb⟩ := build_shape hc h
  rcases hb.shape with ⟨hi, _⟩ | ⟨_, _, hk', hits, _⟩
  · rw [hb.implicitRule, hi]; rfl
  · rcases hk with hk | hk
    · exact absurd hk' hk
    · rw [hk] at hits; cases hits

/-- **Eco rewriting of a right-hand side**: without an implicit rule every symbol is replaced by its
index; with one, the implicit rule follows every TOKEN symbol (and only those). -/
theorem eco_rewrite_spec (rmap tmap : Str → Option Nat) (impl : Option Str) (syms : List ASym) (out : List Sym)
    (h : resolveSyms rmap tmap impl syms = some out) :
    match impl with
    | none => out.length = syms.length
    | some _ => out.length = syms.length + (syms.filter ASym.isTok).length ∧
        ∃ r, impl.bind rmap = some r ∨ syms.filter ASym.isTok = [] := by
  induction syms generalizing out with
  | nil =>
    simp only [resolveSyms, Option.some.injEq] at h; subst h
    cases impl <;> simp
  | cons x xs ih =>
    cases x with
    | rule n sp =>
      simp only [resolveSyms] at h
      cases h1 : rmap n with
      | none => simp [h1] at h
      | some r =>
        cases h2 : resolveSyms rmap tmap impl xs with
        | none => simp [h1, h2] at h
        | some tl =>
          simp only [h1, h2, Option.some.injEq] at h
          subst h
          have := ih tl h2
          cases impl with
          | none => simp only at this ⊢; simp [this]
          | some ir =>
            simp only at this ⊢
            obtain ⟨hl, r0, hr0⟩ := this
            refine ⟨by simp [ASym.isTok, hl]; omega, r0, ?_⟩
            simpa [ASym.isTok] using hr0
    | tok n sp =>
      simp only [resolveSyms] at h
      cases h1 : tmap n with
      | none => simp [h1] at h
      | some t =>
        cases h2 : resolveSyms rmap tmap impl xs with
        | none => simp [h1, h2] at h
        | some tl =>
          simp only [h1, h2] at h
          have := ih tl h2
          cases impl with
          | none =>
            simp only [Option.some.injEq] at h; subst h
            simp only at this ⊢; simp [this]
          | some ir =>
            simp only at h
            cases h3 : rmap ir with
            | none => simp [h3] at h
            | some r =>
              simp only [h3, Option.some.injEq] at h
              subst h
              simp only at this ⊢
              have hf : (List.filter ASym.isTok (ASym.tok n sp :: xs)).length = (List.filter ASym.isTok xs).length + 1 := by
                simp [List.filter_cons, ASym.isTok]
              refine ⟨by simp only [List.length_cons, hf, this.1]; omega, r, Or.inl (by simp [h3])⟩

/-! ### Stage B: the white-space and comment skipper -/

open GrmVerif.YaccLex in
/-- **`parse_ws` skips exactly a maximal sequence of layout items.** If skipping succeeds, what was
skipped is a concatenation of blanks, line ends, `//` comments (to the end of their line, or to the
end of the text) and `/* … */` comments whose body does not contain `*/`; the byte count and the
newline count are those of the skipped text; and the rest does not start with a layout item. -/
theorem ws_spec {s : List Char} {n nl : Nat} {rest : List Char} (h : parseWs true s = .ok (n, nl, rest)) :
    ∃ pre, s = pre ++ rest ∧ Layout true rest pre ∧ n = byteLen pre ∧ nl = countEol pre ∧ StopsLayout rest :=
  ws_spec_ok h

open GrmVerif.YaccLex in
/-- **Completeness**: every layout sequence followed by something that does not start a layout item
is skipped entirely — whatever the comment bodies contain (a line starting with `/` included). -/
theorem ws_complete {pre rest : List Char} (hl : Layout true rest pre) (hs : StopsLayout rest) :
    parseWs true (pre ++ rest) = .ok (byteLen pre, countEol pre, rest) :=
  ws_spec_complete hl hs

open GrmVerif.YaccLex in
/-- **An unterminated comment is an error at its start**, after a well-formed layout prefix. -/
theorem ws_unterminated {s : List Char} {p : Nat} (h : parseWs true s = .error (Err.incompleteComment, p)) :
    ∃ pre tail, s = pre ++ '/' :: '*' :: tail ∧ Layout true ('/' :: '*' :: tail) pre ∧ p = byteLen pre ∧
      NoClose tail :=
  ws_spec_unterminated h

/-! ### Stage T: the rules section of a rendered description is read back exactly -/

section StageT
open GrmVerif.YaccRender GrmVerif.YaccParse
open GrmVerif.Header (byteLen sliceRange)

/-- `g` is the flag "the kind is `YaccKind::Grmtools`" (rule headers are then `name -> type :`) -/
def isGrm (kind : YaccParse.Kind) : Bool := decide (kind = .grmtools)

/-- **Round trip of the rules section, every `YaccKind`.** Take ANY description `rs` of a rules
section (rules in order; each a name, for `Grmtools` an action type, and one or more productions;
each production an optional `%empty`, symbols — quoted `'x'`/`"x"` or bare names —, an optional
`%prec tok`, an optional action) that is well formed (`wfRules`, decidable: names match
`[a-zA-Z_.][a-zA-Z0-9_.]*`; quoted texts are non-empty, contain no newline and, after their first
character, not their quote; action texts have balanced braces as `parse_action` counts them; `%empty`
only without symbols; for `Grmtools` the type contains no single `:` and does not begin with white
space or `/`). Render it canonically (`renderRules`: `name: sym sym %prec tok {action} | … ;\n`,
for `Grmtools` `name -> type: …`, single spaces, one rule per line) after ANY text `pre` and the line
`%%\n`, and follow it by the end of the text or by `%%` and ANY programs text. Then the model of
`parse_rules`, started at the `%%`, in ANY state, with ANY fuel above the length of the text (`parse`
hands out `|src| + 1`), returns normally — no error, no panic, fuel not exhausted — exactly at the
end of the rendered rules, and the state it returns is `runRules`, the image of the description
computed WITHOUT parsing (`Lemmas/YaccRender.lean`): every rule added once with the span of its FIRST
definition, every production appended to `prods` in source order under its rule's name (a rule
defined twice contributes its productions in order of appearance), every symbol in order with its
kind, `%prec`, action presence, every quoted or `%prec` token inserted in the token set at its first
appearance (`image_productions`, `image_rule_names`, `image_token_names`), every span at the byte
offsets of the item's text (`image_spans`). -/
theorem parse_rules_roundtrip (pre post : List Char) (rs : List RRule) (kind : YaccParse.Kind)
    (fuel : Nat) (st : YaccParse.St) (hw : wfRules (isGrm kind) rs = true)
    (hp : post = [] ∨ ∃ t, post = '%' :: '%' :: t)
    (hf : byteLen (pre ++ '%' :: '%' :: '\n' :: (renderRules (isGrm kind) rs ++ post)) < fuel) :
    parseRules (pre ++ '%' :: '%' :: '\n' :: (renderRules (isGrm kind) rs ++ post)) kind fuel (byteLen pre) st
        = .ok (runRules (isGrm kind) (byteLen pre + 3) rs (St.incNl 1 st)) ∧
      (runRules (isGrm kind) (byteLen pre + 3) rs (St.incNl 1 st)).1
        = byteLen pre + 3 + byteLen (renderRules (isGrm kind) rs) := by
  have hat : At (pre ++ '%' :: '%' :: '\n' :: (renderRules (isGrm kind) rs ++ post)) (byteLen pre)
      ('%' :: '%' :: '\n' :: (renderRules (isGrm kind) rs ++ post)) := Header.dropBytes_append _ _
  have hlen : (renderRules (isGrm kind) rs).length < fuel := by
    have h1 := length_le_byteLen (pre ++ '%' :: '%' :: '\n' :: (renderRules (isGrm kind) rs ++ post))
    simp only [List.length_append, List.length_cons] at h1
    omega
  have hok := ruleOK_of_wf hw hlen
  have hk : kindIs (isGrm kind) kind := by simp [kindIs, isGrm]
  exact ⟨parseRules_at hk rs st post hat hok hp (by have := (len_rules (isGrm kind) rs).1; omega),
    runRules_pos _ _ _ _⟩

/-- **Round trip of the declarations.** Take ANY list `ds` of declarations out of `%start name`,
`%token tok…`, `%left`/`%right`/`%nonassoc tok…`, `%avoid_insert tok…`, `%implicit_tokens tok…` (Eco),
`%expect n`, `%expect-rr n`, `%actiontype type` (Original), `%parse-param name: type`, `%epp tok "text"`
that is well formed
(`wfDecls`, decidable: names and tokens as in the rules section; numbers are non-empty digit strings
below 2⁶⁴; types run to the end of their line and begin with a character that is not white space or
`/`; an `%epp` text has no newline and no backslash, its `"` are written `\"`; the kind-specific
declarations only for their kind) and not repetitive (`runDecls … = some r`:
`none` exactly when the parser would record a `Duplicate…` error — a second `%start`, `%expect`,
`%expect-rr`, `%actiontype`, a token given a precedence / an `%epp` / listed in `%avoid_insert` /
`%implicit_tokens` twice). Render it canonically, one declaration per line (`renderDecls`), after ANY
text `pre` (from which `parse_declarations` is started), followed by `%%` and ANY text. Then the model
of `parse_declarations`, in ANY state, with ANY fuel above the length of the text, returns normally at
the `%%`, records no error, and the state is the image `runDecls`: `%start` with the span of the name;
every `%token` in the token set (at its first appearance, with the span of its text) and in
`token_directives`; every precedence with the level = the number of precedence lines before it and
its kind, in source order; the `%avoid_insert` / `%implicit_tokens` sets in source order (their
tokens also in the token set); `%expect`/`%expect-rr` with the value of the digits and their span; the
`%actiontype` span; the `%parse-param` type; every `%epp` with the span of the token as written, the
UNESCAPED text and the span of the string literal. (`…_partial`: `%expect-unused` and
`%parse-generics`, which the generator does not emit, are not in the abstract syntax; an `%epp` text
is always written with double quotes.) -/
theorem parse_declarations_roundtrip_partial (pre x : List Char) (ds : List RDecl) (kind : YaccParse.Kind)
    (fuel : Nat) (st : YaccParse.St) (r : Nat × Nat × YaccParse.St) (hw : wfDecls kind ds = true)
    (hf : byteLen (pre ++ (renderDecls ds ++ '%' :: '%' :: x)) < fuel)
    (hr : runDecls (byteLen pre) 0 ds st = some r) :
    parseDeclarations (pre ++ (renderDecls ds ++ '%' :: '%' :: x)) kind fuel (byteLen pre) st = .ok (r.1, r.2.2) ∧
      r.1 = byteLen pre + byteLen (renderDecls ds) ∧ r.2.2.errs = st.errs := by
  have hat : At (pre ++ (renderDecls ds ++ '%' :: '%' :: x)) (byteLen pre) (renderDecls ds ++ '%' :: '%' :: x) :=
    Header.dropBytes_append _ _
  have hlen := length_le_byteLen (pre ++ (renderDecls ds ++ '%' :: '%' :: x))
  simp only [List.length_append, List.length_cons] at hlen
  obtain ⟨h1, h2⟩ := len_decls ds
  refine parseDeclarations_at ds st x r hat ?_ (by omega) hr
  intro d hd
  simp only [wfDecls, List.all_eq_true] at hw
  exact ⟨hw d hd, by have := h2 d hd; omega⟩

/-- **Round trip of a whole file** `declarations %% rules [%% programs]`, every `YaccKind`. For ANY
well-formed, non-repetitive description (`wfDecls`, `wfRules`, `runFile … = some st'`), the model of
`YaccParser::parse` on the canonical rendering — header parser included: it finds no `%grmtools`
section — returns `Ok` at the end of the text, with NO error in the error vector, and the AST is
exactly the image of the description: the declarations' image, then the rules' image on top of it
(`image_productions`, `image_rule_names`, `image_token_names`, `image_spans` describe it), then the
length of the programs text. The programs text is any text that does not begin with white space or a
comment. -/
theorem parse_roundtrip_partial (kind : YaccParse.Kind) (ds : List RDecl) (rs : List RRule) (post : List Char)
    (st' : YaccParse.St) (hwd : wfDecls kind ds = true) (hwr : wfRules (isGrm kind) rs = true)
    (hp : PostOK post) (hr : runFile (isGrm kind) ds rs post = some st') :
    YaccParse.parse (renderFile (isGrm kind) ds rs post) kind
      = .ok (byteLen (renderFile (isGrm kind) ds rs post), st'.ast) :=
  parse_file (by simp [kindIs, isGrm]) ds rs post st' hwd hwr hp hr

/-- **A whole file, read declaratively.** In the AST of a rendered file the productions are EXACTLY
the productions of the description, in source order (spans forgotten: rule name, symbols with kind,
`%prec`, action presence), where a bare name is a token iff a `%token` declaration OF THIS FILE names
it (`declsDirs ds`, in order of first declaration), and a rule reference otherwise; quoted symbols
are tokens. Together with `parse_roundtrip_partial`: `parse(render d).prods = d.prods`. -/
theorem file_productions (g : Bool) (ds : List RDecl) (rs : List RRule) (post : List Char) (st' : YaccParse.St)
    (h : runFile g ds rs post = some st') :
    st'.ast.prods.map prodView = descProds ((declsDirs ds).foldl addName []) rs :=
  runFile_productions h

/-- **The image, read declaratively: productions.** If the rules section is entered in a state in
which `dirs` are the names declared by `%token` and each of them is in the token set (what the
`%token` loop establishes), then — spans forgotten — the productions the image adds to the AST are
EXACTLY the productions of the description, in source order, each under the name of its rule, with
its symbols in order (a quoted symbol is a token; a bare name is a token iff it is in `dirs`, otherwise
a rule reference), its `%prec` token and the presence of its action: nothing is dropped, duplicated,
reordered or added. The productions that were there before are untouched. -/
theorem image_productions (dirs : List Name) (g : Bool) (rs : List RRule) (i : Nat) (st : YaccParse.St)
    (hd : DirsOK dirs st) :
    (runRules g i rs st).2.ast.prods.map prodView = st.ast.prods.map prodView ++ descProds dirs rs :=
  (runRules_view dirs g rs i st hd).2

/-- **The image, read declaratively: rules.** The rule names of the AST after the rules section are
those it had before followed by the names of the description's rules in order of FIRST definition:
a rule defined twice is one rule (its productions are all there, in order of appearance, by
`image_productions`), no rule is invented. -/
theorem image_rule_names (g : Bool) (rs : List RRule) (i : Nat) (st : YaccParse.St) :
    (runRules g i rs st).2.ast.rules.map (·.1)
      = (rs.map (·.name)).foldl addName (st.ast.rules.map (·.1)) :=
  runRules_ruleNames g rs i st

/-- **The image, read declaratively: tokens.** The token set after the rules section is the one
before it followed by the tokens first seen in the rules — the quoted symbols and the `%prec`
operands (quoted or bare), in source order, each once (`addName` = `IndexSet::insert`); a bare
SYMBOL never enters the token set. -/
theorem image_token_names (g : Bool) (rs : List RRule) (i : Nat) (st : YaccParse.St) :
    (runRules g i rs st).2.ast.tokens.map (·.1)
      = (rulesToks rs).foldl addName (st.ast.tokens.map (·.1)) :=
  runRules_toks g rs i st

/-- **Spans point at the right text.** In ANY text that contains the rendering of a well-formed
description at byte `i`, if every name the AST held before was spelled by its span (`TextOK`:
`src[span] = name` for every symbol of every production, every rule name, every member of the token
set, `%start`), then the same holds of the image: every symbol occurrence, every rule's name span
(first definition), every token first seen in the rules, and the implied start rule are recorded with
the span of exactly their own text (for a quoted token: the text between the quotes). -/
theorem image_spans (src : List Char) (pre post : List Char) (g : Bool) (rs : List RRule) (st : YaccParse.St)
    (hsrc : src = pre ++ (renderRules g rs ++ post)) (hw : wfRules g rs = true)
    (ht : TextOK src st.ast) : TextOK src (runRules g (byteLen pre) rs st).2.ast := by
  subst hsrc
  exact runRules_text g rs _ st post ht hw (Header.dropBytes_append _ _)

/-- **Nothing else is.** Started on an AST without productions, rules and tokens (what
`parse_declarations` leaves when no token is declared), the AST of a rendered description has no
production, no rule and no token that the description does not have: every production of the AST is
the image of a production of the description under its rule's name, every rule name is the name of a
described rule, every token is a quoted symbol or a `%prec` operand of the description. -/
theorem image_nothing_else (g : Bool) (rs : List RRule) (i : Nat) (st : YaccParse.St)
    (h0 : st.ast.prods = [] ∧ st.ast.rules = [] ∧ st.ast.tokens = [] ∧ st.ast.tokenDirs = []) :
    (∀ v ∈ (runRules g i rs st).2.ast.prods.map prodView,
        ∃ r ∈ rs, ∃ p ∈ r.prods, v = descProd [] r.name p) ∧
      (∀ n ∈ (runRules g i rs st).2.ast.rules.map (·.1), ∃ r ∈ rs, n = r.name) ∧
      (∀ n ∈ (runRules g i rs st).2.ast.tokens.map (·.1), n ∈ rulesToks rs) := by
  obtain ⟨h1, h2, h3, h4⟩ := h0
  have hd : DirsOK [] st := ⟨h4, fun n hn => by simp at hn⟩
  refine ⟨?_, ?_, ?_⟩
  · rw [(runRules_view [] g rs i st hd).2, h1]
    intro v hv
    simp only [List.map_nil, List.nil_append] at hv
    exact mem_descProds hv
  · rw [runRules_ruleNames, h2]
    intro n hn
    have := mem_foldl_addName hn
    simp only [List.map_nil, List.not_mem_nil, false_or, List.mem_map] at this
    obtain ⟨r, hr, rfl⟩ := this
    exact ⟨r, hr, rfl⟩
  · intro n hn
    have e := runRules_toks g rs i st
    simp only [tokNames, h3, List.map_nil] at e
    rw [e] at hn
    have := mem_foldl_addName hn
    simpa using this

/-- **Rendering is injective up to what the AST keeps** (a corollary of `parse ∘ render = image`): two
well-formed descriptions with the same rendering have the same productions (rule name, symbols with
their kinds, `%prec`, action presence, in order), the same rules in order of first definition and the
same tokens in order of first appearance. (The quote character of a token and the action text are
not in the model's AST; for the action text see `action_text_roundtrip`.) -/
theorem render_injective_on_image (dirs : List Name) (g : Bool) (rs rs' : List RRule)
    (hw : wfRules g rs = true) (hw' : wfRules g rs' = true) (h : renderRules g rs = renderRules g rs') :
    descProds dirs rs = descProds dirs rs' ∧
      (rs.map (·.name)).foldl addName [] = (rs'.map (·.name)).foldl addName [] ∧
      (rulesToks rs).foldl addName dirs = (rulesToks rs').foldl addName dirs := by
  let st : YaccParse.St := { ast := { tokens := dirs.map (fun n => (n, (0, 0))), tokenDirs := dirs } }
  have hd : DirsOK dirs st := by
    refine ⟨rfl, fun n hn => ?_⟩
    simp only [st, Ast.hasToken, List.any_map, List.any_eq_true]
    simp only [List.contains_iff_mem] at hn
    exact ⟨n, hn, by simp⟩
  obtain ⟨kind, hkind⟩ : ∃ kind : YaccParse.Kind, isGrm kind = g := by
    cases g
    · exact ⟨.original, by decide⟩
    · exact ⟨.grmtools, by decide⟩
  subst hkind
  have h1 := (parse_rules_roundtrip [] [] rs kind
    (byteLen ([] ++ '%' :: '%' :: '\n' :: (renderRules (isGrm kind) rs ++ [])) + 1)
    st hw (.inl rfl) (Nat.lt_succ_self _)).1
  have h2 := (parse_rules_roundtrip [] [] rs' kind
    (byteLen ([] ++ '%' :: '%' :: '\n' :: (renderRules (isGrm kind) rs' ++ [])) + 1)
    st hw' (.inl rfl) (Nat.lt_succ_self _)).1
  rw [h] at h1
  rw [h1] at h2
  have heq : runRules (isGrm kind) (byteLen ([] : List Char) + 3) rs (St.incNl 1 st)
      = runRules (isGrm kind) (byteLen ([] : List Char) + 3) rs' (St.incNl 1 st) := by
    injection h2
  have hd' : DirsOK dirs (St.incNl 1 st) := hd
  refine ⟨?_, ?_, ?_⟩
  · have a := (runRules_view dirs (isGrm kind) rs (byteLen ([] : List Char) + 3) _ hd').2
    have b := (runRules_view dirs (isGrm kind) rs' (byteLen ([] : List Char) + 3) _ hd').2
    rw [heq] at a
    rw [a] at b
    simpa using b
  · have a := runRules_ruleNames (isGrm kind) rs (byteLen ([] : List Char) + 3) (St.incNl 1 st)
    have b := runRules_ruleNames (isGrm kind) rs' (byteLen ([] : List Char) + 3) (St.incNl 1 st)
    rw [heq] at a
    rw [a] at b
    exact b
  · have a := runRules_toks (isGrm kind) rs (byteLen ([] : List Char) + 3) (St.incNl 1 st)
    have b := runRules_toks (isGrm kind) rs' (byteLen ([] : List Char) + 3) (St.incNl 1 st)
    rw [heq] at a
    rw [a] at b
    have e : tokNames (St.incNl 1 st) = dirs := by
      simp [tokNames, St.incNl, st, Function.comp_def]
    rw [e] at b
    exact b

/-- **The span of a production.** The production the image records for a well-formed `pr` written
at the end of `pre` (`mkProd … (runProd …)` is what `runRules` appends to `prods`, under any rule name,
in any state) has the span that begins at the production's first byte and delimits `prodSpanText pr`:
the items `%empty`, symbols, `%prec tok` with single spaces between them — WITHOUT the space after the
last item when no action follows, and up to the `{` of the action, that space INCLUDED, when one
follows (this is how `parse_rule` sets `pos_prod_end`; an empty production without `%empty` has the
empty span at its `|`/`;`). -/
theorem image_production_span (pre k : List Char) (rn : Name) (pr : RProd) (st : YaccParse.St)
    (hw : wfProd pr = true) :
    (mkProd rn (runProd (byteLen pre) pr st).2.1 (runProd (byteLen pre) pr st).1).span
        = (byteLen pre, byteLen pre + byteLen (prodSpanText pr)) ∧
      (sliceRange (pre ++ (renderProd pr ++ k)) (byteLen pre) (byteLen pre + byteLen (prodSpanText pr))
        : Header.Res YErr _) = .ok (prodSpanText pr) := by
  refine ⟨runProd_span rn _ pr st hw, ?_⟩
  obtain ⟨tail, ht⟩ := prodSpanText_prefix pr
  have hat : At (pre ++ (renderProd pr ++ k)) (byteLen pre) (prodSpanText pr ++ (tail ++ k)) := by
    have := Header.dropBytes_append pre (renderProd pr ++ k)
    rw [ht, List.append_assoc] at this
    rw [ht, List.append_assoc]; exact this
  exact hat.range

/-- **The action text is read back exactly.** An action `{a}` with balanced braces, wherever it is
in a text, is consumed by `parse_action` up to and including ITS closing brace (the braces inside `a`
are paired off, newlines inside `a` are counted), and the text the parser slices out for the AST,
`src[i+1 .. j]`, is `a`, character for character. -/
theorem action_text_roundtrip (pre a rest : List Char) (fuel : Nat) (st : YaccParse.St) (ha : wfAction a = true)
    (hf : a.length + 2 ≤ fuel) :
    parseAction (pre ++ '{' :: (a ++ '}' :: rest)) fuel (byteLen pre) st
        = .ok (byteLen pre + byteLen a + 2, St.incNl (YaccLex.countEol a) st) ∧
      (sliceRange (pre ++ '{' :: (a ++ '}' :: rest)) (byteLen pre + 1) (byteLen pre + 1 + byteLen a)
        : Header.Res YErr _) = .ok a := by
  have hat : At (pre ++ '{' :: (a ++ '}' :: rest)) (byteLen pre) ('{' :: (a ++ '}' :: rest)) :=
    Header.dropBytes_append _ _
  exact ⟨parseAction_at st hat ha hf, (hat.adv1 (by decide)).range⟩

end StageT

/-! ### hypotheses are satisfiable / unit tests (labelled as tests, literals only) -/

/-- test: the extracted start-rule constant is non-empty, so `start_rule_name_fresh` applies -/
example : Extracted.YACC_START_RULE ≠ [] := by decide

/-- test: the extracted constants `"^"`, `"~"`, `"^~"` satisfy `cfgOk` -/
example : cfgOk ⟨Extracted.YACC_START_RULE, Extracted.YACC_IMPLICIT_RULE, Extracted.YACC_IMPLICIT_START_RULE⟩ = true := by
  decide

/-- test: a concrete AST (`%start A  A: 'a';`) satisfies `refsOk`, has distinct rule names, and builds -/
example : refsOk exampleAst = true ∧ (exampleAst.rules.map (·.name)).Nodup ∧
    (buildGrammar ⟨[94], [126], [94, 126]⟩ exampleAst .original).isSome = true := by decide

/-- test: an AST whose production references the added start rule's name violates `refsOk` -/
example : refsOk { exampleAst with prods := [⟨[.rule [94] (4, 5)], none, none, (3, 6)⟩] } = false := by decide

/-- test: `A: 'a'` with a rule that is itself called `^` gets `^^` as the added rule -/
example : fresh [[94], [65]] [94] = [94, 94] := by decide

/-- test: a tiny AST builds (`%start A  A: 'a';`), start production `[rule 1]` at index 1 -/
example :
    (buildGrammar ⟨[94], [126], [94, 126]⟩
      { start := some ([65], (0, 1)), rules := [⟨[65], (0, 1), [0], none⟩],
        prods := [⟨[.tok [97] (4, 5)], none, none, (3, 6)⟩], tokens := [([97], (4, 5))], precs := [],
        avoidInsert := none, implicitTokens := none, epp := [], expect := none, expectrr := none }
      .original).map (fun g => (g.startProd, g.prods, g.eof)) = some (1, [[.tok 0], [.rule 1]], 1) := by
  decide

/-! #### tests of Stage T (literals only) -/

section StageTTests
open GrmVerif.YaccRender GrmVerif.YaccParse

/-- test description: two rules, `S` defined twice, an empty production, `%empty`, a `%prec`, quoted
tokens of both kinds, a bare reference, an action with nested braces and a newline -/
def exampleRules : List RRule :=
  [ { name := "S".toList,
      first := { syms := [.bare "A".toList, .quoted '\'' "+".toList], prec := some (.quoted '"' "p".toList),
                 action := some "$$ = { f({1}) };\n".toList },
      more := [{}] },
    { name := "A".toList, first := { empty := true } },
    { name := "S".toList, first := { syms := [.quoted '"' "y".toList, .bare "T".toList] } } ]

/-- test: the description satisfies the hypothesis of `parse_rules_roundtrip` -/
example : wfRules false exampleRules = true := by decide

/-- test: its rendering -/
example : String.ofList (renderRules false exampleRules)
    = "S: A '+' %prec \"p\" {$$ = { f({1}) };\n} | ;\nA: %empty ;\nS: \"y\" T ;\n" := by decide

/-- test: the parse of the rendering, evaluated through the theorem: no error, and the productions,
rules and tokens of the AST (`T` was declared by `%token`, so the bare `T` is a token; `A` is not) -/
example :
    let st : YaccParse.St := { ast := { tokens := [("T".toList, (7, 8))], tokenDirs := ["T".toList] } }
    let src := "%token T\n".toList ++ '%' :: '%' :: '\n' :: (renderRules (isGrm .eco) exampleRules ++ [])
    ∃ i st', parseRules src .eco (Header.byteLen src + 1) 9 st = .ok (i, st') ∧ i = Header.byteLen src ∧
      st'.ast.prods.map prodView =
        [⟨"S".toList, [(false, "A".toList), (true, "+".toList)], some "p".toList, true⟩,
         ⟨"S".toList, [], none, false⟩, ⟨"A".toList, [], none, false⟩,
         ⟨"S".toList, [(true, "y".toList), (true, "T".toList)], none, false⟩] ∧
      st'.ast.rules = [("S".toList, (12, 13)), ("A".toList, (55, 56))] ∧
      st'.ast.tokens.map (·.1) = ["T".toList, "+".toList, "p".toList, "y".toList] := by
  intro st src
  have h := parse_rules_roundtrip "%token T\n".toList [] exampleRules .eco (Header.byteLen src + 1) st
    (by decide) (.inl rfl) (Nat.lt_succ_self _)
  refine ⟨_, _, h.1, ?_, ?_, ?_, ?_⟩ <;> decide

/-- test: a whole file with declarations of six kinds satisfies the hypotheses of
`parse_roundtrip_partial`, and its image has the expected declarations -/
def exampleDecls : List RDecl :=
  [.token (.bare "T".toList) [.quoted '\'' "+".toList], .start "S".toList,
   .prec .left (.quoted '\'' "+".toList) [], .prec .nonassoc (.bare "T".toList) [], .expect "2".toList,
   .avoidInsert (.bare "T".toList) [], .parseParam "p".toList "&mut u8".toList]

example : wfDecls .eco exampleDecls = true ∧ wfRules false exampleRules = true ∧
    (match runFile false exampleDecls exampleRules [] with
      | none => false
      | some st =>
        st.ast.start.map (·.1) == some "S".toList && st.ast.tokenDirs == ["T".toList, "+".toList] &&
        st.ast.precs.map (fun p => (p.1, p.2.1)) == [("+".toList, 0), ("T".toList, 1)] &&
        st.ast.expect.map (·.1) == some 2 && (st.ast.avoidInsert.getD []).map (·.1) == ["T".toList] &&
        st.ast.parseParam == some "&mut u8".toList &&
        st.ast.tokens.map (·.1) == ["T".toList, "+".toList, "p".toList, "y".toList] && st.errs.length == 0) = true := by
  refine ⟨by decide, by decide, by decide⟩

end StageTTests

end GrmVerif.C10
