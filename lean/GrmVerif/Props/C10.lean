import GrmVerif.Lemmas.YaccBuild2
import GrmVerif.Lemmas.YaccLex
import GrmVerif.Extracted
/-!
# C10 — a grammar object is a faithful, well-formed image of its `.y` source

Property theorems only.

* Stage A (AST → grammar object): `Model/YaccBuild.lean` is a transcription of
  `YaccGrammar::new_from_ast_with_validity_info` (REPAIRED code: `prod_spans`, `actions`, `action_spans`
  have one entry per production). `buildGrammar … = some g` means "the construction did not panic".
  The theorems are about every AST, every kind, every iteration order of the implicit-token map.
* Stage B (lexical layer): `Model/YaccLex.lean` is a transcription of `parse_ws` (REPAIRED: a newline
  inside `/* */` no longer falls through to the end-of-comment test) and of the other lexical helpers.
* The text layer between them (declaration and rule loops) is NOT modelled: it is tied by the
  generator oracle of `harness/src/props/c10.rs` (real AST = the AST the rendering defines).
-/
namespace GrmVerif.C10
open GrmVerif GrmVerif.YaccBuild

variable {cfg : Cfg} {a : AST} {k : Kind} {g : IGrammar}

/-- **Dense numbering.** Rules and tokens are numbered `0 … len-1` with exactly the source's rules
plus the added ones (`^`; `~`, `^~` for Eco with implicit tokens) and the source's tokens plus one;
EVERY per-rule, per-token and per-production table of the object has exactly `rules_len` /
`tokens_len` / `prods_len` entries — in particular `prod_span`, `action`, `action_span` are defined on
every `PIdx` (this is what was false before the repair). Missing for the full statement: the exact
value `prods_len = |source productions| + 1 (+ |implicit tokens| + 2)`; the harness compares it on
every case (`np` field). -/
theorem dense_numbering_partial (h : buildGrammar cfg a k = some g) :
    g.rulesLen = a.rules.length + addedRules a k ∧ g.tokensLen = a.tokens.length + 1 ∧
    g.tokenPrecs.length = g.tokensLen ∧ g.tokenEpp.length = g.tokensLen ∧
    g.rulesProds.length = g.rulesLen ∧ g.actiontypes.length = g.rulesLen ∧
    g.prods.length = g.prodsLen ∧ g.prodsRules.length = g.prodsLen ∧ g.prodPrecs.length = g.prodsLen ∧
    g.actions.length = g.prodsLen ∧ g.actionSpans.length = g.prodsLen ∧ g.prodSpans.length = g.prodsLen := by
  obtain ⟨us, sp, st, _, hm, _, _, hrn, htn, htp, hte, _, hrp, hat, _⟩ := build_fields h
  have hinv := mainLoop_inv _ (Inv (ruleNamesOf cfg a k).length (a.tokens.length + 1))
    (stepRule_inv (mkCtx_mapsOk cfg a k us)) _ _ _ (st0_inv cfg a k) hm
  refine ⟨?_, ?_, ?_, ?_, ?_, ?_, ?_⟩
  · simp only [IGrammar.rulesLen, hrn]; exact ruleNamesOf_length cfg a k
  · simp [IGrammar.tokensLen, htn]
  · simp [IGrammar.tokensLen, htn, htp]
  · simp [IGrammar.tokensLen, htn, hte]
  · simp only [IGrammar.rulesLen, hrn, hrp]; exact hinv.rpLen
  · simp only [IGrammar.rulesLen, hrn, hat]; exact hinv.atLen
  · simp [IGrammar.prods, IGrammar.prodsRules, IGrammar.prodPrecs, IGrammar.actions, IGrammar.actionSpans,
      IGrammar.prodSpans, IGrammar.prodsLen]

/-- **Every index the object stores is in range**: the rule of every production, every symbol of
every right-hand side, every production listed for a rule, the start production, the end-of-input
token, the implicit rule, and the `%avoid_insert` bit vector has one bit per token. For EVERY AST on
which the construction does not panic — no validity assumption is needed. -/
theorem indices_in_range (h : buildGrammar cfg a k = some g) :
    (∀ r ∈ g.recs, r.rule < g.rulesLen ∧ ∀ s ∈ r.rhs, SymOk g.rulesLen g.tokensLen s) ∧
    (∀ l ∈ g.rulesProds, ∀ p ∈ l, p < g.prodsLen) ∧
    g.startProd < g.prodsLen ∧ g.eof < g.tokensLen ∧
    (∀ r, g.implicitRule = some r → r < g.rulesLen) ∧
    (∀ v, g.avoidInsert = some v → v.length = g.tokensLen) := by
  obtain ⟨us, sp, st, _, hm, hu, hsp, hrn, htn, _, _, heof, hrp, _, hir, _, _, hav⟩ := build_fields h
  have hmaps := mkCtx_mapsOk cfg a k us
  have hinv := mainLoop_inv _ (Inv (ruleNamesOf cfg a k).length (a.tokens.length + 1))
    (stepRule_inv hmaps) _ _ _ (st0_inv cfg a k) hm
  have hslots := unwrapAll_spec _ _ hu
  have hR : g.rulesLen = (ruleNamesOf cfg a k).length := by simp [IGrammar.rulesLen, hrn]
  have hT : g.tokensLen = a.tokens.length + 1 := by simp [IGrammar.tokensLen, htn]
  have hP : st.slots.length = g.prodsLen := by simp [hslots, IGrammar.prodsLen]
  refine ⟨?_, ?_, ?_, ?_, ?_, ?_⟩
  · intro r hr
    rw [hR, hT]
    exact hinv.recs r (by rw [hslots]; exact List.mem_map.mpr ⟨r, hr, rfl⟩)
  · intro l hl p hp
    rw [← hP]; exact hinv.rp l (hrp ▸ hl) p hp
  · rw [← hP]
    cases h1 : (mkCtx cfg a k us).rmap (mkCtx cfg a k us).startName with
    | none => simp [h1] at hsp
    | some r =>
      simp only [h1, Option.bind_some] at hsp
      cases h2 : st.rulesProds[r]? with
      | none => simp [h2] at hsp
      | some l =>
        simp only [h2, Option.bind_some] at hsp
        exact hinv.rp l (List.mem_of_getElem? h2) _ (List.mem_of_getElem? hsp)
  · rw [hT, heof]; omega
  · intro r hr
    rw [hR]
    rw [hir] at hr
    cases hn : (mkCtx cfg a k us).implName with
    | none => simp [hn] at hr
    | some nm => simp only [hn, Option.bind_some] at hr; exact hmaps.r _ _ hr
  · intro v hv
    rw [hT]
    cases hai : a.avoidInsert with
    | none => simp only [hai] at hav; rw [hav] at hv; cases hv
    | some l =>
      simp only [hai] at hav
      obtain ⟨v', hv', hg⟩ := hav
      rw [hg] at hv
      simp only [Option.some.injEq] at hv
      subst hv
      rw [avoidBits_length _ _ _ _ hv']; simp

/-- **One unnamed end-of-input token, numbered last.** Tokens `0 … eof-1` are the source's tokens in
AST order with their names, spans, declared precedences and `%epp` strings (the token's own name when
it has no `%epp`); token `eof = tokens_len - 1` has no name, span, precedence or `%epp`. -/
theorem eof_last_unnamed (h : buildGrammar cfg a k = some g) :
    g.eof + 1 = g.tokensLen ∧ g.eof = a.tokens.length ∧
    g.tokenNames[g.eof]? = some none ∧ g.tokenPrecs[g.eof]? = some none ∧ g.tokenEpp[g.eof]? = some none ∧
    (∀ (i : Nat) (name : Str) (sp : Span), a.tokens[i]? = some (name, sp) →
      g.tokenNames[i]? = some (some (sp, name)) ∧ g.tokenPrecs[i]? = some (assoc a.precs name) ∧
      g.tokenEpp[i]? = some (some ((assoc a.epp name).getD name))) := by
  obtain ⟨us, sp, st, _, _, _, _, _, htn, htp, hte, heof, _⟩ := build_fields h
  refine ⟨by simp [IGrammar.tokensLen, htn, heof], heof, ?_, ?_, ?_, ?_⟩
  · rw [htn, heof]; simp
  · rw [htp, heof]; simp
  · rw [hte, heof]; simp
  · intro i name sp hi
    have hlt : i < a.tokens.length := (List.getElem?_eq_some_iff.mp hi).1
    have hget : a.tokens[i] = (name, sp) := (List.getElem?_eq_some_iff.mp hi).2
    refine ⟨?_, ?_, ?_⟩
    · rw [htn, List.getElem?_append_left (by simpa using hlt)]; simp [hget, hlt]
    · rw [htp, List.getElem?_append_left (by simpa using hlt)]; simp [hget, hlt]
    · rw [hte, List.getElem?_append_left (by simpa using hlt)]; simp [hget, hlt]

/-- **The added start rule.** Rule 0 carries a name that no rule of the source has (however the
source's rules are called: the loop that lengthens `^` always ends with a fresh name), with the empty
span at 0; a reference to a rule of the source never resolves to rule 0. Missing for the full
statement (`start_prod = [Rule user_start]` resp. `[Rule ^~]`, rule 0 in no right-hand side of the
BUILT grammar): the walk through the main loop; the harness compares `start_prod`, `start_rule_idx`
and every right-hand side on every case. -/
theorem start_rule_shape_partial (hs : cfg.startRule ≠ []) (h : buildGrammar cfg a k = some g) :
    ∃ nm, g.ruleNames[0]? = some (nm, (0, 0)) ∧ nm = fresh (a.rules.map (·.name)) cfg.startRule ∧
      nm ∉ a.rules.map (·.name) ∧
      ∀ n ∈ a.rules.map (·.name), lastIdx (g.ruleNames.map (·.1)) n ≠ some 0 := by
  obtain ⟨us, sp, st, _, _, _, _, hrn, _⟩ := build_fields h
  have hfresh := fresh_not_mem (a.rules.map (·.name)) cfg.startRule hs
  have h0 : g.ruleNames[0]? = some (fresh (a.rules.map (·.name)) cfg.startRule, (0, 0)) := by
    rw [hrn]; unfold ruleNamesOf addedNames
    cases k <;> cases a.implicitTokens <;> simp
  refine ⟨_, h0, rfl, hfresh, ?_⟩
  intro n hn hl
  have := (lastIdx_lt hl).2
  rw [List.getElem?_map, h0] at this
  simp only [Option.map_some, Option.some.injEq] at this
  exact hfresh (this ▸ hn)

/-- **Per-production precedence** as computed for one production of the source: the precedence of
its `%prec` token if it has one (a `%prec` token without declared precedence is the panic `none`),
otherwise the declared precedence of its LAST token symbol — `none` if there is no token symbol or if
that last token has no declared precedence (earlier tokens are not consulted). Missing for the full
statement: that `prod_precedence(i)` of the built grammar is this value for source production `i`
(main-loop walk); the harness compares it on every production. -/
theorem prod_prec_spec_partial (precs : List (Str × Prec)) (p : AProd) :
    prodPrec precs p =
      match p.prec with
      | some n => (assoc precs n).map some
      | none => some ((lastTok p.syms).bind (assoc precs)) := by
  unfold prodPrec
  cases p.prec with
  | some n => rfl
  | none => simp only; rw [firstTokPrec_reverse]

/-- **Eco rewriting of a right-hand side**: without an implicit rule every symbol is replaced by its
index; with one, the implicit rule follows every TOKEN symbol (and only those). -/
theorem eco_rewrite_spec (rmap tmap : Str → Option Nat) (impl : Option Str) (syms : List ASym) (out : List Sym)
    (h : resolveSyms rmap tmap impl syms = some out) :
    match impl with
    | none => out.length = syms.length
    | some _ => out.length = syms.length + (syms.filter ASym.isTok).length ∧
        ∃ r, impl.bind rmap = some r ∨ syms.filter ASym.isTok = [] := by
  induction syms generalizing out with
  | nil =>
    simp only [resolveSyms, Option.some.injEq] at h; subst h
    cases impl <;> simp
  | cons x xs ih =>
    cases x with
    | rule n sp =>
      simp only [resolveSyms] at h
      cases h1 : rmap n with
      | none => simp [h1] at h
      | some r =>
        cases h2 : resolveSyms rmap tmap impl xs with
        | none => simp [h1, h2] at h
        | some tl =>
          simp only [h1, h2, Option.some.injEq] at h
          subst h
          have := ih tl h2
          cases impl with
          | none => simp only at this ⊢; simp [this]
          | some ir =>
            simp only at this ⊢
            obtain ⟨hl, r0, hr0⟩ := this
            refine ⟨by simp [ASym.isTok, hl]; omega, r0, ?_⟩
            simpa [ASym.isTok] using hr0
    | tok n sp =>
      simp only [resolveSyms] at h
      cases h1 : tmap n with
      | none => simp [h1] at h
      | some t =>
        cases h2 : resolveSyms rmap tmap impl xs with
        | none => simp [h1, h2] at h
        | some tl =>
          simp only [h1, h2] at h
          have := ih tl h2
          cases impl with
          | none =>
            simp only [Option.some.injEq] at h; subst h
            simp only at this ⊢; simp [this]
          | some ir =>
            simp only at h
            cases h3 : rmap ir with
            | none => simp [h3] at h
            | some r =>
              simp only [h3, Option.some.injEq] at h
              subst h
              simp only at this ⊢
              have hf : (List.filter ASym.isTok (ASym.tok n sp :: xs)).length = (List.filter ASym.isTok xs).length + 1 := by
                simp [List.filter_cons, ASym.isTok]
              refine ⟨by simp only [List.length_cons, hf, this.1]; omega, r, Or.inl (by simp [h3])⟩

/-! ### Stage B: the white-space and comment skipper -/

open GrmVerif.YaccLex in
/-- **`parse_ws` skips exactly a maximal sequence of layout items.** If skipping succeeds, what was
skipped is a concatenation of blanks, line ends, `//` comments (to the end of their line, or to the
end of the text) and `/* … */` comments whose body does not contain `*/`; the byte count and the
newline count are those of the skipped text; and the rest does not start with a layout item. -/
theorem ws_spec {s : List Char} {n nl : Nat} {rest : List Char} (h : parseWs true s = .ok (n, nl, rest)) :
    ∃ pre, s = pre ++ rest ∧ Layout true rest pre ∧ n = byteLen pre ∧ nl = countEol pre ∧ StopsLayout rest :=
  ws_spec_ok h

open GrmVerif.YaccLex in
/-- **Completeness**: every layout sequence followed by something that does not start a layout item
is skipped entirely — whatever the comment bodies contain (a line starting with `/` included). -/
theorem ws_complete {pre rest : List Char} (hl : Layout true rest pre) (hs : StopsLayout rest) :
    parseWs true (pre ++ rest) = .ok (byteLen pre, countEol pre, rest) :=
  ws_spec_complete hl hs

open GrmVerif.YaccLex in
/-- **An unterminated comment is an error at its start**, after a well-formed layout prefix. -/
theorem ws_unterminated {s : List Char} {p : Nat} (h : parseWs true s = .error (Err.incompleteComment, p)) :
    ∃ pre tail, s = pre ++ '/' :: '*' :: tail ∧ Layout true ('/' :: '*' :: tail) pre ∧ p = byteLen pre ∧
      NoClose tail :=
  ws_spec_unterminated h

/-! ### hypotheses are satisfiable / unit tests (labelled as tests, literals only) -/

/-- test: the extracted start-rule constant is non-empty, so `start_rule_shape_partial` applies -/
example : Extracted.YACC_START_RULE ≠ [] := by decide

/-- test: `A: 'a'` with a rule that is itself called `^` gets `^^` as the added rule -/
example : fresh [[94], [65]] [94] = [94, 94] := by decide

/-- test: a tiny AST builds (`%start A  A: 'a';`), start production `[rule 1]` at index 1 -/
example :
    (buildGrammar ⟨[94], [126], [94, 126]⟩
      { start := some ([65], (0, 1)), rules := [⟨[65], (0, 1), [0], none⟩],
        prods := [⟨[.tok [97] (4, 5)], none, none, (3, 6)⟩], tokens := [([97], (4, 5))], precs := [],
        avoidInsert := none, implicitTokens := none, epp := [], expect := none, expectrr := none }
      .original).map (fun g => (g.startProd, g.prods, g.eof)) = some (1, [[.tok 0], [.rule 1]], 1) := by
  decide

end GrmVerif.C10
