import GrmVerif.Lemmas.Actions2
import GrmVerif.Lemmas.RecActions5
import GrmVerif.Lemmas.RecActions6
import GrmVerif.Lemmas.RecActionsEx
import GrmVerif.Lemmas.LRError
import GrmVerif.Props.C05
/-!
# C08 — actions run once per reduction, bottom-up, with child values and matched span

Model: `Model/Actions.lean` (`parseA`: the LR driver of `Model/LR.lean` plus the span stack and the
log of action calls, as in `Parser::lr`). Specification: `Model/ActionsSpec.lean` (`specCalls`: from
the final tree, the calls that must have happened). `logOk log spec` says: same number of calls, in
the same order, each with the same production, rule and arguments, and the prescribed span (exactly
from the first to the last lexeme derived; any zero-length span when none was derived).

Recovery on (second half of the file): `Model/RecActions.lean` (`RecAct.recRunA`: `Parser::lr` with a
recoverer, value stack, span stack and action log; the first reported sequence of every error is
replayed in value mode as `apply_repairs`/`lr_upto` do). Lexeme identities: real lexeme `i` is `i`, the
zero-length faulty lexeme inserted before real lexeme `b` is `|w| + 1 + b` (`lexId`), `idSpan` gives each
identity its span (an inserted lexeme: zero length at the start of the next real lexeme, at the end of
the last lexeme when inserted at the end of input). Theorems: the driver refines `Rec.recRun`
(`recovering_driver_refines_recRun`), its plain steps are steps of `stepA`
(`recovering_driver_steps_are_plain_steps`), and the loop taken one table action per iteration returns
the same (`recovering_loop_step_by_step`); unconditionally its value and log are those of the run
over the edited input that offers each refused lexeme first and KEEPS the reductions made under it
(`recovering_run_is_edited_run_keeping_reductions`), and the log is the specification's call list of
the returned value (`recovering_actions_match_tree`, `recovering_actions_postorder`); on certified
tables value and log are exactly those of the PLAIN action driver `parseA` on the edited input
(`recovering_actions_are_actions_of_edited_input`, `…_certified`), so every theorem about `parseA`
transfers (`recovering_actions_transfer`, `recovering_value_is_lr_tree_of_edited_input`).
-/
namespace GrmVerif.C08
open GrmVerif Act LR Cert Rec RecAct C05

/-- the action-calling driver is the LR driver: same outcome, for every fuel -/
theorem actions_refine_lr (G : Grammar) (A : Automaton) (w : List Nat) (lexSpan : Nat → Nat × Nat) :
    ∀ (fuel : Nat) (a : ACfg), (runA G A w lexSpan fuel a).1 = run G A w fuel a.c := by
  intro fuel
  induction fuel with
  | zero => intro a; rfl
  | succ k ih =>
    intro a
    have hp := stepA_proj G A w lexSpan a
    simp only [runA, run]
    cases hs : stepA G A w lexSpan a with
    | cont a' => rw [hs] at hp; simp only at hp; rw [hp]; exact ih a'
    | done o log => rw [hs] at hp; simp only at hp; rw [hp]

/-- the invariant travels through the run: the returned log is the call list of the trees on the
stack of the configuration that ended the run -/
theorem run_log (G : Grammar) (A : Automaton) (w : List Nat) (lexSpan : Nat → Nat × Nat) :
    ∀ (fuel : Nat) (a : ACfg) (o : Outcome) (log : List Call), InvA G lexSpan a →
      runA G A w lexSpan fuel a = (o, log) → o ≠ .fuelOut →
      ∃ c : Cfg, step G A w c = .done o ∧ logOk log (specCallsList G lexSpan c.astack.reverse) = true ∧
        (∀ P : Props G A, InputOk G w → Inv G A w a.c → Inv G A w c) := by
  intro fuel
  induction fuel with
  | zero => intro a o log _ h hne; simp [runA] at h; exact absurd h.1.symm hne
  | succ k ih =>
    intro a o log hinv h hne
    have hp := stepA_proj G A w lexSpan a
    simp only [runA] at h
    cases hs : stepA G A w lexSpan a with
    | cont a' =>
      rw [hs] at h hp
      simp only at h hp
      obtain ⟨c, h1, h2, h3⟩ := ih a' o log (stepA_inv G A w lexSpan a a' hinv hs) h hne
      exact ⟨c, h1, h2, fun P hw hi => h3 P hw ((step_inv P hw hi).1 a'.c hp)⟩
    | done o' log' =>
      rw [hs] at h hp
      simp only at h hp
      injection h with e1 e2; subst e1; subst e2
      refine ⟨a.c, hp, ?_, fun _ _ hi => hi⟩
      -- a finishing step does not touch the log
      obtain ⟨⟨ps, as, la⟩, spans, lg⟩ := a
      have : log' = lg := by
        cases ps with
        | nil => simp [stepA] at hs; exact hs.2.symm
        | cons st rest =>
          cases hact : A.action st (nextTok G w la) with
          | error => simp [stepA, hact] at hs; exact hs.2.symm
          | shift s' => simp [stepA, hact] at hs
          | accept =>
            simp only [stepA, hact] at hs
            cases hl : as.getLast? with
            | none => simp [hl] at hs; exact hs.2.symm
            | some t => cases t <;> simp [hl] at hs <;> exact hs.2.symm
          | reduce p =>
            simp only [stepA, hact] at hs
            by_cases hle : (st :: rest).length ≤ (G.rhs p).length
            · rw [if_pos hle] at hs; injection hs with _ e; exact e.symm
            · rw [if_neg hle] at hs
              cases hd : List.drop (G.rhs p).length (st :: rest) with
              | nil => simp [hd] at hs; exact hs.2.symm
              | cons prior tl =>
                simp only [hd] at hs
                cases hg : A.goto prior (G.lhs p) with
                | none => simp [hg] at hs; exact hs.2.symm
                | some s' => simp [hg] at hs
      subst this
      exact hinv.log

/-- **Actions run once per reduction, bottom-up, with child values and matched span.** On a
certified automaton, when the parse of ANY input is accepted with tree `t`, the log of action calls
is exactly the specification's call list of `t`: one call per node, children before parents and
left to right (post-order), each with its production and rule, one argument per symbol in order
(the lexeme for a token, the child's value for a rule), and the span from the start of the first
to the end of the last lexeme the production derived — zero-length when it derived none. -/
theorem actions_match_tree (G : Grammar) (A : Automaton) (hc : check G A = true) (w : List Nat)
    (hw : InputOk G w) (lexSpan : Nat → Nat × Nat) (fuel : Nat) (t : Tree) (log : List Call)
    (h : parseA G A w lexSpan fuel = (.accept t, log)) :
    logOk log (specCalls G lexSpan t) = true := by
  have P := check_props G A hc
  obtain ⟨c, h1, h2, h3⟩ := run_log G A w lexSpan fuel (initA A) _ log (invA_init G A lexSpan) h (by simp)
  have hinv := h3 P hw (inv_init w)
  have hst := accept_stack P hw hinv t h1
  rw [hst] at h2
  simpa [specCallsList] using h2

/-- the productions of the calls, in order, are the post-order of the tree -/
theorem logOk_prods : ∀ (log : List Call) (spec : List SCall), logOk log spec = true →
    log.map (·.p) = spec.map (·.p)
  | [], [], _ => rfl
  | c :: cs, s :: ss, h => by
    simp only [logOk, Bool.and_eq_true, callOk, beq_iff_eq] at h
    simp [h.1.1.1.1, logOk_prods cs ss h.2]
  | [], _ :: _, h => by simp [logOk] at h
  | _ :: _, [], h => by simp [logOk] at h

mutual
theorem specCalls_prods (G : Grammar) (lexSpan : Nat → Nat × Nat) :
    ∀ t : Tree, (specCalls G lexSpan t).map (·.p) = Tree.postorder t
  | .leaf _ _ => rfl
  | .node p kids => by simp [specCalls, Tree.postorder, specCallsList_prods G lexSpan kids]
theorem specCallsList_prods (G : Grammar) (lexSpan : Nat → Nat × Nat) :
    ∀ ts : List Tree, (specCallsList G lexSpan ts).map (·.p) = Tree.postorderList ts
  | [] => rfl
  | k :: ks => by simp [specCallsList, Tree.postorderList, specCalls_prods G lexSpan k, specCallsList_prods G lexSpan ks]
end

/-- **once per reduction, in post-order** (corollary) -/
theorem actions_postorder (G : Grammar) (A : Automaton) (hc : check G A = true) (w : List Nat)
    (hw : InputOk G w) (lexSpan : Nat → Nat × Nat) (fuel : Nat) (t : Tree) (log : List Call)
    (h : parseA G A w lexSpan fuel = (.accept t, log)) :
    log.map (·.p) = Tree.postorder t := by
  rw [logOk_prods log _ (actions_match_tree G A hc w hw lexSpan fuel t log h), specCalls_prods]

/-- the tree built through the actions is the tree of the plain driver (which C01 shows to be a
valid derivation of the input) -/
theorem action_tree_is_lr_tree (G : Grammar) (A : Automaton) (w : List Nat) (lexSpan : Nat → Nat × Nat)
    (fuel : Nat) : (parseA G A w lexSpan fuel).1 = parse G A w fuel :=
  actions_refine_lr G A w lexSpan fuel (initA A)

/-! ## Recovery on: the recovering driver with value stack, span stack and action log -/

/-- **The recovering action driver refines the recovering driver of C05/C07.** Erasing values, spans
and log from `recRunA` (for every table, input, lexeme spans, recoverer, fuel and configuration) gives
`Rec.recRun` run with the recoverer `recoverOf` = "report the sequences, continue from where `applySeq`
of the FIRST one leaves the parser": the same error list, and `recRun`'s value flag says that a value
was returned (or that the Accept arm met a malformed value stack, the `unreachable!()` of the real code,
`crash 3`). `recoverOf` satisfies `C05.FirstApplies` by construction (`recoverOf_firstApplies`). -/
theorem recovering_driver_refines_recRun (G : Grammar) (A : Automaton) (w : List Nat) (lexSpan : Nat → Nat × Nat)
    (recover : Pos → List (List Repair)) (fuel : Nat) (c : RACfg) (errs : List Err) :
    recRun G A w (recoverOf G A w recover) fuel ⟨c.v.pstack, c.laidx⟩ errs =
      (acceptish (recRunA G A w lexSpan recover fuel c errs).1, (recRunA G A w lexSpan recover fuel c errs).2.2) ∧
    FirstApplies G A w (recoverOf G A w recover) :=
  ⟨recRunA_erase G A w lexSpan recover fuel c errs, recoverOf_firstApplies G A w recover⟩

/-- **The plain steps of the recovering driver are steps of the plain action driver.** Whenever the
reductions under the next lexeme end in a shift (for any fuel), the configuration with that lexeme
pushed is reached from the configuration before them by steps of `Act.stepA` — the very function
`parseA` iterates: same reductions, same spans, same action calls, same pushes. -/
theorem recovering_driver_steps_are_plain_steps (G : Grammar) (A : Automaton) (w : List Nat)
    (lexSpan : Nat → Nat × Nat) (i fuel : Nat) (v x : VCfg) (s' : Nat)
    (h : feedA G A (nextTok G w i) fuel v = .shifted s' x) :
    StepsA G A w lexSpan (v.toA i) ((pushLex s' (nextTok G w i) i (lexSpan i) x).toA (i + 1)) :=
  feedA_shifted_stepsA G A w lexSpan i h

/-- **The loop of `Parser::lr` taken one table action per iteration returns what the model returns.**
`lrA` is the loop with ONE `Act.stepA` per iteration (Reduce, Shift, Accept or Error arm, no per-lookahead
fuel; in the Error arm the recoverer is asked and its first sequence replayed). Whenever `recRunA` — which
handles one lookahead per iteration — returns a value or gives up at an error, `lrA` (with some fuel)
returns the same outcome, the same log of action calls and the same errors, for every table, input,
lexeme spans, recoverer and start configuration. So every theorem below about values returned by
`recRunA` is a theorem about values returned by the step-by-step loop. -/
theorem recovering_loop_step_by_step (G : Grammar) (A : Automaton) (w : List Nat) (lexSpan : Nat → Nat × Nat)
    (recover : Pos → List (List Repair)) (fuel : Nat) (c : RACfg) (errs : List Err) (o : Outcome)
    (log : List Call) (errs' : List Err) (h : recRunA G A w lexSpan recover fuel c errs = (o, log, errs'))
    (ho : (∃ t, o = .accept t) ∨ (∃ la st, o = .error la st)) :
    ∃ fuel', lrA G A w lexSpan recover fuel' c errs = (o, log, errs') :=
  lrA_of_recRunA G A w lexSpan recover fuel c errs o log errs' h ho

/-- **(b), first half: the recovering run is the run over the edited input that keeps the reductions
made under refused lexemes — with values and log.** No hypothesis about the table beyond the decidable
end-of-input discipline `eofOk`, none about the recoverer; every input without the end-of-input token,
every fuel, every start configuration within the input. The run appended errors `new` at increasing
positions, and if it returned the value `t` with the log `log`, then the value-level run over
`editedStepsA … new` — the lexemes of the edited input in order (each shifted after the reductions the
table prescribes under it, every reduction calling its action) and, at each error, FIRST the refused
lexeme (`offer`: the table reduces under it, the actions run, then it is refused and those reductions
are KEPT) — followed by the reductions under end-of-input ends in Accept with exactly that value and
exactly that log. Forgetting identities and spans, `editedStepsA` is `C05.editedSteps`
(`editedStepsA_erase`), and forgetting values the run is `C05.runSteps` (`runStepsA_erase`): this is
`C05.recRun_is_edited_run_keeping_reductions` with values. -/
theorem recovering_run_is_edited_run_keeping_reductions (G : Grammar) (A : Automaton) (w : List Nat)
    (lexSpan : Nat → Nat × Nat) (recover : Pos → List (List Repair))
    (heof : eofOk G A = true) (hw : G.eof ∉ w)
    (fuel : Nat) (c : RACfg) (errs : List Err) (o : Outcome) (log : List Call) (errs' : List Err)
    (hc : c.laidx ≤ w.length) (h : recRunA G A w lexSpan recover fuel c errs = (o, log, errs')) :
    ∃ new, errs' = errs ++ new ∧ Ordered w.length c.laidx new ∧
      (∀ t, o = .accept t → ∃ st y,
        runStepsA G A c.v (editedStepsA G w lexSpan w.length c.laidx new) = some st ∧
        feedA G A G.eof FUEL st = .accept y ∧ acceptOut y = .accept t ∧ y.log = log) :=
  recRunA_own G A w lexSpan recover (eofOk_spec heof).1 (eofOk_spec heof).2 hw fuel c errs o log errs' hc h

/-- **(b), second half — with recovery on, actions run once per reduction, bottom-up, with child values
and matched span.** On a table that passes `Cert.check` (and `colsOk`, true of every dumped automaton),
for EVERY input, lexeme spans, recoverer and fuel — no hypothesis about the recoverer, none about kept
reductions: when the recovering parse returns the value `t`, its log of action calls is exactly the
specification's call list of `t` (`specCalls`): one call per node of the FINAL tree, children before
parents and left to right, each with its production, rule and one argument per symbol in order (the
lexeme for a token — an inserted one included —, the child's value for a rule), and the span from the
start of the first to the end of the last lexeme the production derived — zero-length when it derived
none —, where a lexeme inserted by a repair counts as a derived lexeme of zero length at the start of
the next real lexeme (at the end of the last lexeme when inserted at the end of input): `idSpan`. In
particular the reductions made under a lexeme that was then refused are nodes of the final tree and
their actions ran exactly once. -/
theorem recovering_actions_match_tree (G : Grammar) (A : Automaton) (hc : check G A = true)
    (hcols : colsOk G A = true) (w : List Nat) (lexSpan : Nat → Nat × Nat)
    (recover : Pos → List (List Repair)) (fuel : Nat) (t : Tree) (log : List Call) (errs : List Err)
    (h : parseRA G A w lexSpan recover fuel = (.accept t, log, errs)) :
    logOk log (specCalls G (idSpan lexSpan w.length) t) = true :=
  recRunA_logOk G A w lexSpan recover (check_props G A hc) hcols fuel (initRA A) [] t log errs (Nat.zero_le _)
    (invA_init G A _) (good_init A) h

/-- **once per reduction, in post-order of the final tree, with recovery on** (corollary) -/
theorem recovering_actions_postorder (G : Grammar) (A : Automaton) (hc : check G A = true)
    (hcols : colsOk G A = true) (w : List Nat) (lexSpan : Nat → Nat × Nat)
    (recover : Pos → List (List Repair)) (fuel : Nat) (t : Tree) (log : List Call) (errs : List Err)
    (h : parseRA G A w lexSpan recover fuel = (.accept t, log, errs)) :
    log.map (·.p) = Tree.postorder t := by
  rw [logOk_prods log _ (recovering_actions_match_tree G A hc hcols w lexSpan recover fuel t log errs h),
    specCalls_prods]

/-- **The value-carrying form of `C05.KeptShiftInvisible` holds of every certified table.**
`wholeRunCert G A = true` (the decidable certificates of C05's whole-run theorems: `Cert.check`,
`Cert.checkLA`, `Cert.vpClosed`, `colsOk`) gives `KeptShiftInvisibleA G A`: if the configuration `a`
left after offering refused lexemes to `b` (their reductions and action calls kept; `b`'s state stack a
path of the automaton) shifts a token or accepts, then `b` under that token reaches THE SAME value
configuration — same state, value and span stacks, same log: it makes exactly the kept reductions first,
because the cell of each kept reduction under the later token holds that very reduction
(`C05.feed_reduce_same`). `KeptShiftInvisibleA` implies `C05.KeptShiftInvisible`
(`kept_actions_invisible_implies_kept_shifts_invisible`); the converse fails on tables that merely pass
`Cert.check`: equal state stacks do not determine the reductions made. -/
theorem certified_table_keeps_actions_invisible (G : Grammar) (A : Automaton) (h : wholeRunCert G A = true) :
    check G A = true ∧ colsOk G A = true ∧ KeptShiftInvisibleA G A := by
  obtain ⟨hc, hvp, hcols, An, hAn, hla⟩ := wholeRunCert_unpack h
  have P := check_props G A hc
  obtain ⟨hn, hf, _⟩ := C17.analyses_exact G P.wf An hAn
  refine ⟨hc, hcols, keptShiftInvisibleA_of_cert hc hla ?_ ?_ hvp hcols⟩
  · intro r; simpa using hn r
  · intro r t; simpa using hf r t

/-- the value-carrying hypothesis is a strengthening of C05's -/
theorem kept_actions_invisible_implies_kept_shifts_invisible (G : Grammar) (A : Automaton)
    (hk : KeptShiftInvisibleA G A) : KeptShiftInvisible G A :=
  keptShiftInvisibleA_implies G A hk

/-- **(a) With recovery on, the actions that run are exactly the actions of a plain parse of the edited
input.** Hypotheses: the table passes `Cert.check` and `colsOk`; `KeptShiftInvisibleA G A` (the reductions
kept under refused lexemes, with their action calls, are exactly those the plain parse makes under a
token that is shifted or accepted afterwards; true of every table with `wholeRunCert`, see
`…_certified`); the first sequence the recoverer reports at every error repairs (`FirstValid … N`,
`N ≥ 1`, of `recoverOf`; `FirstApplies` holds by construction); the input does not contain the
end-of-input token. Conclusion, for every lexeme spans and fuel: if the recovering parse returns the
value `t` with the log `log` and the errors `errs`, then the PLAIN action driver `parseA` run (with some
fuel) on the edited input — tokens `editedToks` (the first sequence of every error applied), spans
`editedSpan` (from `editedLex`: a real lexeme keeps its span, an inserted one is the zero-length span at
the start of the next real lexeme) — accepts with a value `t'` and a log `log'` such that `t` is `t'`
and `log` is `log'`, call for call in the same order with the same production, rule, span and
arguments, once the `k`-th lexeme of the edited input is called by the identity the recovering driver
gives it (`editedId`: the index of the real lexeme, or the flagged identity of the inserted one). -/
theorem recovering_actions_are_actions_of_edited_input (G : Grammar) (A : Automaton) (w : List Nat)
    (lexSpan : Nat → Nat × Nat) (recover : Pos → List (List Repair))
    (hcert : check G A = true) (hcols : colsOk G A = true) (hk : KeptShiftInvisibleA G A)
    (N : Nat) (hN : 1 ≤ N) (hvalid : FirstValid G A w N (recoverOf G A w recover)) (hw : G.eof ∉ w)
    (fuel : Nat) (t : Tree) (log : List Call) (errs : List Err)
    (h : parseRA G A w lexSpan recover fuel = (.accept t, log, errs)) :
    ∃ fuel' t' log',
      parseA G A (editedToks w w.length 0 errs) (editedSpan w lexSpan errs) fuel' = (.accept t', log') ∧
      t = treeMapIdx (editedId w errs) t' ∧ log = log'.map (callMapIdx (editedId w errs)) := by
  have P := check_props G A hcert
  obtain ⟨hsh, hacc⟩ := eof_discipline_of_cert P hcols
  obtain ⟨new, h1, _, h3⟩ := recRunA_plainK G A w lexSpan recover P hcols hN hvalid hsh hacc hw hk fuel
    (initRA A) [] _ log errs (initV A) (Nat.zero_le _) (.refl _) (Term.IsPath.start A) (Or.inl rfl) h
  simp only [List.nil_append] at h1
  subst h1
  obtain ⟨st, y, f, hfeeds, hacc', hout, hlog⟩ := h3 t rfl
  obtain ⟨fuel', t', log', hp, ht, hl⟩ := plain_run_is_parseA G A w lexSpan errs hfeeds hacc' hout
  exact ⟨fuel', t', log', hp, ht, by rw [← hlog, hl]⟩

/-- **(a) on certified tables: no undecidable hypothesis about the table is left.** The same with
`wholeRunCert G A = true` in place of `check`, `colsOk` and `KeptShiftInvisibleA`. -/
theorem recovering_actions_are_actions_of_edited_input_certified (G : Grammar) (A : Automaton) (w : List Nat)
    (lexSpan : Nat → Nat × Nat) (recover : Pos → List (List Repair))
    (hcert : wholeRunCert G A = true)
    (N : Nat) (hN : 1 ≤ N) (hvalid : FirstValid G A w N (recoverOf G A w recover)) (hw : G.eof ∉ w)
    (fuel : Nat) (t : Tree) (log : List Call) (errs : List Err)
    (h : parseRA G A w lexSpan recover fuel = (.accept t, log, errs)) :
    ∃ fuel' t' log',
      parseA G A (editedToks w w.length 0 errs) (editedSpan w lexSpan errs) fuel' = (.accept t', log') ∧
      t = treeMapIdx (editedId w errs) t' ∧ log = log'.map (callMapIdx (editedId w errs)) := by
  obtain ⟨h1, h2, h3⟩ := certified_table_keeps_actions_invisible G A hcert
  exact recovering_actions_are_actions_of_edited_input G A w lexSpan recover h1 h2 h3 N hN hvalid hw fuel t log errs h

/-- **Every theorem about `parseA` transfers to the recovering run** (certified tables; edited input
made of real tokens, `InputOk`: the recoverer never inserts end-of-input). With `t'`, `log'` the value
and log of `parseA` on the edited input, of which `t`, `log` are the renamings
(`recovering_actions_are_actions_of_edited_input_certified`): `log'` is the specification's call list of
`t'` w.r.t. the edited spans (`actions_match_tree`), its productions are the post-order of `t'` — which
is the post-order of `t` — (`actions_postorder`), and `t'` is the tree the plain LR driver of C01
returns for the edited input (`action_tree_is_lr_tree`). -/
theorem recovering_actions_transfer (G : Grammar) (A : Automaton) (w : List Nat)
    (lexSpan : Nat → Nat × Nat) (recover : Pos → List (List Repair))
    (hcert : wholeRunCert G A = true)
    (N : Nat) (hN : 1 ≤ N) (hvalid : FirstValid G A w N (recoverOf G A w recover)) (hw : G.eof ∉ w)
    (fuel : Nat) (t : Tree) (log : List Call) (errs : List Err)
    (h : parseRA G A w lexSpan recover fuel = (.accept t, log, errs))
    (hin : InputOk G (editedToks w w.length 0 errs)) :
    ∃ fuel' t' log',
      parseA G A (editedToks w w.length 0 errs) (editedSpan w lexSpan errs) fuel' = (.accept t', log') ∧
      t = treeMapIdx (editedId w errs) t' ∧ log = log'.map (callMapIdx (editedId w errs)) ∧
      logOk log' (specCalls G (editedSpan w lexSpan errs) t') = true ∧
      log.map (·.p) = Tree.postorder t' ∧ Tree.postorder t = Tree.postorder t' ∧
      parse G A (editedToks w w.length 0 errs) fuel' = .accept t' := by
  obtain ⟨hc, _, _⟩ := certified_table_keeps_actions_invisible G A hcert
  obtain ⟨fuel', t', log', hp, ht, hl⟩ := recovering_actions_are_actions_of_edited_input_certified G A w lexSpan
    recover hcert N hN hvalid hw fuel t log errs h
  refine ⟨fuel', t', log', hp, ht, hl, actions_match_tree G A hc _ hin _ fuel' t' log' hp, ?_, ?_, ?_⟩
  · rw [hl, logMap_prods]; exact actions_postorder G A hc _ hin _ fuel' t' log' hp
  · rw [ht, postorder_mapIdx]
  · have := action_tree_is_lr_tree G A (editedToks w w.length 0 errs) (editedSpan w lexSpan errs) fuel'
    rw [hp] at this; exact this.symm

/-- **The value built through the actions under recovery is the LR tree of the edited input.** Certified
table, valid first sequences, edited input made of real tokens. The returned value `t` is a valid
derivation from the start rule whose yield is the edited token list and whose leaves, left to right,
are exactly the lexemes of the edited input: the `k`-th leaf carries the identity of the `k`-th item of
`editedItems` — a kept real lexeme by its index, an inserted token as the flagged zero-length lexeme
before the next real one; the deleted lexemes do not occur. -/
theorem recovering_value_is_lr_tree_of_edited_input (G : Grammar) (A : Automaton) (w : List Nat)
    (lexSpan : Nat → Nat × Nat) (recover : Pos → List (List Repair))
    (hcert : wholeRunCert G A = true)
    (N : Nat) (hN : 1 ≤ N) (hvalid : FirstValid G A w N (recoverOf G A w recover)) (hw : G.eof ∉ w)
    (fuel : Nat) (t : Tree) (log : List Call) (errs : List Err)
    (h : parseRA G A w lexSpan recover fuel = (.accept t, log, errs))
    (hin : InputOk G (editedToks w w.length 0 errs)) :
    Tree.valid G t = true ∧ (∃ S, G.rhs G.startProd = [.rule S] ∧ Tree.root G t = .rule S) ∧
      Tree.yield t = editedToks w w.length 0 errs ∧
      Tree.leafIdxs t = (editedItems w.length 0 errs).map (lexId w.length) := by
  obtain ⟨fuel', t', log', _, ht, _, _, _, _, hparse⟩ := recovering_actions_transfer G A w lexSpan recover hcert
    N hN hvalid hw fuel t log errs h hin
  -- the erased run is C05's recovering run, whose tree spells the edited input
  have her := recRunA_erase G A w lexSpan recover fuel (initRA A) []
  unfold parseRA at h
  rw [h] at her
  obtain ⟨fuel'', t'', hparse'', hv, hr, hy, hidx⟩ := returned_tree_spells_edited_input_certified G A w
    (recoverOf G A w recover) hcert (recoverOf_firstApplies G A w recover) N hN hvalid hw fuel errs her hin
  have e1 := run_fuel_mono fuel' (init A) _ hparse (by simp) fuel''
  have e2 := run_fuel_mono fuel'' (init A) _ hparse'' (by simp) fuel'
  unfold parse at *
  rw [Nat.add_comm fuel'' fuel', e1] at e2
  injection e2 with e2
  subst e2
  refine ⟨by rw [ht, valid_mapIdx]; exact hv, ?_, by rw [ht, yield_mapIdx]; exact hy, ?_⟩
  · obtain ⟨S, hS, hroot⟩ := hr
    exact ⟨S, hS, by rw [ht, root_mapIdx]; exact hroot⟩
  · rw [ht, leafIdxs_mapIdx, hidx]
    exact range_map_getD _ (lexId w.length) (.real 0)

/-! ## Tests: the hypotheses of the recovery-on theorems are jointly satisfiable and the conclusions
compute (`Lemmas/RecActionsEx.lean`: the certified merged 14-state table of C05, input `x a d`, lexeme `k`
at bytes `3k+1 .. 3k+3`; the repair `insert c, delete` puts `c` inside the production `S → x A c`) -/

/-- the table passes every certificate, the first reported sequence repairs -/
example : wholeRunCert exG2 exA2 = true := ex2_cert
example : FirstValid exG2 exA2 [0, 2, 4] 1 (recoverOf exG2 exA2 [0, 2, 4] exRecoverA) := exA_valid
/-- the recovering run: `A → a` is reduced under the refused `d` (its action runs with the span of `a`,
bytes 4..6, and the reduction is kept); the inserted `c` is the lexeme `3 + 1 + 2 = 6` of zero length at
byte 7, the start of the deleted `d`; the action of `S → x A c` gets the lexeme `x`, the value of `A` and
the inserted lexeme, and the span 1..7, which ENDS AT THE ZERO-LENGTH INSERTED LEXEME -/
example : parseRA exG2 exA2 [0, 2, 4] exSpan exRecoverA 10 =
    (.accept (.node 0 [.leaf 0 0, .node 4 [.leaf 2 1], .leaf 3 6]),
     [⟨4, 2, 4, 6, [.lexeme 2 1]⟩,
      ⟨0, 1, 1, 7, [.lexeme 0 0, .value (.node 4 [.leaf 2 1]), .lexeme 3 6]⟩],
     [⟨2, [[.insert 3, .delete], [.delete, .insert 3]]⟩]) := by rfl
/-- the step-by-step loop returns the same (`recovering_loop_step_by_step`), by evaluation -/
example : lrA exG2 exA2 [0, 2, 4] exSpan exRecoverA 20 (initRA exA2) [] =
    parseRA exG2 exA2 [0, 2, 4] exSpan exRecoverA 10 := by rfl
/-- the edited lexeme sequence: `x`, `a`, and `c` with the zero-length span at byte 7 -/
example : editedLex [0, 2, 4] exSpan [⟨2, [[.insert 3, .delete], [.delete, .insert 3]]⟩] =
    [(0, (1, 3)), (2, (4, 6)), (3, (7, 7))] := by decide
/-- the right-hand side of `recovering_actions_are_actions_of_edited_input`: the plain action driver on
`x a c` with those spans (it reduces `A → a` under `c`, at the same point, with the same span stack) … -/
example : parseA exG2 exA2 [0, 2, 3] (editedSpan [0, 2, 4] exSpan [⟨2, [[.insert 3, .delete], [.delete, .insert 3]]⟩]) 20 =
    (.accept (.node 0 [.leaf 0 0, .node 4 [.leaf 2 1], .leaf 3 2]),
     [⟨4, 2, 4, 6, [.lexeme 2 1]⟩,
      ⟨0, 1, 1, 7, [.lexeme 0 0, .value (.node 4 [.leaf 2 1]), .lexeme 3 2]⟩]) := by rfl
/-- … whose log, with the third lexeme of the edited input called by its identity 6, is the log computed
by the model of the recovering driver: by evaluation … -/
example : (parseA exG2 exA2 [0, 2, 3] (editedSpan [0, 2, 4] exSpan [⟨2, [[.insert 3, .delete], [.delete, .insert 3]]⟩]) 20).2.map
      (callMapIdx (editedId [0, 2, 4] [⟨2, [[.insert 3, .delete], [.delete, .insert 3]]⟩])) =
    (parseRA exG2 exA2 [0, 2, 4] exSpan exRecoverA 10).2.1 := by rfl
/-- … and from the theorem -/
example : ∃ fuel' t' log',
    parseA exG2 exA2 (editedToks [0, 2, 4] 3 0 [⟨2, [[.insert 3, .delete], [.delete, .insert 3]]⟩])
      (editedSpan [0, 2, 4] exSpan [⟨2, [[.insert 3, .delete], [.delete, .insert 3]]⟩]) fuel' = (.accept t', log') ∧
    Tree.node 0 [.leaf 0 0, .node 4 [.leaf 2 1], .leaf 3 6] =
      treeMapIdx (editedId [0, 2, 4] [⟨2, [[.insert 3, .delete], [.delete, .insert 3]]⟩]) t' ∧
    [(⟨4, 2, 4, 6, [.lexeme 2 1]⟩ : Call),
      ⟨0, 1, 1, 7, [.lexeme 0 0, .value (.node 4 [.leaf 2 1]), .lexeme 3 6]⟩] =
      log'.map (callMapIdx (editedId [0, 2, 4] [⟨2, [[.insert 3, .delete], [.delete, .insert 3]]⟩])) :=
  recovering_actions_are_actions_of_edited_input_certified exG2 exA2 [0, 2, 4] exSpan exRecoverA ex2_cert 1
    (Nat.le_refl _) exA_valid (by decide) 10 _ _ _ rfl
/-- the log satisfies the specification against the returned value (`recovering_actions_match_tree`) -/
example : logOk (parseRA exG2 exA2 [0, 2, 4] exSpan exRecoverA 10).2.1
    (specCalls exG2 (idSpan exSpan 3) (.node 0 [.leaf 0 0, .node 4 [.leaf 2 1], .leaf 3 6])) = true := by rfl

/-! ## Test: why the hypothesis carries values. On the (uncertified) table `exA3` the stack left by a
refused lexeme and the unreduced stack shift the next token to the same state stack — all that
`C05.KeptShiftInvisible` asks for — after DIFFERENT reductions -/

/-- `z` is refused after `A → a` has been reduced under it -/
example : feedA exG3 exA3 1 FUEL exV3 =
    .error ⟨[2, 0], [.node 0 [.leaf 0 0]], [⟨1, 3, false⟩], [⟨0, 2, 1, 3, [.lexeme 0 0]⟩]⟩ := by rfl
/-- the reduced and the unreduced state stack shift `t` to the same state stack … -/
example : feed exG3 exA3 2 FUEL [2, 0] = .shifted [4, 2, 0] ∧ feed exG3 exA3 2 FUEL [1, 0] = .shifted [4, 2, 0] :=
  ⟨rfl, rfl⟩
/-- … but the unreduced configuration gets there by `C → a`, `A → C`: another value, another log -/
example : feedA exG3 exA3 2 FUEL exV3 =
    .shifted 4 ⟨[2, 0], [.node 2 [.node 1 [.leaf 0 0]]], [⟨1, 3, false⟩],
      [⟨1, 3, 1, 3, [.lexeme 0 0]⟩, ⟨2, 2, 1, 3, [.value (.node 1 [.leaf 0 0])]⟩]⟩ := by rfl

end GrmVerif.C08
