import GrmVerif.Lemmas.Actions2
/-!
# C08 — actions run once per reduction, bottom-up, with child values and matched span

Model: `Model/Actions.lean` (`parseA`: the LR driver of `Model/LR.lean` plus the span stack and the
log of action calls, as in `Parser::lr`). Specification: `Model/ActionsSpec.lean` (`specCalls`: from
the final tree, the calls that must have happened). `logOk log spec` says: same number of calls, in
the same order, each with the same production, rule and arguments, and the prescribed span (exactly
from the first to the last lexeme derived; any zero-length span when none was derived).
-/
namespace GrmVerif.C08
open GrmVerif Act LR Cert

/-- the action-calling driver is the LR driver: same outcome, for every fuel -/
theorem actions_refine_lr (G : Grammar) (A : Automaton) (w : List Nat) (lexSpan : Nat → Nat × Nat) :
    ∀ (fuel : Nat) (a : ACfg), (runA G A w lexSpan fuel a).1 = run G A w fuel a.c := by
  intro fuel
  induction fuel with
  | zero => intro a; rfl
  | succ k ih =>
    intro a
    have hp := stepA_proj G A w lexSpan a
    simp only [runA, run]
    cases hs : stepA G A w lexSpan a with
    | cont a' => rw [hs] at hp; simp only at hp; rw [hp]; exact ih a'
    | done o log => rw [hs] at hp; simp only at hp; rw [hp]

/-- the invariant travels through the run: the returned log is the call list of the trees on the
stack of the configuration that ended the run -/
theorem run_log (G : Grammar) (A : Automaton) (w : List Nat) (lexSpan : Nat → Nat × Nat) :
    ∀ (fuel : Nat) (a : ACfg) (o : Outcome) (log : List Call), InvA G lexSpan a →
      runA G A w lexSpan fuel a = (o, log) → o ≠ .fuelOut →
      ∃ c : Cfg, step G A w c = .done o ∧ logOk log (specCallsList G lexSpan c.astack.reverse) = true ∧
        (∀ P : Props G A, InputOk G w → Inv G A w a.c → Inv G A w c) := by
  intro fuel
  induction fuel with
  | zero => intro a o log _ h hne; simp [runA] at h; exact absurd h.1.symm hne
  | succ k ih =>
    intro a o log hinv h hne
    have hp := stepA_proj G A w lexSpan a
    simp only [runA] at h
    cases hs : stepA G A w lexSpan a with
    | cont a' =>
      rw [hs] at h hp
      simp only at h hp
      obtain ⟨c, h1, h2, h3⟩ := ih a' o log (stepA_inv G A w lexSpan a a' hinv hs) h hne
      exact ⟨c, h1, h2, fun P hw hi => h3 P hw ((step_inv P hw hi).1 a'.c hp)⟩
    | done o' log' =>
      rw [hs] at h hp
      simp only at h hp
      injection h with e1 e2; subst e1; subst e2
      refine ⟨a.c, hp, ?_, fun _ _ hi => hi⟩
      -- a finishing step does not touch the log
      obtain ⟨⟨ps, as, la⟩, spans, lg⟩ := a
      have : log' = lg := by
        cases ps with
        | nil => simp [stepA] at hs; exact hs.2.symm
        | cons st rest =>
          cases hact : A.action st (nextTok G w la) with
          | error => simp [stepA, hact] at hs; exact hs.2.symm
          | shift s' => simp [stepA, hact] at hs
          | accept =>
            simp only [stepA, hact] at hs
            cases hl : as.getLast? with
            | none => simp [hl] at hs; exact hs.2.symm
            | some t => cases t <;> simp [hl] at hs <;> exact hs.2.symm
          | reduce p =>
            simp only [stepA, hact] at hs
            by_cases hle : (st :: rest).length ≤ (G.rhs p).length
            · rw [if_pos hle] at hs; injection hs with _ e; exact e.symm
            · rw [if_neg hle] at hs
              cases hd : List.drop (G.rhs p).length (st :: rest) with
              | nil => simp [hd] at hs; exact hs.2.symm
              | cons prior tl =>
                simp only [hd] at hs
                cases hg : A.goto prior (G.lhs p) with
                | none => simp [hg] at hs; exact hs.2.symm
                | some s' => simp [hg] at hs
      subst this
      exact hinv.log

/-- **Actions run once per reduction, bottom-up, with child values and matched span.** On a
certified automaton, when the parse of ANY input is accepted with tree `t`, the log of action calls
is exactly the specification's call list of `t`: one call per node, children before parents and
left to right (post-order), each with its production and rule, one argument per symbol in order
(the lexeme for a token, the child's value for a rule), and the span from the start of the first
to the end of the last lexeme the production derived — zero-length when it derived none. -/
theorem actions_match_tree (G : Grammar) (A : Automaton) (hc : check G A = true) (w : List Nat)
    (hw : InputOk G w) (lexSpan : Nat → Nat × Nat) (fuel : Nat) (t : Tree) (log : List Call)
    (h : parseA G A w lexSpan fuel = (.accept t, log)) :
    logOk log (specCalls G lexSpan t) = true := by
  have P := check_props G A hc
  obtain ⟨c, h1, h2, h3⟩ := run_log G A w lexSpan fuel (initA A) _ log (invA_init G A lexSpan) h (by simp)
  have hinv := h3 P hw (inv_init w)
  have hst := accept_stack P hw hinv t h1
  rw [hst] at h2
  simpa [specCallsList] using h2

/-- the productions of the calls, in order, are the post-order of the tree -/
theorem logOk_prods : ∀ (log : List Call) (spec : List SCall), logOk log spec = true →
    log.map (·.p) = spec.map (·.p)
  | [], [], _ => rfl
  | c :: cs, s :: ss, h => by
    simp only [logOk, Bool.and_eq_true, callOk, beq_iff_eq] at h
    simp [h.1.1.1.1, logOk_prods cs ss h.2]
  | [], _ :: _, h => by simp [logOk] at h
  | _ :: _, [], h => by simp [logOk] at h

mutual
theorem specCalls_prods (G : Grammar) (lexSpan : Nat → Nat × Nat) :
    ∀ t : Tree, (specCalls G lexSpan t).map (·.p) = Tree.postorder t
  | .leaf _ _ => rfl
  | .node p kids => by simp [specCalls, Tree.postorder, specCallsList_prods G lexSpan kids]
theorem specCallsList_prods (G : Grammar) (lexSpan : Nat → Nat × Nat) :
    ∀ ts : List Tree, (specCallsList G lexSpan ts).map (·.p) = Tree.postorderList ts
  | [] => rfl
  | k :: ks => by simp [specCallsList, Tree.postorderList, specCalls_prods G lexSpan k, specCallsList_prods G lexSpan ks]
end

/-- **once per reduction, in post-order** (corollary) -/
theorem actions_postorder (G : Grammar) (A : Automaton) (hc : check G A = true) (w : List Nat)
    (hw : InputOk G w) (lexSpan : Nat → Nat × Nat) (fuel : Nat) (t : Tree) (log : List Call)
    (h : parseA G A w lexSpan fuel = (.accept t, log)) :
    log.map (·.p) = Tree.postorder t := by
  rw [logOk_prods log _ (actions_match_tree G A hc w hw lexSpan fuel t log h), specCalls_prods]

/-- the tree built through the actions is the tree of the plain driver (which C01 shows to be a
valid derivation of the input) -/
theorem action_tree_is_lr_tree (G : Grammar) (A : Automaton) (w : List Nat) (lexSpan : Nat → Nat × Nat)
    (fuel : Nat) : (parseA G A w lexSpan fuel).1 = parse G A w fuel :=
  actions_refine_lr G A w lexSpan fuel (initA A)

end GrmVerif.C08
