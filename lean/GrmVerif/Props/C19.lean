import GrmVerif.Lemmas.Newline4
/-!
# C19 — byte offsets map to the right lines and columns; line extraction never fails

Property theorems only (helper lemmas live in `GrmVerif/Lemmas/Newline*.lean`).
The model is `GrmVerif/Model/Newline.lean`, a transcription of `cfgrammar/src/lib/newlinecache.rs`.
-/
namespace GrmVerif.C19
open GrmVerif.Newline

/-- **Chunking.** However a text is fed in pieces, the cache is the one the whole text denotes:
line starts `0 ::` (offset after every `'\n'`), trailing bytes = bytes after the last newline. -/
theorem feed_chunking (chunks : List (List Char)) :
    chunks.foldl feed Cache.new = ofText chunks.flatten := by
  have h : ∀ (a : List Char) (cs : List (List Char)),
      cs.foldl feed (ofText a) = ofText (a ++ cs.flatten) := by
    intro a cs
    induction cs generalizing a with
    | nil => simp
    | cons c cs ih => simp [List.foldl_cons, feed_ofText, ih]
  have := h [] chunks
  simpa [ofText, nlsFrom, trailingFrom, Cache.new] using this

/-- The recorded line starts are exactly 0 and the offsets just after each `'\n'`. -/
theorem newlines_spec (s : List Char) (x : Nat) :
    x ∈ (ofText s).newlines ↔ x = 0 ∨ ∃ pre post, s = pre ++ '\n' :: post ∧ x = byteLen pre + 1 := by
  simp [ofText, mem_nlsFrom]

/-- the total number of bytes fed is known exactly -/
theorem feed_len_spec (s : List Char) : feedLen (ofText s) = byteLen s := feedLen_ofText s

/-- **Line number.** For every offset within the text (boundary or not) the reported line is one
plus the number of newline characters strictly before the offset. -/
theorem line_num_spec (s : List Char) (byte : Nat) (h : byte ≤ byteLen s) :
    byteToLineNum (ofText s) byte = some (1 + nlBefore 0 s byte) :=
  byteToLineNum_ofText s byte h

/-- offsets beyond the text are refused, not mis-reported -/
theorem line_num_out_of_range (s : List Char) (byte : Nat) (h : byteLen s < byte) :
    byteToLineNum (ofText s) byte = none := by
  simp [byteToLineNum, feedLen_ofText, h]

/-- **Line and column.** Every character-boundary offset of a text splits it uniquely as
`a ++ cur ++ post` with `a` empty or ending in a newline and `cur` newline-free. The reported pair
is (1 + newlines in `a`, `colOf cur post`); no panic (`some (some _)`). -/
theorem line_col_spec (a cur post : List Char)
    (ha : a = [] ∨ a.getLast? = some '\n') (hcur : '\n' ∉ cur) :
    byteToLineCol (ofText (a ++ cur ++ post)) (a ++ cur ++ post) (byteLen (a ++ cur))
      = some (some (1 + a.count '\n', colOf cur post)) := by
  have hlen := feedLen_ofText (a ++ cur ++ post)
  have hb : byteLen (a ++ cur) ≤ byteLen (a ++ cur ++ post) := by
    rw [byteLen_append (a ++ cur) post]; omega
  have hline := byteToLineNum_ofText (a ++ cur ++ post) (byteLen (a ++ cur)) hb
  -- the line count: newlines before the offset are the newlines of `a`
  have hcnt : nlBefore 0 (a ++ cur ++ post) (byteLen (a ++ cur)) = a.count '\n' := by
    rw [← countP_nlsFrom, List.append_assoc, nlsFrom_append, nlsFrom_append, List.countP_append,
      List.countP_append, nlsFrom_no_nl _ cur hcur]
    have h1 : (nlsFrom 0 a).countP (· ≤ byteLen (a ++ cur)) = (nlsFrom 0 a).length := by
      rw [List.countP_eq_length]; intro y hy
      have := nlsFrom_le 0 a y hy
      rw [byteLen_append]; simp; omega
    have h2 : (nlsFrom (0 + byteLen a + byteLen cur) post).countP (· ≤ byteLen (a ++ cur)) = 0 := by
      rw [List.countP_eq_zero]; intro y hy
      have := nlsFrom_gt _ post y hy
      rw [byteLen_append]; simp; omega
    rw [h1, h2]
    simp [nlsFrom_length]
  have hlast : lastNl (ofText (a ++ cur ++ post)) ≥ byteLen a := by
    have hm : byteLen a ∈ (ofText (a ++ cur ++ post)).newlines := by
      have := last_nls_of_ends_nl a ha
      simp only [ofText, List.append_assoc, nlsFrom_append]
      have hmem : ∀ (l : List Nat), l.getLast?.getD 0 = byteLen a → l ≠ [] → byteLen a ∈ l := by
        intro l hl hne
        cases h : l.getLast? with
        | none => exact absurd (List.getLast?_eq_none_iff.mp h) hne
        | some v =>
          rw [h] at hl; simp at hl; subst hl
          exact List.mem_of_getLast? h
      have := hmem (0 :: nlsFrom 0 a) this (by simp)
      simp only [List.mem_cons, List.mem_append] at this ⊢
      rcases this with h | h
      · left; exact h
      · right; left; exact h
    exact sorted_le_last _ (ofText_sorted _) _ hm
  unfold byteToLineCol
  rw [hlen, hline, hcnt]
  simp only [show ¬ byteLen (a ++ cur) > byteLen (a ++ cur ++ post) by omega, decide_false,
    bne_self_eq_false, Bool.or_self, Bool.false_eq_true, ↓reduceIte]
  cases post with
  | nil =>
    -- offset = end of text: the last line start is `byteLen a`
    simp only [List.append_nil, ↓reduceIte]
    have hl : lastNl (ofText (a ++ cur)) = byteLen a := by
      simp only [lastNl, ofText, nlsFrom_append, nlsFrom_no_nl _ cur hcur, List.append_nil]
      exact last_nls_of_ends_nl a ha
    have hn : (ofText (a ++ cur)).newlines.length = 1 + a.count '\n' := by
      have := hcnt
      simp only [List.append_nil] at this
      rw [← this, ← countP_nlsFrom]
      simp only [ofText, List.length_cons, nlsFrom_append, nlsFrom_no_nl _ cur hcur, List.append_nil]
      rw [(List.countP_eq_length).mpr]
      · omega
      · intro y hy; have := nlsFrom_le 0 a y hy; rw [byteLen_append]; simp; omega
    rw [hl, dropBytes_append, hn]
    simp [colOf]
  | cons p ps =>
    have hp := Char.utf8Size_pos p
    have hne : ¬ byteLen (a ++ cur) = byteLen (a ++ cur ++ p :: ps) := by
      rw [byteLen_append (a ++ cur) (p :: ps)]; simp only [byteLen]; omega
    simp only [hne, ↓reduceIte]
    -- the start of line `1 + count` is `byteLen a`
    have hstart : lineNumToByte (ofText (a ++ cur ++ p :: ps)) (1 + a.count '\n') = some (byteLen a) := by
      have h3 : (nlsFrom 0 a).length = a.count '\n' := nlsFrom_length 0 a
      have hl := last_nls_of_ends_nl a ha
      unfold lineNumToByte
      simp only [ofText, List.append_assoc, nlsFrom_append, nlsFrom_no_nl _ cur hcur, List.nil_append,
        List.length_cons, List.length_append, h3]
      have : ¬ (1 + a.count '\n' > a.count '\n' + (nlsFrom (0 + byteLen a + byteLen cur) (p :: ps)).length + 1
          || (1 + a.count '\n' == 0)) = true := by
        simp; omega
      simp only [this, Bool.false_eq_true, ↓reduceIte, Nat.add_sub_cancel_left]
      rw [← List.cons_append, List.getElem?_append_left (by simp [h3])]
      rw [List.getLast?_eq_getElem?] at hl
      simp only [List.length_cons, Nat.add_sub_cancel, h3] at hl
      cases hg : (0 :: nlsFrom 0 a)[a.count '\n']? with
      | none => simp [h3] at hg
      | some v => rw [hg] at hl; simp at hl; rw [hl]
    rw [hstart]
    simp only
    rw [List.append_assoc, dropBytes_append]
    simp only [byteLen_append, Nat.add_sub_cancel_left]
    have := colLoop_prefix cur p ps 0 0 none hcur (Or.inl rfl)
    simp only [Nat.zero_add] at this
    rw [this]
    simp only [colOf, List.head?_cons, Option.some.injEq]
    cases cur with
    | nil => simp
    | cons c cs =>
      simp only [List.cons_ne_nil, ↓reduceIte]
      by_cases h1 : (c :: cs).getLast? = some '\r'
      · simp only [h1, ↓reduceIte]
        by_cases h2 : p = '\n' <;> simp [h2]
      · simp [h1]

/-- **Lines of a span: total and exact.** For every span `start ≤ stop` (within the text or not —
no further hypothesis is needed) the query does not panic and returns the start of the line
containing `start` and the end of the line containing offset `stop` (text length for the last
line). -/
theorem span_lines_total_and_spec (s : List Char) (start stop : Nat) (hle : start ≤ stop) :
    spanLineBytes (ofText s) start stop
      = some (lineStartOf (ofText s).newlines start,
              lineEndOf (ofText s).newlines (byteLen s) stop) := by
  have := spanLineBytes_spec (ofText s) start stop (ofText_sorted s) (by simp [ofText]) hle
  rw [this]
  have h := feedLen_ofText s
  unfold feedLen at h
  rw [h]

/-- the same for every cache reachable by feeding chunks -/
theorem span_lines_reachable (chunks : List (List Char)) (start stop : Nat) (hle : start ≤ stop) :
    spanLineBytes (chunks.foldl feed Cache.new) start stop
      = some (lineStartOf (ofText chunks.flatten).newlines start,
              lineEndOf (ofText chunks.flatten).newlines (byteLen chunks.flatten) stop) := by
  rw [feed_chunking]; exact span_lines_total_and_spec _ _ _ hle

/-! ### non-vacuity and regression witnesses (tests, labelled as tests) -/

/-- the design-time witness of the defect repaired by the `fix:` commit: `"ab\ncd\nef"`, 3..6 -/
example : spanLineBytes (ofText "ab\ncd\nef".toList) 3 6 = some (3, 8) := by decide
example : byteToLineCol (ofText "a\r\nb".toList) "a\r\nb".toList 2 = some (some (1, 2)) := by decide
example : ([] : List Char) = [] ∨ ([] : List Char).getLast? = some '\n' := Or.inl rfl
example : (['a', 'b', '\n'].foldl (fun c ch => feed c [ch]) Cache.new) = ofText ['a', 'b', '\n'] := by decide

end GrmVerif.C19
