import GrmVerif.Lemmas.Newline5
import GrmVerif.Lemmas.Newline6
import GrmVerif.Lemmas.Diagnostics4
/-!
# C19 — byte offsets map to the right lines and columns; line extraction never fails

Property theorems only (helper lemmas live in `GrmVerif/Lemmas/Newline*.lean`).
The model is `GrmVerif/Model/Newline.lean`, a transcription of `cfgrammar/src/lib/newlinecache.rs`;
the error pretty-printer (`lrpar/src/lib/diagnostics.rs`: `file_location_msg`,
`prefixed_underline_span_with_text`) is `GrmVerif/Model/Diagnostics.lean`, with the display width of
a string (`UnicodeWidthStr::width`) a parameter `sw`.
-/
namespace GrmVerif.C19
open GrmVerif.Newline

/-- **Chunking.** However a text is fed in pieces, the cache is the one the whole text denotes:
line starts `0 ::` (offset after every `'\n'`), trailing bytes = bytes after the last newline. -/
theorem feed_chunking (chunks : List (List Char)) :
    chunks.foldl feed Cache.new = ofText chunks.flatten := by
  have h : ∀ (a : List Char) (cs : List (List Char)),
      cs.foldl feed (ofText a) = ofText (a ++ cs.flatten) := by
    intro a cs
    induction cs generalizing a with
    | nil => simp
    | cons c cs ih => simp [List.foldl_cons, feed_ofText, ih]
  have := h [] chunks
  simpa [ofText, nlsFrom, trailingFrom, Cache.new] using this

/-- The recorded line starts are exactly 0 and the offsets just after each `'\n'`. -/
theorem newlines_spec (s : List Char) (x : Nat) :
    x ∈ (ofText s).newlines ↔ x = 0 ∨ ∃ pre post, s = pre ++ '\n' :: post ∧ x = byteLen pre + 1 := by
  simp [ofText, mem_nlsFrom]

/-- the total number of bytes fed is known exactly -/
theorem feed_len_spec (s : List Char) : feedLen (ofText s) = byteLen s := feedLen_ofText s

/-- **Line number.** For every offset within the text (boundary or not) the reported line is one
plus the number of newline characters strictly before the offset. -/
theorem line_num_spec (s : List Char) (byte : Nat) (h : byte ≤ byteLen s) :
    byteToLineNum (ofText s) byte = some (1 + nlBefore 0 s byte) :=
  byteToLineNum_ofText s byte h

/-- offsets beyond the text are refused, not mis-reported -/
theorem line_num_out_of_range (s : List Char) (byte : Nat) (h : byteLen s < byte) :
    byteToLineNum (ofText s) byte = none := by
  simp [byteToLineNum, feedLen_ofText, h]

/-- **Start of the line.** For every offset within the text — the end of the text included, boundary
or not — `byte_to_line_byte` answers the start of the line the offset lies on: the greatest
recorded line start that is `≤` the offset (0, or one past the last `'\n'` before it). -/
theorem line_byte_spec (s : List Char) (byte : Nat) (h : byte ≤ byteLen s) :
    byteToLineByte (ofText s) byte = some (lineStartOf (ofText s).newlines byte) :=
  byteToLineByte_ofText s byte h

/-- offsets beyond the text have no line start -/
theorem line_byte_out_of_range (s : List Char) (byte : Nat) (h : byteLen s < byte) :
    byteToLineByte (ofText s) byte = none := by
  simp [byteToLineByte, line_num_out_of_range s byte h]

/-- the same for every cache reachable by feeding chunks -/
theorem line_byte_reachable (chunks : List (List Char)) (byte : Nat) :
    byteToLineByte (chunks.foldl feed Cache.new) byte
      = if byte ≤ byteLen chunks.flatten
        then some (lineStartOf (ofText chunks.flatten).newlines byte) else none := by
  rw [feed_chunking]
  split
  · next h => exact line_byte_spec _ _ h
  · next h => exact line_byte_out_of_range _ _ (by omega)

/-- **Line and column.** Every character-boundary offset of a text splits it uniquely as
`a ++ cur ++ post` with `a` empty or ending in a newline and `cur` newline-free. The reported pair
is (1 + newlines in `a`, `colOf cur post`); no panic (`some (some _)`). -/
theorem line_col_spec (a cur post : List Char)
    (ha : a = [] ∨ a.getLast? = some '\n') (hcur : '\n' ∉ cur) :
    byteToLineCol (ofText (a ++ cur ++ post)) (a ++ cur ++ post) (byteLen (a ++ cur))
      = some (some (1 + a.count '\n', colOf cur post)) :=
  byteToLineCol_decomp a cur post ha hcur

/-- **Lines of a span: total and exact.** For every span `start ≤ stop` (within the text or not —
no further hypothesis is needed) the query does not panic and returns the start of the line
containing `start` and the end of the line containing offset `stop` (text length for the last
line). -/
theorem span_lines_total_and_spec (s : List Char) (start stop : Nat) (hle : start ≤ stop) :
    spanLineBytes (ofText s) start stop
      = some (lineStartOf (ofText s).newlines start,
              lineEndOf (ofText s).newlines (byteLen s) stop) := by
  have := spanLineBytes_spec (ofText s) start stop (ofText_sorted s) (by simp [ofText]) hle
  rw [this]
  have h := feedLen_ofText s
  unfold feedLen at h
  rw [h]

/-- the same for every cache reachable by feeding chunks -/
theorem span_lines_reachable (chunks : List (List Char)) (start stop : Nat) (hle : start ≤ stop) :
    spanLineBytes (chunks.foldl feed Cache.new) start stop
      = some (lineStartOf (ofText chunks.flatten).newlines start,
              lineEndOf (ofText chunks.flatten).newlines (byteLen chunks.flatten) stop) := by
  rw [feed_chunking]; exact span_lines_total_and_spec _ _ _ hle

/-! ## Error pretty-printing reports these positions

A text with a span `start ≤ stop` on character boundaries is a `Diag.Split` `d`
(`Lemmas/Diagnostics.lean`): `d.text = a ++ pre ++ c0 ++ "\n" ++ c1 ++ … ++ "\n" ++ cm ++ suf ++ z`
with `a` empty or ending in a newline, `pre`, the `ci` and `suf` newline-free, `z` empty or starting
with a newline; `d.start = |a ++ pre|`, `d.stop = d.start + |c0 "\n" … cm|` (bytes). `split_covers_all`
shows that every such text and span is one. The rows the property prescribes are `d.rows`
(`Diag.specRows`), rendered by `Diag.renderRows`. -/
open GrmVerif.Diag

/-- **Header.** For every text and every character boundary in it (written `a ++ cur | post` as in
`line_col_spec`), every path and message: `file_location_msg(msg, Some(span))` for a span starting at
that boundary does not panic and is `msg at path:L:C` with `L`, `C` exactly the line and column of
`line_col_spec`. -/
theorem pretty_header_is_line_col (a cur post path msg : List Char)
    (ha : a = [] ∨ a.getLast? = some '\n') (hcur : '\n' ∉ cur) :
    fileLocationMsg (a ++ cur ++ post) path msg (some (byteLen (a ++ cur)))
      = some (msg ++ " at ".toList ++ path ++ ':' :: natStr (1 + a.count '\n')
                ++ ':' :: natStr (colOf cur post)) := by
  simp only [fileLocationMsg, nlc_eq_ofText, byteToLineCol_decomp a cur post ha hcur]
  simp

/-- without a span the header is `msg in path` -/
theorem pretty_header_no_span (src path msg : List Char) :
    fileLocationMsg src path msg none = some (msg ++ " in ".toList ++ path) := rfl

/-- **Every span on character boundaries is covered.** For every text `s` and offsets
`start ≤ stop` that are character boundaries of `s` (`isBoundary`: `0`, `|s|` and the offset of every
character) there is a well-formed split `d` with `d.text = s`, `d.start = start`, `d.stop = stop`;
so the theorems below, stated for well-formed splits, hold for all such texts and spans. -/
theorem split_covers_all (s : List Char) (start stop : Nat) (hle : start ≤ stop)
    (h1 : isBoundary s start = true) (h2 : isBoundary s stop = true) :
    ∃ d : Split, d.WF ∧ d.text = s ∧ d.start = start ∧ d.stop = stop :=
  split_exists s start stop hle h1 h2

/-- **The printed text, exactly.** For every string-width function `sw`, every well-formed split
(= every text and span on character boundaries), every prefix of at most 3 bytes (the code asserts
this; `format_spanned` passes `""` or `"..."`), every message and underline character:
`prefixed_underline_span_with_text` does not panic and returns the prescribed rows `d.rows`, each
rendered as `N| text`, newline, the prefix, blanks, marks; rows separated by newlines; a blank and the
message after the last row. -/
theorem pretty_print_spec (sw : List Char → Nat) (d : Split) (hd : d.WF)
    (pfx msg : List Char) (uc : Char) (hp : byteLen pfx ≤ 3) :
    prefixedUnderline sw d.text pfx d.start d.stop msg uc
      = some (renderRows sw pfx msg uc d.rows) :=
  prefixedUnderline_spec sw d hd pfx msg uc hp

/-- The same, spelled out: the output is the row strings joined by `"\n"`, followed by `" " ++ msg`. -/
theorem pretty_output_layout (sw : List Char → Nat) (d : Split) (hd : d.WF)
    (pfx msg : List Char) (uc : Char) (hp : byteLen pfx ≤ 3) :
    prefixedUnderline sw d.text pfx d.start d.stop msg uc
      = some (['\n'].intercalate (d.rows.map (rowStr sw pfx uc)) ++ ' ' :: msg) := by
  rw [prefixedUnderline_spec sw d hd pfx msg uc hp,
    renderRows_layout sw pfx msg uc d.rows (specRows_first_ne_nil _ _ _ _ _)]

/-- **The rows are the lines of the span.** For every well-formed split: (1) `span_line_bytes` of the
formatter's cache returns `[|a|, |a| + |body|)`, which is the pair of `span_lines_total_and_spec`;
(2) slicing the text there does not panic and gives `d.body` (the touched lines); (3) the texts of
the printed rows are exactly `lines()` of that slice (one empty line if the slice is empty: the
repaired behaviour), i.e. each touched line without its `"\n"`/`"\r\n"`, a final empty line omitted
unless it is the only one; (4) row `k` carries the number `first line + k`, where the first line is
the line `line_col_spec` reports for the span's start. -/
theorem pretty_lines_are_span_lines (d : Split) (hd : d.WF) :
    spanLineBytes (nlc d.text) d.start d.stop = some (byteLen d.a, byteLen d.a + byteLen d.body)
    ∧ (lineStartOf (ofText d.text).newlines d.start,
        lineEndOf (ofText d.text).newlines (byteLen d.text) d.stop)
        = (byteLen d.a, byteLen d.a + byteLen d.body)
    ∧ sliceBytes d.text (byteLen d.a) (byteLen d.a + byteLen d.body) = some d.body
    ∧ d.rows.map (·.text) = linesOf d.body
    ∧ (∀ k (hk : k < d.rows.length), (d.rows[k]).num = d.firstLine + k)
    ∧ byteToLineCol (ofText d.text) d.text d.start
        = some (some (d.firstLine, colOf d.pre (d.cov ++ (d.suf ++ d.z)))) := by
  have h1 := spanLineBytes_split d hd
  have hle : d.start ≤ d.stop := by simp [Split.stop]
  refine ⟨by rw [nlc_eq_ofText]; exact h1, ?_, sliceBytes_mid d.a d.body d.z _ rfl, ?_, ?_, ?_⟩
  · have h2 := span_lines_total_and_spec d.text d.start d.stop hle
    rw [h1] at h2
    exact (Option.some.inj h2).symm
  · exact (linesOf_spec d.firstLine d.pre d.c0 d.cs d.suf hd.hpre hd.hc0 hd.hcs hd.hsuf).symm
  · intro k hk
    exact (specRows_get true d.firstLine d.pre d.c0 d.cs d.suf k hk).1
  · have := byteToLineCol_decomp' d.a d.pre (d.cov ++ (d.suf ++ d.z)) hd.ha hd.hpre
    simpa [Split.text, Split.body, Split.start, Split.firstLine] using this

/-- **Where the underline is.** For every string-width function, every well-formed split, every
prefix of at most 3 bytes and every printed row `k`: the row string is `N| text`, a newline, the
prefix, `nb` blanks and `max 1 (sw cov)` marks, where prefix and blanks together are as long (in
bytes = cells for the ASCII gutter) as the gutter `N| ` plus the width of the text before the
underline. That text is `d.pre` (the part of the line before the span) on the first row and empty on
later rows; the underlined text `cov` is the `k`-th newline-separated piece of the span, without its
`'\r'` if a further piece follows. -/
theorem pretty_underline_columns (sw : List Char → Nat) (d : Split) (pfx : List Char) (uc : Char)
    (hp : byteLen pfx ≤ 3) (k : Nat) (hk : k < d.rows.length) :
    ∃ nb, rowStr sw pfx uc (d.rows[k])
        = natStr (d.rows[k]).num ++ "| ".toList ++ (d.rows[k]).text ++ '\n' :: pfx
            ++ List.replicate nb ' ' ++ List.replicate (max 1 (sw (d.rows[k]).cov)) uc
      ∧ byteLen pfx + nb = byteLen (natStr (d.rows[k]).num ++ "| ".toList) + sw (d.rows[k]).pre
      ∧ (d.rows[k]).pre = (if k = 0 then d.pre else [])
      ∧ (d.rows[k]).cov = (if k < d.cs.length then dropCR (piece d.c0 d.cs k) else piece d.c0 d.cs k) := by
  have hg := specRows_get true d.firstLine d.pre d.c0 d.cs d.suf k hk
  refine ⟨sw (d.rows[k]).pre + (byteLen (natStr (d.rows[k]).num) + 2 - byteLen pfx), ?_, ?_, hg.2.1, hg.2.2⟩
  · simp [rowStr, rowText, Nat.max_comm]
  · have h2 : byteLen "| ".toList = 2 := by decide
    have h3 := (byteLen_natStr (d.rows[k]).num)
    rw [byteLen_append, h2]; omega

/-- The same for a per-character width `w : Char → Nat` (string width = sum of the characters'
widths, which is what `unicode-width` computes except on `"\r\n"`, emoji sequences and ligatures):
prefix plus blanks are as long as the gutter plus `Σ w` over the text before the underline, and there
are `max 1 (Σ w over the underlined text)` marks. -/
theorem pretty_underline_columns_sum (w : Char → Nat) (d : Split) (pfx : List Char) (uc : Char)
    (hp : byteLen pfx ≤ 3) (k : Nat) (hk : k < d.rows.length) :
    ∃ nb, rowStr (sumWidth w) pfx uc (d.rows[k])
        = natStr (d.rows[k]).num ++ "| ".toList ++ (d.rows[k]).text ++ '\n' :: pfx
            ++ List.replicate nb ' ' ++ List.replicate (max 1 (((d.rows[k]).cov.map w).sum)) uc
      ∧ byteLen pfx + nb
          = byteLen (natStr (d.rows[k]).num ++ "| ".toList) + ((d.rows[k]).pre.map w).sum := by
  obtain ⟨nb, h1, h2, _, _⟩ := pretty_underline_columns (sumWidth w) d pfx uc hp k hk
  exact ⟨nb, h1, h2⟩

/-- **No panic**, in byte offsets: for every text, every string-width function, every span
`start ≤ stop` whose ends are character boundaries of the text, every prefix of at most 3 bytes:
the formatter returns a string, and that string ends with a blank and the message. (Before the two
repairs of this round this failed for an empty span on an empty line — nothing at all was printed —
and for a non-empty span starting between `'\r'` and `'\n'` — a panic.) -/
theorem pretty_no_panic (sw : List Char → Nat) (s pfx msg : List Char) (uc : Char)
    (start stop : Nat) (hle : start ≤ stop)
    (h1 : isBoundary s start = true) (h2 : isBoundary s stop = true) (hp : byteLen pfx ≤ 3) :
    ∃ out, prefixedUnderline sw s pfx start stop msg uc = some (out ++ ' ' :: msg) := by
  obtain ⟨d, hd, rfl, rfl, rfl⟩ := split_exists s start stop hle h1 h2
  exact ⟨_, pretty_output_layout sw d hd pfx msg uc hp⟩

/-- The hypothesis on the prefix is necessary: with a prefix of more than 3 bytes the formatter
panics (`assert!`) on every text and span. -/
theorem pretty_long_prefix_panics (sw : List Char → Nat) (d : Split) (hd : d.WF)
    (pfx msg : List Char) (uc : Char) (hp : 3 < byteLen pfx) :
    prefixedUnderline sw d.text pfx d.start d.stop msg uc = none :=
  prefixedUnderline_long_prefix sw d hd pfx msg uc hp

/-- **An empty span on an empty line** (in particular at the end of a text that ends in a newline:
`a` = the whole text): one row `N| ` with the line's number, the gutter's worth of blanks (and
`sw ""` more), `max 1 (sw "")` marks, the message. -/
theorem pretty_empty_line (sw : List Char → Nat) (a z pfx msg : List Char) (uc : Char)
    (ha : a = [] ∨ a.getLast? = some '\n') (hz : z = [] ∨ z.head? = some '\n')
    (hp : byteLen pfx ≤ 3) :
    prefixedUnderline sw (a ++ z) pfx (byteLen a) (byteLen a) msg uc
      = some (rowText sw pfx uc (1 + a.count '\n') [] [] [] ++ ' ' :: msg) := by
  have := prefixedUnderline_spec sw ⟨a, [], [], [], [], z⟩
    ⟨ha, by simp, by simp, by simp, by simp, hz⟩ pfx msg uc hp
  simpa [Split.text, Split.body, Split.cov, Split.start, Split.stop, Split.rows, Split.firstLine,
    joinNl, specRows, renderRows, byteLen] using this

/-- **A span that starts between `'\r'` and `'\n'`** and goes on: the first row shows the line
without its terminator, nothing of it is underlined (so one mark is drawn), and the text before the
mark includes the `'\r'`. -/
theorem pretty_span_from_inside_crlf (d : Split) (p : List Char) (c1 : List Char)
    (cs : List (List Char)) (h1 : d.pre = p ++ ['\r']) (h2 : d.c0 = []) (h3 : d.cs = c1 :: cs) :
    d.rows.head? = some ⟨d.firstLine, p, p ++ ['\r'], []⟩ := by
  simp [Split.rows, h1, h2, h3, specRows, dropCR_append_cr, dropCR_nil]

/-- **In characters** (`sw` = number of characters, i.e. every character one cell wide): on every row
the marks number `max 1 (characters of the underlined text)`, and prefix plus blanks are as long as
the gutter plus `col - 1`, where `col` is the column `line_col_spec` gives for the first underlined
position — the span's start on the first row (`colOf d.pre …`, the header's column), column 1 on
later rows. On the first row this needs the span not to start between a `'\r'` and its `'\n'` (there
the column of the `'\n'` is that of the `'\r'`, and the mark is one cell further right). -/
theorem pretty_underline_columns_chars (d : Split) (pfx : List Char) (uc : Char)
    (hp : byteLen pfx ≤ 3) (k : Nat) (hk : k < d.rows.length)
    (hcr : k = 0 → ¬ ((d.cov ++ (d.suf ++ d.z)).head? = some '\n' ∧ d.pre.getLast? = some '\r')) :
    ∃ nb, rowStr (sumWidth fun _ => 1) pfx uc (d.rows[k])
        = natStr (d.rows[k]).num ++ "| ".toList ++ (d.rows[k]).text ++ '\n' :: pfx
            ++ List.replicate nb ' ' ++ List.replicate (max 1 (d.rows[k]).cov.length) uc
      ∧ byteLen pfx + nb = (natStr (d.rows[k]).num ++ "| ".toList).length
          + ((if k = 0 then colOf d.pre (d.cov ++ (d.suf ++ d.z)) else 1) - 1) := by
  have hsw : ∀ l : List Char, sumWidth (fun _ => 1) l = l.length := by
    intro l; induction l with
    | nil => rfl
    | cons c cs ih => simp only [sumWidth, List.map_cons, List.sum_cons, List.length_cons] at ih ⊢; omega
  obtain ⟨nb, h1, h2, h3, _⟩ := pretty_underline_columns (sumWidth fun _ => 1) d pfx uc hp k hk
  refine ⟨nb, by rw [h1, hsw], ?_⟩
  rw [h2, hsw, h3, byteLen_append, (byteLen_natStr _).1]
  have h2 : byteLen "| ".toList = 2 := by decide
  rw [h2, List.length_append]
  by_cases hk0 : k = 0
  · have := hcr hk0
    simp only [hk0, ↓reduceIte, colOf, this]
    simp
  · simp [hk0]

/-! ### non-vacuity and regression witnesses (tests, labelled as tests) -/

/-- the design-time witness of the defect repaired by the `fix:` commit: `"ab\ncd\nef"`, 3..6 -/
example : spanLineBytes (ofText "ab\ncd\nef".toList) 3 6 = some (3, 8) := by decide
example : byteToLineCol (ofText "a\r\nb".toList) "a\r\nb".toList 2 = some (some (1, 2)) := by decide
example : ([] : List Char) = [] ∨ ([] : List Char).getLast? = some '\n' := Or.inl rfl
example : (['a', 'b', '\n'].foldl (fun c ch => feed c [ch]) Cache.new) = ofText ['a', 'b', '\n'] := by decide


/-- the unit test `underline_multiline_span_test` of diagnostics.rs, on the model -/
example : underlineSpan (sumWidth fun _ => 1) "\naaaaaabbb\nbbb\nbbbb\n".toList 7 19 "Test message".toList '-'
    = some "2| aaaaaabbb\n         ---\n3| bbb\n   ---\n4| bbbb\n   ---- Test message".toList := by decide
/-- `span_prefix_2`: the gutter is one cell wider from line 10 on, the prefix takes its place -/
example : prefixedUnderline (sumWidth fun _ => 1) "\n\n\n\n\n\n\n\n\n\n\naaaaaabbb\nbbb\nbbbb\n".toList "...".toList 17 20
    "Test message".toList '^' = some "12| aaaaaabbb\n...       ^^^ Test message".toList := by decide
/-- the witness of the first repair of this round: `"%start A\n"`, the empty span at the end -/
example : underlineSpan (sumWidth fun _ => 1) "%start A\n".toList 9 9 "File ends prematurely".toList '^'
    = some "2| \n   ^ File ends prematurely".toList := by decide
/-- the witness of the second repair: `"a\r\nb"`, 2..4 -/
example : underlineSpan (fun l => l.length) "a\r\nb".toList 2 4 "Here".toList '^'
    = some "1| a\n     ^\n2| b\n   ^ Here".toList := by decide
/-- a split satisfying `WF`, non-trivially (two pieces, CR LF, text before and after) -/
example : (⟨"x\n".toList, "ab".toList, "c\r".toList, ["d".toList], "e".toList, "\nf".toList⟩ : Split).WF :=
  ⟨by decide, by decide, by decide, by decide, by decide, by decide⟩
example : isBoundary "aéb".toList 3 = true ∧ isBoundary "aéb".toList 2 = false := by decide

end GrmVerif.C19
