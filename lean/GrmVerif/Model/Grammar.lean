/-
Shared grammar model: what the harness dumps from a `cfgrammar::yacc::YaccGrammar` through its
public API. Core Lean only.
-/
namespace GrmVerif

/-- `cfgrammar::Symbol` -/
inductive Sym where
  | tok (t : Nat)
  | rule (r : Nat)
deriving DecidableEq, Repr, Inhabited

/-- precedence of a token or production: level and kind (0 = left, 1 = right, 2 = nonassoc) -/
structure Prec where
  level : Nat
  kind : Nat
deriving DecidableEq, Repr

structure Grammar where
  /-- `tokens_len()` (the unnamed end-of-input token included) -/
  ntoks : Nat
  /-- `rules_len()` (the added start rule included) -/
  nrules : Nat
  /-- `eof_token_idx()` -/
  eof : Nat
  /-- `start_prod()` -/
  startProd : Nat
  /-- `PIdx ↦ (prod_to_rule, prod)` -/
  prods : List (Nat × List Sym)
  /-- `token_precedence` per token -/
  tokPrec : List (Option Prec) := []
  /-- `prod_precedence` per production -/
  prodPrec : List (Option Prec) := []
deriving Repr

namespace Grammar

def lhs (G : Grammar) (p : Nat) : Nat := (G.prods[p]?.map (·.1)).getD 0
def rhs (G : Grammar) (p : Nat) : List Sym := (G.prods[p]?.map (·.2)).getD []
def nprods (G : Grammar) : Nat := G.prods.length
/-- `start_rule_idx()` = the rule of the start production -/
def startRule (G : Grammar) : Nat := G.lhs G.startProd
/-- `rule_to_prods(r)`: the productions of `r` in increasing index order -/
def prodsOf (G : Grammar) (r : Nat) : List Nat := (List.range G.nprods).filter (fun p => G.lhs p == r)

def symOk (G : Grammar) : Sym → Bool
  | .tok t => t < G.ntoks
  | .rule r => r < G.nrules

/-- dense indices: every lhs and symbol in range, start production in range, eof a token -/
def wf (G : Grammar) : Bool :=
  G.prods.all (fun (l, r) => l < G.nrules && r.all G.symOk) && G.startProd < G.nprods && G.eof < G.ntoks

end Grammar

/-! ### wire format
`ntoks nrules eof startProd nprods (lhs len sym…)*` with `sym = 2·t` (token) or `2·r+1` (rule);
optionally followed by `ntoks × prec  nprods × prec` with `prec = 0 | 1 level kind`. -/

def decSym (n : Nat) : Sym := if n % 2 == 0 then .tok (n / 2) else .rule (n / 2)

def parseProds : Nat → List Nat → Option (List (Nat × List Sym) × List Nat)
  | 0, rest => some ([], rest)
  | n + 1, lhs :: len :: rest =>
    if rest.length < len then none
    else
      match parseProds n (rest.drop len) with
      | none => none
      | some (ps, rest') => some ((lhs, (rest.take len).map decSym) :: ps, rest')
  | _, _ => none

def parsePrecs : Nat → List Nat → Option (List (Option Prec) × List Nat)
  | 0, rest => some ([], rest)
  | n + 1, 0 :: rest =>
    match parsePrecs n rest with
    | none => none
    | some (ps, r) => some (none :: ps, r)
  | n + 1, 1 :: l :: k :: rest =>
    match parsePrecs n rest with
    | none => none
    | some (ps, r) => some (some ⟨l, k⟩ :: ps, r)
  | _, _ => none

/-- grammar without precedences -/
def parseGrammar : List Nat → Option (Grammar × List Nat)
  | ntoks :: nrules :: eof :: startProd :: nprods :: rest =>
    match parseProds nprods rest with
    | none => none
    | some (ps, rest') =>
      some ({ ntoks, nrules, eof, startProd, prods := ps }, rest')
  | _ => none

/-- grammar followed by token and production precedences -/
def parseGrammarPrec (l : List Nat) : Option (Grammar × List Nat) :=
  match parseGrammar l with
  | none => none
  | some (G, rest) =>
    match parsePrecs G.ntoks rest with
    | none => none
    | some (tp, rest1) =>
      match parsePrecs G.nprods rest1 with
      | none => none
      | some (pp, rest2) => some ({ G with tokPrec := tp, prodPrec := pp }, rest2)

end GrmVerif
