import GrmVerif.Model.Newline
/-
Model of the position-reporting part of `lrpar::diagnostics::SpannedDiagnosticFormatter`
(lrpar/src/lib/diagnostics.rs): `nlc`, `file_location_msg`, `prefixed_underline_span_with_text`,
`underline_span_with_text`, on top of the `NewlineCache` model (`Model/Newline.lean`).

Strings are `List Char`; positions are UTF-8 byte offsets. A Rust panic (`expect`, `assert!`,
`Span::new` with `end < start`, slicing off a character boundary or out of range, `usize` underflow)
is `none`. `UnicodeWidthStr::width` is a PARAMETER `sw : List Char → Nat` of the model (the tables of
the `unicode-width` crate are not modelled; note that the crate documents that the width of a string
is NOT always the sum of the widths of its characters — `"\r\n"`, emoji sequences, ligatures — so the
parameter is a function of the string; `sumWidth w` is the additive instance for a per-character
width `w`). `Path::display()` is the parameter `path`.
The transcription follows the code after the two repairs of this round (`fix:` commits, patches
0001/0002): the loop walks over `lines()` of the slice *plus one empty line when the slice is empty*
(before: an empty span on an empty line printed nothing, not even the message), and the underline's
length is computed with `saturating_sub` (before: a span starting between `'\r'` and `'\n'` panicked).
Core Lean only: this file is linked into the native driver.
-/
namespace GrmVerif.Diag
open GrmVerif.Newline

/-- the first `n` bytes of a text; `none` when `n` is not a character boundary within it -/
def takeBytes : Nat → List Char → Option (List Char)
  | 0, _ => some []
  | _ + 1, [] => none
  | n + 1, c :: cs =>
    if c.utf8Size ≤ n + 1 then (takeBytes (n + 1 - c.utf8Size) cs).map (c :: ·) else none

/-- `&src[a..b]`: `none` is the slicing panic (`a > b`, out of range, or off a character boundary). -/
def sliceBytes (s : List Char) (a b : Nat) : Option (List Char) :=
  if b < a then none else (dropBytes a s).bind (takeBytes (b - a))

/-- `str::split_inclusive('\n')`: pieces that each end in `'\n'`, except possibly the last; the empty
string has no pieces and there is no empty piece after a final `'\n'`. -/
def splitInclusive : List Char → List (List Char)
  | [] => []
  | c :: cs =>
    if c = '\n' then ['\n'] :: splitInclusive cs
    else match splitInclusive cs with
      | [] => [[c]]
      | p :: ps => (c :: p) :: ps

/-- `str::strip_suffix(c)` -/
def stripSuffixChar (c : Char) (l : List Char) : Option (List Char) :=
  if l.getLast? = some c then some l.dropLast else none

/-- the closure inside `str::lines()`: strip one `"\n"`, and then one `"\r"` only if a `"\n"` was
stripped (a lone trailing `'\r'` stays) -/
def stripLine (l : List Char) : List Char :=
  match stripSuffixChar '\n' l with
  | none => l
  | some l1 =>
    match stripSuffixChar '\r' l1 with
    | none => l1
    | some l2 => l2

/-- `str::lines()` (std: `split_inclusive('\n').map(|line| strip "\n" then "\r")`) -/
def rustLines (s : List Char) : List (List Char) := (splitInclusive s).map stripLine

/-- `src.lines().chain(src.is_empty().then_some(""))`: the lines the loop of
`prefixed_underline_span_with_text` walks over (an empty slice still yields one, empty, line). -/
def linesOf (body : List Char) : List (List Char) :=
  rustLines body ++ (if body.isEmpty then [[]] else [])

/-- `n.to_string()` -/
def natStr (n : Nat) : List Char := (Nat.repr n).toList

/-- `s.starts_with("\r\n")` -/
def startsCRLF : List Char → Bool
  | c1 :: c2 :: _ => c1 == '\r' && c2 == '\n'
  | _ => false

/-- additive string width for a per-character width `w` -/
def sumWidth (w : Char → Nat) (l : List Char) : Nat := (l.map w).sum

/-- `SpannedDiagnosticFormatter::nlc`: a fresh cache fed the whole source once -/
def nlc (src : List Char) : Cache := feed Cache.new src

/-- `file_location_msg(msg, span)`; `start` is `span.start()`. `none` = panic. -/
def fileLocationMsg (src path msg : List Char) : Option Nat → Option (List Char)
  | none => some (msg ++ " in ".toList ++ path)
  | some start =>
    match byteToLineCol (nlc src) src start with
    | none => none
    | some r =>
      let lc := r.getD (0, 0)
      some (msg ++ " at ".toList ++ path ++ ':' :: natStr lc.1 ++ ':' :: natStr lc.2)

/-- the text one iteration of the `while let Some(source_line)` loop appends, given the values it
computed: `line_num`, the source line, the slice before the underline and the underlined slice -/
def rowText (sw : List Char → Nat) (pfx : List Char) (uc : Char) (ln : Nat)
    (line pre cov : List Char) : List Char :=
  natStr ln ++ "| ".toList ++ line ++ ['\n'] ++ pfx
    ++ List.replicate (sw pre + (byteLen (natStr ln) + 2 - byteLen pfx)) ' '
    ++ List.replicate (max (sw cov) 1) uc

/-- the tail of one iteration: the message after the last line, otherwise a newline and the start of
the next line (`line_end + nl_len`); `none` = slicing or `Span::new` panic -/
def rowNext (src msg : List Char) (last : Bool) (txt : List Char) (lsb : Nat) (line : List Char)
    (start stop : Nat) : Option (List Char × Nat) :=
  if last then some (txt ++ ' ' :: msg, start)
  else
    let lineEnd := lsb + byteLen line
    match dropBytes lineEnd src with
    | none => none
    | some tl =>
      let nl := if startsCRLF tl then 2 else 1
      if stop < lineEnd + nl then none else some (txt ++ ['\n'], lineEnd + nl)

/-- the part of one iteration after `line_num` is known -/
def rowEmit (sw : List Char → Nat) (src pfx msg : List Char) (uc : Char) (line : List Char)
    (last : Bool) (lsb uend start stop ln : Nat) : Option (List Char × Nat) :=
  if byteLen pfx > 3 then none                      -- assert!(prefix.len() <= "0| ".len())
  else
    match sliceBytes src lsb start with
    | none => none
    | some pre =>
      match sliceBytes src start uend with
      | none => none
      | some cov => rowNext src msg last (rowText sw pfx uc ln line pre cov) lsb line start stop

/-- One iteration of the loop of `prefixed_underline_span_with_text` for the source line `line`, the
current span `start..stop`; `last` is `source_lines.peek().is_none()`. Result: the text appended to
`out` and the start of the next span. `none` = panic. -/
def rowStep (sw : List Char → Nat) (src : List Char) (c : Cache) (pfx msg : List Char) (uc : Char)
    (line : List Char) (last : Bool) (start stop : Nat) : Option (List Char × Nat) :=
  match spanLineBytes c start stop with
  | none => none
  | some (lsb, _) =>
    if start < lsb then none                        -- span.start() - line_start_byte
    else
      let off := start - lsb
      -- span.end().min(span.start() + source_line.len().saturating_sub(span_offset_from_start))
      let uend := min stop (start + (byteLen line - off))
      if uend < start then none                     -- Span::new
      else
        match byteToLineCol c src start with
        | none => none
        | some none => none                         -- .expect("Span must correlate to a line in source")
        | some (some lc) => rowEmit sw src pfx msg uc line last lsb uend start stop lc.1

/-- the `while let Some(source_line) = source_lines.next()` loop -/
def rowsLoop (sw : List Char → Nat) (src : List Char) (c : Cache) (pfx msg : List Char) (uc : Char)
    (stop : Nat) : List (List Char) → Nat → List Char → Option (List Char)
  | [], _, out => some out
  | line :: rest, start, out =>
    match rowStep sw src c pfx msg uc line rest.isEmpty start stop with
    | none => none
    | some (txt, next) => rowsLoop sw src c pfx msg uc stop rest next (out ++ txt)

/-- `prefixed_underline_span_with_text(prefix, span, s, underline_c)` with `span = start..stop`
(`stop < start` cannot be passed: `Span::new` panics). `none` = panic. -/
def prefixedUnderline (sw : List Char → Nat) (src pfx : List Char) (start stop : Nat)
    (msg : List Char) (uc : Char) : Option (List Char) :=
  if stop < start then none
  else
    match spanLineBytes (nlc src) start stop with
    | none => none
    | some (sb, eb) =>
      match sliceBytes src sb eb with
      | none => none
      | some body => rowsLoop sw src (nlc src) pfx msg uc stop (linesOf body) start []

/-- `underline_span_with_text(span, s, underline_c)` -/
def underlineSpan (sw : List Char → Nat) (src : List Char) (start stop : Nat) (msg : List Char)
    (uc : Char) : Option (List Char) :=
  prefixedUnderline sw src [] start stop msg uc

end GrmVerif.Diag
