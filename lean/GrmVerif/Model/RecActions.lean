import GrmVerif.Model.Actions
import GrmVerif.Model.Recover
/-
Model of `Parser::lr` WITH a recoverer and WITH the value stack, the span stack and the log of action
calls (lrpar/src/lib/parser.rs `lr`, `lr_upto`; lrpar/src/lib/cpctplus.rs `apply_repairs`).

* `feedA` is the run of reductions the loop of `lr` (and its copy in `lr_upto`) makes under ONE
  lookahead token, each reduction exactly the Reduce arm of `Act.stepA` (`reduceV`): the span is
  computed with `reduce_span`, the action is called (logged) with the drained values, its value pushed.
* `pushLex` is the Shift arm: state, lexeme and `SpanEntry::lexeme(span)` pushed.
* `recRunA` is the loop of `lr`: lookahead `next_tidx(laidx)`; at `Action::Error` (the reductions made
  under the refused lexeme STAY on all three stacks, their actions HAVE run) the recoverer is asked for
  its repair sequences and the FIRST one is replayed in value mode (`applySeqA` = `apply_repairs` with
  `astack`/`spans`): `Insert t` = `lr_upto(Some(lexeme), laidx, laidx + 1, …)` — reductions under `t`
  with their actions, then the inserted lexeme is pushed: `Lexeme::new_faulty(t, start, 0)` with
  `start = next_lexeme(laidx).span().start()`, i.e. the start of the next real lexeme, or the END OF
  THE LAST lexeme when `laidx` is the end of input (0 for an empty input); the index `lr_upto` returns
  is ignored, `laidx` stays; `Delete` = `laidx += 1`; `Shift` = `lr_upto(None, laidx, laidx + 1, …)` =
  one lexeme of the main loop. A first sequence that does NOT apply with plain LR semantics (the table
  refuses an inserted/shifted token, a Delete past the end) is outside the model (`crash 5`; the CPCT+
  recoverer never reports one: `C06.search_sequence_valid`).

Lexeme identities on the value stack are naturals, as in `Act`: real lexeme `i` of an input of `n`
lexemes is `i`; the zero-length faulty lexeme inserted before real lexeme `b` (`b = n`: at the end of
input) is `n + 1 + b` (`lexId`), and `idSpan` gives every identity its span. Like `Rec.recRun`, one
iteration handles one lookahead and every `feedA` gets the constant `Rec.FUEL`; erasing values, spans
and log gives `Rec.recRun` with the recoverer `recoverOf` ("continue from `applySeq` of the first
sequence"): `RecAct.recRunA_erase`. A crash inside the reductions (stack underflow, missing goto, empty
stack) is `crash 1`. `lrA` is the same loop with ONE `Act.stepA` per iteration and no per-lookahead fuel;
it returns what `recRunA` returns (`RecAct.lrA_of_recRunA`). Core Lean only.
-/
namespace GrmVerif.RecAct
open GrmVerif LR Act Rec

/-- parse stack, value stack, span stack (tops at the HEAD) and the log of action calls -/
structure VCfg where
  pstack : List Nat
  astack : List Tree
  spans : List SpanE
  log : List Call
deriving Repr, Inhabited

/-- configuration of the recovering driver: the stacks and the index of the next real lexeme -/
structure RACfg where
  v : VCfg
  laidx : Nat
deriving Repr, Inhabited

/-- the same configuration as the plain action driver `Act.stepA` sees it -/
def VCfg.toA (v : VCfg) (laidx : Nat) : ACfg := ⟨⟨v.pstack, v.astack, laidx⟩, v.spans, v.log⟩

/-- the Reduce arm of `lr`/`lr_upto` once the goto state `s'` is known: pop `|rhs p|` entries of the
three stacks, push the goto state, the span `reduce_span` computes and the value of the action, which
is called (logged) with rule, span and the popped values in order -/
def reduceV (G : Grammar) (p s' : Nat) (v : VCfg) : VCfg :=
  let n := (G.rhs p).length
  let kids := (v.astack.take n).reverse
  let se := reduceSpan v.spans n
  ⟨s' :: v.pstack.drop n, .node p kids :: v.astack.drop n, se :: v.spans.drop n,
   v.log ++ [⟨p, G.lhs p, se.start, se.stop, kids.map argOf⟩]⟩

/-- the Shift arm: push the state, the lexeme `(tok, id)` and `SpanEntry::lexeme(span)` -/
def pushLex (s' tok id : Nat) (sp : Nat × Nat) (v : VCfg) : VCfg :=
  ⟨s' :: v.pstack, .leaf tok id :: v.astack, ⟨sp.1, sp.2, false⟩ :: v.spans, v.log⟩

/-- result of the reductions under one lookahead -/
inductive FedA where
  /-- the table shifts the lookahead, to state `s'`; `v` = the stacks before the lexeme is pushed -/
  | shifted (s' : Nat) (v : VCfg)
  | accept (v : VCfg)
  | error (v : VCfg)
  | crash                    -- stack underflow, missing goto or empty stack (`Outcome.crash 1`)
  | fuelOut
deriving Repr, Inhabited

/-- run the reductions the table prescribes for lookahead `la`, with their action calls, until `la`
is shifted, accepted or refused (`Rec.feed` with values) -/
def feedA (G : Grammar) (A : Automaton) (la : Nat) : Nat → VCfg → FedA
  | 0, _ => .fuelOut
  | fuel + 1, v =>
    match v.pstack with
    | [] => .crash
    | st :: _ =>
      match A.action st la with
      | .shift s' => .shifted s' v
      | .accept => .accept v
      | .error => .error v
      | .reduce p =>
        let n := (G.rhs p).length
        if v.pstack.length ≤ n then .crash
        else
          match v.pstack.drop n with
          | [] => .crash
          | prior :: _ =>
            match A.goto prior (G.lhs p) with
            | none => .crash
            | some s' => feedA G A la fuel (reduceV G p s' v)

/-! ### lexeme identities and their spans -/

/-- identity of a lexeme of the edited input on the value stack (`n` = number of real lexemes) -/
def lexId (n : Nat) : EItem → Nat
  | .real i => i
  | .ins _ b => n + 1 + b

/-- `next_lexeme(b).span().start()`: the start of real lexeme `b`; at the end of input the end of the
last lexeme (0 if there is none) -/
def insPos (lexSpan : Nat → Nat × Nat) (n b : Nat) : Nat :=
  if b < n then (lexSpan b).1 else if n = 0 then 0 else (lexSpan (n - 1)).2

/-- the span of a lexeme of the edited input: a real lexeme keeps its span, an inserted one is the
zero-length span at the start of the next real lexeme -/
def itemSpan (lexSpan : Nat → Nat × Nat) (n : Nat) : EItem → Nat × Nat
  | .real i => lexSpan i
  | .ins _ b => (insPos lexSpan n b, insPos lexSpan n b)

/-- the span of a lexeme identity -/
def idSpan (lexSpan : Nat → Nat × Nat) (n : Nat) (id : Nat) : Nat × Nat :=
  if id ≤ n then lexSpan id else (insPos lexSpan n (id - (n + 1)), insPos lexSpan n (id - (n + 1)))

/-! ### `apply_repairs` in value mode -/

/-- one repair of `apply_repairs` with `astack`/`spans`; `none` = the table does not shift the token
(or a Delete/Shift past the end of input): outside the model -/
def applyRepairA (G : Grammar) (A : Automaton) (w : List Nat) (lexSpan : Nat → Nat × Nat)
    (c : RACfg) : Repair → Option RACfg
  | .insert t =>
    match feedA G A t FUEL c.v with
    | .shifted s' v' => some ⟨pushLex s' t (lexId w.length (.ins t c.laidx)) (itemSpan lexSpan w.length (.ins t c.laidx)) v', c.laidx⟩
    | _ => none
  | .delete => if c.laidx < w.length then some ⟨c.v, c.laidx + 1⟩ else none
  | .shift =>
    match w[c.laidx]? with
    | none => none
    | some t =>
      match feedA G A t FUEL c.v with
      | .shifted s' v' => some ⟨pushLex s' t c.laidx (lexSpan c.laidx) v', c.laidx + 1⟩
      | _ => none

/-- `apply_repairs` with `astack`/`spans` -/
def applySeqA (G : Grammar) (A : Automaton) (w : List Nat) (lexSpan : Nat → Nat × Nat) :
    RACfg → List Repair → Option RACfg
  | c, [] => some c
  | c, r :: rs =>
    match applyRepairA G A w lexSpan c r with
    | none => none
    | some c' => applySeqA G A w lexSpan c' rs

/-! ### the recovering driver -/

/-- the Accept arm: `astack.drain(..).next().unwrap()` must be a value (`crash 3` otherwise) -/
def acceptOut (v : VCfg) : Outcome :=
  match v.astack.getLast? with
  | some (.node p kids) => .accept (.node p kids)
  | _ => .crash 3

/-- `Parser::lr` with a recoverer, value stack, span stack and action log. `recover` = the repair
sequences the recoverer reports for the configuration (state stack after the reductions under the
refused lexeme, position) — none = give up. Result: outcome (`accept value` / `error laidx state` =
gave up there / `crash` / `fuelOut`), the log of action calls, the errors in order. -/
def recRunA (G : Grammar) (A : Automaton) (w : List Nat) (lexSpan : Nat → Nat × Nat)
    (recover : Pos → List (List Repair)) : Nat → RACfg → List Err → Outcome × List Call × List Err
  | 0, c, errs => (.fuelOut, c.v.log, errs)
  | fuel + 1, c, errs =>
    let la := nextTok G w c.laidx
    match feedA G A la FUEL c.v with
    | .shifted s' v' => recRunA G A w lexSpan recover fuel ⟨pushLex s' la c.laidx (lexSpan c.laidx) v', c.laidx + 1⟩ errs
    | .accept v' => (acceptOut v', v'.log, errs)
    | .error v' =>
      match recover ⟨v'.pstack, c.laidx⟩ with
      | [] => (.error c.laidx (v'.pstack.headD 0), v'.log, errs ++ [⟨c.laidx, []⟩])
      | s0 :: rest =>
        match applySeqA G A w lexSpan ⟨v', c.laidx⟩ s0 with
        | none => (.crash 5, v'.log, errs ++ [⟨c.laidx, []⟩])
        | some c' => recRunA G A w lexSpan recover fuel c' (errs ++ [⟨c.laidx, s0 :: rest⟩])
    | .crash => (.crash 1, c.v.log, errs)
    | .fuelOut => (.fuelOut, c.v.log, errs)

/-! ### the same loop, one table action per iteration -/

def VCfg.ofA (a : ACfg) : VCfg := ⟨a.c.pstack, a.c.astack, a.spans, a.log⟩

/-- the loop of `Parser::lr` transcribed iteration by iteration: every iteration is ONE `Act.stepA`
(Reduce, Shift, Accept or Error arm); in the Error arm the recoverer is asked and its first sequence
replayed by `applySeqA`. No per-lookahead fuel. `RecAct.lrA_of_recRunA`: it returns what `recRunA`
returns whenever that returns a value or gives up at an error. -/
def lrA (G : Grammar) (A : Automaton) (w : List Nat) (lexSpan : Nat → Nat × Nat)
    (recover : Pos → List (List Repair)) : Nat → RACfg → List Err → Outcome × List Call × List Err
  | 0, c, errs => (.fuelOut, c.v.log, errs)
  | fuel + 1, c, errs =>
    match stepA G A w lexSpan (c.v.toA c.laidx) with
    | .cont a' => lrA G A w lexSpan recover fuel ⟨VCfg.ofA a', a'.c.laidx⟩ errs
    | .done (.error la st) log =>
      match recover ⟨c.v.pstack, c.laidx⟩ with
      | [] => (.error la st, log, errs ++ [⟨c.laidx, []⟩])
      | s0 :: rest =>
        match applySeqA G A w lexSpan c s0 with
        | none => (.crash 5, log, errs ++ [⟨c.laidx, []⟩])
        | some c' => lrA G A w lexSpan recover fuel c' (errs ++ [⟨c.laidx, s0 :: rest⟩])
    | .done o log => (o, log, errs)

def initV (A : Automaton) : VCfg := ⟨[A.start], [], [], []⟩

def initRA (A : Automaton) : RACfg := ⟨initV A, 0⟩

/-- the recovering parse of the input `w` -/
def parseRA (G : Grammar) (A : Automaton) (w : List Nat) (lexSpan : Nat → Nat × Nat)
    (recover : Pos → List (List Repair)) (fuel : Nat) : Outcome × List Call × List Err :=
  recRunA G A w lexSpan recover fuel (initRA A) []

/-- the recoverer of `Rec.recRun` that `recRunA` refines: report the sequences, continue from where
`applySeq` of the FIRST one leaves the parser -/
def recoverOf (G : Grammar) (A : Automaton) (w : List Nat) (recover : Pos → List (List Repair)) :
    Pos → Option (Pos × List (List Repair)) := fun c =>
  match recover c with
  | [] => none
  | s0 :: rest =>
    match applySeq G A w c s0 with
    | none => none
    | some c' => some (c', s0 :: rest)

/-- a run produced a value, or the Accept arm was reached on a malformed value stack -/
def acceptish : Outcome → Bool
  | .accept _ => true
  | .crash 3 => true
  | _ => false

end GrmVerif.RecAct
