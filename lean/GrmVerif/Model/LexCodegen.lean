/-!
# The wiring of the lexer code generator (`CTLexerBuilder::build`, the part that writes `lexerdef()`)

The generated `lexerdef()` is
```
let mut lex_flags = ::lrlex::DEFAULT_LEX_FLAGS;
lex_flags.X = <user's Y, quoted>.or(::lrlex::DEFAULT_LEX_FLAGS.Z);      -- one line per flag
let start_states = vec![<one item per element of STATES_ITER>];
let rules = vec![<Rule::new(api, args…, &lex_flags) per element of RULES_ITER>];
LRNonStreamingLexerDef::from_rules(start_states, rules)
```
Which X/Y/Z, which accessor of the run-time rule each argument is read from, which field `Rule::new`
stores each parameter in and the two iterator expressions are NOT written here: they are read from the
Rust source on every run (tools/extract.py, section C13) and handed to this model as data. Values of flags
and of rule fields are abstract (`Nat`); fields are addressed by their names, as in the extracted lists.
-/
namespace GrmVerif.LexCodegen

/-- a `LexFlags` value: field name ↦ `Option` of an abstract value -/
abbrev Flags := String → Option Nat

/-- one generated line `lex_flags.X = #Y.or(DEFAULT_LEX_FLAGS.Z)` is `(X, Y, Z)` -/
abbrev FlagWiring := List (String × String × String)

/-- run the generated assignment lines in order on the variable `lf` -/
def applyLines (user dflt : Flags) : FlagWiring → Flags → Flags
  | [], lf => lf
  | (x, y, z) :: rest, lf =>
    applyLines user dflt rest (fun f => if f = x then (user y).or (dflt z) else lf f)

/-- the `lex_flags` of the generated `lexerdef()`: starts from the defaults, then the lines -/
def emitFlags (w : FlagWiring) (user dflt : Flags) : Flags := applyLines user dflt w dflt

/-- every field of `LexFlags` is assigned exactly once, and every line takes the user's value of the
field it assigns and the default of that same field -/
def flagWiringOk (fields : List String) (w : FlagWiring) : Bool :=
  fields.all (fun f => (w.filter (fun l => l.1 == f)).length == 1) &&
  w.all (fun l => l.1 == l.2.1 && l.1 == l.2.2 && fields.contains l.1)

/-- a run-time `Rule`: field name ↦ abstract value (the field names are those of `struct Rule`) -/
abbrev RRule := String → Nat

/-- the arguments of one generated `Rule::new(…)` call: parameter name ↦ value -/
abbrev Args := String → Option Nat

/-- the field of the rule that a source expression reads: an accessor `a()` reads the field the accessor
table gives, a plain field name reads that field; anything else (e.g. `&lex_flags`) is not a rule field -/
def srcField (acc : List (String × String)) (fields : List String) (a : String) : Option String :=
  match acc.lookup a with
  | some f => some f
  | none => if fields.contains a then some a else none

/-- the arguments the generator writes for the run-time rule `r` -/
def emitRule (rw acc : List (String × String)) (fields : List String) (r : RRule) : Args :=
  fun p => match rw.lookup p with
    | some a => (srcField acc fields a).map r
    | none => none

/-- what `Rule::new` builds from its arguments: a stored field gets the parameter stored in it, every
other field (`re`) is computed by `Rule::new` itself (`derived`) -/
def rebuildRule (stores : List (String × String)) (derived : RRule) (args : Args) : RRule :=
  fun f => match stores.find? (fun s => s.2 == f) with
    | some s => (args s.1).getD 0
    | none => derived f

/-- every parameter that `Rule::new` stores is computed from the accessor (or field) that reads the very
field it is stored in; every field of `Rule` is either derived by `Rule::new` or stored from exactly one
parameter; every generated argument is a stored parameter or the local `&lex_flags` -/
def ruleWiringOk (fields derived : List String) (rw stores acc : List (String × String)) : Bool :=
  stores.all (fun s => match rw.lookup s.1 with
    | some a => srcField acc fields a == some s.2
    | none => false) &&
  fields.all (fun f => derived.contains f || (stores.filter (fun s => s.2 == f)).length == 1) &&
  rw.all (fun p => (stores.any (fun s => s.1 == p.1)) || p == ("lex_flags", "&lex_flags")) &&
  (rw.filter (fun p => p.1 == "lex_flags")).length == 1

/-- a run-time lexer definition: start states (abstract) and rules, in their order -/
structure RDef where
  states : List Nat
  rules : List RRule

/-- what the generator emits: the start states and one argument list per rule -/
structure GDef where
  states : List Nat
  rules : List Args

/-- the only iterator expressions the model gives a meaning to are the plain ones; anything else (an
adaptor such as `.filter(…)`, `.rev()`, a sorted copy) has no meaning here -/
def iterOk (rulesIter statesIter : String) : Bool :=
  rulesIter == "lexerdef.iter_rules()" && statesIter == "lexerdef.iter_start_states()"

/-- the generated definition: maps over the rules and the states in the order of the iterators -/
def emitDef (rulesIter statesIter : String) (rw acc : List (String × String)) (fields : List String)
    (d : RDef) : Option GDef :=
  if iterOk rulesIter statesIter then
    some { states := d.states.map id, rules := d.rules.map (emitRule rw acc fields) }
  else none

end GrmVerif.LexCodegen
