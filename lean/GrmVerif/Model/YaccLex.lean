/-
Model of the lexical helpers of `YaccParser` in `cfgrammar/src/lib/yacc/parser.rs`:
`parse_ws`, `parse_to_eol`, `parse_to_single_colon`, `parse_int`, `parse_string`, `parse_action`,
`lookahead_is`.

The Rust functions take a BYTE offset `i` into `self.src` and return a new byte offset. Here a text
is a `List Char`; every function is given the SUFFIX of the text that starts at `i` and returns the
number of BYTES it consumed (a sum of `Char.utf8Size`) together with the suffix that remains, so
`newpos = i + consumed`. The offset of an error is relative to the start of the suffix passed in
(the Rust code reports `i + that`). `self.num_newlines += 1` is modelled by returning the number of
increments.

`parseWs` is the code AFTER the repair of the block-comment loop: in the loop that looks for `*/`, the
`'\n' | '\r'` arm `continue`s after counting the line (before the repair it fell through to the
"is the next character `/`" test, so `"\n/"` inside a comment closed it). Everything else is as in the
source. Core Lean only.
-/
namespace GrmVerif.YaccLex

inductive Err
  | reachedEOL | incompleteComment | invalidString | illegalInteger | incompleteAction
deriving DecidableEq, Repr

/-- length in bytes of the UTF-8 encoding -/
def byteLen : List Char → Nat
  | [] => 0
  | c :: cs => c.utf8Size + byteLen cs

/-- `' ' | '\t'` -/
def isBlank (c : Char) : Bool := c == ' ' || c == '\t'

/-- `'\n' | '\r'` -/
def isEol (c : Char) : Bool := c == '\n' || c == '\r'

/-- the result of a skipping function: `(bytes consumed, newlines counted, rest)` or
`(error kind, byte offset)` -/
abbrev WsRes := Except (Err × Nat) (Nat × Nat × List Char)

/-- account for `k` bytes and `m` counted newlines in front of what `r` describes -/
def shiftRes (k m : Nat) : WsRes → WsRes
  | .ok (n, nl, r) => .ok (k + n, m + nl, r)
  | .error (e, p) => .error (e, k + p)

/-- the `for c in self.src[i..].chars()` loop after `//`: up to and INCLUDING the first `\n`/`\r`
(or to the end of the text) -> `(bytes, newlines counted (0 or 1), rest)` -/
def lineScan : List Char → Nat × Nat × List Char
  | [] => (0, 0, [])
  | c :: cs =>
    if isEol c then (c.utf8Size, 1, cs)
    else (c.utf8Size + (lineScan cs).1, (lineScan cs).2.1, (lineScan cs).2.2)

/-- outcome of looking for `*/` -/
inductive BlockRes
  /-- end of text reached (`found == false`) -/
  | unterminated
  /-- a line terminator met while `inc_newlines == false` -/
  | eol
  /-- `*/` found: bytes up to and including it, newlines counted, what follows it -/
  | closed (n nl : Nat) (rest : List Char)
deriving DecidableEq, Repr

def BlockRes.shift (k m : Nat) : BlockRes → BlockRes
  | .closed n nl r => .closed (k + n) (m + nl) r
  | .unterminated => .unterminated
  | .eol => .eol

/-- `if k < len { if next char == '/' ...` -/
def afterSlash : List Char → Option (List Char)
  | [] => none
  | d :: rest => if d = '/' then some rest else none

/-- the `while k < self.src.len()` loop after `/*` (REPAIRED: the line-terminator arm `continue`s).
Only a `*` reaches the test for a following `/`; when that test fails the character after the `*` is
not consumed, it is read by the next iteration (so `**/` closes). -/
def blockScan (inc : Bool) : List Char → BlockRes
  | [] => .unterminated
  | c :: cs =>
    if isEol c then
      if inc then (blockScan inc cs).shift c.utf8Size 1 else .eol
    else if c = '*' then
      match afterSlash cs with
      | some rest => .closed 2 0 rest
      | none => (blockScan inc cs).shift c.utf8Size 0
    else (blockScan inc cs).shift c.utf8Size 0

theorem lineScan_length (s : List Char) : (lineScan s).2.2.length ≤ s.length := by
  induction s with
  | nil => simp [lineScan]
  | cons c cs ih =>
    simp only [lineScan]
    split
    · simp
    · simp only [List.length_cons]; omega

theorem BlockRes.shift_closed {k m : Nat} {r : BlockRes} {n nl : Nat} {rest : List Char}
    (h : r.shift k m = .closed n nl rest) :
    ∃ n' nl', r = .closed n' nl' rest ∧ n = k + n' ∧ nl = m + nl' := by
  cases r with
  | unterminated => simp [BlockRes.shift] at h
  | eol => simp [BlockRes.shift] at h
  | closed a b r =>
    simp only [BlockRes.shift, BlockRes.closed.injEq] at h
    exact ⟨a, b, by simp [h.2.2], h.1.symm, h.2.1.symm⟩

theorem afterSlash_some {s rest : List Char} (h : afterSlash s = some rest) : s = '/' :: rest := by
  cases s with
  | nil => simp [afterSlash] at h
  | cons d ds =>
    simp only [afterSlash] at h
    split at h
    · simp only [Option.some.injEq] at h; subst h; simp [*]
    · simp at h

theorem blockScan_length (inc : Bool) (s : List Char) {n nl : Nat} {rest : List Char}
    (h : blockScan inc s = .closed n nl rest) : rest.length < s.length := by
  induction s generalizing n nl with
  | nil => simp [blockScan] at h
  | cons c cs ih =>
    simp only [blockScan] at h
    split at h
    · split at h
      · obtain ⟨_, _, h', _, _⟩ := BlockRes.shift_closed h
        have := ih h'; simp only [List.length_cons]; omega
      · simp at h
    · split at h
      · split at h
        · rename_i r hr
          simp only [BlockRes.closed.injEq] at h
          have := afterSlash_some hr
          subst this; simp only [List.length_cons]; rw [← h.2.2]; omega
        · obtain ⟨_, _, h', _, _⟩ := BlockRes.shift_closed h
          have := ih h'; simp only [List.length_cons]; omega
      · obtain ⟨_, _, h', _, _⟩ := BlockRes.shift_closed h
        have := ih h'; simp only [List.length_cons]; omega

/-- `parse_ws(i, inc_newlines)` on the suffix `s` starting at `i`:
`.ok (consumed bytes, newlines counted, rest)` or `.error (kind, offset relative to s)`. -/
def parseWs (inc : Bool) (s : List Char) : WsRes :=
  match s with
  | [] => .ok (0, 0, [])
  | c :: cs =>
    if isBlank c then shiftRes c.utf8Size 0 (parseWs inc cs)
    else if isEol c then
      if inc then shiftRes c.utf8Size 1 (parseWs inc cs) else .error (.reachedEOL, 0)
    else if c = '/' then
      match cs with
      | [] => .ok (0, 0, c :: cs)                       -- `/` is the last character: `break`
      | d :: ds =>
        if d = '/' then
          shiftRes (2 + (lineScan ds).1) (lineScan ds).2.1 (parseWs inc (lineScan ds).2.2)
        else if d = '*' then
          match h : blockScan inc ds with
          | .unterminated => .error (.incompleteComment, 0)   -- `mk_error(IncompleteComment, i)`
          | .eol => .error (.reachedEOL, 0)                   -- `mk_error(ReachedEOL, i)`, `i` = the `/`
          | .closed n nl rest => shiftRes (2 + n) nl (parseWs inc rest)
        else .ok (0, 0, c :: cs)                        -- `_ => break`
    else .ok (0, 0, c :: cs)                            -- `_ => break`
termination_by s.length
decreasing_by
  · simp only [List.length_cons]; omega
  · simp only [List.length_cons]; omega
  · have := lineScan_length ds; simp only [List.length_cons]; omega
  · have := blockScan_length inc ds h; simp only [List.length_cons]; omega

/-- `parse_to_eol`: up to but excluding the first `\n`/`\r` -> `(bytes, text taken, rest)` -/
def parseToEol : List Char → Nat × List Char × List Char
  | [] => (0, [], [])
  | c :: cs =>
    if isEol c then (0, [], c :: cs)
    else (c.utf8Size + (parseToEol cs).1, c :: (parseToEol cs).2.1, (parseToEol cs).2.2)

/-- `parse_to_single_colon`: up to but excluding the first `:` that is not followed by `:`; `::` is
skipped as a pair. `.ok (bytes, newlines counted, text taken (the Rust code trims it), rest)` with
`rest` starting at the colon. NOTE: in spite of the doc comment ("Errors if EOL encountered") a line
terminator is counted and skipped; `ReachedEOL` is only reported at the END OF THE TEXT. -/
def parseToSingleColon : List Char → Except (Err × Nat) (Nat × Nat × List Char × List Char)
  | [] => .error (.reachedEOL, 0)
  | c :: cs =>
    if c = ':' then
      match cs with
      | [] => .ok (0, 0, [], c :: cs)
      | d :: ds =>
        if d = ':' then
          match parseToSingleColon ds with
          | .ok (n, nl, t, r) => .ok (2 + n, nl, c :: d :: t, r)
          | .error (e, p) => .error (e, 2 + p)
        else .ok (0, 0, [], c :: cs)
    else
      match parseToSingleColon cs with
      | .ok (n, nl, t, r) => .ok (c.utf8Size + n, (if isEol c then 1 else 0) + nl, c :: t, r)
      | .error (e, p) => .error (e, c.utf8Size + p)

/-- the value of a run of ASCII digits -/
def digitsVal (ds : List Char) : Nat := ds.foldl (fun a c => 10 * a + (c.toNat - 48)) 0

/-- `parse_int`: the maximal run of `'0'..'9'` -> `(bytes, value, rest)`; an empty run is
`IllegalInteger` at 0. NOTE: `str::parse::<T>` also fails when the value does not fit `T` (reported
as `IllegalInteger` at 0 too); the model uses unbounded naturals and ignores that. -/
def parseInt (s : List Char) : Except (Err × Nat) (Nat × Nat × List Char) :=
  let ds := s.takeWhile Char.isDigit
  if ds.isEmpty then .error (.illegalInteger, 0)
  else .ok (ds.length, digitsVal ds, s.dropWhile Char.isDigit)

def shiftStr (k : Nat) (c : Char) :
    Except Nat (Nat × List Char × List Char) → Except Nat (Nat × List Char × List Char)
  | .ok (n, v, r) => .ok (k + n, c :: v, r)
  | .error p => .error (k + p)

/-- the `while` loop of `parse_string` after the opening quote `qc`:
`.ok (bytes up to and including the closing quote, value, rest)` or the offset of the error -/
def strScan (qc : Char) : List Char → Except Nat (Nat × List Char × List Char)
  | [] => .error 0                                 -- no closing quote: error at the end of the text
  | c :: cs =>
    if isEol c then .error 0
    else if c = qc then .ok (1, [], cs)
    else if c = '\\' then
      match cs with
      | [] => .error 0
      | d :: ds =>
        -- either quote may be escaped, whichever opened the string; the backslash is dropped
        if d = '\'' ∨ d = '"' then shiftStr 2 d (strScan qc ds) else .error 0
    else shiftStr c.utf8Size c (strScan qc cs)

/-- `parse_string` -> `(bytes incl. both quotes, value, rest)` -/
def parseString (s : List Char) : Except (Err × Nat) (Nat × List Char × List Char) :=
  match s with
  | [] => .error (.invalidString, 0)
  | q :: cs =>
    if q = '\'' ∨ q = '"' then
      match strScan q cs with
      | .ok (n, v, r) => .ok (1 + n, v, r)
      | .error p => .error (.invalidString, 1 + p)
    else .error (.invalidString, 0)

def shiftAct (c : Char) :
    Option (Nat × Nat × List Char × List Char) → Option (Nat × Nat × List Char × List Char)
  | some (n, nl, t, r) => some (c.utf8Size + n, (if isEol c then 1 else 0) + nl, c :: t, r)
  | none => none

/-- the loop of `parse_action` after the first `{`, with `c ≥ 1` open braces:
`(bytes before the matching '}', newlines, text before it, rest after it)`; `none` = end of text -/
def actScan : Nat → List Char → Option (Nat × Nat × List Char × List Char)
  | _, [] => none
  | c, ch :: cs =>
    if ch = '{' then shiftAct ch (actScan (c + 1) cs)
    else if ch = '}' then
      if c = 1 then some (0, 0, [], cs) else shiftAct ch (actScan (c - 1) cs)
    else shiftAct ch (actScan c cs)

/-- `parse_action` (the text starts with `{`, as `debug_assert`ed) ->
`(bytes incl. both braces, newlines counted, text between the outer braces UNtrimmed, rest)`.
Braces inside string or character literals or comments of the action code are counted too. -/
def parseAction (s : List Char) : Except (Err × Nat) (Nat × Nat × List Char × List Char) :=
  match s with
  | [] => .error (.incompleteAction, 0)             -- excluded by the precondition
  | b :: cs =>
    if b = '{' then
      match actScan 1 cs with
      | some (n, nl, t, r) => .ok (1 + n + 1, nl, t, r)
      | none => .error (.incompleteAction, 0)
    else .error (.incompleteAction, 0)              -- excluded by the precondition

/-- `lookahead_is(p, i)`: bytes of `p` and the rest if the text starts with `p` -/
def lookaheadIs : List Char → List Char → Option (Nat × List Char)
  | [], s => some (0, s)
  | _ :: _, [] => none
  | a :: p, c :: s =>
    if a = c then
      match lookaheadIs p s with
      | some (n, r) => some (a.utf8Size + n, r)
      | none => none
    else none

end GrmVerif.YaccLex
