/-!
The three-way result of the models of `CPCTPlus::recover` (`Model/SearchImpl.lean`,
`Model/RankImpl.lean`): a proper answer, a PANIC of the real code (`unwrap` on `None`, an index out of
range, `unreachable!()`), or the MODEL's fuel running out (the real loop would still be running).
Keeping the last two apart is what lets "the recoverer never panics" be stated without a termination
hypothesis. Core Lean only.
-/
namespace GrmVerif.SearchImpl

/-- result of a part of the recoverer that may panic or run out of (model) fuel -/
inductive Out (α : Type) where
  | ok (a : α)
  | panic
  | fuelOut
deriving Inhabited

def Out.map {α β : Type} (f : α → β) : Out α → Out β
  | .ok a => .ok (f a)
  | .panic => .panic
  | .fuelOut => .fuelOut

/-- forget WHY there is no answer -/
def Out.toOption {α : Type} : Out α → Option α
  | .ok a => some a
  | .panic => none
  | .fuelOut => none

end GrmVerif.SearchImpl
