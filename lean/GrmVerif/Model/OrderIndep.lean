/-!
# Model of the places where grmtools iterates a randomly seeded `HashMap`/`HashSet` and the result
could depend on the iteration order (C15). Core Lean only.

The iteration order is an explicit parameter: a list (any permutation of the key set), or — for the
work-set loop of `pager.rs::gc`, where a fresh element is picked from a changing set on every turn — a
strategy `σ` that reorders the current work list arbitrarily before its head is taken.

Transcribed code:
* `cfgrammar/src/lib/yacc/grammar.rs` — `for n in ai.keys() { aiv.set(token_map[n], true) }`  (`avoidInsert`)
* same file, the `~: T ~` productions of Eco grammars: before the repair `for t in implicit_tokens.keys()`
  (`implicitProdsOrig`), after it the token indices are collected and sorted first (`implicitProds`)
* `lrtable/src/lib/pager.rs::gc` — the `todo`/`seen` loop (`gcLoop`)
* `lrtable/src/lib/statetable.rs` — `for (&sym, ref_stidx) in sg.edges(stidx)`: every edge writes the cell
  of its own symbol (`fillCells`)
-/
namespace GrmVerif.OrderIndep

/-! ## `%avoid_insert` bit vector -/

/-- `aiv.set(i, true)` -/
def setBit (v : List Bool) (i : Nat) : List Bool := v.set i true

/-- `Vob::from_elem(false, ntoks)` then one `set` per key, in iteration order `keys` -/
def avoidInsert (ntoks : Nat) (keys : List Nat) : List Bool :=
  keys.foldl setBit (List.replicate ntoks false)

/-! ## the productions `~: T ~` of an Eco grammar -/

/-- `prods.push(..)` once per token, starting at production index `b`: (production index, token) -/
def number : Nat → List Nat → List (Nat × Nat)
  | _, [] => []
  | b, t :: ts => (b, t) :: number (b + 1) ts

/-- UNREPAIRED code: productions numbered in the iteration order of the map; second component = index
of the empty production pushed after them -/
def implicitProdsOrig (base : Nat) (order : List Nat) : List (Nat × Nat) × Nat :=
  (number base order, base + order.length)

/-- insertion into a sorted list -/
def insertSorted (x : Nat) : List Nat → List Nat
  | [] => [x]
  | y :: ys => if x ≤ y then x :: y :: ys else y :: insertSorted x ys

/-- `implicit_tidxs.sort_unstable()` on token indices (its result is *the* sorted arrangement, whatever
the algorithm) -/
def sortNat : List Nat → List Nat
  | [] => []
  | x :: xs => insertSorted x (sortNat xs)

/-- REPAIRED code: collect `token_map[t]` for the keys in iteration order, sort, then push -/
def implicitProds (base : Nat) (order : List Nat) : List (Nat × Nat) × Nat :=
  implicitProdsOrig base (sortNat order)

/-- the implicit rule is pushed onto `rule_names` right after the start rule -/
def implicitRidx : Nat := 1

/-! ## `gc`: states reachable from the start state -/

/-- one run of
```
while !todo.is_empty() { let s = *todo.iter().next(); todo.remove(&s); seen.insert(s);
                         todo.extend(edges[s].values().filter(|x| !seen.contains(x))); }
```
Sets are lists read up to membership; `σ` is the hash order: the element taken is the head of `σ todo`.
`none` = fuel exhausted. -/
def gcLoop (edges : Nat → List Nat) (σ : List Nat → List Nat) : Nat → List Nat → List Nat → Option (List Nat)
  | 0, _, _ => none
  | fuel + 1, todo, seen =>
    match σ todo with
    | [] => some seen
    | s :: _ =>
      gcLoop edges σ fuel
        (todo.filter (fun x => x != s) ++ (edges s).filter (fun x => !(s :: seen).contains x))
        (s :: seen)

/-! ## action/goto cells filled from the edges of one state -/

/-- every edge `(cell, target)` writes `target + 1` into its cell (0 = empty) -/
def fillCells (tbl : List Nat) (edges : List (Nat × Nat)) : List Nat :=
  edges.foldl (fun t e => t.set e.1 (e.2 + 1)) tbl

end GrmVerif.OrderIndep
