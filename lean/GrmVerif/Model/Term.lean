import GrmVerif.Model.Recover
/-
Termination certificate for the LR driver. `Rec.feed` runs the reductions the table prescribes under
one lookahead; `localRun` does the same on the TOP TWO states of a stack only and gives up (`under`)
as soon as a reduction would pop below them. If every local run from every pair of states ends within
`N` steps (`termCheck`), then `feed` — and with it `LR.parse` — terminates on every stack and input
(`Lemmas/Term.lean`). Parse stacks are paths of the automaton, so it is enough to ask this of the pairs
`[s, b]` where `b` has an edge to `s`, and of the single stack `[start]` (`termCheckAdj`); a pair that
fails because its local run really loops (`findCycle`: it comes back to the same top part of the local
stack without having popped below it) makes `feed` diverge on every stack that ends in that pair (`Lemmas/TermAdj.lean`). Core Lean only.
-/
namespace GrmVerif.Term
open GrmVerif Rec

inductive LRes where
  | done      -- the lookahead was shifted / accepted / refused, or the real driver would crash
  | under     -- a reduction pops the whole known part of the stack
  | fuelOut
deriving Repr, DecidableEq, Inhabited

/-- `feed` on a known stack SUFFIX `xs` (top first) -/
def localRun (G : Grammar) (A : Automaton) (la : Nat) : Nat → List Nat → LRes
  | 0, _ => .fuelOut
  | fuel + 1, xs =>
    match xs with
    | [] => .under
    | st :: _ =>
      match A.action st la with
      | .shift _ => .done
      | .accept => .done
      | .error => .done
      | .reduce p =>
        let n := (G.rhs p).length
        if xs.length ≤ n then .under
        else
          match xs.drop n with
          | [] => .under
          | prior :: rest =>
            match A.goto prior (G.lhs p) with
            | none => .done
            | some s' => localRun G A la fuel (s' :: prior :: rest)

/-- every local run from one state or from two stacked states ends within `N` steps -/
def termCheck (G : Grammar) (A : Automaton) (N : Nat) : Bool :=
  (List.range G.ntoks).all (fun la =>
    (List.range A.nstates).all (fun s =>
      localRun G A la N [s] != .fuelOut &&
      (List.range A.nstates).all (fun b => localRun G A la N [s, b] != .fuelOut)))

/-- `b` has an edge (under some symbol) to `s` -/
def adj (A : Automaton) (b s : Nat) : Bool :=
  (A.edges b).any (fun e => A.edge b e.1 == some s)

/-- the local runs from the stack `[start]` and from every pair `[s, b]` with an edge `b → s` end
within `N` steps, under every lookahead. These are the only one- and two-element tops a parse stack
(a path of the automaton from the start state) can have. -/
def termCheckAdj (G : Grammar) (A : Automaton) (N : Nat) : Bool :=
  (List.range G.ntoks).all (fun la =>
    localRun G A la N [A.start] != .fuelOut &&
    (List.range A.nstates).all (fun b =>
      (A.edges b).all (fun e => A.edge b e.1 != some e.2 || localRun G A la N [e.2, b] != .fuelOut)))

/-- the first `(lookahead, state, state below)` that fails `termCheckAdj` (`none` below = the stack
`[start]`) -/
def failAdj (G : Grammar) (A : Automaton) (N : Nat) : Option (Nat × Nat × Option Nat) :=
  (List.range G.ntoks).findSome? (fun la =>
    if localRun G A la N [A.start] == .fuelOut then some (la, A.start, none)
    else (List.range A.nstates).findSome? (fun b =>
      (A.edges b).findSome? (fun e =>
        if A.edge b e.1 == some e.2 && localRun G A la N [e.2, b] == .fuelOut then some (la, e.2, some b)
        else none)))

/-- one reduction on a known stack suffix; `none` when the run ends or would pop below the suffix -/
def localStep (G : Grammar) (A : Automaton) (la : Nat) (xs : List Nat) : Option (List Nat) :=
  match xs with
  | [] => none
  | st :: _ =>
    match A.action st la with
    | .reduce p =>
      if xs.length ≤ (G.rhs p).length then none
      else
        match xs.drop (G.rhs p).length with
        | [] => none
        | prior :: rest =>
          match A.goto prior (G.lhs p) with
          | none => none
          | some s' => some (s' :: prior :: rest)
    | _ => none

/-- `k` local reductions -/
def localIter (G : Grammar) (A : Automaton) (la : Nat) : Nat → List Nat → Option (List Nat)
  | 0, xs => some xs
  | k + 1, xs =>
    match localStep G A la xs with
    | none => none
    | some xs' => localIter G A la k xs'

/-- `some k`: after `k ≥ 1` further local reductions from `xs` the local stack again has `target` as
its top part (`target ++ vs`, top first) -/
def returnsTo (G : Grammar) (A : Automaton) (la : Nat) (target : List Nat) : Nat → Nat → List Nat → Option Nat
  | 0, _, _ => none
  | fuel + 1, k, xs =>
    match localStep G A la xs with
    | none => none
    | some xs' => if target.isPrefixOf xs' then some (k + 1) else returnsTo G A la target fuel (k + 1) xs'

/-- look for a genuine loop of the local run from `zs`: after some reductions (`pre` counts them) the
run is at a local stack whose top `m` states `ts`, run on their own, lead after `k ≥ 1` reductions
(`k ≤ W`) to `ts ++ vs` — the same top part again, over whatever was left below (`vs = []`: the run
returns to the same stack; `vs ≠ []`: the stack grows for ever, as with hidden left recursion).
Result `(pre, m, k)`. Every one of the first `steps` stacks of the run is tried, with `m` = 1, 2 and
the whole local stack. -/
def findCycle (G : Grammar) (A : Automaton) (la : Nat) (W : Nat) : Nat → Nat → List Nat → Option (Nat × Nat × Nat)
  | 0, _, _ => none
  | steps + 1, pre, zs =>
    match [1, 2, zs.length].findSome? (fun m =>
        (returnsTo G A la (zs.take m) W 0 (zs.take m)).map (fun k => (m, k))) with
    | some mk => some (pre, mk.1, mk.2)
    | none =>
      match localStep G A la zs with
      | none => none
      | some zs' => findCycle G A la W steps (pre + 1) zs'

/-- the states for which a path from the start state is found (breadth first, at most `fuel` rounds) -/
def reachFrom (A : Automaton) : Nat → List Nat → List Nat
  | 0, seen => seen
  | fuel + 1, seen =>
    let next := (seen.flatMap (fun s => (A.edges s).filterMap (fun e => A.edge s e.1))).filter (fun t => !seen.contains t)
    if next.isEmpty then seen else reachFrom A fuel (seen ++ next.eraseDups)

def reachable (A : Automaton) : List Nat := reachFrom A A.nstates [A.start]

end GrmVerif.Term
