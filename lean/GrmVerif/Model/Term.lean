import GrmVerif.Model.Recover
/-
Termination certificate for the LR driver. `Rec.feed` runs the reductions the table prescribes under
one lookahead; `localRun` does the same on the TOP TWO states of a stack only and gives up (`under`)
as soon as a reduction would pop below them. If every local run from every pair of states ends within
`N` steps (`termCheck`), then `feed` — and with it `LR.parse` — terminates on every stack and input
(`Lemmas/Term.lean`). Core Lean only.
-/
namespace GrmVerif.Term
open GrmVerif Rec

inductive LRes where
  | done      -- the lookahead was shifted / accepted / refused, or the real driver would crash
  | under     -- a reduction pops the whole known part of the stack
  | fuelOut
deriving Repr, DecidableEq, Inhabited

/-- `feed` on a known stack SUFFIX `xs` (top first) -/
def localRun (G : Grammar) (A : Automaton) (la : Nat) : Nat → List Nat → LRes
  | 0, _ => .fuelOut
  | fuel + 1, xs =>
    match xs with
    | [] => .under
    | st :: _ =>
      match A.action st la with
      | .shift _ => .done
      | .accept => .done
      | .error => .done
      | .reduce p =>
        let n := (G.rhs p).length
        if xs.length ≤ n then .under
        else
          match xs.drop n with
          | [] => .under
          | prior :: rest =>
            match A.goto prior (G.lhs p) with
            | none => .done
            | some s' => localRun G A la fuel (s' :: prior :: rest)

/-- every local run from one state or from two stacked states ends within `N` steps -/
def termCheck (G : Grammar) (A : Automaton) (N : Nat) : Bool :=
  (List.range G.ntoks).all (fun la =>
    (List.range A.nstates).all (fun s =>
      localRun G A la N [s] != .fuelOut &&
      (List.range A.nstates).all (fun b => localRun G A la N [s, b] != .fuelOut)))

end GrmVerif.Term
