import GrmVerif.Model.CostsRef
/-
A fuel-bounded recogniser for "symbol derives token string" (sound; used to validate the minimal
sentences the implementation generates) and the witness-carrying iteration for maximal costs.
Core Lean only.
-/
namespace GrmVerif.Ref
open GrmVerif

mutual
/-- `allow p`: productions the search may use (any restriction keeps the recogniser sound) -/
def recogSym (G : Grammar) (allow : Nat → Bool) : Nat → Sym → List Nat → Bool
  | _, .tok t, w => w == [t]
  | 0, .rule _, _ => false
  | fuel + 1, .rule r, w => (G.prodsOf r).any (fun p => allow p && recogSeq G allow fuel (G.rhs p) w)
def recogSeq (G : Grammar) (allow : Nat → Bool) : Nat → List Sym → List Nat → Bool
  | _, [], w => w.isEmpty
  | 0, _ :: _, _ => false
  | fuel + 1, .tok t :: rest, w =>
    match w with
    | [] => false
    | a :: w' => a == t && recogSeq G allow fuel rest w'
  | fuel + 1, .rule r :: rest, w =>
    (List.range (w.length + 1)).any (fun k =>
      recogSeq G allow fuel rest (w.drop k) && recogSym G allow fuel (.rule r) (w.take k))
end

/-- value and a witness string for the maximal cost found so far -/
abbrev MaxEnt := Option (Nat × List Nat)

def lookM (m : List MaxEnt) (q : Nat) : MaxEnt := (m[q]?).getD none

/-- cost and witness of a symbol sequence under the current table (`none` if some rule has none) -/
def seqMax (tc : Nat → Nat) (m : Nat → MaxEnt) : List Sym → MaxEnt
  | [] => some (0, [])
  | .tok t :: rest =>
    match seqMax tc m rest with
    | none => none
    | some (v, w) => some (tc t + v, t :: w)
  | .rule q :: rest =>
    match m q, seqMax tc m rest with
    | some (a, wa), some (v, w) => some (a + v, wa ++ w)
    | _, _ => none

def betterM : MaxEnt → MaxEnt → MaxEnt
  | none, b => b
  | a, none => a
  | some (a, wa), some (b, wb) => if a ≥ b then some (a, wa) else some (b, wb)

def ruleMax (G : Grammar) (tc : Nat → Nat) (m : Nat → MaxEnt) (r : Nat) : MaxEnt :=
  (G.prodsOf r).foldl (fun acc p => betterM acc (seqMax tc m (G.rhs p))) none

def stepMax (G : Grammar) (tc : Nat → Nat) (m : List MaxEnt) : List MaxEnt :=
  (List.range G.nrules).map (fun r => betterM (lookM m r) (ruleMax G tc (lookM m) r))

/-- `k` rounds of the maximal-cost iteration; the values only ever grow and every entry carries a
string of exactly that cost -/
def maxIter (G : Grammar) (tc : Nat → Nat) : Nat → List MaxEnt → List MaxEnt
  | 0, m => m
  | k + 1, m => maxIter G tc k (stepMax G tc m)

/-- rules that can derive a string of positive cost -/
def posDerive (G : Grammar) (tc : Nat → Nat) (prodv : Nat → Bool) (S : Nat → Bool) (r : Nat) : Bool :=
  (G.prodsOf r).any (fun p => usableProd G prodv p &&
    (G.rhs p).any (fun s => match s with | .tok t => tc t > 0 | .rule q => S q))

end GrmVerif.Ref
