import GrmVerif.Model.Grammar
import GrmVerif.Model.Fix
/-
Reference computations of nullable / FIRST / FOLLOW / rule reachability as least fixed points.
These are the *specification-side* functions of C17 (and the FIRST/nullable used by the LR(1)
validators): `Props/C17.lean` proves each exact w.r.t. the textbook inductive definitions.
Core Lean only.
-/
namespace GrmVerif.Ref
open GrmVerif Fix

def symNullable (N : Nat → Bool) : Sym → Bool
  | .tok _ => false
  | .rule q => N q

def seqNullable (N : Nat → Bool) (l : List Sym) : Bool := l.all (symNullable N)

def nullableDerive (G : Grammar) (N : Nat → Bool) (r : Nat) : Bool :=
  (G.prodsOf r).any (fun p => seqNullable N (G.rhs p))

/-- the set of nullable rules -/
def nullables (G : Grammar) : Option (List Nat) :=
  lfp (List.range G.nrules) (nullableDerive G) (G.nrules + 1) []

/-- can token `t` begin a string derived from the symbol sequence, given nullable `N` and FIRST `F` -/
def firstSeq (N : Nat → Bool) (F : Nat × Nat → Bool) : List Sym → Nat → Bool
  | [], _ => false
  | .tok a :: _, t => a == t
  | .rule q :: rest, t => F (q, t) || (N q && firstSeq N F rest t)

def pairs (n m : Nat) : List (Nat × Nat) :=
  (List.range n).flatMap (fun r => (List.range m).map (fun t => (r, t)))

def firstDerive (G : Grammar) (N : Nat → Bool) (F : Nat × Nat → Bool) (x : Nat × Nat) : Bool :=
  (G.prodsOf x.1).any (fun p => firstSeq N F (G.rhs p) x.2)

/-- FIRST as a set of (rule, token) pairs -/
def firsts (G : Grammar) (N : Nat → Bool) : Option (List (Nat × Nat)) :=
  lfp (pairs G.nrules G.ntoks) (firstDerive G N) (G.nrules * G.ntoks + 1) []

/-- does `A` occur in `l` at a place where `t` can follow it (inside production of `B`)? -/
def followOcc (N : Nat → Bool) (F : Nat × Nat → Bool) (S : Nat × Nat → Bool) (B A t : Nat) : List Sym → Bool
  | [] => false
  | .tok _ :: rest => followOcc N F S B A t rest
  | .rule q :: rest =>
    (q == A && (firstSeq N F rest t || (seqNullable N rest && S (B, t)))) || followOcc N F S B A t rest

def followDerive (G : Grammar) (N : Nat → Bool) (F : Nat × Nat → Bool) (S : Nat × Nat → Bool) (x : Nat × Nat) : Bool :=
  (x.1 == G.startRule && x.2 == G.eof) ||
  (List.range G.nprods).any (fun p => followOcc N F S (G.lhs p) x.1 x.2 (G.rhs p))

/-- FOLLOW as a set of (rule, token) pairs; end of input is the token `G.eof` -/
def follows (G : Grammar) (N : Nat → Bool) (F : Nat × Nat → Bool) : Option (List (Nat × Nat)) :=
  lfp (pairs G.nrules G.ntoks) (followDerive G N F) (G.nrules * G.ntoks + 1) []

/-- rule `B` occurs in some production of rule `C` -/
def occursIn (G : Grammar) (C B : Nat) : Bool :=
  (G.prodsOf C).any (fun p => (G.rhs p).contains (.rule B))

def reachDerive (G : Grammar) (A : Nat) (S : Nat → Bool) (B : Nat) : Bool :=
  occursIn G A B || (List.range G.nrules).any (fun C => S C && occursIn G C B)

/-- rules reachable from `A` through one or more productions -/
def reach (G : Grammar) (A : Nat) : Option (List Nat) :=
  lfp (List.range G.nrules) (reachDerive G A) (G.nrules + 1) []

/-- all four analyses bundled (what the driver prints and what the LR validators use) -/
structure Analyses where
  nullable : List Nat
  first : List (Nat × Nat)
  follow : List (Nat × Nat)

def analyses (G : Grammar) : Option Analyses :=
  match nullables G with
  | none => none
  | some N =>
    match firsts G (N.contains ·) with
    | none => none
    | some F =>
      match follows G (N.contains ·) (F.contains ·) with
      | none => none
      | some W => some ⟨N, F, W⟩

end GrmVerif.Ref
