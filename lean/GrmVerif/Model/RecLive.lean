import GrmVerif.Model.Recover
/-
The recovering driver `Rec.recRun` with its two totalisations made visible (C07, liveness).
`recRun` gives `feed` the constant fuel `FUEL` and answers `(false, errs)` both when its own fuel runs
out and when `feed` reports `fuelOut`/`crash`. `recRunF` is the same function with the fuel of `feed`
as a parameter (`recRunF … FUEL = recRun`, `Lemmas/RecSpec.lean`); `recRunO` is the instrumented
version: `none` = "no answer" (loop fuel exhausted, `feed` out of fuel, or the driver would crash),
`some r` = the loop really ended with `r`. Core Lean only.
-/
namespace GrmVerif.Rec
open GrmVerif LR

/-- `recRun` with the fuel `ff` handed to every `feed` as a parameter -/
def recRunF (G : Grammar) (A : Automaton) (w : List Nat)
    (recover : Pos → Option (Pos × List (List Repair))) (ff : Nat) : Nat → Pos → List Err → Bool × List Err
  | 0, _, errs => (false, errs)
  | fuel + 1, c, errs =>
    match feed G A (nextTok G w c.pos) ff c.stack with
    | .shifted s => recRunF G A w recover ff fuel ⟨s, c.pos + 1⟩ errs
    | .accept _ => (true, errs)
    | .error s =>
      match recover ⟨s, c.pos⟩ with
      | none => (false, errs ++ [⟨c.pos, []⟩])
      | some (c', rs) =>
        if rs.isEmpty then (false, errs ++ [⟨c.pos, []⟩])
        else recRunF G A w recover ff fuel c' (errs ++ [⟨c.pos, rs⟩])
    | _ => (false, errs)

/-- the recovering driver with its outcome made explicit: `none` when the loop's own fuel runs out,
when a `feed` runs out of its fuel `ff`, or when the driver would crash (stack underflow, missing
goto); `some (value?, errors)` when the loop ended by accepting or by giving up at an error -/
def recRunO (G : Grammar) (A : Automaton) (w : List Nat)
    (recover : Pos → Option (Pos × List (List Repair))) (ff : Nat) : Nat → Pos → List Err → Option (Bool × List Err)
  | 0, _, _ => none
  | fuel + 1, c, errs =>
    match feed G A (nextTok G w c.pos) ff c.stack with
    | .shifted s => recRunO G A w recover ff fuel ⟨s, c.pos + 1⟩ errs
    | .accept _ => some (true, errs)
    | .error s =>
      match recover ⟨s, c.pos⟩ with
      | none => some (false, errs ++ [⟨c.pos, []⟩])
      | some (c', rs) =>
        if rs.isEmpty then some (false, errs ++ [⟨c.pos, []⟩])
        else recRunO G A w recover ff fuel c' (errs ++ [⟨c.pos, rs⟩])
    | _ => none

/-- a recoverer of the kind the real one is (as far as C05 validates it): among the candidate
sequences `cands c` keep those that repair (`validSeq`), report them, and continue from where
applying the first of them leaves the parser; give up when none repairs -/
def recoverBy (G : Grammar) (A : Automaton) (w : List Nat) (N : Nat)
    (cands : Pos → List (List Repair)) (c : Pos) : Option (Pos × List (List Repair)) :=
  match (cands c).filter (validSeq G A w N c) with
  | [] => none
  | r :: rs =>
    match applySeq G A w c r with
    | none => none
    | some c' => some (c', r :: rs)

end GrmVerif.Rec
