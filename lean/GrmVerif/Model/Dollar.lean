/-
Model of the `$`-substitution loop inside `CTParserBuilder::gen_user_actions`
(lrpar/src/lib/ctbuilder.rs, `let mut last = 0; let mut outs = String::new(); loop { … }`) and of the
drain-unpacking that `gen_wrappers` generates.

Texts are `List Char`; every position is a UTF-8 *byte* offset computed with `Char.utf8Size`; a string
slice `&s[a..b]` at a non-boundary or out of range is the panic it is in Rust (`none`).
`char::is_numeric` (Unicode general categories Nd, Nl, No; part of Rust's std, not of grmtools) is the
parameter `num`; the theorems hold for every `num`; each request of the driver carries the numeric
characters of its text as classified by the real `char::is_numeric`.
`ACTION_PREFIX` is the parameter `pfx` (`"__gt_"`).
Core Lean only: this file is linked into the native driver.
-/
namespace GrmVerif.Dollar

/-- byte length of a text (`str::len`) -/
def byteLen : List Char → Nat
  | [] => 0
  | c :: cs => c.utf8Size + byteLen cs

/-- `&s[b..]`; `none` = panic (`b` is beyond the end or not a character boundary) -/
def sliceFrom : List Char → Nat → Option (List Char)
  | [], b => if b = 0 then some [] else none
  | c :: cs, b =>
    if b = 0 then some (c :: cs)
    else if c.utf8Size ≤ b then sliceFrom cs (b - c.utf8Size) else none

/-- `&s[..n]`; `none` = panic -/
def takeBytes : List Char → Nat → Option (List Char)
  | [], n => if n = 0 then some [] else none
  | c :: cs, n =>
    if n = 0 then some []
    else if c.utf8Size ≤ n then (takeBytes cs (n - c.utf8Size)).map (c :: ·) else none

/-- `&s[a..b]`; `none` = panic -/
def slice (s : List Char) (a b : Nat) : Option (List Char) :=
  if b < a then none else (sliceFrom s a).bind (fun t => takeBytes t (b - a))

/-- `s.find('$')`: byte offset of the first `$` -/
def findDollar : List Char → Option Nat
  | [] => none
  | c :: cs => if c = '$' then some 0 else (findDollar cs).map (· + c.utf8Size)

/-- `s.starts_with(p)` for a literal `p` -/
def startsWith (s p : List Char) : Bool := p.isPrefixOf s

/-- `s.starts_with(|c: char| c.is_numeric())` -/
def firstIs (num : Char → Bool) : List Char → Bool
  | [] => false
  | c :: _ => num c

def kwDollar : List Char := ['$', '$']
def kwLexer : List Char := ['$', 'l', 'e', 'x', 'e', 'r']
def kwSpan : List Char := ['$', 's', 'p', 'a', 'n']
def idLexer : List Char := ['l', 'e', 'x', 'e', 'r']
def idSpan : List Char := ['s', 'p', 'a', 'n']
def idArg : List Char := ['a', 'r', 'g', '_']

/-- outcome of one iteration of the `loop { match pre_action[last..].find('$') … }` -/
inductive Step where
  | done (out : List Char)               -- `None => { outs.push_str(&pre_action[last..]); break }`
  | next (last : Nat) (outs : List Char) -- fall through to the next iteration
  | err (pos : Nat)                      -- "Unknown text following '$'", `pos = last + off + "$".len()`
  | panic                                -- a slice that Rust would refuse
deriving DecidableEq, Repr

/-- one iteration of the loop, transcribed branch by branch -/
def step (num : Char → Bool) (pfx s : List Char) (last : Nat) (outs : List Char) : Step :=
  match sliceFrom s last with
  | none => .panic
  | some rest =>
    match findDollar rest with
    | none => .done (outs ++ rest)
    | some off =>
      match sliceFrom s (last + off) with
      | none => .panic
      | some t =>
        if startsWith t kwDollar then
          -- outs.push_str(&pre_action[last..last + off + "$".len()]); last = last + off + "$$".len()
          match slice s last (last + off + 1) with
          | none => .panic
          | some pre => .next (last + off + 2) (outs ++ pre)
        else if startsWith t kwLexer then
          match slice s last (last + off) with
          | none => .panic
          | some pre => .next (last + off + 6) (outs ++ pre ++ pfx ++ idLexer)
        else if startsWith t kwSpan then
          match slice s last (last + off) with
          | none => .panic
          | some pre => .next (last + off + 5) (outs ++ pre ++ pfx ++ idSpan)
        else if last + off + 1 < byteLen s then
          match sliceFrom s (last + off + 1) with
          | none => .panic
          | some u =>
            if firstIs num u then
              -- only the prefix is written; the digits are copied by the next iteration
              match slice s last (last + off) with
              | none => .panic
              | some pre => .next (last + off + 1) (outs ++ pre ++ pfx ++ idArg)
            else .err (last + off + 1)
        else .err (last + off + 1)

/-- result of the whole routine -/
inductive Res where
  | ok (out : List Char)
  | err (pos : Nat)
  | panic
  | fuel                                 -- the loop did not finish within the fuel (never: `dollar_no_panic`)
deriving DecidableEq, Repr

def loop (num : Char → Bool) (pfx s : List Char) : Nat → Nat → List Char → Res
  | 0, _, _ => .fuel
  | fuel + 1, last, outs =>
    match step num pfx s last outs with
    | .done o => .ok o
    | .next l o => loop num pfx s fuel l o
    | .err p => .err p
    | .panic => .panic

/-- the routine on one action text -/
def dollar (num : Char → Bool) (pfx s : List Char) : Res :=
  loop num pfx s (byteLen s + 1) 0 []

/-- `Span::new(span.start() + pos, span.end())` of the error branch; `none` = the panic of
`Span::new` when the end precedes the start -/
def errSpan (spanStart spanEnd pos : Nat) : Option (Nat × Nat) :=
  if spanEnd < spanStart + pos then none else some (spanStart + pos, spanEnd)

/-! ### The drain-unpacking of `gen_wrappers` -/

inductive Sym where
  | tok (t : Nat)
  | rule (r : Nat)
deriving DecidableEq, Repr

/-- `AStackType<LexemeT, ActionT>`: a lexeme (identified by `id`, with its `faulty()` flag) or an action
value of the `__GtActionsKind::Ak<variant>` variant -/
inductive AStack where
  | lexeme (id : Nat) (faulty : Bool)
  | value (variant : Nat) (v : Nat)
deriving DecidableEq, Repr

/-- what an action function receives for one symbol -/
inductive Arg where
  | okLex (id : Nat)      -- `Ok(l)`: a lexeme the user's input contained
  | errLex (id : Nat)     -- `Err(l)`: a lexeme inserted by error recovery
  | val (v : Nat)
deriving DecidableEq, Repr

/-- `let __gt_arg_i = match __gt_args.next().unwrap() { … }` for one symbol; `none` = `unwrap` on an
exhausted drain or `unreachable!()` -/
def unpack1 : Sym → Option AStack → Option Arg
  | _, none => none
  | .rule r, some (.value variant v) => if variant = r then some (.val v) else none
  | .rule _, some (.lexeme _ _) => none
  | .tok _, some (.lexeme id faulty) => some (if faulty then .errLex id else .okLex id)
  | .tok _, some (.value _ _) => none

/-- the generated `for i in 0..prod.len()` sequence of `let` bindings: the i-th binding consumes the
next element of the drain; result = the values of `__gt_arg_1 … __gt_arg_n` in that order -/
def unpack : List Sym → List AStack → Option (List Arg)
  | [], _ => some []
  | s :: ss, drain =>
    match unpack1 s drain.head? with
    | none => none
    | some a => (unpack ss drain.tail).map (a :: ·)

/-- name of the i-th (1-based) argument: `format_ident!("{}arg_{}", ACTION_PREFIX, i)` -/
def argName (pfx : List Char) (i : Nat) : List Char := pfx ++ idArg ++ (toString i).toList

/-- parameter list of the generated action function (`gen_user_actions`: `mut __gt_arg_{i+1}: T`)
and, identically, the argument list of the call in the wrapper (`#(#args,)*`) -/
def argNames (pfx : List Char) (n : Nat) : List (List Char) :=
  (List.range n).map (fun i => argName pfx (i + 1))

end GrmVerif.Dollar
