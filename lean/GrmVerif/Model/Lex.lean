/-
Model of the scan loop of `LRNonStreamingLexerDef::lexer`, of `state_matches`, `get_start_state_by_id`
and of `set_rule_ids_spanned` / `set_rule_ids` (lrlex/src/lib/lexer.rs).

* The regex engine is a PARAMETER: `ml ridx off : Option Nat` is what `r.re.find(&s[off..])` returns
  for rule `ridx` (`none` = no match, `some len` = `m.end()`; the regexes are anchored with `\A`).
* The input text itself is not needed: only its byte length `n` and `ml`.
* The start-state stack is the run-length encoded `Vec<(usize, &StartState)>` of the code; the HEAD of
  the Lean list is `state_stack.last()`.
* `lexemes.push(..)` is modelled as a list of events `Ev`; skipped matches (unnamed rules) are recorded
  as ghost `skip` events so that tiling can be stated; `Ev.visible` keeps what the code pushes.
* A Rust panic (`get_rule(longest_ridx).unwrap()`) is the event `panic`; running out of fuel is `none`.
Core Lean only: this file is linked into the native driver.
-/
namespace GrmVerif.Lex

/-- `StartState { id, exclusive, .. }` -/
structure St where
  id : Nat
  excl : Bool
deriving Repr, BEq, DecidableEq

/-- `StartStateOperation` -/
inductive Op
  | replace | push | pop
deriving Repr, BEq, DecidableEq

/-- `Rule { tok_id, name, name_span, start_states, target_state, .. }`; names are interned as
naturals by the harness; the regex lives in the `ml` parameter. -/
structure Rule where
  name : Option Nat
  tokId : Option Nat
  states : List Nat
  target : Option (Nat × Op)
  span : Nat × Nat := (0, 0)
deriving Repr, BEq, DecidableEq

/-- `LRNonStreamingLexerDef { rules, start_states, .. }` -/
structure Cfg where
  states : List St
  rules : List Rule
deriving Repr

/-- what the loop appends to `lexemes` (plus the ghost `skip`) -/
inductive Ev
  | tok (ridx tokId start len : Nat)          -- `Ok(Lexeme::new(tok_id, old_i, longest))`
  | skip (ridx start len : Nat)               -- unnamed rule: nothing is pushed
  | err (off : Nat) (st : Option Nat)         -- `Err(LRLexError{span:(off,off), lexing_state: st})`
  | panic                                     -- `.unwrap()` on `None`
deriving Repr, BEq, DecidableEq

/-- `get_start_state_by_id`: `self.start_states.iter().find(|state| state.id == id)` -/
def getState (ss : List St) (id : Nat) : Option St := ss.find? (fun s => s.id == id)

/-- `state_matches` -/
def stateMatches (state : St) (ruleStates : List Nat) : Bool :=
  if ruleStates.isEmpty then !state.excl else ruleStates.contains state.id

/-- The inner `for (ridx, r) in self.iter_rules().enumerate()` loop; the accumulator is
`(longest, longest_ridx)`, `mli ridx` is `r.re.find(&s[old_i..]).map(|m| m.end())`. -/
def scanRules (cur : St) (mli : Nat → Option Nat) : List Rule → Nat → Nat × Nat → Nat × Nat
  | [], _, acc => acc
  | r :: rs, ridx, (longest, lr) =>
    if !stateMatches cur r.states then scanRules cur mli rs (ridx + 1) (longest, lr)
    else match mli ridx with
      | some len =>
        if len > longest then scanRules cur mli rs (ridx + 1) (len, ridx)
        else scanRules cur mli rs (ridx + 1) (longest, lr)
      | none => scanRules cur mli rs (ridx + 1) (longest, lr)

/-- the run-length encoded stack; head = `last()` -/
abbrev Stack := List (Nat × St)

/-- `StartStateOperation::Push` arm -/
def rlePush (stk : Stack) (s : St) : Stack :=
  match stk with
  | (c, t) :: rest => if t.id = s.id then (c + 1, t) :: rest else (1, s) :: stk
  | [] => [(1, s)]

/-- `StartStateOperation::Pop` arm; `none` is the `None => { push Err; break }` arm -/
def rlePop (init : St) (stk : Stack) : Option Stack :=
  match stk with
  | (c, t) :: rest =>
    if c > 1 then some ((c - 1, t) :: rest)
    else if rest.isEmpty then some [(1, init)] else some rest
  | [] => none

/-- `match op { ReplaceStack | Push | Pop }` -/
def applyOp (init : St) (stk : Stack) (s : St) : Op → Option Stack
  | .replace => some [(1, s)]
  | .push => some (rlePush stk s)
  | .pop => rlePop init stk

/-- the `if r.name().is_some() { match r.tok_id .. }` block: `none` = error-and-break, otherwise the
(at most one) event of this match -/
def emitFor (r : Rule) (ridx i len : Nat) : Option Ev :=
  match r.name with
  | some _ =>
    match r.tokId with
    | some t => some (.tok ridx t i len)
    | none => none
  | none => some (.skip ridx i len)

/-- the `if let Some((target_state_id, op)) = &r.target_state()` block: `none` = error-and-break -/
def transition (cfg : Cfg) (init : St) (stk : Stack) (r : Rule) : Option Stack :=
  match r.target with
  | none => some stk
  | some (tid, op) =>
    match getState cfg.states tid with
    | none => none
    | some s => applyOp init stk s op

/-- result of one iteration of the `while` loop -/
inductive Step
  | cont (ev : Ev) (i' : Nat) (stk' : Stack)
  | stop (evs : List Ev)
deriving Repr

/-- what happens after `longest > 0` was established -/
def fire (cfg : Cfg) (init : St) (i : Nat) (stk : Stack) (longest lr : Nat) : Step :=
  match cfg.rules[lr]? with
  | none => .stop [.panic]
  | some r =>
    match emitFor r lr i longest with
    | none => .stop [.err i none]
    | some ev =>
      match transition cfg init stk r with
      | none => .stop [ev, .err i none]
      | some stk' => .cont ev (i + longest) stk'

/-- one iteration of `while i < s.len()` -/
def step (cfg : Cfg) (ml : Nat → Nat → Option Nat) (init : St) (i : Nat) (stk : Stack) : Step :=
  match stk with
  | [] => .stop [.err i none]
  | (_, cur) :: _ =>
    let p := scanRules cur (fun r => ml r i) cfg.rules 0 (0, 0)
    if p.1 > 0 then fire cfg init i stk p.1 p.2
    else .stop [.err i (some cur.id)]

/-- `while i < s.len() { .. }`; `none` = fuel exhausted (never with fuel `n`, see `lex_terminates`) -/
def lexLoop (cfg : Cfg) (ml : Nat → Nat → Option Nat) (n : Nat) (init : St) :
    Nat → Nat → Stack → Option (List Ev × Stack)
  | 0, i, stk => if i < n then none else some ([], stk)
  | fuel + 1, i, stk =>
    if i < n then
      match step cfg ml init i stk with
      | .stop evs => some (evs, stk)
      | .cont ev i' stk' =>
        match lexLoop cfg ml n init fuel i' stk' with
        | none => none
        | some (evs, s) => some (ev :: evs, s)
    else some ([], stk)

/-- `LRNonStreamingLexerDef::lexer(s)` with `s.len() = n`: the events and the final stack -/
def lexRun (cfg : Cfg) (ml : Nat → Nat → Option Nat) (n : Nat) : Option (List Ev × Stack) :=
  match getState cfg.states 0 with
  | none => some ([.err 0 none], [])
  | some init => lexLoop cfg ml n init n 0 [(1, init)]

/-- the events that are really in `lexemes` -/
def Ev.visible : Ev → Bool
  | .skip .. => false
  | _ => true

/-! ## `set_rule_ids_spanned` / `set_rule_ids`
`rule_ids_map : HashMap<&str, StorageT>` is an association list with distinct keys; the returned
`HashSet`s are lists (the driver sorts and removes duplicates before printing). -/

/-- the `for (i, r) in self.rules.iter_mut().enumerate()` loop:
returns (updated rules, `missing_from_parser_idxs`, `rules_with_names`) -/
def syncLoop (map : List (Nat × Nat)) : List Rule → Nat → List Rule × List Nat × Nat
  | [], _ => ([], [], 0)
  | r :: rs, i =>
    let (rs', idxs, cnt) := syncLoop map rs (i + 1)
    match r.name with
    | some nm =>
      match map.lookup nm with
      | some t => ({ r with tokId := some t } :: rs', idxs, cnt + 1)
      | none => ({ r with tokId := none } :: rs', i :: idxs, cnt + 1)
    | none => (r :: rs', idxs, cnt)

/-- names (with spans) of the rules at the given indices: `self.rules[*i].name().unwrap()` -/
def namesAt (rules : List Rule) (idxs : List Nat) : List (Nat × (Nat × Nat)) :=
  idxs.filterMap (fun i => match rules[i]? with
    | some r => r.name.map (fun nm => (nm, r.span))
    | none => none)

structure SyncOut where
  rules : List Rule
  /-- first component of the returned pair: map keys with no rule of that name -/
  missingFromLexer : Option (List Nat)
  /-- second component: named rules whose name is not a key of the map, with the name's span -/
  missingFromParser : Option (List (Nat × (Nat × Nat)))
deriving Repr

/-- `set_rule_ids_spanned` -/
def setRuleIdsSpanned (rules : List Rule) (map : List (Nat × Nat)) : SyncOut :=
  let (rules', idxs, cnt) := syncLoop map rules 0
  let mfp := if idxs.isEmpty then none else some (namesAt rules' idxs)
  let mfl :=
    if cnt - idxs.length == map.length then none
    else some ((map.map (·.1)).filter (fun k => !(rules'.filterMap (·.name)).contains k))
  ⟨rules', mfl, mfp⟩

/-- `set_rule_ids`: the same with the spans dropped -/
def setRuleIds (rules : List Rule) (map : List (Nat × Nat)) :
    List Rule × Option (List Nat) × Option (List Nat) :=
  let o := setRuleIdsSpanned rules map
  (o.rules, o.missingFromLexer, o.missingFromParser.map (fun l => l.map (·.1)))

end GrmVerif.Lex
