import GrmVerif.Model.CloseImpl
/-
Faithful model of the state-graph construction of lrtable (`lrtable/src/lib/pager.rs`):
`Itemset::goto` (itemset.rs), `Itemset::weakly_compatible`, `Itemset::weakly_merge`, `vob_intersect`,
`pager_stategraph` (main loop) and `gc`.

Transcription (as in `Model/CloseImpl.lean`):
* `Vob` -> the list of its set bits (`Ctx`); `Itemset` (a `HashMap<(PIdx, SIdx), Ctx>`) -> an association
  list `List Item` with distinct keys; `Itemset::add` = `CloseImpl.add`; `items[&key]` = `lookup`, a
  missing key is the panic it is in Rust.
* `Itemset::close` = `CloseImpl.close` (proved exact: `C16.close_impl_exact`).
* The ONLY things that are not a function of the grammar are hash-map iteration orders. Per iteration
  of the main loop they are the explicit parameter `Order`: the order in which `self.items.keys()`
  yields the keys of the core state (inside `close`) and the order in which `cl_state.items.keys()`
  yields the keys of the closed state (it decides in which order successor states are created, hence
  the state numbers). A key order that is not an enumeration of the keys of the state at hand is
  answered with `Res.badOrder`. The orders inside `weakly_compatible` (`keys`), `weakly_merge`, `goto`
  and `gc` (`todo.iter().next()`) do not influence any result (`C02.weakly_compatible_order_irrelevant`,
  `C02.gc_spec`); the model iterates in its own list order there.
* `while todo > 0 { … }` -> recursion over the list of per-iteration orders (the "fuel" of the main loop:
  `Res.fuelOut` if the list is exhausted while `todo > 0`). `gc`'s reachability loop takes fuel
  `|states| + 1` (one new state enters `seen` per iteration).
* panics (index out of range, `unwrap` of `None`, the explicit `panic!` when `StorageT` is too small,
  `StateGraph::new`'s `assert!`) -> `Res.panic`. `len - 1` in `weakly_compatible` for `len = 0` overflows
  (a panic in a debug build): `none`.
Core Lean only.
-/
namespace GrmVerif.PagerImpl
open GrmVerif CloseImpl

inductive Res (α : Type) where
  | ok (a : α)
  | panic
  | fuelOut
  | badOrder
deriving Repr

def Res.bind {α β : Type} : Res α → (α → Res β) → Res β
  | .ok a, f => f a
  | .panic, _ => .panic
  | .fuelOut, _ => .fuelOut
  | .badOrder, _ => .badOrder

def ofOption {α : Type} : Option α → Res α
  | some a => .ok a
  | none => .panic

/-! ### `Itemset::goto` -/

/-- the part of `goto`'s loop body after `prod[dot]` was read -/
def gotoSym (sym : Sym) (acc : List Item) (i : Item) : Option Sym → Option (List Item)
  | none => none
  | some X => if X = sym then some (add acc i.p (i.dot + 1) i.la).1 else some acc

/-- loop body of `goto`: `grm.prod(pidx)`; `if dot == prod_len { continue }`; `if sym == prod[dot]
{ newis.add(pidx, dot + 1, ctx) }`; `none` = an index out of range -/
def gotoStep (G : Grammar) (sym : Sym) (acc : List Item) (i : Item) : Option (List Item) :=
  if i.p < G.nprods then
    if i.dot = (G.rhs i.p).length then some acc
    else gotoSym sym acc i (G.rhs i.p)[i.dot]?
  else none

def gotoLoop (G : Grammar) (sym : Sym) : List Item → List Item → Option (List Item)
  | [], acc => some acc
  | i :: rest, acc => (gotoStep G sym acc i).bind (gotoLoop G sym rest)

/-- `Itemset::goto(grm, sym)` on the item list `cl` -/
def goto (G : Grammar) (sym : Sym) (cl : List Item) : Option (List Item) := gotoLoop G sym cl []

/-! ### `vob_intersect`, `weakly_compatible`, `weakly_merge`, `==` -/

/-- `vob_intersect(v1, v2)`: some bit is set in both -/
def vobIntersect (a b : Ctx) : Bool := a.any (fun t => b.contains t)

/-- `vob_intersect(&a.items[ka], &b.items[kb])`; `none` = a key is missing (panic) -/
def inter (a b : List Item) (ka kb : Nat × Nat) : Option Bool :=
  (lookup a ka.1 ka.2).bind (fun x => (lookup b kb.1 kb.2).map (fun y => vobIntersect x y))

/-- conditions 2 and 3: `self[i] ∩ self[j] ≠ ∅ || other[i] ∩ other[j] ≠ ∅` (lazy `||`) -/
def cond23 (self other : List Item) (ki kj : Nat × Nat) : Option Bool :=
  (inter self self ki kj).bind (fun c => if c then some true else inter other other ki kj)

/-- condition 1 violated: `self[i] ∩ other[j] ≠ ∅ || self[j] ∩ other[i] ≠ ∅` (lazy `||`) -/
def cond1 (self other : List Item) (ki kj : Nat × Nat) : Option Bool :=
  (inter self other ki kj).bind (fun c => if c then some true else inter self other kj ki)

/-- body of the pair loop: `some true` = `continue`, `some false` = `return false` -/
def pairOk (self other : List Item) (ki kj : Nat × Nat) : Option Bool :=
  (cond1 self other ki kj).bind (fun c => if c then cond23 self other ki kj else some true)

/-- `for j_key in keys.iter().take(len).skip(i + 1)`; `rest` = the keys after `i_key` -/
def innerLoop (self other : List Item) (ki : Nat × Nat) : List (Nat × Nat) → Option Bool
  | [] => some true
  | kj :: rest => (pairOk self other ki kj).bind (fun c => if c then innerLoop self other ki rest else some false)

/-- `for (i, i_key) in keys.iter().enumerate().take(len - 1)` (the last key has an empty inner loop) -/
def outerLoop (self other : List Item) : List (Nat × Nat) → Option Bool
  | [] => some true
  | ki :: rest => (innerLoop self other ki rest).bind (fun c => if c then outerLoop self other rest else some false)

def hasKey (is : List Item) (k : Nat × Nat) : Bool := is.any (isKey k.1 k.2)

/-- `self.weakly_compatible(other)`; `keys` = the order in which `self.items.keys()` yields the keys.
`none` = panic (`len - 1` with `len = 0`; a missing key cannot happen after the same-keys test) -/
def weaklyCompatible (self other : List Item) (keys : List (Nat × Nat)) : Option Bool :=
  if self.length != other.length then some false
  else if !(keys.all (hasKey other)) then some false
  else if self.length == 1 then some true
  else if self.length == 0 then none
  else outerLoop self other keys

/-- `self.weakly_merge(other)`: or every context of `other` into the same item of `self`; the flag says
whether any bit changed. `none` = `other` lacks a key of `self` (panic) -/
def weaklyMerge : List Item → List Item → Option (List Item × Bool)
  | [], _ => some ([], false)
  | i :: rest, other =>
    (lookup other i.p i.dot).bind (fun o =>
      (weaklyMerge rest other).map (fun r => (⟨i.p, i.dot, (vobOr i.la o).1⟩ :: r.1, (vobOr i.la o).2 || r.2)))

/-- `Vob == Vob` for vectors of the same length: the same bits are set -/
def ctxEq (a b : Ctx) : Bool := subCtx a b && subCtx b a

def entryEq (la : Ctx) : Option Ctx → Bool
  | some l => ctxEq la l
  | none => false

/-- `HashMap == HashMap`: same number of entries and every entry of `a` is in `b` with an equal value -/
def itemsetEq (a b : List Item) : Bool :=
  a.length == b.length && a.all (fun i => entryEq i.la (lookup b i.p i.dot))

/-! ### `pager_stategraph` -/

/-- the hash-map iteration orders of one iteration of the main loop -/
structure Order where
  /-- `core_states[state_i].items.keys()` (read by `close`) -/
  coreKeys : List (Nat × Nat)
  /-- `cl_state.items.keys()` -/
  closedKeys : List (Nat × Nat)
deriving Repr

structure St where
  /-- `closed_states` (`None` = to be processed) -/
  closed : List (Option (List Item))
  /-- `core_states` -/
  core : List (List Item)
  /-- `edges`: per state a map symbol → target -/
  edges : List (List (Sym × Nat))
  cndRule : List (List Nat)
  cndTok : List (List Nat)
  todo : Nat
  todoOff : Nat
  /-- statistics, not part of the algorithm: weakly-compatible matches, matches that changed the
  target, exact-equality hits, states re-opened -/
  nweak : Nat := 0
  nmerge : Nat := 0
  nexact : Nat := 0
  nreopen : Nat := 0
deriving Repr

/-- `HashMap::insert(sym, t)` -/
def edgeInsert (es : List (Sym × Nat)) (sym : Sym) (t : Nat) : List (Sym × Nat) :=
  if es.any (fun e => e.1 == sym) then es.map (fun e => if e.1 == sym then (sym, t) else e) else es ++ [(sym, t)]

/-- `edges[s].insert(sym, t)`; `none` = `s` out of range -/
def addEdge (edges : List (List (Sym × Nat))) (s : Nat) (sym : Sym) (t : Nat) : Option (List (List (Sym × Nat))) :=
  edges[s]?.map (fun es => edges.set s (edgeInsert es sym t))

/-- `iter.position(Option::is_none)` -/
def positionNone : List (Option (List Item)) → Option Nat
  | [] => none
  | none :: _ => some 0
  | some _ :: rest => (positionNone rest).map (· + 1)

/-- the search for `state_i`: from `todo_off` onwards, else from the start (`unwrap`: `none` = panic) -/
def nextState (closed : List (Option (List Item))) (off : Nat) : Option Nat :=
  match positionNone (closed.drop off) with
  | some i => some (off + i)
  | none => positionNone closed

/-- `seen_rules[r]` / `seen_tokens[t]`: `none` = index out of range -/
def seenGet (G : Grammar) (seenR seenT : List Nat) : Sym → Option Bool
  | .rule r => if r < G.nrules then some (seenR.contains r) else none
  | .tok t => if t < G.ntoks then some (seenT.contains t) else none

def seenSetR (seenR : List Nat) : Sym → List Nat
  | .rule r => r :: seenR
  | .tok _ => seenR

def seenSetT (seenT : List Nat) : Sym → List Nat
  | .rule _ => seenT
  | .tok t => t :: seenT

/-- `for &(pidx, dot) in cl_state.items.keys() { … new_states.push((sym, cl_state.goto(grm, &sym))) }`
with `seen_rules`/`seen_tokens`; `keys` = the iteration order -/
def symLoop (G : Grammar) (cl : List Item) : List (Nat × Nat) → List Nat → List Nat → Option (List (Sym × List Item))
  | [], _, _ => some []
  | k :: keys, seenR, seenT =>
    if k.1 < G.nprods then
      if k.2 = (G.rhs k.1).length then symLoop G cl keys seenR seenT
      else
        match (G.rhs k.1)[k.2]? with
        | none => none
        | some sym =>
          match seenGet G seenR seenT sym with
          | none => none
          | some true => symLoop G cl keys seenR seenT
          | some false =>
            (goto G sym cl).bind (fun n =>
              (symLoop G cl keys (seenSetR seenR sym) (seenSetT seenT sym)).map (fun r => (sym, n) :: r))
    else none

/-- `cnd_rule_weaklies[r]` / `cnd_token_weaklies[t]` -/
def cndOf (st : St) : Sym → Option (List Nat)
  | .rule r => st.cndRule[r]?
  | .tok t => st.cndTok[t]?

/-- `cnd_…_weaklies[…].push(stidx)` -/
def cndPush (st : St) (x : Nat) : Sym → Option (List (List Nat) × List (List Nat))
  | .rule r => st.cndRule[r]?.map (fun l => (st.cndRule.set r (l ++ [x]), st.cndTok))
  | .tok t => st.cndTok[t]?.map (fun l => (st.cndRule, st.cndTok.set t (l ++ [x])))

/-- first candidate whose core state `==` the new state (outer `none` = index out of range) -/
def findExact (core : List (List Item)) (n : List Item) : List Nat → Option (Option Nat)
  | [] => some none
  | c :: rest =>
    match core[c]? with
    | none => none
    | some cs => if itemsetEq cs n then some (some c) else findExact core n rest

/-- first candidate whose core state is weakly compatible with the new state -/
def findWeak (core : List (List Item)) (n : List Item) : List Nat → Option (Option Nat)
  | [] => some none
  | c :: rest =>
    match core[c]? with
    | none => none
    | some cs =>
      match weaklyCompatible cs n (keysOf cs) with
      | none => none
      | some true => some (some c)
      | some false => findWeak core n rest

/-- `Some(k)` arm: edge to `k`, merge, re-open `k` if its core changed and it was closed -/
def mergeInto (st : St) (stateI : Nat) (sym : Sym) (n : List Item) (k : Nat) : Option St :=
  (addEdge st.edges stateI sym k).bind (fun edges =>
    st.core[k]?.bind (fun ck =>
      (weaklyMerge ck n).bind (fun m =>
        st.closed[k]?.map (fun clk =>
          if m.2 && clk.isSome then
            { st with edges := edges, core := st.core.set k m.1, closed := st.closed.set k none,
                      todo := st.todo + 1, nweak := st.nweak + 1, nmerge := st.nmerge + 1, nreopen := st.nreopen + 1 }
          else
            { st with edges := edges, core := st.core.set k m.1, nweak := st.nweak + 1,
                      nmerge := st.nmerge + (if m.2 then 1 else 0) }))))

/-- `None` arm: a new state (panic if `StorageT` cannot number it) -/
def newState (maxStates : Nat) (st : St) (stateI : Nat) (sym : Sym) (n : List Item) : Option St :=
  if st.core.length ≥ maxStates then none
  else
    (cndPush st st.core.length sym).bind (fun cnd =>
      (addEdge st.edges stateI sym st.core.length).map (fun edges =>
        { st with cndRule := cnd.1, cndTok := cnd.2, edges := edges ++ [[]], closed := st.closed ++ [none],
                  core := st.core ++ [n], todo := st.todo + 1 }))

/-- body of `'a: for (sym, nstate) in new_states.drain(..)` -/
def processNew (maxStates : Nat) (stateI : Nat) (st : St) (sn : Sym × List Item) : Option St :=
  (cndOf st sn.1).bind (fun cnds =>
    (findExact st.core sn.2 cnds).bind (fun e =>
      match e with
      | some c => (addEdge st.edges stateI sn.1 c).map (fun edges => { st with edges := edges, nexact := st.nexact + 1 })
      | none =>
        (findWeak st.core sn.2 cnds).bind (fun m =>
          match m with
          | some k => mergeInto st stateI sn.1 sn.2 k
          | none => newState maxStates st stateI sn.1 sn.2)))

def processAll (maxStates : Nat) (stateI : Nat) : St → List (Sym × List Item) → Option St
  | st, [] => some st
  | st, sn :: rest => (processNew maxStates stateI st sn).bind (fun st' => processAll maxStates stateI st' rest)

/-- is `keys` an enumeration of the keys of `is`? (repetitions are harmless) -/
def keysOk (is : List Item) (keys : List (Nat × Nat)) : Bool :=
  keys.all (hasKey is) && is.all (fun i => keys.contains (i.p, i.dot))

def closeRes : CloseImpl.Res → Res (List Item)
  | .done is => .ok is
  | .panic => .panic
  | .fuelOut => .fuelOut

/-- one iteration of `while todo > 0`: the new state, `state_i` and the symbols pushed onto `new_states` -/
def iter (G : Grammar) (N : Nat → Bool) (F : Nat × Nat → Bool) (maxStates : Nat) (o : Order) (st : St) :
    Res (St × Nat × List Sym) :=
  (ofOption (nextState st.closed st.todoOff)).bind (fun stateI =>
    (ofOption st.core[stateI]?).bind (fun core =>
      if !keysOk core o.coreKeys then .badOrder else
      (closeRes (close G N F core o.coreKeys (closeFuel G o.coreKeys))).bind (fun cl =>
        if !keysOk cl o.closedKeys then .badOrder else
        (ofOption (symLoop G cl o.closedKeys [] [])).bind (fun news =>
          let st1 := { st with closed := st.closed.set stateI (some cl), todoOff := stateI + 1, todo := st.todo - 1 }
          (ofOption (processAll maxStates stateI st1 news)).bind (fun st2 =>
            .ok (st2, stateI, news.map (·.1)))))))

/-- `while todo > 0 { … }`; one `Order` per iteration. The second component is the log: per iteration
`state_i` and the symbols pushed, in order. Orders left over when `todo = 0` are ignored (the log is then
shorter than the list of orders). -/
def mainLoop (G : Grammar) (N : Nat → Bool) (F : Nat × Nat → Bool) (maxStates : Nat) :
    List Order → St → Res (St × List (Nat × List Sym))
  | [], st => if st.todo = 0 then .ok (st, []) else .fuelOut
  | o :: rest, st =>
    if st.todo = 0 then .ok (st, [])
    else
      (iter G N F maxStates o st).bind (fun r =>
        (mainLoop G N F maxStates rest r.1).bind (fun r2 => .ok (r2.1, (r.2.1, r.2.2) :: r2.2)))

/-- the state before the main loop: state 0 = `{[start_prod, 0, {eof}]}`, to be processed -/
def initSt (G : Grammar) : St :=
  { closed := [none], core := [[⟨G.startProd, 0, [G.eof]⟩]], edges := [[]],
    cndRule := List.replicate G.nrules [], cndTok := List.replicate (G.ntoks + 1) [],
    todo := 1, todoOff := 0 }

/-! ### `gc` -/

/-- `todo.extend(targets.filter(|x| !seen.contains(x)))` on a set -/
def todoExtend (todo : List Nat) : List Nat → List Nat
  | [] => todo
  | x :: rest => todoExtend (if todo.contains x then todo else todo ++ [x]) rest

/-- the reachability loop of `gc`; the element taken from `todo` is its head (the real code takes the
hash set's first element: irrelevant, see `C02.gc_spec`) -/
def reachLoop (edges : List (List (Sym × Nat))) : Nat → List Nat → List Nat → Res (List Nat)
  | 0, _, _ => .fuelOut
  | _ + 1, [], seen => .ok seen
  | fuel + 1, s :: todo, seen =>
    match edges[s]? with
    | none => .panic
    | some es =>
      let seen' := if seen.contains s then seen else s :: seen
      reachLoop edges fuel (todoExtend todo ((es.map (·.2)).filter (fun x => !seen'.contains x))) seen'

/-- `for (state_i, zstate) in states.drain(..).enumerate()`: `offsets` and the kept states -/
def offsetsLoop {α : Type} (seen : List Nat) : List α → Nat → Nat → List Nat × List α
  | [], _, _ => ([], [])
  | z :: rest, i, off =>
    if seen.contains i then
      ((i - off) :: (offsetsLoop seen rest (i + 1) off).1, z :: (offsetsLoop seen rest (i + 1) off).2)
    else
      ((i - off) :: (offsetsLoop seen rest (i + 1) (off + 1)).1, (offsetsLoop seen rest (i + 1) (off + 1)).2)

/-- `st_edges.iter().map(|(&k, &v)| (k, offsets[v])).collect()`; `none` = `v` out of range -/
def mapEdges (offsets : List Nat) : List (Sym × Nat) → Option (List (Sym × Nat))
  | [] => some []
  | e :: rest => offsets[e.2]?.bind (fun t => (mapEdges offsets rest).map (fun r => (e.1, t) :: r))

/-- `for (st_edge_i, st_edges) in edges.drain(..).enumerate()` -/
def edgesLoop (seen : List Nat) (offsets : List Nat) : List (List (Sym × Nat)) → Nat → Option (List (List (Sym × Nat)))
  | [], _ => some []
  | es :: rest, i =>
    if seen.contains i then
      (mapEdges offsets es).bind (fun e => (edgesLoop seen offsets rest (i + 1)).map (fun r => e :: r))
    else edgesLoop seen offsets rest (i + 1)

/-- `gc(states, start_state, edges)` -/
def gc {α : Type} (states : List α) (start : Nat) (edges : List (List (Sym × Nat))) :
    Res (List α × List (List (Sym × Nat))) :=
  (reachLoop edges (states.length + 1) [start] []).bind (fun seen =>
    if states.length == seen.length then .ok (states, edges)
    else
      ofOption ((edgesLoop seen (offsetsLoop seen states 0 0).1 edges 0).map
        (fun e => ((offsetsLoop seen states 0 0).2, e))))

/-! ### the whole function -/

structure Output where
  /-- the state just before `gc` -/
  pre : St
  /-- per iteration: `state_i` and the symbols pushed onto `new_states` -/
  log : List (Nat × List Sym)
  /-- `StateGraph.states`: `(core, closed)` -/
  states : List (List Item × List Item)
  /-- `StateGraph.edges` -/
  edges : List (List (Sym × Nat))
deriving Repr

/-- `closed_states.drain(..).map(Option::unwrap)` zipped with the core states -/
def zipStates : List (List Item) → List (Option (List Item)) → Option (List (List Item × List Item))
  | [], _ => some []
  | _ :: _, [] => some []
  | c :: cs, some cl :: cls => (zipStates cs cls).map (fun r => (c, cl) :: r)
  | _ :: _, none :: _ => none

/-- `pager_stategraph(grm)`; `maxStates` = `StorageT::max_value()`, `orders` = the hash orders of the
iterations of the main loop. The start state of the result is 0. -/
def pager (G : Grammar) (N : Nat → Bool) (F : Nat × Nat → Bool) (maxStates : Nat) (orders : List Order) : Res Output :=
  (mainLoop G N F maxStates orders (initSt G)).bind (fun r =>
    (ofOption (zipStates r.1.core r.1.closed)).bind (fun zs =>
      (gc zs 0 r.1.edges).bind (fun g =>
        if g.1.length > maxStates then .panic
        else if !(g.1.length < maxStates) then .panic
        else .ok ⟨r.1, r.2, g.1, g.2⟩)))

end GrmVerif.PagerImpl
