import GrmVerif.Model.Cert
import GrmVerif.Model.Closure
/-
Third part of the certificate, for the viable-prefix half of C04: every closed state contains ONLY
items of the LR(0) closure of its core (no junk items), and every rule of the grammar is productive
(derives some token string — the hypothesis of the property). Core Lean only.
-/
namespace GrmVerif.Cert
open GrmVerif Fix Closure

/-- one-step consequences for the LR(0) closure of `core` -/
def derive0 (G : Grammar) (core : List Item) (S : Nat × Nat → Bool) (x : Nat × Nat) : Bool :=
  core.any (fun i => i.p == x.1 && i.dot == x.2) ||
  (x.2 == 0 && (itemUniverse G).any (fun y => S y && symAt G y.1 y.2 == some (.rule (G.lhs x.1))))

def close0 (G : Grammar) (core : List Item) : Option (List (Nat × Nat)) :=
  lfp (itemUniverse G) (derive0 G core) ((itemUniverse G).length + 1) []

/-- every closed item is an item of the reference LR(0) closure of the core -/
def vpClosed (G : Grammar) (A : Automaton) : Bool :=
  allStates A (fun s =>
    match close0 G (A.core s) with
    | none => false
    | some S => (A.closed s).all (fun i => S.contains (i.p, i.dot)))

/-- a rule is productive if one of its productions consists of tokens and productive rules -/
def deriveProd (G : Grammar) (S : Nat → Bool) (r : Nat) : Bool :=
  (List.range G.nprods).any (fun p => G.lhs p == r &&
    (G.rhs p).all (fun X => match X with | .tok _ => true | .rule q => S q))

def productive (G : Grammar) : Option (List Nat) :=
  lfp (List.range G.nrules) (deriveProd G) (G.nrules + 1) []

def allProductive (G : Grammar) : Bool :=
  match productive G with
  | none => false
  | some S => (List.range G.nrules).all (fun r => S.contains r)

def failingVP (G : Grammar) (A : Automaton) : List String :=
  (if vpClosed G A then [] else ["closed-item-outside-closure-of-core"]) ++
  (if allProductive G then [] else ["unproductive-rule"])

def checkVP (G : Grammar) (A : Automaton) : Bool := vpClosed G A && allProductive G

end GrmVerif.Cert
