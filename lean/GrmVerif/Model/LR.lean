import GrmVerif.Model.Automaton
/-
Model of the LR driver `lrpar::parser::Parser::lr` with `RecoveryKind::None`
(lrpar/src/lib/parser.rs), building the generic parse tree. Crashes of the Rust code (`usize`
underflow in `pstack.len() - prod.len()`, `pstack.last().unwrap()`, `goto(..).unwrap()`, the
`unwrap`/`unreachable!` at accept) are explicit outcomes. Core Lean only.
-/
namespace GrmVerif

/-- generic parse tree: a leaf is the `idx`-th input lexeme with token id `t` -/
inductive Tree where
  | leaf (t : Nat) (idx : Nat)
  | node (p : Nat) (kids : List Tree)
deriving Repr, Inhabited

namespace Tree

def root (G : Grammar) : Tree → Sym
  | .leaf t _ => .tok t
  | .node p _ => .rule (G.lhs p)

mutual
/-- token ids of the leaves, left to right -/
def yield : Tree → List Nat
  | .leaf t _ => [t]
  | .node _ kids => yieldList kids
def yieldList : List Tree → List Nat
  | [] => []
  | k :: ks => yield k ++ yieldList ks
end

mutual
/-- lexeme indices of the leaves, left to right -/
def leafIdxs : Tree → List Nat
  | .leaf _ i => [i]
  | .node _ kids => leafIdxsList kids
def leafIdxsList : List Tree → List Nat
  | [] => []
  | k :: ks => leafIdxs k ++ leafIdxsList ks
end

mutual
/-- every node's children spell one production of its rule, recursively -/
def valid (G : Grammar) : Tree → Bool
  | .leaf _ _ => true
  | .node p kids => decide (p < G.nprods) && (kids.map (root G) == G.rhs p) && validList G kids
def validList (G : Grammar) : List Tree → Bool
  | [] => true
  | k :: ks => valid G k && validList G ks
end

mutual
/-- productions of the nodes in post-order (left-to-right, bottom-up) -/
def postorder : Tree → List Nat
  | .leaf _ _ => []
  | .node p kids => postorderList kids ++ [p]
def postorderList : List Tree → List Nat
  | [] => []
  | k :: ks => postorder k ++ postorderList ks
end

end Tree

namespace LR

/-- parser configuration: state stack and tree stack (tops at the HEAD), next lexeme index -/
structure Cfg where
  pstack : List Nat
  astack : List Tree
  laidx : Nat
deriving Repr, Inhabited

inductive Outcome where
  | accept (t : Tree)
  | error (laidx : Nat) (state : Nat)
  | crash (why : Nat)        -- 1 stack underflow, 2 missing goto, 3 bad accept, 4 empty stack
  | fuelOut
deriving Repr, Inhabited

/-- `next_tidx` -/
def nextTok (G : Grammar) (w : List Nat) (laidx : Nat) : Nat := (w[laidx]?).getD G.eof

inductive Step where
  | cont (c : Cfg)
  | done (o : Outcome)
deriving Inhabited

/-- one iteration of the loop of `lr` -/
def step (G : Grammar) (A : Automaton) (w : List Nat) (c : Cfg) : Step :=
  match c.pstack with
  | [] => .done (.crash 4)
  | st :: _ =>
    let la := nextTok G w c.laidx
    match A.action st la with
    | .reduce p =>
      let n := (G.rhs p).length
      if c.pstack.length ≤ n then .done (.crash 1)
      else
        let rest := c.pstack.drop n
        match rest with
        | [] => .done (.crash 1)
        | prior :: _ =>
          match A.goto prior (G.lhs p) with
          | none => .done (.crash 2)
          | some s' =>
            let kids := (c.astack.take n).reverse
            .cont ⟨s' :: rest, .node p kids :: c.astack.drop n, c.laidx⟩
    | .shift s' => .cont ⟨s' :: c.pstack, .leaf la c.laidx :: c.astack, c.laidx + 1⟩
    | .accept =>
      match c.astack.getLast? with
      | some (.node p kids) => .done (.accept (.node p kids))
      | _ => .done (.crash 3)
    | .error => .done (.error c.laidx st)

def run (G : Grammar) (A : Automaton) (w : List Nat) : Nat → Cfg → Outcome
  | 0, _ => .fuelOut
  | fuel + 1, c =>
    match step G A w c with
    | .done o => o
    | .cont c' => run G A w fuel c'

def init (A : Automaton) : Cfg := ⟨[A.start], [], 0⟩

/-- parse the token sequence `w` -/
def parse (G : Grammar) (A : Automaton) (w : List Nat) (fuel : Nat) : Outcome :=
  run G A w fuel (init A)

end LR
end GrmVerif
