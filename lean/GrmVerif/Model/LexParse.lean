import GrmVerif.Model.LexUnescape
/-
Model of the rule-line part of `lrlex/src/lib/parser.rs` (`LexParser::parse_rule`,
`parse_start_state_ops`, `parse_start_states`) and of the way lexer flags are combined
(`LexParser::new_with_lex_flags`, `LRNonStreamingLexerDef::from_str`, `CTLexerBuilder::build`).

A rule line is the text from the offset `i` at which `parse_rule` is entered up to the next line
separator; all offsets here are byte offsets RELATIVE to `i` (the Rust code adds `i`, and after the
repair `fix: parse the whole source so spans index the text the user wrote` `i` is an offset into the
text passed to `from_str`). Start-state names are returned as written; looking them up
(`get_start_state_by_name`) is a separate step.

This is the code AFTER the repairs
  * `fix: name span of a rule with a target state` (the span is computed from where `orig_name`
    starts, not from `rspace`), and
  * `fix: unescape the regex of rules that are restricted to start states`.
Core Lean only.
-/
namespace GrmVerif.LexParse
open GrmVerif.LexUnescape

/-- `\p{Pattern_White_Space}` (`RE_WS`, `matches_whitespace`) -/
def isPWS (c : Char) : Bool :=
  let n := c.toNat
  (9 ≤ n && n ≤ 13) || n == 32 || n == 0x85 || n == 0x200E || n == 0x200F || n == 0x2028 || n == 0x2029

/-- `RE_SPACE_SEP`: `[\p{Pattern_White_Space}&&[\p{Zs}\t]]` = space and tab -/
def isSpaceSep (c : Char) : Bool := c == ' ' || c == '\t'

/-- `RE_LINE_SEP`: `[\p{Pattern_White_Space}&&[\p{Zl}\p{Zp}\n\r\v]]` -/
def isLineSep (c : Char) : Bool :=
  let n := c.toNat
  n == 10 || n == 11 || n == 13 || n == 0x2028 || n == 0x2029

inductive ErrKind
  | missingSpace | invalidStartState | invalidName
deriving Repr, BEq, DecidableEq

/-- what `parse_rule` extracts from one line before any name is looked up -/
structure RuleLine where
  /-- start states the rule is restricted to, as written between `<` and `>` (trimmed) -/
  states : List (List Char)
  /-- `re_str` -/
  re : List Char
  /-- target state: operation (0 `ReplaceStack`, 1 `Push`, 2 `Pop`) and state name as written -/
  target : Option (Nat × List Char)
  /-- rule name; `none` for `;`, `""`, `''` -/
  name : Option (List Char)
  spanStart : Nat
  spanEnd : Nat
deriving Repr, BEq, DecidableEq

/-- `line.rfind(p)`: split at the LAST character satisfying `p` -> (before, that character, after) -/
def splitLast (p : Char → Bool) (l : List Char) : Option (List Char × Char × List Char) :=
  let r := l.reverse
  match r.dropWhile (fun c => !p c) with
  | [] => none
  | s :: beforeRev => some (beforeRev.reverse, s, (r.takeWhile (fun c => !p c)).reverse)

/-- `s.find(c)`: split at the FIRST `c` -> (before, after) -/
def splitFirst (c : Char) : List Char → Option (List Char × List Char)
  | [] => none
  | d :: ds =>
    if d = c then some ([], ds)
    else match splitFirst c ds with
      | none => none
      | some (a, b) => some (d :: a, b)

/-- `parse_start_state_ops` -/
def parseOps : List Char → Nat × List Char
  | '+' :: r => (1, r)
  | '-' :: r => (2, r)
  | s => (0, s)

/-- `s.split(',')` -/
def splitCommas : List Char → List (List Char)
  | [] => [[]]
  | c :: cs =>
    match splitCommas cs with
    | [] => [[c]]          -- unreachable: `splitCommas` never returns `[]`
    | x :: xs => if c = ',' then [] :: x :: xs else (c :: x) :: xs

/-- `s.trim_matches(p)` -/
def trimBoth (p : Char → Bool) (s : List Char) : List Char := trimEnd p (s.dropWhile p)

/-- `parse_start_states` without the name lookups: `<a, b>re` -> (`[a, b]`, `re`), the regular
expression unescaped in both arms (repaired). `none` in the outer option = a slice panicked. -/
def parseStartStates (cfg : Cfg) (ws : Char → Bool) (re : List Char) :
    Option (Except ErrKind (List (List Char) × List Char)) :=
  match re with
  | '<' :: r =>
    match splitFirst '>' r with
    | none => some (.error .invalidStartState)
    | some (names, rest) =>
      (unescape cfg rest).map fun u => .ok ((splitCommas names).map (trimBoth ws), u)
  | _ => (unescape cfg re).map fun u => .ok ([], u)

/-- the optional `<[+-]state>` in front of the name: `line[rspace + 1..]` -> (target, `orig_name`);
`none` = a `<` without `>` -/
def targetOf : List Char → Option (Option (Nat × List Char) × List Char)
  | '<' :: r =>
    match splitFirst '>' r with
    | some (st, orig) => some (some (parseOps st), orig)
    | none => none
  | after => some (none, after)

/-- the three spellings of "no name" -/
def isSkipName (o : List Char) : Bool := o == [';'] || o == ['"', '"'] || o == ['\'', '\'']

/-- `orig_name` is `'..'` or `".."` with something between the quotes -/
def quotedOk (o : List Char) : Bool :=
  decide (2 < byteLen o) &&
    ((o.head? == some '\'' && o.getLast? == some '\'') || (o.head? == some '"' && o.getLast? == some '"'))

/-- `parse_rule` on one line. Result: `none` = panic; error kind with the offset of its span; or
the parts of the rule. -/
def parseRuleLine (cfg : Cfg) (ws sp : Char → Bool) (raw : List Char) :
    Option (Except (ErrKind × Nat) RuleLine) :=
  let line := trimEnd ws raw
  match splitLast sp line with
  | none => some (.error (.missingSpace, 0))
  | some (before, _, _) =>
    let rspace := byteLen before
    -- `line[rspace + 1..]`: a panic unless the separator is one byte long
    (dropB line (rspace + 1)).bind fun after =>
      match targetOf after with
      | none => some (.error (.invalidStartState, rspace))
      | some (target, orig) =>
        if isSkipName orig then
          (parseStartStates cfg ws (trimEndUnescaped ws before)).map fun r =>
            match r with
            | .error k => .error (k, 0)
            | .ok (states, re) => .ok ⟨states, re, target, none, rspace + 1, rspace + 1⟩
        else if !quotedOk orig then some (.error (.invalidName, rspace + 1))
        else
          -- repaired: `orig_name` is a suffix of `line`
          let off := byteLen line - byteLen orig
          (parseStartStates cfg ws (trimEndUnescaped ws before)).map fun r =>
            match r with
            | .error k => .error (k, 0)
            | .ok (states, re) =>
              .ok ⟨states, re, target, some ((orig.drop 1).dropLast), off + 1, off + byteLen orig - 1⟩

/-! ### Start-state declarations (`parse_declaration`, `declare_start_states`) -/

inductive DeclErr
  | unknownDeclaration | invalidStartStateName
deriving Repr, BEq, DecidableEq

/-- `RE_WS.split(s)` with, for every piece, the byte offset at which it starts (`off` = offset of
`s`): what `name.as_ptr() - src.as_ptr()` recovers. Pieces between two adjacent separators are
empty. -/
def splitWsAt (p : Char → Bool) : List Char → Nat → List (List Char × Nat)
  | [], off => [([], off)]
  | c :: cs, off =>
    if p c then ([], off) :: splitWsAt p cs (off + c.utf8Size)
    else
      match splitWsAt p cs (off + c.utf8Size) with
      | [] => [([c], off)]       -- unreachable: the result is never empty
      | (t, _) :: rest => (c :: t, off) :: rest

def isAsciiAlnum (c : Char) : Bool :=
  ('a' ≤ c && c ≤ 'z') || ('A' ≤ c && c ≤ 'Z') || ('0' ≤ c && c ≤ '9')

def isAsciiAlpha (c : Char) : Bool := ('a' ≤ c && c ≤ 'z') || ('A' ≤ c && c ≤ 'Z')

/-- `RE_START_STATE_NAME`: `^[a-zA-Z][a-zA-Z0-9_.]*$` -/
def validStateName : List Char → Bool
  | [] => false
  | c :: cs => isAsciiAlpha c && cs.all (fun d => isAsciiAlnum d || d == '_' || d == '.')

/-- `RE_INCLUSIVE_START_STATE_DECLARATION` / `RE_EXCLUSIVE_…`: `^%[sS][a-zA-Z0-9]*$` / `^%[xX]…$`;
`some exclusive` -/
def declKind : List Char → Option Bool
  | '%' :: k :: rest =>
    if !rest.all isAsciiAlnum then none
    else if k = 's' ∨ k = 'S' then some false
    else if k = 'x' ∨ k = 'X' then some true
    else none
  | _ => none

/-- first name that is not a valid start-state name -/
def firstInvalid : List (List Char × Nat × Nat) → Option Nat
  | [] => none
  | (n, a, _) :: rest => if validStateName n then firstInvalid rest else some a

/-- One declaration line (from the offset at which `parse_declaration` is entered to the next line
separator): exclusive?, and the declared names with their spans relative to the line. After the
repair `fix: accept start-state names separated by more than one blank` empty pieces are skipped.
Duplicates are detected across lines by the caller and are not part of this function. -/
def parseDeclLine (ws : Char → Bool) (raw : List Char) :
    Except (DeclErr × Nat) (Bool × List (List Char × Nat × Nat)) :=
  let line := trimEnd ws raw
  -- `declaration_len`: offset of the first white space of the line (or the whole line)
  let decl := line.takeWhile (fun c => !ws c)
  match declKind decl with
  | none => .error (.unknownDeclaration, 0)
  | some excl =>
    -- `src[i + declaration_len..line_end].trim_matches(ws)`; its pieces with their offsets
    let restLine := line.drop decl.length
    let lead := restLine.takeWhile ws
    let params := restLine.dropWhile ws
    if params.isEmpty then .error (.unknownDeclaration, 0)
    else
      let names := ((splitWsAt ws params (byteLen decl + byteLen lead)).filter (fun t => !t.1.isEmpty)).map
        (fun t => (t.1, t.2, t.2 + byteLen t.1))
      match firstInvalid names with
      | some a => .error (.invalidStartStateName, a)
      | none => .ok (excl, names)

/-- `parseDeclLine` before the names are validated (`declare_start_states` validates them one by one,
interleaved with the duplicate test, see `Model/LexSpecParse.lean`): `none` = `UnknownDeclaration`.
`Lemmas/LexSpecParse.lean: parseDeclLine_parts` shows `parseDeclLine` is this followed by
`firstInvalid`. -/
def declLineParts (ws : Char → Bool) (raw : List Char) : Option (Bool × List (List Char × Nat × Nat)) :=
  let line := trimEnd ws raw
  let decl := line.takeWhile (fun c => !ws c)
  match declKind decl with
  | none => none
  | some excl =>
    let restLine := line.drop decl.length
    let lead := restLine.takeWhile ws
    let params := restLine.dropWhile ws
    if params.isEmpty then none
    else
      some (excl, ((splitWsAt ws params (byteLen decl + byteLen lead)).filter (fun t => !t.1.isEmpty)).map
        (fun t => (t.1, t.2, t.2 + byteLen t.1)))

/-! ### Flags -/

/-- `LexParser::new_with_lex_flags`: every flag `x.or(DEFAULT_LEX_FLAGS.x)`. Flags are lists in the
order of `Extracted.LEX_FLAG_NAMES`. -/
def withDefaults (defaults flags : List (Option Bool)) : List (Option Bool) :=
  List.zipWith (fun f d => f.or d) flags defaults

/-- `Header::merge_from` with `MergeBehavior::Ours` (what `CTLexerBuilder` sets): a value the builder
set stays, otherwise the `%grmtools` section's value is taken -/
def mergeOurs (builder header : List (Option Bool)) : List (Option Bool) :=
  List.zipWith (fun b h => b.or h) builder header

/-- the flags a lexer built by `CTLexerBuilder` compiles its rules with -/
def effectiveFlags (defaults header builder : List (Option Bool)) : List (Option Bool) :=
  withDefaults defaults (mergeOurs builder header)

end GrmVerif.LexParse
