/-!
# C14 — the wire format of `wincode` 0.5.5 as used by `lrpar::ctbuilder`

`CTParserBuilder::build` serialises grammar and state table with
`wincode::config::Configuration::default().with_fixint_encoding()` or `.with_varint_encoding()`
(`SerialisationFormat::{FixedSizeInteger, VariableSizedInteger}`); the generated parser calls
`_reconstitute` with the same configuration. Both configurations are: little endian, length prefix
`BincodeLen = UseIntLen<u64>` (a `u64` written with the configured integer encoding), enum tag `u32`
(written with the configured integer encoding), and differ only in the integer encoding:

* `FixInt`: `u16/u32/u64` as 2/4/8 little-endian bytes; `usize` as `u64`.
* `VarInt` (`schema/int_encoding.rs`): `v ≤ 250` one byte; otherwise tag `251` + 2 bytes if `v ≤ u16::MAX`,
  tag `252` + 4 bytes if `v ≤ u32::MAX`, tag `253` + 8 bytes. A decoder for `u16` accepts only tag 251,
  for `u32` tags 251/252, for `u64`/`usize` tags 251/252/253.
* `u8`, `bool` (0/1, anything else is an error) and the `Option` tag (0/1) are one raw byte in both.
* `String`: length prefix + UTF-8 bytes, validated on read.  `Vec<T>`, `Box<[T]>`: length prefix + elements.
* tuples / structs (derive): fields in declaration order, nothing in between.
* enums (derive): variant index as `u32` tag, then the variant's fields.

Bytes are naturals (`< 256` when produced by an encoder). Everything is core Lean; the driver links it.
Not modelled: the preallocation limit (a sequence whose `len * size_of::<T>()` exceeds 4 MiB is refused
by writer and reader alike — `serialize` returns `Err` at build time).
-/
namespace GrmVerif.C14

abbrev Bytes := List Nat

inductive IntEnc
  | fix | var
  deriving DecidableEq, Repr

inductive IntTy
  | u8 | u16 | u32 | u64 | usize
  deriving DecidableEq, Repr

/-- width of the integer type on the wire with the fixed encoding (`usize` is written as `u64`) -/
def IntTy.bytes : IntTy → Nat
  | .u8 => 1 | .u16 => 2 | .u32 => 4 | .u64 => 8 | .usize => 8

/-- `k` little-endian bytes of `n` -/
def encLE : Nat → Nat → Bytes
  | 0, _ => []
  | k + 1, n => (n % 256) :: encLE k (n / 256)

def decLE : Nat → Bytes → Option (Nat × Bytes)
  | 0, bs => some (0, bs)
  | _ + 1, [] => none
  | k + 1, b :: bs =>
    match decLE k bs with
    | none => none
    | some (m, r) => some (b + 256 * m, r)

/-- `VarInt::encode_uN` for an `N = 8 * width`-bit unsigned integer (`width` ∈ {2,4,8}) -/
def encVar (n : Nat) : Bytes :=
  if n ≤ 250 then [n]
  else if n < 65536 then 251 :: encLE 2 n
  else if n < 4294967296 then 252 :: encLE 4 n
  else 253 :: encLE 8 n

/-- `VarInt::decode_uN`: the tags a decoder accepts depend on the width of the target type -/
def decVar (width : Nat) : Bytes → Option (Nat × Bytes)
  | [] => none
  | b :: bs =>
    if b ≤ 250 then some (b, bs)
    else if b = 251 then decLE 2 bs
    else if b = 252 then (if 4 ≤ width then decLE 4 bs else none)
    else if b = 253 then (if 8 ≤ width then decLE 8 bs else none)
    else none

def encInt (cfg : IntEnc) (i : IntTy) (n : Nat) : Bytes :=
  match i, cfg with
  | .u8, _ => encLE 1 n
  | i, .fix => encLE i.bytes n
  | _, .var => encVar n

def decInt (cfg : IntEnc) (i : IntTy) (bs : Bytes) : Option (Nat × Bytes) :=
  match i, cfg with
  | .u8, _ => decLE 1 bs
  | i, .fix => decLE i.bytes bs
  | i, .var => decVar i.bytes bs

/-! ## UTF-8 validity (what `String::from_utf8` accepts: Unicode table 3-7) -/

def cont (b : Nat) : Bool := 128 ≤ b && b ≤ 191

def validUtf8Aux : Nat → Bytes → Bool
  | _, [] => true
  | 0, _ :: _ => false
  | fuel + 1, b0 :: rest =>
    if b0 ≤ 127 then validUtf8Aux fuel rest
    else if 194 ≤ b0 && b0 ≤ 223 then
      match rest with
      | b1 :: r => cont b1 && validUtf8Aux fuel r
      | _ => false
    else if 224 ≤ b0 && b0 ≤ 239 then
      match rest with
      | b1 :: b2 :: r =>
        (if b0 = 224 then 160 ≤ b1 && b1 ≤ 191 else if b0 = 237 then 128 ≤ b1 && b1 ≤ 159 else cont b1)
          && cont b2 && validUtf8Aux fuel r
      | _ => false
    else if 240 ≤ b0 && b0 ≤ 244 then
      match rest with
      | b1 :: b2 :: b3 :: r =>
        (if b0 = 240 then 144 ≤ b1 && b1 ≤ 191 else if b0 = 244 then 128 ≤ b1 && b1 ≤ 143 else cont b1)
          && cont b2 && cont b3 && validUtf8Aux fuel r
      | _ => false
    else false

def validUtf8 (bs : Bytes) : Bool := validUtf8Aux bs.length bs

/-! ## Codecs -/

/-- untyped view of a decoded value (driver only: navigation by field name) -/
inductive Val
  | nat (n : Nat)
  | bool (b : Bool)
  | str (s : Bytes)
  | opt (v : Option Val)
  | seq (vs : List Val)
  | struct (fs : List (String × Val))
  | variant (idx : Nat) (name : String) (v : Val)

/-- encoder, decoder, the well-formedness the value must satisfy to be representable (what the Rust
type guarantees: `n ≤ uN::MAX`, `len ≤ u64::MAX`, `String` is UTF-8), and an untyped view -/
structure Codec (α : Type) where
  enc : α → Bytes
  dec : Bytes → Option (α × Bytes)
  wf : α → Prop
  view : α → Val

/-- the round-trip law: decoding what was encoded, followed by anything, gives the value back and
leaves exactly the rest -/
def Codec.Law (c : Codec α) : Prop :=
  ∀ (x : α) (rest : Bytes), c.wf x → c.dec (c.enc x ++ rest) = some (x, rest)

def Codec.int (cfg : IntEnc) (i : IntTy) : Codec Nat where
  enc := encInt cfg i
  dec := decInt cfg i
  wf n := n < 256 ^ i.bytes
  view := .nat

def decBool : Bytes → Option (Bool × Bytes)
  | 0 :: r => some (false, r)
  | 1 :: r => some (true, r)
  | _ => none

def Codec.bool : Codec Bool where
  enc b := [if b then 1 else 0]
  dec := decBool
  wf _ := True
  view := .bool

def decString (cfg : IntEnc) (bs : Bytes) : Option (Bytes × Bytes) :=
  match decInt cfg .u64 bs with
  | none => none
  | some (n, r) =>
    if r.length < n then none
    else if validUtf8 (r.take n) then some (r.take n, r.drop n) else none

/-- `String` as its UTF-8 bytes -/
def Codec.string (cfg : IntEnc) : Codec Bytes where
  enc s := encInt cfg .u64 s.length ++ s
  dec := decString cfg
  wf s := s.length < 256 ^ 8 ∧ validUtf8 s = true
  view := .str

def decOption (c : Codec α) : Bytes → Option (Option α × Bytes)
  | 0 :: r => some (none, r)
  | 1 :: r =>
    match c.dec r with
    | none => none
    | some (x, r') => some (some x, r')
  | _ => none

def encOption (c : Codec α) : Option α → Bytes
  | none => [0]
  | some x => 1 :: c.enc x

def wfOption (c : Codec α) : Option α → Prop
  | none => True
  | some x => c.wf x

def Codec.option (c : Codec α) : Codec (Option α) where
  enc := encOption c
  dec := decOption c
  wf := wfOption c
  view o := .opt (o.map c.view)

def encList (c : Codec α) : List α → Bytes
  | [] => []
  | x :: xs => c.enc x ++ encList c xs

def decN (c : Codec α) : Nat → Bytes → Option (List α × Bytes)
  | 0, bs => some ([], bs)
  | n + 1, bs =>
    match c.dec bs with
    | none => none
    | some (x, r) =>
      match decN c n r with
      | none => none
      | some (xs, r') => some (x :: xs, r')

def decSeq (cfg : IntEnc) (c : Codec α) (bs : Bytes) : Option (List α × Bytes) :=
  match decInt cfg .u64 bs with
  | none => none
  | some (n, r) => decN c n r

/-- `Vec<T>` / `Box<[T]>`: length prefix, then the elements -/
def Codec.seq (cfg : IntEnc) (c : Codec α) : Codec (List α) where
  enc xs := encInt cfg .u64 xs.length ++ encList c xs
  dec := decSeq cfg c
  wf xs := xs.length < 256 ^ 8 ∧ ∀ x ∈ xs, c.wf x
  view xs := .seq (xs.map c.view)

def decPair (a : Codec α) (b : Codec β) (bs : Bytes) : Option ((α × β) × Bytes) :=
  match a.dec bs with
  | none => none
  | some (x, r) =>
    match b.dec r with
    | none => none
    | some (y, r') => some ((x, y), r')

def consField (name : String) (v : Val) : Val → Val
  | .struct fs => .struct ((name, v) :: fs)
  | w => .struct [(name, v), ("?", w)]

/-- two consecutive fields; `name` labels the first in the untyped view -/
def Codec.pair (name : String) (a : Codec α) (b : Codec β) : Codec (α × β) where
  enc p := a.enc p.1 ++ b.enc p.2
  dec := decPair a b
  wf p := a.wf p.1 ∧ b.wf p.2
  view p := consField name (a.view p.1) (b.view p.2)

def Codec.unit : Codec Unit where
  enc _ := []
  dec bs := some ((), bs)
  wf _ := True
  view _ := .struct []

def Codec.empty : Codec Empty where
  enc e := nomatch e
  dec _ := none
  wf _ := True
  view e := nomatch e

def encSum (cfg : IntEnc) (k : Nat) (a : Codec α) (b : Codec β) : α ⊕ β → Bytes
  | .inl x => encInt cfg .u32 k ++ a.enc x
  | .inr y => b.enc y

/-- decoder of "variant `k` with payload `a`, or one of the later variants `b`": the tag is read by
both, the payload decoder is chosen by comparing it with `k` -/
def decSum (cfg : IntEnc) (k : Nat) (a : Codec α) (b : Codec β) (bs : Bytes) : Option ((α ⊕ β) × Bytes) :=
  match decInt cfg .u32 bs with
  | none => none
  | some (t, r) =>
    if t = k then
      match a.dec r with
      | none => none
      | some (x, r') => some (.inl x, r')
    else
      match b.dec bs with
      | none => none
      | some (y, r') => some (.inr y, r')

def wfSum (k : Nat) (a : Codec α) (b : Codec β) : α ⊕ β → Prop
  | .inl x => k < 256 ^ 4 ∧ a.wf x
  | .inr y => b.wf y

def viewSum (k : Nat) (name : String) (a : Codec α) (b : Codec β) : α ⊕ β → Val
  | .inl x => .variant k name (a.view x)
  | .inr y => b.view y

/-- enum variants from index `k` on: variant `k` has payload `a`, the rest is `b` -/
def Codec.sum (cfg : IntEnc) (k : Nat) (name : String) (a : Codec α) (b : Codec β) : Codec (α ⊕ β) where
  enc := encSum cfg k a b
  dec := decSum cfg k a b
  wf := wfSum k a b
  view := viewSum k name a b

/-- a codec all of whose encodings start with a `u32` tag `≥ k` (what `decSum` needs of its tail) -/
def Codec.TagsFrom (cfg : IntEnc) (k : Nat) (c : Codec α) : Prop :=
  ∀ (x : α), c.wf x → ∃ (t : Nat) (body : Bytes), k ≤ t ∧ t < 256 ^ 4 ∧ c.enc x = encInt cfg .u32 t ++ body

/-! ## Schema terms and their interpretation -/

mutual
  /-- the schema language: what a `#[derive(SchemaRead, SchemaWrite)]` type without `#[wincode(..)]`
  attributes can be made of in grmtools -/
  inductive Ty
    | int (i : IntTy)
    | bool
    | string
    | option (t : Ty)
    | seq (t : Ty)
    | struct (fs : Tys)
    | enum (vs : Tys)
  inductive Tys
    | nil
    | cons (name : String) (t : Ty) (ts : Tys)
end

mutual
  def Ty.interp : Ty → Type
    | .int _ => Nat
    | .bool => Bool
    | .string => Bytes
    | .option t => Option t.interp
    | .seq t => List t.interp
    | .struct fs => fs.prod
    | .enum vs => vs.sum
  def Tys.prod : Tys → Type
    | .nil => Unit
    | .cons _ t ts => t.interp × ts.prod
  def Tys.sum : Tys → Type
    | .nil => Empty
    | .cons _ t ts => t.interp ⊕ ts.sum
end

mutual
  /-- the codec of a schema term under an integer encoding -/
  def codec (cfg : IntEnc) : (t : Ty) → Codec t.interp
    | .int i => Codec.int cfg i
    | .bool => Codec.bool
    | .string => Codec.string cfg
    | .option t => (codec cfg t).option
    | .seq t => (codec cfg t).seq cfg
    | .struct fs => codecProd cfg fs
    | .enum vs => codecSum cfg 0 vs
  def codecProd (cfg : IntEnc) : (ts : Tys) → Codec ts.prod
    | .nil => Codec.unit
    | .cons n t ts => Codec.pair n (codec cfg t) (codecProd cfg ts)
  def codecSum (cfg : IntEnc) (k : Nat) : (ts : Tys) → Codec ts.sum
    | .nil => Codec.empty
    | .cons n t ts => Codec.sum cfg k n (codec cfg t) (codecSum cfg (k + 1) ts)
end

end GrmVerif.C14
