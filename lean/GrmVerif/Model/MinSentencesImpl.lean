import GrmVerif.Model.CostsImpl
/-!
Faithful model of `SentenceGenerator::min_sentences` (plural) of `cfgrammar/src/lib/yacc/grammar.rs`, with
its closure `cheapest_prods` and the "odometer" that combines the minimal sentences of the symbols of a
production. Transcription rules as in `Model/CostsImpl.lean`: vectors are lists, `&mut` state is threaded
through, `for` loops are folds over the same index sequence in the same order, an index out of range /
`unwrap` is a panic (`none` / `Outcome.panic`). The function is recursive in the source (one call per rule
symbol of every cheapest production): the model takes the recursion DEPTH as fuel (`Outcome.fuelOut` = the
recursion is deeper than the fuel; in Rust an unbounded recursion is a stack overflow). The only unbounded
loop, `'b: loop`, gets the number of combinations plus one as fuel (`odoFuel`; `Lemmas/Odometer.lean` proves
that it never runs out).
Core Lean only.
-/
namespace GrmVerif.Impl
open GrmVerif

/-! ### the closure `cheapest_prods` -/

/-- `low_sc.is_none() || Some(sc) <= low_sc` -/
def leO' (sc : Nat) : Option Nat → Bool
  | none => true
  | some b => sc ≤ b

/-- `Some(sc) < low_sc` (in Rust's order on `Option`, `None` is below every `Some`: false for `None`) -/
def ltSome (sc : Nat) : Option Nat → Bool
  | none => false
  | some b => sc < b

/-- body of `for &pidx in self.grm.rule_to_prods(p_ridx).iter()`; the state is `(low_sc, low_idxs)`. The
inner loop `sc = sc.saturating_add(…)` over the production is the one of `cheapest_prod` (`cpSyms`).
```
if low_sc.is_none() || Some(sc) <= low_sc {
    if Some(sc) < low_sc { low_idxs.clear(); }
    low_sc = Some(sc);
    low_idxs.push(pidx);
}
``` -/
def cpsProd (G : Grammar) (tc : List Nat) (mc : Option (List Nat)) (s : Option Nat × List Nat) (pidx : Nat) :
    Option (Option Nat × List Nat) :=
  match cpSyms tc mc (G.rhs pidx) 0 with
  | none => none
  | some sc =>
    if leO' sc s.1 then
      some (some sc, (if ltSome sc s.1 then [] else s.2) ++ [pidx])
    else some s

/-- the closure `cheapest_prods` of `min_sentences`: all productions of the rule whose (saturated) cost is
the lowest, in production order (`none` = a panic inside: a cost was needed and `rule_min_costs` panics,
or an index is out of range) -/
def cheapestProds (G : Grammar) (tc : List Nat) (mc : Option (List Nat)) (r : Nat) : Option (List Nat) :=
  match iterM (cpsProd G tc mc) (G.prodsOf r) (none, []) with
  | none => none
  | some (_, low_idxs) => some low_idxs

/-! ### the odometer over the combinations -/

/-- body of `for i in 0..todo.len() { cur.extend(&ms[i][todo[i]]); }` -/
def odoCurStep (ms : List (List (List Nat))) (todo : List Nat) (cur : List Nat) (i : Nat) : Option (List Nat) :=
  match ms[i]? with
  | none => none
  | some l =>
    match todo[i]? with
    | none => none
    | some k =>
      match l[k]? with
      | none => none
      | some s => some (cur ++ s)

/-- `for i in 0..todo.len() { cur.extend(&ms[i][todo[i]]); }` from `cur = []` -/
def odoCur (ms : List (List (List Nat))) (todo : List Nat) : Option (List Nat) :=
  iterM (odoCurStep ms todo) (List.range todo.length) []

/-- the inner `loop` at column `j`:
```
if todo[j] + 1 == ms[j].len() { if j == 0 { break 'b; } todo[j] = 0; j -= 1; }
else { todo[j] += 1; break; }
```
`none` = an index is out of range, `some none` = `break 'b` (the first column spilled), `some (some todo)` =
`break` with the advanced counter -/
def odoInc (ms : List (List (List Nat))) : Nat → List Nat → Option (Option (List Nat))
  | j, todo =>
    match todo[j]?, ms[j]? with
    | some t, some l =>
      if t + 1 = l.length then
        match j with
        | 0 => some none
        | j' + 1 => odoInc ms j' (todo.set (j' + 1) 0)
      else some (some (todo.set j (t + 1)))
    | _, _ => none

/-- `'b: loop { …; sts.push(std::mem::take(&mut cur)); let mut j = todo.len() - 1; loop {…} }` with fuel.
`out` holds the sentences this loop has pushed onto `sts` so far, NEWEST FIRST; when the loop is left they
are returned in the order in which they were pushed. (`todo.len() - 1` cannot underflow in the source — an
empty production is handled before the loop —; the model makes it a panic.) -/
def odoLoop (ms : List (List (List Nat))) : Nat → List Nat → List (List Nat) → Outcome (List (List Nat))
  | 0, _, _ => .fuelOut
  | fuel + 1, todo, out =>
    match odoCur ms todo with
    | none => .panic
    | some cur =>
      match todo.length with
      | 0 => .panic
      | n + 1 =>
        match odoInc ms n todo with
        | none => .panic
        | some none => .done (cur :: out).reverse
        | some (some todo') => odoLoop ms fuel todo' (cur :: out)

/-- the number of combinations: the product of the lengths -/
def lenProd : List (List (List Nat)) → Nat
  | [] => 1
  | l :: ms => l.length * lenProd ms

/-- iterations of `'b: loop` that always suffice (`Lemmas/Odometer.lean`, `odoLoop_spec`); the `+ 1` lets
the loop reach its out-of-range panic when some symbol has no sentence at all -/
def odoFuel (ms : List (List (List Nat))) : Nat := lenProd ms + 1

/-! ### `min_sentences` -/

/-- `for sym in prod { match *sym { Rule(s_ridx) => ms.push(self.min_sentences(s_ridx)),
Token(s_tidx) => ms.push(vec![vec![s_tidx]]) } }`; `rec` is the recursive call -/
def msGather (rec : Nat → Outcome (List (List Nat))) :
    List Sym → List (List (List Nat)) → Outcome (List (List (List Nat)))
  | [], ms => .done ms
  | .tok t :: rest, ms => msGather rec rest (ms ++ [[[t]]])
  | .rule q :: rest, ms =>
    match rec q with
    | .done l => msGather rec rest (ms ++ [l])
    | .panic => .panic
    | .fuelOut => .fuelOut

/-- body of `for pidx in cheapest_prods(ridx)`; the state is `sts`:
```
let prod = self.grm.prod(pidx);
if prod.is_empty() { sts.push(vec![]); continue; }
let mut ms = …;              // msGather
let mut todo = vec![0; prod.len()];
'b: loop { … }               // odoLoop
``` -/
def mssProd (G : Grammar) (rec : Nat → Outcome (List (List Nat))) (sts : List (List Nat)) (pidx : Nat) :
    Outcome (List (List Nat)) :=
  let prod := G.rhs pidx
  if prod.isEmpty then .done (sts ++ [[]])
  else
    match msGather rec prod [] with
    | .panic => .panic
    | .fuelOut => .fuelOut
    | .done ms =>
      match odoLoop ms (odoFuel ms) (List.replicate prod.length 0) [] with
      | .panic => .panic
      | .fuelOut => .fuelOut
      | .done pushed => .done (sts ++ pushed)

/-- `sg.min_sentences(ridx)` on a generator whose `min_sentence_cost` behaves as `mc` says (see `cpSyms`);
`fuel` bounds the depth of the recursion -/
def minSentencesWith (G : Grammar) (tc : List Nat) (mc : Option (List Nat)) : Nat → Nat → Outcome (List (List Nat))
  | 0, _ => .fuelOut
  | fuel + 1, r =>
    match cheapestProds G tc mc r with
    | none => .panic
    | some ps => iterO (mssProd G (minSentencesWith G tc mc fuel)) ps []

/-- `grm.sentence_generator(cost).min_sentences(ridx)`: `rule_min_costs` is run lazily by the first
`min_sentence_cost`, as for `minSentence` -/
def minSentences (G : Grammar) (tc : List Nat) (r : Nat) (fuel : Nat) : Outcome (List (List Nat)) :=
  match ruleMinCosts G tc (minCostsFuel G) with
  | .done mc => minSentencesWith G tc (some mc) fuel r
  | .panic => minSentencesWith G tc none fuel r
  | .fuelOut => .fuelOut

/-- recursion depth that always suffices when `min_sentences` returns at all
(`min_sentences_impl_terminates_iff`) -/
def minSentencesFuel (G : Grammar) : Nat := G.nrules + 1

end GrmVerif.Impl
