import GrmVerif.Model.LR
/-
Model of the action-calling side of `Parser::lr` (and its copy in `lr_upto`): the span stack and
the log of action calls, on top of the LR driver of `Model/LR.lean`. Lexeme `k` of the input has
token `(lex k).1` and span `(lex k).2`. Core Lean only.
-/
namespace GrmVerif.Act
open GrmVerif LR

/-- an entry of the span stack: the span and whether the symbol derived no lexeme at all -/
structure SpanE where
  start : Nat
  stop : Nat
  empty : Bool
deriving Repr, DecidableEq, Inhabited

/-- one argument passed to an action: a lexeme (index) or the value returned for a child rule
(identified by the child's production and what it was called with, i.e. the child tree) -/
inductive Arg where
  | lexeme (tok : Nat) (idx : Nat)
  | value (t : Tree)
deriving Repr, Inhabited

/-- one action call: production, rule, span, arguments in order -/
structure Call where
  p : Nat
  r : Nat
  start : Nat
  stop : Nat
  args : List Arg
deriving Repr, Inhabited

/-- first non-empty entry's start and last non-empty entry's end, of entries in left-to-right order
(`iter().find(..)` and `iter().rev().find(..)`) -/
def firstLast (es : List SpanE) : Option (Nat × Nat) :=
  match es.find? (fun e => !e.empty), es.reverse.find? (fun e => !e.empty) with
  | some f, some l => some (f.start, l.stop)
  | _, _ => none

/-- the span of a reduction by a production with `n` symbols, from the span stack (top at the
HEAD): first and last of the `n` entries that derived a lexeme; if none did, zero-length at the end
of the entry below them (0 at the bottom). `reduce_span` of the repaired parser.rs. -/
def reduceSpan (spans : List SpanE) (n : Nat) : SpanE :=
  match firstLast (spans.take n).reverse with
  | some (a, b) => ⟨a, b, false⟩
  | none =>
    let pos := match spans.drop n with
      | [] => 0
      | below :: _ => below.stop
    ⟨pos, pos, true⟩

structure ACfg where
  c : Cfg
  spans : List SpanE
  log : List Call
deriving Repr, Inhabited

def argOf : Tree → Arg
  | .leaf t i => .lexeme t i
  | t => .value t

inductive AStep where
  | cont (a : ACfg)
  | done (o : Outcome) (log : List Call)
deriving Inhabited

/-- one iteration of `lr` including the span stack and the action call; `lexSpan k` = span of the
`k`-th lexeme -/
def stepA (G : Grammar) (A : Automaton) (w : List Nat) (lexSpan : Nat → Nat × Nat) (a : ACfg) : AStep :=
  match a.c.pstack with
  | [] => .done (.crash 4) a.log
  | st :: _ =>
    let la := nextTok G w a.c.laidx
    match A.action st la with
    | .reduce p =>
      let n := (G.rhs p).length
      if a.c.pstack.length ≤ n then .done (.crash 1) a.log
      else
        let rest := a.c.pstack.drop n
        match rest with
        | [] => .done (.crash 1) a.log
        | prior :: _ =>
          match A.goto prior (G.lhs p) with
          | none => .done (.crash 2) a.log
          | some s' =>
            let kids := (a.c.astack.take n).reverse
            let se := reduceSpan a.spans n
            .cont ⟨⟨s' :: rest, .node p kids :: a.c.astack.drop n, a.c.laidx⟩,
                   se :: a.spans.drop n,
                   a.log ++ [⟨p, G.lhs p, se.start, se.stop, kids.map argOf⟩]⟩
    | .shift s' =>
      let sp := lexSpan a.c.laidx
      .cont ⟨⟨s' :: a.c.pstack, .leaf la a.c.laidx :: a.c.astack, a.c.laidx + 1⟩,
             ⟨sp.1, sp.2, false⟩ :: a.spans, a.log⟩
    | .accept =>
      match a.c.astack.getLast? with
      | some (.node p kids) => .done (.accept (.node p kids)) a.log
      | _ => .done (.crash 3) a.log
    | .error => .done (.error a.c.laidx st) a.log

def runA (G : Grammar) (A : Automaton) (w : List Nat) (lexSpan : Nat → Nat × Nat) : Nat → ACfg → Outcome × List Call
  | 0, a => (.fuelOut, a.log)
  | fuel + 1, a =>
    match stepA G A w lexSpan a with
    | .done o log => (o, log)
    | .cont a' => runA G A w lexSpan fuel a'

def initA (A : Automaton) : ACfg := ⟨init A, [], []⟩

def parseA (G : Grammar) (A : Automaton) (w : List Nat) (lexSpan : Nat → Nat × Nat) (fuel : Nat) :
    Outcome × List Call :=
  runA G A w lexSpan fuel (initA A)

end GrmVerif.Act
