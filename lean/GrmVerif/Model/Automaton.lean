import GrmVerif.Model.Grammar
/-
What the harness dumps from `lrtable::{StateGraph, StateTable}` through their public API:
item sets (in the hash map's iteration order, which the table construction depends on), edges,
every action and goto cell, the derived per-state views and the conflict lists. Core Lean only.
-/
namespace GrmVerif

/-- an LR(1) item `[p, dot, lookaheads]`; `la` is the list of set bits of the context -/
structure Item where
  p : Nat
  dot : Nat
  la : List Nat
deriving Repr, DecidableEq

/-- `lrtable::Action` -/
inductive Act where
  | error
  | shift (s : Nat)
  | reduce (p : Nat)
  | accept
deriving Repr, DecidableEq, Inhabited

structure StateD where
  core : List Item
  closed : List Item
  /-- `(symbol, target)` -/
  edges : List (Sym × Nat)
  /-- `action(s, t)` for every token -/
  actions : List Act
  /-- `goto(s, r)` for every rule -/
  gotos : List (Option Nat)
  stateActions : List Nat
  stateShifts : List Nat
  coreReduces : List Nat
  reduceOnly : Bool
deriving Repr

structure Automaton where
  start : Nat
  states : List StateD
  /-- `(token, kept production, displaced production, state)` -/
  rr : List (Nat × Nat × Nat × Nat)
  /-- `(token, production, state)` -/
  sr : List (Nat × Nat × Nat)
deriving Repr

namespace Automaton
def nstates (A : Automaton) : Nat := A.states.length
def state? (A : Automaton) (s : Nat) : Option StateD := A.states[s]?
def closed (A : Automaton) (s : Nat) : List Item := (A.states[s]?.map (·.closed)).getD []
def core (A : Automaton) (s : Nat) : List Item := (A.states[s]?.map (·.core)).getD []
def edges (A : Automaton) (s : Nat) : List (Sym × Nat) := (A.states[s]?.map (·.edges)).getD []
def edge (A : Automaton) (s : Nat) (x : Sym) : Option Nat := ((A.edges s).find? (fun e => e.1 == x)).map (·.2)
def action (A : Automaton) (s t : Nat) : Act := ((A.states[s]?.bind (·.actions[t]?))).getD .error
def goto (A : Automaton) (s r : Nat) : Option Nat := ((A.states[s]?.bind (·.gotos[r]?))).getD none
end Automaton

/-! ### wire format
`nstates start` then per state: `items(core) items(closed) nedges (sym target)* ntoks×act nrules×goto
list(stateActions) list(stateShifts) list(coreReduces) reduceOnly`, then `nrr (tok kept displaced st)*
nsr (tok prod st)*`. `items = n (p dot nla la…)*`; `act = 0 | 1 s | 2 p | 3`; `goto = 0 | s+1`. -/

def parseItems : Nat → List Nat → Option (List Item × List Nat)
  | 0, rest => some ([], rest)
  | n + 1, p :: dot :: nla :: rest =>
    if rest.length < nla then none
    else
      match parseItems n (rest.drop nla) with
      | none => none
      | some (is, r) => some (⟨p, dot, rest.take nla⟩ :: is, r)
  | _, _ => none

def parseItemList : List Nat → Option (List Item × List Nat)
  | n :: rest => parseItems n rest
  | [] => none

def parseEdges : Nat → List Nat → Option (List (Sym × Nat) × List Nat)
  | 0, rest => some ([], rest)
  | n + 1, s :: t :: rest =>
    match parseEdges n rest with
    | none => none
    | some (es, r) => some ((decSym s, t) :: es, r)
  | _, _ => none

def parseActs : Nat → List Nat → Option (List Act × List Nat)
  | 0, rest => some ([], rest)
  | n + 1, 0 :: rest => (parseActs n rest).map (fun (as, r) => (Act.error :: as, r))
  | n + 1, 1 :: s :: rest => (parseActs n rest).map (fun (as, r) => (Act.shift s :: as, r))
  | n + 1, 2 :: p :: rest => (parseActs n rest).map (fun (as, r) => (Act.reduce p :: as, r))
  | n + 1, 3 :: rest => (parseActs n rest).map (fun (as, r) => (Act.accept :: as, r))
  | _, _ => none

def parseNatList : List Nat → Option (List Nat × List Nat)
  | n :: rest => if rest.length < n then none else some (rest.take n, rest.drop n)
  | [] => none

def parseState (G : Grammar) (l : List Nat) : Option (StateD × List Nat) := do
  let (core, l) ← parseItemList l
  let (closed, l) ← parseItemList l
  let (ne, l) ← match l with | n :: r => some (n, r) | [] => none
  let (edges, l) ← parseEdges ne l
  let (acts, l) ← parseActs G.ntoks l
  if l.length < G.nrules then none else
  let gotos := (l.take G.nrules).map (fun g => if g = 0 then none else some (g - 1))
  let l := l.drop G.nrules
  let (sa, l) ← parseNatList l
  let (ss, l) ← parseNatList l
  let (cr, l) ← parseNatList l
  match l with
  | ro :: l => some (⟨core, closed, edges, acts, gotos, sa, ss, cr, ro != 0⟩, l)
  | [] => none

def parseStates (G : Grammar) : Nat → List Nat → Option (List StateD × List Nat)
  | 0, l => some ([], l)
  | n + 1, l =>
    match parseState G l with
    | none => none
    | some (s, l') =>
      match parseStates G n l' with
      | none => none
      | some (ss, r) => some (s :: ss, r)

def parseQuads : Nat → List Nat → Option (List (Nat × Nat × Nat × Nat) × List Nat)
  | 0, l => some ([], l)
  | n + 1, a :: b :: c :: d :: l => (parseQuads n l).map (fun (qs, r) => ((a, b, c, d) :: qs, r))
  | _, _ => none

def parseTriples : Nat → List Nat → Option (List (Nat × Nat × Nat) × List Nat)
  | 0, l => some ([], l)
  | n + 1, a :: b :: c :: l => (parseTriples n l).map (fun (qs, r) => ((a, b, c) :: qs, r))
  | _, _ => none

def parseAutomaton (G : Grammar) : List Nat → Option (Automaton × List Nat)
  | n :: start :: l =>
    match parseStates G n l with
    | none => none
    | some (states, l) =>
      match l with
      | nrr :: l =>
        match parseQuads nrr l with
        | none => none
        | some (rr, l) =>
          match l with
          | nsr :: l =>
            match parseTriples nsr l with
            | none => none
            | some (sr, l) => some (⟨start, states, rr, sr⟩, l)
          | [] => none
      | [] => none
  | _ => none

end GrmVerif
