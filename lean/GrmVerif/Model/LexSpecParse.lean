import GrmVerif.Model.LexParse
/-
Model of the whole-specification part of `lrlex/src/lib/parser.rs`: `LexParser::parse`,
`parse_declarations`, `parse_declaration`, `declare_start_states`, `validate_start_state`,
`parse_rules`, `parse_rule` (with `get_start_state_by_name` and the duplicate-name test),
`parse_ws`/`parse_nl`/`parse_spaces`/`lookahead_is`, `add_duplicate_occurrence`, and the way the
error list is collected.

Transcription rules:
* the source is a `List Char`; every `i` is a UTF-8 BYTE offset into it, as in Rust; every
  `&self.src[i..]` is `dropB src i` and every `&self.src[a..b]` is `sliceB src a b`, which are `none`
  — the Rust panic — off a character boundary or out of range;
* the two `loop`s get a fuel argument; running out of fuel is `none` as well (`parseSpec` supplies
  `byteLen src + 1`; `Props/C11.lean: parse_total` shows neither kind of `none` ever occurs);
* `&mut self` (`rules`, `start_states`) and `errs` are the returned `PState`; an `Err(e)` that
  `parse` pushes on `errs` before returning `Err(errs)` is returned as the complete list;
* what happens INSIDE one line is the line-level model of `Model/LexParse.lean` (`declLineParts`,
  `splitLast`, `targetOf`, `isSkipName`, `quotedOk`, `parseStartStates`, `trimEndUnescaped`), called in
  the order in which `parse_rule` interleaves it with the name lookups;
* `Rule::new` (the regex engine) is the parameter `compiles` on `re_str`.
Core Lean only.
-/
namespace GrmVerif.LexSpecParse
open GrmVerif.LexUnescape GrmVerif.LexParse

/-- `LexErrorKind` (the payload of `RegexError` dropped) -/
inductive EKind
  | prematureEnd | routinesNotSupported | unknownDeclaration | missingSpace | invalidName
  | unknownStartState | duplicateStartState | invalidStartState | invalidStartStateName
  | duplicateName | regexError | verbatimNotSupported
deriving Repr, BEq, DecidableEq

/-- `LexBuildError` -/
structure Err where
  kind : EKind
  spans : List (Nat × Nat)
deriving Repr, BEq, DecidableEq

/-- `StartState` -/
structure StartState where
  id : Nat
  name : List Char
  span : Nat × Nat
  excl : Bool
deriving Repr, BEq, DecidableEq

/-- `Rule` (without the compiled regex) -/
structure Rule where
  tokId : Nat
  name : Option (List Char)
  span : Nat × Nat
  re : List Char
  /-- ids of the start states the rule is restricted to -/
  states : List Nat
  /-- `(state id, operation)`, operation 0 `ReplaceStack`, 1 `Push`, 2 `Pop` -/
  target : Option (Nat × Nat)
deriving Repr, BEq, DecidableEq

/-- `self.start_states`, `self.rules` and the `errs` vector threaded through the parser -/
structure PState where
  states : List StartState
  rules : List Rule
  errs : List Err
deriving Repr, BEq, DecidableEq

/-- what the parser is parametric in -/
structure Env where
  /-- escape tables and `posix_escapes` -/
  cfg : Cfg
  /-- `lex_flags.allow_wholeline_comments.unwrap_or(false)` -/
  comments : Bool
  /-- `Rule::new(.., re_str, ..).is_ok()`: the regex engine accepts `\A(?:re_str)` under the flags -/
  compiles : List Char → Bool

/-- `mk_error(kind, off)` -/
def mkErr (kind : EKind) (off : Nat) : Err := ⟨kind, [(off, off)]⟩

def ofLineKind : ErrKind → EKind
  | .missingSpace => .missingSpace
  | .invalidStartState => .invalidStartState
  | .invalidName => .invalidName

/-- `add_duplicate_occurrence`: the first error of the same kind whose first span is `orig` gets
`dup` appended; otherwise a new error `[orig, dup]` is pushed. (`e.spans[0]` cannot panic: no error
is built with an empty span list; the model reads it with `head?`.) -/
def addDup : List Err → EKind → (Nat × Nat) → (Nat × Nat) → List Err
  | [], kind, orig, dup => [⟨kind, [orig, dup]⟩]
  | e :: es, kind, orig, dup =>
    if e.kind = kind ∧ e.spans.head? = some orig then ⟨e.kind, e.spans ++ [dup]⟩ :: es
    else e :: addDup es kind orig dup

/-- `INITIAL_START_STATE_NAME` -/
def initialName : List Char := ['I', 'N', 'I', 'T', 'I', 'A', 'L']

/-- the parser state built by `new_with_lex_flags` -/
def initState : PState := ⟨[⟨0, initialName, (0, 0), false⟩], [], []⟩

/-- `self.start_states.iter().find(|r| r.name == state)` -/
def findState (sts : List StartState) (n : List Char) : Option StartState :=
  sts.find? (fun s => s.name == n)

/-- `self.rules.iter().any(|r| r.name() == Some(name))`: the first rule of that name -/
def findRule (rules : List Rule) (n : List Char) : Option Rule :=
  rules.find? (fun r => r.name == some n)

/-! ### Positions -/

/-- `RE_LEADING_WS.find(&self.src[i..]).map(|m| m.end() + i).unwrap_or(i)` and its two siblings -/
def skipAt (p : Char → Bool) (src : List Char) (i : Nat) : Option Nat :=
  (dropB src i).map fun r => i + byteLen (r.takeWhile p)

def parseWs := skipAt isPWS
def parseNl := skipAt isLineSep
def parseSpaces := skipAt isSpaceSep

/-- `lookahead_is(s, i)` -/
def lookaheadIs (s : List Char) (src : List Char) (i : Nat) : Option (Option Nat) :=
  (dropB src i).map fun r => if s.isPrefixOf r then some (i + byteLen s) else none

/-- `RE_LINE_SEP.find(&self.src[i..]).map(|m| m.start()).unwrap_or(self.src.len() - i)` -/
def lineLenAt (src : List Char) (i : Nat) : Option Nat :=
  (dropB src i).map fun r => byteLen (r.takeWhile (fun c => !isLineSep c))

/-- `allow_wholeline_comments.unwrap_or(false) && self.lookahead_is("//", i).is_some()` -/
def commentAt (env : Env) (src : List Char) (i : Nat) : Option Bool :=
  if env.comments then (lookaheadIs ['/', '/'] src i).map Option.isSome else some false

/-! ### Declarations -/

/-- the `for (name, name_span) in start_states` loop of `declare_start_states` with
`validate_start_state`; `base` is the offset of the line, the spans of `names` are relative to it.
`Err(e)` is returned as `errs ++ [e]`. -/
def declareStates (excl : Bool) (base : Nat) :
    List (List Char × Nat × Nat) → PState → Except (List Err) PState
  | [], st => .ok st
  | (n, a, b) :: rest, st =>
    if !validStateName n then .error (st.errs ++ [mkErr .invalidStartStateName (base + a)])
    else
      match findState st.states n with
      | some s =>
        declareStates excl base rest
          { st with errs := addDup st.errs .duplicateStartState s.span (base + a, base + b) }
      | none =>
        declareStates excl base rest
          { st with states := st.states ++ [⟨st.states.length, n, (base + a, base + b), excl⟩] }

/-- where `declare_start_states` leaves `i`: the end of the last name -/
def lastEnd (names : List (List Char × Nat × Nat)) : Nat :=
  match names.getLast? with
  | some (_, _, b) => b
  | none => 0

/-- what `parse_declaration` does with the line `raw` that starts at offset `i`, short of the final
`parse_ws`: the new state and where `declare_start_states` leaves `i` (relative to the line) -/
def declLineStep (i : Nat) (raw : List Char) (st : PState) : Except (List Err) (Nat × PState) :=
  match declLineParts isPWS raw with
  | none => .error (st.errs ++ [mkErr .unknownDeclaration i])
  | some (excl, names) =>
    match declareStates excl i names st with
    | .error es => .error es
    | .ok st' => .ok (lastEnd names, st')

/-- `parse_declaration` + `declare_start_states` -/
def parseDeclaration (src : List Char) (i : Nat) (st : PState) :
    Option (Except (List Err) (Nat × PState)) :=
  (lineLenAt src i).bind fun ll =>
  (sliceB src i (i + ll)).bind fun raw =>
    match declLineStep i raw st with
    | .error es => some (.error es)
    | .ok (e, st') => (parseWs src (i + e)).map fun i' => .ok (i', st')

/-- the `loop` of `parse_declarations` -/
def declLoop (env : Env) (src : List Char) : Nat → Nat → PState → Option (Except (List Err) (Nat × PState))
  | 0, _, _ => none
  | fuel + 1, i, st =>
    (parseWs src i).bind fun i =>
    (commentAt env src i).bind fun c =>
      if c then (lineLenAt src i).bind fun ll => declLoop env src fuel (i + ll) st
      else if i = byteLen src then some (.error (st.errs ++ [mkErr .prematureEnd i]))
      else
        (lookaheadIs ['%', '%'] src i).bind fun p =>
          match p with
          | some j => (parseSpaces src j).map fun k => .ok (k, st)
          | none =>
            (parseDeclaration src i st).bind fun r =>
              match r with
              | .error es => some (.error es)
              | .ok (i', st') => declLoop env src fuel i' st'

/-! ### Rules -/

/-- `get_start_state_by_name` for the target of a rule: `none` = unknown name -/
def resolveTarget (sts : List StartState) : Option (Nat × List Char) → Option (Option (Nat × Nat))
  | none => some none
  | some (op, n) => (findState sts n).map fun s => some (s.id, op)

/-- `….map(|s| self.get_start_state_by_name(off, s)).collect::<Result<Vec<_>, _>>()` -/
def resolveAll (sts : List StartState) : List (List Char) → Option (List Nat)
  | [] => some []
  | n :: ns =>
    match findState sts n with
    | none => none
    | some s => (resolveAll sts ns).map (s.id :: ·)

/-- the rest of the `if !dupe { … }` block of `parse_rule` once `parse_start_states` has split off the
`<a,b>` prefix and unescaped the regular expression (`r`): name lookups, `Rule::new`, push -/
def pushParsed (env : Env) (i : Nat) (name : Option (List Char)) (span : Nat × Nat)
    (tgt : Option (Nat × Nat)) (st : PState) (r : Except ErrKind (List (List Char) × List Char)) :
    Except (List Err) PState :=
  match r with
  | .error k => .error (st.errs ++ [mkErr (ofLineKind k) i])
  | .ok (names, re) =>
    match resolveAll st.states names with
    | none => .error (st.errs ++ [mkErr .unknownStartState i])
    | some ids =>
      if env.compiles re then
        .ok { st with rules := st.rules ++ [⟨st.rules.length, name, span, re, ids, tgt⟩] }
      else .error (st.errs ++ [mkErr .regexError i])

/-- the `if !dupe { … }` block of `parse_rule`: start-state prefix, regular expression, `Rule::new`,
push. `before` is `&line[..rspace]`. -/
def pushRule (env : Env) (i : Nat) (before : List Char) (name : Option (List Char)) (span : Nat × Nat)
    (tgt : Option (Nat × Nat)) (st : PState) : Option (Except (List Err) PState) :=
  (parseStartStates env.cfg isPWS (trimEndUnescaped isPWS before)).map (pushParsed env i name span tgt st)

/-- `parse_rule` on the line `raw` that starts at offset `i`, short of the returned position -/
def ruleLineStep (env : Env) (i : Nat) (raw : List Char) (st : PState) :
    Option (Except (List Err) PState) :=
  let line := trimEnd isPWS raw
  match splitLast isSpaceSep line with
  | none => some (.error (st.errs ++ [mkErr .missingSpace i]))
  | some (before, _, _) =>
    let rspace := byteLen before
    (dropB line (rspace + 1)).bind fun after =>
      match targetOf after with
      | none => some (.error (st.errs ++ [mkErr .invalidStartState (rspace + i)]))
      | some (target, orig) =>
        match resolveTarget st.states target with
        | none => some (.error (st.errs ++ [mkErr .unknownStartState (i + rspace + 1)]))
        | some tgt =>
          if isSkipName orig then
            pushRule env i before none (i + rspace + 1, i + rspace + 1) tgt st
          else if !quotedOk orig then some (.error (st.errs ++ [mkErr .invalidName (i + rspace + 1)]))
          else
            let name := (orig.drop 1).dropLast
            let off := i + byteLen line - byteLen orig
            let span := (off + 1, off + byteLen orig - 1)
            match findRule st.rules name with
            | some r => some (.ok { st with errs := addDup st.errs .duplicateName r.span span })
            | none => pushRule env i before (some name) span tgt st

/-- `parse_rule` -/
def parseRule (env : Env) (src : List Char) (i : Nat) (st : PState) :
    Option (Except (List Err) (Nat × PState)) :=
  (lineLenAt src i).bind fun ll =>
  (sliceB src i (i + ll)).bind fun raw =>
    (ruleLineStep env i raw st).map fun r =>
      match r with
      | .error es => .error es
      | .ok st' => .ok (i + ll, st')

/-- the `loop` of `parse_rules` -/
def ruleLoop (env : Env) (src : List Char) : Nat → Nat → PState → Option (Except (List Err) (Nat × PState))
  | 0, _, _ => none
  | fuel + 1, i, st =>
    (parseNl src i).bind fun i =>
    (lineLenAt src i).bind fun ll =>
    (commentAt env src i).bind fun c =>
      if c then ruleLoop env src fuel (i + ll) st
      else
        (parseWs src i).bind fun j =>
          if j ≠ i then
            ruleLoop env src fuel (i + ll)
              { st with errs := st.errs ++ [⟨.verbatimNotSupported, [(i, i + ll)]⟩] }
          else if i = byteLen src then some (.ok (i, st))
          else
            (lookaheadIs ['%', '%'] src i).bind fun p =>
              if p.isSome then some (.ok (i, st))
              else
                (parseRule env src i st).bind fun r =>
                  match r with
                  | .error es => some (.error es)
                  | .ok (i', st') => ruleLoop env src fuel i' st'

/-! ### The whole specification -/

/-- `if errs.is_empty() { Ok(..) } else { Err(errs) }` -/
def finish (st : PState) : Except (List Err) (List StartState × List Rule) :=
  if st.errs.isEmpty then .ok (st.states, st.rules) else .error st.errs

/-- the end of `parse`, after the two sections: `i` is where `parse_rules` stopped -/
def parseEnd (src : List Char) (i : Nat) (st : PState) :
    Option (Except (List Err) (List StartState × List Rule)) :=
  (lookaheadIs ['%', '%'] src i).bind fun p =>
    match p with
    | some j =>
      (parseWs src j).map fun k =>
        if k = byteLen src then finish st
        else .error (st.errs ++ [mkErr .routinesNotSupported i])
    | none =>
      -- `assert_eq!(i, self.src.len())`
      if i = byteLen src then some (finish st) else none

/-- `parse` after `parse_rules` returned `r` -/
def afterRules (src : List Char) (r : Except (List Err) (Nat × PState)) :
    Option (Except (List Err) (List StartState × List Rule)) :=
  match r with
  | .error es => some (.error es)
  | .ok (i, st) => parseEnd src i st

/-- `parse` after `parse_declarations` returned `r` -/
def afterDecls (env : Env) (fuel : Nat) (src : List Char) (r : Except (List Err) (Nat × PState)) :
    Option (Except (List Err) (List StartState × List Rule)) :=
  match r with
  | .error es => some (.error es)
  | .ok (i, st) => (ruleLoop env src fuel i st).bind (afterRules src)

/-- `LexParser::new_with_lex_flags(src, start, flags)` = `parse(start)` on the initial state, with
the fuel given; `none` = a panic (slice off a character boundary, the `assert_eq!`) or out of fuel -/
def parseWith (env : Env) (fuel : Nat) (src : List Char) (start : Nat) :
    Option (Except (List Err) (List StartState × List Rule)) :=
  (parseWs src start).bind fun i =>
    (declLoop env src fuel i initState).bind (afterDecls env fuel src)

/-- the parser with fuel `|src| + 1` -/
def parseSpec (env : Env) (src : List Char) (start : Nat) :
    Option (Except (List Err) (List StartState × List Rule)) :=
  parseWith env (byteLen src + 1) src start

end GrmVerif.LexSpecParse
