import GrmVerif.Model.Grammar
/-!
Faithful models of the two fixed-point loops of cfgrammar:

* `YaccFirsts::new`  (cfgrammar/src/lib/yacc/firsts.rs)   → `firstsNew`
* `YaccFollows::new` (cfgrammar/src/lib/yacc/follows.rs)  → `followsNew`

Transcription rules (CONTRIBUTING.md): a `Vob` is a `List Bool`, a `Vec<Vob>` a list of rows; `&mut`
state is threaded through and returned together with the `changed` flag; every `for` loop is a fold over
the same index sequence in the same order (`iter_rules` = `0..rules_len`, `rule_to_prods(r)` = the
productions of `r` in increasing index order = `Grammar.prodsOf`, `iter_pidxs` = `0..prods_len`,
`iter_tidxs` = `0..tokens_len`); `break` ends the recursion over the remaining symbols; the outer
`loop { … if !changed { return } }` takes fuel (`Outcome.fuelOut` when it runs out). Indexing a `Vob` /
`Vec` out of range panics in Rust: the only indices that do not come from an iterator over the very
dimension they index are the ones stored in the grammar's symbols (and `start_rule_idx` /
`eof_token_idx`), so these are checked against the table dimensions `rules_len` / `tokens_len` where
the Rust code first uses them and the model answers `Outcome.panic` (`none` in the inner functions).
Core Lean only.
-/
namespace GrmVerif.Impl
open GrmVerif

/-! ### bit vectors -/

/-- `v[i]` -/
def vget (v : List Bool) (i : Nat) : Bool := v.getD i false
/-- `v.set(i, true)` (the vector afterwards) -/
def vset (v : List Bool) (i : Nat) : List Bool := v.set i true
/-- `m[r][t]` -/
def mget (m : List (List Bool)) (r t : Nat) : Bool := vget (m.getD r []) t
/-- `m[r].set(t, true)` (the table afterwards) -/
def mset (m : List (List Bool)) (r t : Nat) : List (List Bool) := m.set r (vset (m.getD r []) t)
/-- `vec![Vob::from_elem(false, ntoks); nrules]` -/
def mnew (nrules ntoks : Nat) : List (List Bool) := List.replicate nrules (List.replicate ntoks false)

/-- what one of the two constructors does -/
inductive Outcome (α : Type) where
  | done (a : α)
  | panic
  | fuelOut
deriving Repr, DecidableEq

/-- `for a in l { s = f(s, a)? }` — `none` = a panic inside the body -/
def iterM {σ α : Type} (f : σ → α → Option σ) : List α → σ → Option σ
  | [], s => some s
  | a :: l, s =>
    match f s a with
    | none => none
    | some s' => iterM f l s'

/-- `loop { let mut changed = false; round; if !changed { return } }` with fuel -/
def runLoop {σ : Type} (round : σ → Option (σ × Bool)) : Nat → σ → Outcome σ
  | 0, _ => .fuelOut
  | fuel + 1, st =>
    match round st with
    | none => .panic
    | some (st', changed) => if changed then runLoop round fuel st' else .done st'

/-! ### `YaccFirsts::new` -/

/-- `YaccFirsts { firsts, epsilons }` -/
structure Firsts where
  firsts : List (List Bool)
  epsilons : List Bool
deriving Repr

/-- `is_set` (out of range = not set, for the queries of the theorems) -/
def Firsts.isSet (f : Firsts) (r t : Nat) : Bool := mget f.firsts r t
/-- `is_epsilon_set` -/
def Firsts.isEpsilonSet (f : Firsts) (r : Nat) : Bool := vget f.epsilons r

/-- tables and the `changed` flag of the current round -/
abbrev FS := Firsts × Bool

/-- `if !firsts.set(ridx, tidx) { changed = true; }` (`set` returns whether the bit was already set) -/
def setTok (ridx tidx : Nat) (s : FS) : FS :=
  if mget s.1.firsts ridx tidx then s
  else ({ s.1 with firsts := mset s.1.firsts ridx tidx }, true)

/-- `if !firsts.is_epsilon_set(ridx) { firsts.epsilons.set(ridx, true); changed = true; }` -/
def setEps (ridx : Nat) (s : FS) : FS :=
  if vget s.1.epsilons ridx then s
  else ({ s.1 with epsilons := vset s.1.epsilons ridx }, true)

/-- body of `for tidx in grm.iter_tidxs()`:
`if firsts.is_set(s_ridx, tidx) && !firsts.set(ridx, tidx) { changed = true; }` -/
def unionTok (ridx q : Nat) (s : FS) (tidx : Nat) : FS :=
  if mget s.1.firsts q tidx then setTok ridx tidx s else s

def unionRow (G : Grammar) (ridx q : Nat) (s : FS) : FS :=
  (List.range G.ntoks).foldl (unionTok ridx q) s

/-- the epsilon part of the `Symbol::Rule` arm; `last` is `sidx == prod.len() - 1` -/
def epsLast (ridx q : Nat) (last : Bool) (s : FS) : FS :=
  if vget s.1.epsilons q && last then setEps ridx s else s

/-- `for (sidx, sym) in prod.iter().enumerate()` over the symbols from `sidx` on (`sidx` is the last
index exactly when no symbol remains after `sym`); the loop is left by `break` after a token and
after a rule whose epsilon bit is not set -/
def firstSyms (G : Grammar) (ridx : Nat) : List Sym → FS → Option FS
  | [], s => some s
  | .tok t :: _, s => if t < G.ntoks then some (setTok ridx t s) else none
  | .rule q :: rest, s =>
    if q < G.nrules then
      let s2 := epsLast ridx q rest.isEmpty (unionRow G ridx q s)
      if vget s2.1.epsilons q then firstSyms G ridx rest s2 else some s2
    else none

/-- body of `for &pidx in grm.rule_to_prods(ridx).iter()` -/
def firstProd (G : Grammar) (ridx : Nat) (s : FS) (pidx : Nat) : Option FS :=
  if (G.rhs pidx).isEmpty then some (setEps ridx s) else firstSyms G ridx (G.rhs pidx) s

/-- body of `for ridx in grm.iter_rules()` -/
def firstRule (G : Grammar) (s : FS) (ridx : Nat) : Option FS :=
  iterM (firstProd G ridx) (G.prodsOf ridx) s

/-- one pass of the outer `loop`, starting with `changed = false` -/
def firstRound (G : Grammar) (st : Firsts) : Option FS :=
  iterM (firstRule G) (List.range G.nrules) (st, false)

def firstsInit (G : Grammar) : Firsts := ⟨mnew G.nrules G.ntoks, List.replicate G.nrules false⟩

/-- `YaccFirsts::new(grm)`, the outer loop running at most `fuel` rounds -/
def firstsNew (G : Grammar) (fuel : Nat) : Outcome Firsts := runLoop (firstRound G) fuel (firstsInit G)

/-! ### `YaccFollows::new` -/

/-- `follows` and the `changed` flag of the current round -/
abbrev WS := List (List Bool) × Bool

/-- `if follows[q].set(tidx, true) { changed = true; }` (`Vob::set` returns whether the bit changed) -/
def setFollow (q tidx : Nat) (s : WS) : WS :=
  if mget s.1 q tidx then s else (mset s.1 q tidx, true)

/-- body of the `if epsilon { for tidx in grm.iter_tidxs() {…} }` loop:
`if follows[ridx][tidx] && follows[s_ridx].set(tidx, true) { changed = true; }` -/
def inheritTok (ridx q : Nat) (s : WS) (tidx : Nat) : WS :=
  if mget s.1 ridx tidx then setFollow q tidx s else s

def inheritRow (G : Grammar) (ridx q : Nat) (s : WS) : WS :=
  (List.range G.ntoks).foldl (inheritTok ridx q) s

/-- `if follows[q].or(firsts.firsts(nxt_ridx)) { changed = true; }` — `Vob::or` sets every bit of the
receiver that is set in the argument and returns whether any bit changed -/
def orFirsts (G : Grammar) (fst : Firsts) (q n : Nat) (s : WS) : WS :=
  (List.range G.ntoks).foldl (fun s t => if mget fst.firsts n t then setFollow q t s else s) s

/-- `for nxt in &prod[sidx + 1..]` -/
def nxtSyms (G : Grammar) (fst : Firsts) (q : Nat) : List Sym → WS → Option WS
  | [], s => some s
  | .tok t :: _, s => if t < G.ntoks then some (setFollow q t s) else none
  | .rule n :: rest, s =>
    if n < G.nrules then
      let s1 := orFirsts G fst q n s
      if vget fst.epsilons n then nxtSyms G fst q rest s1 else some s1
    else none

/-- body of `for sidx in (0..prod.len()).rev()` for `sym = prod[sidx]`, `rest = prod[sidx + 1..]`;
the state carries the local `epsilon` -/
def followSym (G : Grammar) (fst : Firsts) (ridx : Nat) (sym : Sym) (rest : List Sym) (se : WS × Bool) :
    Option (WS × Bool) :=
  match sym with
  | .tok _ => some (se.1, false)
  | .rule q =>
    if q < G.nrules then
      let s2 := if se.2 then inheritRow G ridx q se.1 else se.1
      let epsilon := if !vget fst.epsilons q then false else se.2
      match nxtSyms G fst q rest s2 with
      | none => none
      | some s3 => some (s3, epsilon)
    else none

/-- `let mut epsilon = true; for sidx in (0..prod.len()).rev() {…}` on the symbols `prod[i..]`: the
indices `len-1, …, i` are visited in this (decreasing) order, i.e. the tail is processed before the
head -/
def followSyms (G : Grammar) (fst : Firsts) (ridx : Nat) : List Sym → WS → Option (WS × Bool)
  | [], s => some (s, true)
  | sym :: rest, s =>
    match followSyms G fst ridx rest s with
    | none => none
    | some se => followSym G fst ridx sym rest se

/-- body of `for pidx in grm.iter_pidxs()` -/
def followProd (G : Grammar) (fst : Firsts) (s : WS) (pidx : Nat) : Option WS :=
  match followSyms G fst (G.lhs pidx) (G.rhs pidx) s with
  | none => none
  | some se => some se.1

def followRound (G : Grammar) (fst : Firsts) (w : List (List Bool)) : Option WS :=
  iterM (followProd G fst) (List.range G.nprods) (w, false)

/-- `YaccFollows::new(grm)` with `fst = grm.firsts()`, the outer loop running at most `fuel` rounds -/
def followsNew (G : Grammar) (fst : Firsts) (fuel : Nat) : Outcome (List (List Bool)) :=
  if G.startRule < G.nrules && G.eof < G.ntoks then
    runLoop (followRound G fst) fuel (mset (mnew G.nrules G.ntoks) G.startRule G.eof)
  else .panic

/-- rounds that always suffice (`Props/C17.lean`): every non-final round sets a new bit -/
def firstsFuel (G : Grammar) : Nat := G.nrules * (G.ntoks + 1) + 1
def followsFuel (G : Grammar) : Nat := G.nrules * G.ntoks + 1

end GrmVerif.Impl
