/-
Model of `cfgrammar::newlinecache::NewlineCache` (cfgrammar/src/lib/newlinecache.rs).

Texts are `List Char`; every position is a UTF-8 *byte* offset, computed with `Char.utf8Size`.
A Rust panic (index out of range, `usize` underflow) is `none` of the outer `Option`.
Core Lean only: this file is linked into the native driver.
-/
namespace GrmVerif.Newline

/-- `NewlineCache { newlines, trailing_bytes }`. `newlines` is never empty in the Rust code. -/
structure Cache where
  newlines : List Nat
  trailing : Nat
deriving Repr, BEq, DecidableEq

/-- `self.newlines.last().unwrap()` (the vector is never empty; `0` is only a totalising default
that no reachable cache uses, see `Props/C19.lean: reachable_nonempty`). -/
def lastNl (c : Cache) : Nat := c.newlines.getLast?.getD 0

/-- `NewlineCache::new` -/
def Cache.new : Cache := ⟨[0], 0⟩

/-- byte length of a text -/
def byteLen : List Char → Nat
  | [] => 0
  | c :: cs => c.utf8Size + byteLen cs

/-- The body of `feed`: `char_indices().filter_map(..)` pushed onto `newlines`, `trailing_bytes`
updated on the way. `off` is the `char_indices` offset inside the chunk. -/
def feedGo (startPos : Nat) : List Char → Nat → List Nat → Nat → Cache
  | [], _, nls, tr => ⟨nls, tr⟩
  | ch :: rest, off, nls, tr =>
    if ch = '\n' then feedGo startPos rest (off + 1) (nls ++ [startPos + off + 1]) 0
    else feedGo startPos rest (off + ch.utf8Size) nls (tr + ch.utf8Size)

/-- `NewlineCache::feed` -/
def feed (c : Cache) (s : List Char) : Cache :=
  feedGo (lastNl c + c.trailing) s 0 c.newlines c.trailing

/-- `feed_len` -/
def feedLen (c : Cache) : Nat := lastNl c + c.trailing

/-- `.iter().enumerate().rev().find(|(_, off)| off <= byte)`: index of the last entry `≤ byte`. -/
def rfindLe (byte : Nat) : List Nat → Nat → Option Nat → Option Nat
  | [], _, acc => acc
  | x :: xs, i, acc => rfindLe byte xs (i + 1) (if x ≤ byte then some i else acc)

/-- `byte_to_line_num`. The outer `Option` is the Rust `Option`; the `.unwrap()` on `find` is
modelled by returning `none` too (it is unreachable: `newlines[0] = 0 ≤ byte`; see
`line_num_total`). -/
def byteToLineNum (c : Cache) (byte : Nat) : Option Nat :=
  if byte > feedLen c then none
  else
    let lastNewline := lastNl c
    let lastByte := lastNewline + c.trailing
    if byte < lastByte && byte > lastNewline then some c.newlines.length
    else (rfindLe byte c.newlines 0 none).map (· + 1)

/-- `line_num_to_byte` -/
def lineNumToByte (c : Cache) (lineNum : Nat) : Option Nat :=
  if lineNum > c.newlines.length || lineNum == 0 then none
  else c.newlines[lineNum - 1]?

/-- `byte_to_line_byte` -/
def byteToLineByte (c : Cache) (byte : Nat) : Option Nat :=
  (byteToLineNum c byte).bind (lineNumToByte c)

/-- `src[line_byte..]` for a `line_byte` on a character boundary; `none` is the slicing panic. -/
def dropBytes : Nat → List Char → Option (List Char)
  | 0, s => some s
  | _ + 1, [] => none
  | n + 1, c :: cs => if c.utf8Size ≤ n + 1 then dropBytes (n + 1 - c.utf8Size) cs else none

/-- The column loop of `byte_to_line_num_and_col_num`: `target = byte - line_byte`. -/
def colLoop (target : Nat) : List Char → Nat → Nat → Option Char → Nat
  | [], _, column, _ => column
  | c :: cs, cOff, column, skip =>
    let (column, skip) := if some c != skip then (column + 1, none) else (column, skip)
    let skip := if c = '\r' then some '\n' else skip
    if cOff = target then column else colLoop target cs (cOff + c.utf8Size) column skip

/-- `byte_to_line_num_and_col_num`. Outer `Option` = panic (`none`) or not; inner = Rust's `Option`. -/
def byteToLineCol (c : Cache) (src : List Char) (byte : Nat) : Option (Option (Nat × Nat)) :=
  if byte > feedLen c || byteLen src != feedLen c then some none
  else
    match byteToLineNum c byte with
    | none => some none
    | some lineNum =>
      if byte = byteLen src then
        match dropBytes (lastNl c) src with
        | none => none
        | some tl => some (some (c.newlines.length, tl.length + 1))
      else
        match lineNumToByte c lineNum with
        | none => none
        | some lineByte =>
          match dropBytes lineByte src with
          | none => none
          | some tl => some (some (lineNum, colLoop (byte - lineByte) tl 0 0 none))

/-- Contract of `slice::binary_search` on a strictly increasing slice: `Ok idx` (`inl`) if present,
else `Err (number of smaller elements)` (`inr`). -/
def bsearch (l : List Nat) (x : Nat) : Sum Nat Nat :=
  if l.contains x then .inl (l.countP (· < x)) else .inr (l.countP (· < x))

/-- first `match` of `span_line_bytes`: `(st, st_line)`; `none` = panic (`j - 1` underflow or index
out of range). -/
def spanStart (n : List Nat) (start : Nat) : Option (Nat × Nat) :=
  match bsearch n start with
  | .inl j => n[j]?.map (fun v => (v, j + 1))
  | .inr j => if j = 0 then none else n[j - 1]?.map (fun v => (v, j))

/-- second `match` of `span_line_bytes`: `en`; `none` = index panic. `fl` is
`newlines.last().unwrap() + trailing_bytes`. -/
def spanEnd (n : List Nat) (fl stLine stop : Nat) : Option Nat :=
  match bsearch (n.drop stLine) stop with
  | .inl j =>
    if stLine + j = n.length - 1 then some fl
    else n[stLine + j + 1]?.map (· - 1)
  | .inr j =>
    if stLine + j = n.length then some fl
    else n[stLine + j]?.map (· - 1)

/-- `span_line_bytes`; `none` = panic. -/
def spanLineBytes (c : Cache) (start stop : Nat) : Option (Nat × Nat) :=
  match spanStart c.newlines start with
  | none => none
  | some (st, stLine) =>
    (spanEnd c.newlines (lastNl c + c.trailing) stLine stop).map (fun e => (st, e))

end GrmVerif.Newline
