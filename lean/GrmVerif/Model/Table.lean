import GrmVerif.Model.Automaton
/-
Model of `lrtable::StateTable::new` (lrtable/src/lib/statetable.rs), cell by cell.

The Rust code runs, per state, a loop over the closed items (hash-map iteration order — the dump
preserves it) that writes reduce/accept cells, then a loop over the edges that writes gotos and
shifts and resolves shift/reduce clashes. Cells of different (state, token) pairs never interact,
so the model computes each cell from the sub-sequence of items that mention its token, in the same
order. Core Lean only.
-/
namespace GrmVerif.Table
open GrmVerif

/-- complete items of the state whose context contains `t`, in iteration order -/
def reduceCands (G : Grammar) (items : List Item) (t : Nat) : List Nat :=
  (items.filter (fun i => i.dot ≥ (G.rhs i.p).length && i.la.contains t)).map (·.p)

/-- outcome of the reduce/accept loop for one cell -/
inductive RStep where
  | ok (cell : Act) (rr : List (Nat × Nat))     -- rr: (kept, displaced) in the order recorded
  | acceptReduce (other : Option Nat)            -- `StateTableErrorKind::AcceptReduceConflict`
  | internal                                      -- `panic!("Internal error")`
deriving Repr, DecidableEq

/-- one iteration of `for tidx in ctx.iter_set_bits(..)` for production `p`, token `t` -/
def reduceStep (G : Grammar) (t : Nat) (cell : Act) (rr : List (Nat × Nat)) (p : Nat) : RStep :=
  match cell with
  | .reduce r =>
    if p = G.startProd ∧ t = G.eof then .acceptReduce (some r)
    else if p < r then .ok (.reduce p) (rr ++ [(p, r)])
    else if p > r then .ok cell (rr ++ [(r, p)])
    else .ok cell rr
  | .accept => .acceptReduce none
  | .error => if p = G.startProd ∧ t = G.eof then .ok .accept rr else .ok (.reduce p) rr
  | .shift _ => .internal

def reducePhase (G : Grammar) (t : Nat) : List Nat → Act → List (Nat × Nat) → RStep
  | [], cell, rr => .ok cell rr
  | p :: ps, cell, rr =>
    match reduceStep G t cell rr p with
    | .ok cell' rr' => reducePhase G t ps cell' rr'
    | e => e

/-- `resolve_shift_reduce`: the new cell and whether a shift/reduce conflict is recorded;
`none` = `panic!("Not supported.")` -/
def resolveSR (tokPrec prodPrec : Option Prec) (tgt r : Nat) : Option (Act × Bool) :=
  match tokPrec, prodPrec with
  | some tp, some pp =>
    if tp.level = pp.level then
      match tp.kind, pp.kind with
      | 0, 0 => some (.reduce r, false)
      | 1, 1 => some (.shift tgt, false)
      | 2, 2 => some (.error, false)
      | _, _ => none
    else if tp.level > pp.level then some (.shift tgt, false)
    else some (.reduce r, false)
  | _, _ => some (.shift tgt, true)

/-- the shift arm of the edge loop for one cell; `none` = panic -/
def shiftStep (G : Grammar) (t : Nat) (cell : Act) (tgt : Nat) : Option (Act × Bool) :=
  match cell with
  | .shift x => if x = tgt then some (cell, false) else none
  | .reduce r => resolveSR ((G.tokPrec[t]?).getD none) ((G.prodPrec[r]?).getD none) tgt r
  | .accept => none
  | .error => some (.shift tgt, false)

inductive Cell where
  | ok (cell : Act) (rr : List (Nat × Nat)) (sr : Option Nat) (stateAction : Bool)
  | acceptReduce (other : Option Nat)
  | panic
deriving Repr, DecidableEq

/-- the whole life of cell `(s, t)`: `items` = closed items of `s`, `tgt` = edge of `s` on token `t`.
The `state_actions` bit is set by either loop and cleared again when `%nonassoc` empties the cell. -/
def cellOf (G : Grammar) (items : List Item) (tgt : Option Nat) (t : Nat) : Cell :=
  let cands := reduceCands G items t
  match reducePhase G t cands .error [] with
  | .acceptReduce o => .acceptReduce o
  | .internal => .panic
  | .ok cell rr =>
    match tgt with
    | none => .ok cell rr none (!cands.isEmpty)
    | some tg =>
      match shiftStep G t cell tg with
      | none => .panic
      | some (cell', rec) =>
        .ok cell' rr (if rec then (match cell with | .reduce r => some r | _ => none) else none)
          (cell' != .error)

/-! ### the derived views, computed from the final cells as the second half of `new` does -/

def isShift : Act → Bool | .shift _ => true | _ => false
def isReduce : Act → Bool | .reduce _ => true | _ => false

/-- `state_shifts` -/
def stateShifts (row : List Act) : List Nat :=
  (List.range row.length).filter (fun t => isShift (row.getD t .error))

/-- `nt_depth`: insertion in token order, a later production with the same (rule, length) key
overwrites the earlier one; returned as an association list keyed by (rule, length) -/
def ntDepth (G : Grammar) : List Act → List ((Nat × Nat) × Nat) → List ((Nat × Nat) × Nat)
  | [], acc => acc
  | .reduce p :: rest, acc =>
    let key := (G.lhs p, (G.rhs p).length)
    ntDepth G rest ((acc.filter (fun e => e.1 != key)) ++ [(key, p)])
  | _ :: rest, acc => ntDepth G rest acc

/-- `core_reduces` as a sorted list of productions -/
def coreReduces (G : Grammar) (row : List Act) : List Nat :=
  let ps := (ntDepth G row []).map (·.2)
  (List.range G.nprods).filter (fun p => ps.contains p)

def notShiftAccept : Act → Bool
  | .shift _ => false
  | .accept => false
  | _ => true

/-- `reduce_only_state` -/
def reduceOnly (G : Grammar) (row : List Act) : Bool :=
  row.all notShiftAccept &&
  (ntDepth G row []).length == 1

end GrmVerif.Table
