import GrmVerif.Model.Actions
/-
Specification side of C08: from the final parse tree, which action calls must have happened, in
which order, with which arguments and spans. Core Lean only.
-/
namespace GrmVerif.Act
open GrmVerif

/-- leaves of a tree as lexeme indices, left to right (`Tree.leafIdxs`), mapped to their spans -/
def leafSpans (lexSpan : Nat → Nat × Nat) (t : Tree) : List (Nat × Nat) := (Tree.leafIdxs t).map lexSpan

/-- the span the property prescribes: from the start of the first lexeme to the end of the last
lexeme derived; `none` when no lexeme was derived (then any zero-length span is acceptable) -/
def spanSpec (lexSpan : Nat → Nat × Nat) (t : Tree) : Option (Nat × Nat) :=
  match leafSpans lexSpan t with
  | [] => none
  | f :: rest => some (f.1, ((f :: rest).getLast?.getD f).2)

/-- a call as the specification sees it: production, rule, prescribed span, arguments -/
structure SCall where
  p : Nat
  r : Nat
  span : Option (Nat × Nat)
  args : List Arg

mutual
/-- the calls of a tree: children first (left to right), then the node itself -/
def specCalls (G : Grammar) (lexSpan : Nat → Nat × Nat) : Tree → List SCall
  | .leaf _ _ => []
  | .node p kids => specCallsList G lexSpan kids ++ [⟨p, G.lhs p, spanSpec lexSpan (.node p kids), kids.map argOf⟩]
def specCallsList (G : Grammar) (lexSpan : Nat → Nat × Nat) : List Tree → List SCall
  | [] => []
  | k :: ks => specCalls G lexSpan k ++ specCallsList G lexSpan ks
end

mutual
def treeEq : Tree → Tree → Bool
  | .leaf t i, .leaf t' i' => t == t' && i == i'
  | .node p ks, .node p' ks' => p == p' && treeEqList ks ks'
  | _, _ => false
def treeEqList : List Tree → List Tree → Bool
  | [], [] => true
  | a :: as, b :: bs => treeEq a b && treeEqList as bs
  | _, _ => false
end

def argEq : Arg → Arg → Bool
  | .lexeme t i, .lexeme t' j => t == t' && i == j
  | .value t, .value t' => treeEq t t'
  | _, _ => false

def argsEq : List Arg → List Arg → Bool
  | [], [] => true
  | a :: as, b :: bs => argEq a b && argsEq as bs
  | _, _ => false

/-- does a logged call satisfy the specification's call? -/
def callOk (c : Call) (s : SCall) : Bool :=
  c.p == s.p && c.r == s.r && argsEq c.args s.args &&
  (match s.span with
   | some (a, b) => c.start == a && c.stop == b
   | none => c.start == c.stop)

def logOk : List Call → List SCall → Bool
  | [], [] => true
  | c :: cs, s :: ss => callOk c s && logOk cs ss
  | _, _ => false

end GrmVerif.Act
