import GrmVerif.Model.Recover
import GrmVerif.Model.RankImpl
/-!
Faithful model of the SEARCH of `lrpar/src/lib/cpctplus.rs` + `lrpar/src/lib/dijkstra.rs`: what
`CPCTPlus::recover` does before the post-processing modelled in `Model/RankImpl.lean`.

* `RTree` is `Cactus<RepairMerge<StorageT>>`: a parent chain of `Repair(r)` / `Merge(r, alternatives)`
  entries hanging off `Cactus::new().child(Terminator)` (`term`). The alternatives of a `Merge`
  (`Cactus<Cactus<RepairMerge>>`) are a list with the most recently added alternative at the head —
  the order in which `vc.vals()` hands them out.
* `PNode` is `PathFNode` (`pstack` with the top at the HEAD, as everywhere in the model); `compat` is
  `PathFNode::eq` (the merge compatibility; `Hash` looks at `pstack` and `laidx` only, so equal nodes
  hash equally and the `IndexMap` behaves as an association list with that equivalence).
* A bucket `IndexMap<N, N>` is the list of its `(key, value)` entries in INSERTION order:
  `pop()` removes the LAST entry, `entry(k)` finds the first entry whose key is `==` to `k`; on a hit
  `merge` changes the VALUE only (the key keeps the repairs the first node came with).
* `todo : Vec<IndexMap<N, N>>` is an `Array` of buckets indexed by cost, `resize`d by `off + 1` empty
  buckets for every neighbour exactly as in the code.
* `phase1` is the first `loop` of `dijkstra` (stops at the first success node popped from bucket `c`),
  `phase2` the `while let` loop over the rest of bucket `c` (`explore_all = false`: shifts only, only
  neighbours of cost `c`).
* `u16` costs: `checked_add` is modelled (`U16MAX`); a neighbour whose cost overflows is dropped, and
  running out of representable costs returns no nodes, as in the code.
* Panics (`unwrap` on an empty stack, missing goto, `unreachable!()` in the merge closure, index out
  of bounds, `next_lexeme` past the end) are `.panic`; the unbounded loops take fuel (`.fuelOut`), and
  so does every run of reductions under one lookahead (`feed … FUEL`): `.fuelOut` too, in the search
  and (since `recoverTail` runs `rankCndsO`/`applyRepairsO`) in the post-processing.
* NOT modelled: the deadline `finish_by` (the `neighbours` closure and `traverse` give up when
  `Instant::now() >= finish_by`). The model is the code with a deadline that never fires; the harness
  only looks at parses that took < 450 ms in all, which cannot have hit the 500 ms recovery budget.

Core Lean only.
-/
namespace GrmVerif.SearchImpl
open GrmVerif LR Rec RankImpl

/-- `u16::MAX` -/
def U16MAX : Nat := 65535

/-- `Cactus<RepairMerge<StorageT>>` rooted at `Cactus::new().child(RepairMerge::Terminator)` -/
inductive RTree where
  | term
  | rep (parent : RTree) (r : Repair)
  | merge (parent : RTree) (r : Repair) (alts : List RTree)
deriving Inhabited

mutual
/-- derived `PartialEq` of `Cactus<RepairMerge>`: the whole chain, entry by entry -/
def RTree.beq : RTree → RTree → Bool
  | .term, .term => true
  | .term, .rep _ _ => false
  | .term, .merge _ _ _ => false
  | .rep _ _, .term => false
  | .rep p r, .rep p' r' => r == r' && RTree.beq p p'
  | .rep _ _, .merge _ _ _ => false
  | .merge _ _ _, .term => false
  | .merge _ _ _, .rep _ _ => false
  | .merge p r v, .merge p' r' v' => r == r' && RTree.beqList v v' && RTree.beq p p'
def RTree.beqList : List RTree → List RTree → Bool
  | [], [] => true
  | [], _ :: _ => false
  | _ :: _, [] => false
  | a :: as, b :: bs => RTree.beq a b && RTree.beqList as bs
end

/-- `PathFNode` -/
structure PNode where
  pstack : List Nat
  laidx : Nat
  repairs : RTree
  cf : Nat
deriving Inhabited

/-- `PathFNode::last_repair` -/
def lastRepair : RTree → Option Repair
  | .term => none
  | .rep _ r => some r
  | .merge _ r _ => some r

/-- the closure `num_shifts` of `PathFNode::eq`: entries `Repair(Shift)` / `Merge(Shift, _)` from the
tip of the chain until the first other entry -/
def numShifts : RTree → Nat
  | .rep p .shift => numShifts p + 1
  | .merge p .shift _ => numShifts p + 1
  | _ => 0

def isDelete : Option Repair → Bool
  | some .delete => true
  | _ => false

/-- `PathFNode::eq`: same `laidx` and `pstack`; both or neither end in a Delete; the same number of
trailing Shifts -/
def compat (a b : PNode) : Bool :=
  if a.laidx != b.laidx || a.pstack != b.pstack then false
  else if isDelete (lastRepair a.repairs) != isDelete (lastRepair b.repairs) then false
  else numShifts a.repairs == numShifts b.repairs

/-- `ends_with_parse_at_least_shifts`: the first `k` entries of the chain are all Shifts (a chain
that ends earlier hits the `Terminator`: false) -/
def endsWithShifts : Nat → RTree → Bool
  | 0, _ => true
  | k + 1, .rep p .shift => endsWithShifts k p
  | k + 1, .merge p .shift _ => endsWithShifts k p
  | _ + 1, _ => false

/-- the merge closure of `recover` on the repairs of the two nodes: `none` = `unreachable!()` -/
def mergeRepairs (old new : RTree) : Option RTree :=
  if RTree.beq old new then some old
  else
    match old with
    | .rep p r => some (.merge p r [new])
    | .merge p r v => some (.merge p r (new :: v))
    | .term => none

/- `Out` (a proper answer / a panic of the real code / the model's fuel ran out) is defined in
`Model/Out.lean`, so that the post-processing model (`Model/RankImpl.lean`) can use it too. -/

/-- the parser the recoverer works for: grammar, table, the token ids of the lexemes, `token_cost`,
`PARSE_AT_LEAST` -/
structure Env where
  G : Grammar
  A : Automaton
  w : List Nat
  cost : Nat → Nat
  N : Nat

/-- `StateTable::state_actions(st)`; `none` = the state does not exist -/
def stateActionsOf (A : Automaton) (st : Nat) : Option (List Nat) := A.states[st]?.map (·.stateActions)

/-- the `for tidx in state_actions(top)` loop of `CPCTPlus::insert`; `lr_cactus(Some(lexeme), laidx,
laidx + 1, …)` is `Rec.feed` under the inserted token, `new_laidx > laidx` iff it was shifted.
`next_lexeme(n.laidx)` (evaluated for the span of the faulty lexeme) indexes `lexemes[laidx - 1]` when
`laidx ≥ len` and `len ≠ 0`. -/
def insertNbrs (E : Env) (n : PNode) : List Nat → Out (List (Nat × PNode))
  | [] => .ok []
  | t :: ts =>
    if t == E.G.eof then insertNbrs E n ts
    else if n.laidx > E.w.length && E.w.length != 0 then .panic
    else
      match feed E.G E.A t FUEL n.pstack with
      | .shifted s =>
        if n.cf + E.cost t ≤ U16MAX then
          (insertNbrs E n ts).map
            (fun l => (n.cf + E.cost t, ⟨s, n.laidx, .rep n.repairs (.insert t), n.cf + E.cost t⟩) :: l)
        else insertNbrs E n ts
      | .accept _ => insertNbrs E n ts
      | .error _ => insertNbrs E n ts
      | .crash => .panic
      | .fuelOut => .fuelOut

/-- `CPCTPlus::insert` -/
def insertAll (E : Env) (n : PNode) : Out (List (Nat × PNode)) :=
  match n.pstack with
  | [] => .panic
  | st :: _ =>
    match stateActionsOf E.A st with
    | none => .panic
    | some ts => insertNbrs E n ts

/-- `CPCTPlus::delete` -/
def deleteNbrs (E : Env) (n : PNode) : List (Nat × PNode) :=
  if n.laidx == E.w.length then []
  else
    let cf := n.cf + E.cost (nextTok E.G E.w n.laidx)
    if cf ≤ U16MAX then [(cf, ⟨n.pstack, n.laidx + 1, .rep n.repairs .delete, cf⟩)] else []

/-- `CPCTPlus::shift`: `lr_cactus(None, laidx, laidx + 1, …)` is `Rec.feed` under the next real token.
Shifted: a Shift node. Not shifted, the stack changed and the new top accepts: a node with the reduced
stack and UNCHANGED repairs. Reductions that end in an error: nothing. -/
def shiftNbrs (E : Env) (n : PNode) : Out (List (Nat × PNode)) :=
  match feed E.G E.A (nextTok E.G E.w n.laidx) FUEL n.pstack with
  | .shifted s => .ok [(n.cf, ⟨s, n.laidx + 1, .rep n.repairs .shift, n.cf⟩)]
  | .accept s => if n.pstack != s then .ok [(n.cf, ⟨s, n.laidx, n.repairs, n.cf⟩)] else .ok []
  | .error _ => .ok []
  | .crash => .panic
  | .fuelOut => .fuelOut

/-- the `neighbours` closure of `recover` (without the deadline): Inserts unless the last repair is a
Delete, the Delete, the Shift — in this order; `explore_all = false` leaves only the Shift -/
def neighbours (E : Env) (exploreAll : Bool) (n : PNode) : Out (List (Nat × PNode)) :=
  let ins : Out (List (Nat × PNode)) :=
    if isDelete (lastRepair n.repairs) then .ok []
    else if exploreAll then insertAll E n else .ok []
  match ins with
  | .panic => .panic
  | .fuelOut => .fuelOut
  | .ok i =>
    let d := if exploreAll then deleteNbrs E n else []
    match shiftNbrs E n with
    | .panic => .panic
    | .fuelOut => .fuelOut
    | .ok s => .ok (i ++ d ++ s)

/-- the `success` closure of `recover` -/
def success (E : Env) (n : PNode) : Out Bool :=
  if endsWithShifts E.N n.repairs then .ok true
  else
    match n.pstack with
    | [] => .panic
    | st :: _ => .ok (E.A.action st (nextTok E.G E.w n.laidx) == .accept)

/-- `IndexMap<PathFNode, PathFNode>`: `(key, value)` entries in insertion order -/
abbrev Bucket := List (PNode × PNode)

/-- `IndexMap::pop`: remove and return the LAST entry (its value) -/
def popLast (b : Bucket) : Option (Bucket × PNode) :=
  match b.getLast? with
  | none => none
  | some e => some (b.dropLast, e.2)

/-- `match map.entry(nbr.clone()) { Vacant(e) => e.insert(nbr), Occupied(e) => merge(e.get_mut(), nbr) }`;
`none` = the merge closure hit `unreachable!()` -/
def upsert (nbr : PNode) : Bucket → Option Bucket
  | [] => some [(nbr, nbr)]
  | (k, v) :: rest =>
    if compat k nbr then
      (mergeRepairs v.repairs nbr.repairs).map (fun r => (k, { v with repairs := r }) :: rest)
    else (upsert nbr rest).map (fun rest' => (k, v) :: rest')

/-- one iteration of `for (nbr_cost, nbr) in next.drain(..)` in the first loop of `dijkstra` -/
def pushNbr (todo : Array Bucket) (off : Nat) (nbr : PNode) : Option (Array Bucket) :=
  let todo := todo ++ Array.replicate (off + 1) ([] : Bucket)
  match todo[off]? with
  | none => none
  | some b => (upsert nbr b).map (fun b' => todo.setIfInBounds off b')

def pushAll : Array Bucket → List (Nat × PNode) → Option (Array Bucket)
  | todo, [] => some todo
  | todo, (off, nbr) :: rest =>
    match pushNbr todo off nbr with
    | none => none
    | some todo' => pushAll todo' rest

/-- the `for` loop of the second loop of `dijkstra`: only neighbours of cost `c` -/
def upsertAll (c : Nat) : Bucket → List (Nat × PNode) → Option Bucket
  | b, [] => some b
  | b, (off, nbr) :: rest =>
    if off == c then
      match upsert nbr b with
      | none => none
      | some b' => upsertAll c b' rest
    else upsertAll c b rest

/-- the `while let Some((_, n)) = scs_todo.pop()` loop of `dijkstra` -/
def phase2 (E : Env) : Nat → Nat → Bucket → List PNode → Out (List PNode)
  | 0, _, _, _ => .fuelOut
  | fuel + 1, c, b, scs =>
    match popLast b with
    | none => .ok scs
    | some (b', n) =>
      match success E n with
      | .panic => .panic
      | .fuelOut => .fuelOut
      | .ok true => phase2 E fuel c b' (scs ++ [n])
      | .ok false =>
        match neighbours E false n with
        | .panic => .panic
        | .fuelOut => .fuelOut
        | .ok nbrs =>
          match upsertAll c b' nbrs with
          | none => .panic
          | some b'' => phase2 E fuel c b'' scs

/-- the first `loop` of `dijkstra`, followed (after `break`) by the second; `.ok []` is
`return Vec::new()` -/
def phase1 (E : Env) : Nat → Array Bucket → Nat → Out (List PNode)
  | 0, _, _ => .fuelOut
  | fuel + 1, todo, c =>
    match todo[c]? with
    | none => .panic
    | some b =>
      match popLast b with
      | none =>
        if c + 1 > U16MAX then .ok []
        else if c + 1 == todo.size then .ok []
        else phase1 E fuel todo (c + 1)
      | some (b', n) =>
        match success E n with
        | .panic => .panic
        | .fuelOut => .fuelOut
        | .ok true => phase2 E fuel c b' [n]
        | .ok false =>
          match neighbours E true n with
          | .panic => .panic
          | .fuelOut => .fuelOut
          | .ok nbrs =>
            match pushAll (todo.setIfInBounds c b') nbrs with
            | none => .panic
            | some todo' => phase1 E fuel todo' c

/-- the start node of `recover` -/
def startNode (start : Pos) : PNode := ⟨start.stack, start.pos, .term, 0⟩

/-- `dijkstra(start_node, neighbours, merge, success)`; `fuel` bounds the number of loop iterations -/
def dijkstra (E : Env) (fuel : Nat) (start : Pos) : Out (List PNode) :=
  phase1 E fuel #[[(startNode start, startNode start)]] 0

mutual
/-- `traverse` of `collect_repairs`: the plain sequences a merged chain stands for, in the code's
order (without the deadline) -/
def traverse : RTree → List (List Repair)
  | .term => []
  | .rep p r =>
    let parents := traverse p
    if parents.isEmpty then [[r]] else parents.map (fun pc => pc ++ [r])
  | .merge p r vc =>
    let parents := traverse p
    (if parents.isEmpty then [[r]] else parents.map (fun pc => pc ++ [r])) ++ traverseAlts vc
def traverseAlts : List RTree → List (List Repair)
  | [] => []
  | c :: cs => traverse c ++ traverseAlts cs
end

/-- `collect_repairs`: one group of sequences per success node, lexemes named by
`repair_to_parse_repair` (`RankImpl.attach`) -/
def collectRepairs (inLaidx : Nat) (cnds : List PNode) : List (List Seq) :=
  cnds.map (fun n => (traverse n.repairs).map (attach inLaidx))

mutual
/-- number of sequences `traverse` produces (used by the driver to stay within a budget) -/
def countSeqs : RTree → Nat
  | .term => 0
  | .rep p _ => max 1 (countSeqs p)
  | .merge p _ vc => max 1 (countSeqs p) + countSeqsAlts vc
def countSeqsAlts : List RTree → Nat
  | [] => 0
  | c :: cs => countSeqs c + countSeqsAlts cs
end

/-- what `recover` does with the success nodes `dijkstra` returned: `collect_repairs`, `rank_cnds`,
`simplify_repairs`, `apply_repairs` of the first reported sequence. `.panic`: `rpr_seqs[0]` on an empty
group, a crash of `lr_upto` (`rankCndsO`, `applyRepairsO`), `rnk_rprs[0]` on an empty list.
`.fuelOut`: the constant `FUEL` of `feed` ran out inside `rank_cnds`/`apply_repairs` — the model cannot
say what the real code (which has no such bound) does; it is NOT counted as a panic. -/
def recoverTail (E : Env) (hs : List Seq → List Seq) (avoid : Nat → Bool) (lexStart : Nat → Nat)
    (win : Nat) (start : Pos) : List PNode → Out (Pos × List Seq)
  | [] => .ok (start, [])
  | cnd :: cnds =>
    match rankCndsO E.G E.A E.w win start (collectRepairs start.pos (cnd :: cnds)) with
    | .panic => .panic
    | .fuelOut => .fuelOut
    | .ok r =>
      if r.isEmpty then .ok (start, [])
      else
        match simplify hs avoid lexStart r with
        | [] => .panic
        | s0 :: rest =>
          match applyRepairsO E.G E.A E.w start s0 with
          | .panic => .panic
          | .fuelOut => .fuelOut
          | .ok c' => .ok (c', s0 :: rest)

/-- `CPCTPlus::recover`: the search, then `recoverTail`. Returns the configuration parsing continues
from and the reported sequences. `hs` is the order in which the `HashSet` of `simplify_repairs` hands
the distinct sequences back, `lexStart` the byte offset at which a lexeme starts, `win` is
`TRY_PARSE_AT_MOST`. -/
def recoverImpl (E : Env) (hs : List Seq → List Seq) (avoid : Nat → Bool) (lexStart : Nat → Nat)
    (win : Nat) (fuel : Nat) (start : Pos) : Out (Pos × List Seq) :=
  match dijkstra E fuel start with
  | .panic => .panic
  | .fuelOut => .fuelOut
  | .ok cnds => recoverTail E hs avoid lexStart win start cnds

/-! ### decidable forms of the hypotheses of the correctness theorems (evaluated by the driver) -/

/-- no state shifts the end-of-input token -/
def eofNeverShiftedB (G : Grammar) (A : Automaton) : Bool :=
  A.states.all (fun sd => match sd.actions[G.eof]? with
    | some (.shift _) => false
    | _ => true)

/-- `state_actions` of every state lists exactly the tokens whose action is not Error -/
def stateActionsExactB (G : Grammar) (A : Automaton) : Bool :=
  A.states.all (fun sd =>
    (List.range (max G.ntoks (sd.stateActions.foldl max 0 + 1))).all (fun t =>
      sd.stateActions.contains t == (decide (t < G.ntoks) && ((sd.actions[t]?).getD .error != .error))))

/-- the hypotheses of the search theorems other than "every token costs at least 1" -/
def checkHyps (E : Env) (start : Pos) : Bool :=
  eofNeverShiftedB E.G E.A && stateActionsExactB E.G E.A && decide (start.pos ≤ E.w.length) &&
  !isSuccess E.G E.A E.w E.N ⟨start, [], 0⟩

end GrmVerif.SearchImpl
