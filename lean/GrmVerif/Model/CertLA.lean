import GrmVerif.Model.Cert
import GrmVerif.Model.AnalysesRef
/-
The lookahead (LR(1)) half of the certificate and the conflict-freeness / table-completeness
conditions, from which `Props/C01.lean` derives completeness (every sentence is accepted) for
conflict-free tables. `N`/`F` are the verified nullable/FIRST sets (C17). Core Lean only.
-/
namespace GrmVerif.Cert
open GrmVerif Ref

/-- `t ∈ FIRST(β · L)` -/
def firstSeqL (N : Nat → Bool) (F : Nat × Nat → Bool) (β : List Sym) (L : List Nat) (t : Nat) : Bool :=
  firstSeq N F β t || (seqNullable N β && L.contains t)

def findItem (items : List Item) (p d : Nat) : Option Item := items.find? (fun i => i.p == p && i.dot == d)

/-- L1: closure lookaheads: for `[p, d, L]` with rule `B` after the dot, every production `q` of `B`
has an item `[q, 0, L']` with `L' ⊇ FIRST(rest · L)` -/
def l1 (G : Grammar) (A : Automaton) (N : Nat → Bool) (F : Nat × Nat → Bool) : Bool :=
  allStates A (fun s => (A.closed s).all (fun i =>
    match symAt G i.p i.dot with
    | some (.rule B) =>
      (G.prodsOf B).all (fun q =>
        match findItem (A.closed s) q 0 with
        | none => false
        | some j => (List.range G.ntoks).all (fun t =>
            !firstSeqL N F ((G.rhs i.p).drop (i.dot + 1)) i.la t || j.la.contains t))
    | _ => true))

/-- L2: lookaheads survive edges and the kernel→closed inclusion -/
def l2 (G : Grammar) (A : Automaton) : Bool :=
  allStates A (fun s =>
    (A.closed s).all (fun i =>
      match symAt G i.p i.dot with
      | none => true
      | some X =>
        match A.edge s X with
        | none => false
        | some t =>
          match findItem (A.core t) i.p (i.dot + 1) with
          | none => false
          | some j => i.la.all (fun a => j.la.contains a)) &&
    (A.core s).all (fun i =>
      match findItem (A.closed s) i.p i.dot with
      | none => false
      | some j => i.la.all (fun a => j.la.contains a)))

/-- L3: the start kernel's lookahead contains the end-of-input token -/
def l3 (G : Grammar) (A : Automaton) : Bool :=
  (A.core A.start).all (fun i => i.la.contains G.eof)

/-- L4: the table holds every candidate action (which makes it conflict-free): every complete item
with `t` in its lookahead is the reduce (or the accept) of the cell, every token after a dot is the
shift of the cell -/
def l4 (G : Grammar) (A : Automaton) : Bool :=
  allStates A (fun s => (A.closed s).all (fun i =>
    match symAt G i.p i.dot with
    | some (.tok t) =>
      (match A.edge s (.tok t) with
       | some s' => A.action s t == .shift s'
       | none => false)
    | some (.rule _) => true
    | none =>
      i.la.all (fun t =>
        if i.p == G.startProd then A.action s t == .accept
        else A.action s t == .reduce i.p)))

def failingLA (G : Grammar) (A : Automaton) (N : Nat → Bool) (F : Nat × Nat → Bool) : List String :=
  (if l1 G A N F then [] else ["L1"]) ++ (if l2 G A then [] else ["L2"]) ++
  (if l3 G A then [] else ["L3"]) ++ (if l4 G A then [] else ["L4"])

def checkLA (G : Grammar) (A : Automaton) (N : Nat → Bool) (F : Nat × Nat → Bool) : Bool :=
  l1 G A N F && l2 G A && l3 G A && l4 G A

end GrmVerif.Cert
