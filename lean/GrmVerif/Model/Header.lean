/-
Model of `cfgrammar::header::GrmtoolsSectionParser` (cfgrammar/src/lib/header.rs), as repaired by
the two `fix:` commits of C12 (array loop always advances or returns the element's error; a number
that does not fit `u64` is a `ConversionError`, not an `unwrap` panic).

Texts are `List Char`; every position is a UTF-8 *byte* offset computed with `Char.utf8Size`.
`&self.src[i..]` is `slice src i`: it is `Res.panic` when `i` is beyond the text or inside a
character, exactly as in Rust. Loops/recursion take fuel; running out of fuel is the explicit
result `Res.fuelOut` (`Props/C12.lean` proves that the fuel `parse` hands out always suffices).

The four anchored regular expressions are transcribed as functions returning the matched prefix
(all four are anchored with `^`, so `m.start() = 0`):
  RE_LEADING_WS  `^[\p{Pattern_White_Space}]*`          `takeWhile isPWS` (always matches)
  RE_NAME        `^[A-Z][A-Z_]*` case-insensitive        `reName` (Unicode simple case folding adds
                                                          U+017F and U+212A to `[A-Z]`)
  RE_DIGITS      `^[0-9]+`                               `reDigits`
  RE_STRING      `^\"(\\.|[^"\\])*\"`                    `reString` (`.` does not match `\n`)
Core Lean only: this file is linked into the native driver.
-/
namespace GrmVerif.Header

/-- outcome of a Rust function: `Ok`, `Err`, a panic, or (model only) fuel exhausted = a loop that
did not finish within the fuel handed out -/
inductive Res (ε α : Type) where
  | ok (a : α)
  | err (e : ε)
  | panic
  | fuelOut
deriving Repr

@[inline] def Res.bind {ε α β : Type} : Res ε α → (α → Res ε β) → Res ε β
  | .ok a, f => f a
  | .err e, _ => .err e
  | .panic, _ => .panic
  | .fuelOut, _ => .fuelOut

instance {ε : Type} : Monad (Res ε) where
  pure := Res.ok
  bind := Res.bind

/-- `.map_err(f)` -/
def Res.mapErr {ε ε' α : Type} (f : ε → ε') : Res ε α → Res ε' α
  | .ok a => .ok a
  | .err e => .err (f e)
  | .panic => .panic
  | .fuelOut => .fuelOut

abbrev Span := Nat × Nat

inductive ErrKind where
  | missing                 -- MissingGrmtoolsSection
  | illegalName             -- IllegalName
  | expected (c : Char)     -- ExpectedToken(c)
  | unexpected (c : Char)   -- UnexpectedToken(c, _)
  | dup                     -- DuplicateEntry
  | conv                    -- ConversionError(_, _)
deriving Repr, DecidableEq

/-- `HeaderError<Span>` -/
structure HErr where
  kind : ErrKind
  spans : List Span
deriving Repr

/-- `Namespaced<Span>`: names are kept lower-cased as `parse_name` returns them -/
structure Namespaced where
  ns : Option (List Char × Span)
  member : List Char × Span
deriving Repr

/-- `Setting<Span>` (the text of a `String` setting is `src[span]` and is not carried) -/
inductive Setting where
  | unitary (n : Namespaced)
  | ctor (c a : Namespaced)
  | num (n : Nat) (s : Span)
  | str (s : Span)
  | array (xs : List Setting) (o c : Span)
deriving Repr

/-- `Value<Span>` -/
inductive Value where
  | flag (b : Bool) (s : Span)
  | setting (s : Setting)
deriving Repr

/-- one binding of the `Header` map: key, `HeaderValue(key_loc, val)` -/
structure Entry where
  key : List Char
  loc : Span
  val : Value
deriving Repr

/-- byte length of a text -/
def byteLen : List Char → Nat
  | [] => 0
  | c :: cs => c.utf8Size + byteLen cs

/-- `&src[i..]` as an `Option`: `none` when `i` is out of range or not a character boundary -/
def dropBytes : List Char → Nat → Option (List Char)
  | s, 0 => some s
  | [], _ + 1 => none
  | c :: cs, n + 1 => if c.utf8Size ≤ n + 1 then dropBytes cs (n + 1 - c.utf8Size) else none

/-- `&s[..n]` as an `Option` -/
def takeBytes : List Char → Nat → Option (List Char)
  | _, 0 => some []
  | [], _ + 1 => none
  | c :: cs, n + 1 =>
    if c.utf8Size ≤ n + 1 then (takeBytes cs (n + 1 - c.utf8Size)).map (c :: ·) else none

/-- `&self.src[i..]` -/
def slice {ε : Type} (src : List Char) (i : Nat) : Res ε (List Char) :=
  match dropBytes src i with
  | some r => .ok r
  | none => .panic

/-- `&self.src[a..b]` -/
def sliceRange {ε : Type} (src : List Char) (a b : Nat) : Res ε (List Char) :=
  if a ≤ b then
    match dropBytes src a with
    | none => .panic
    | some r =>
      match takeBytes r (b - a) with
      | none => .panic
      | some t => .ok t
  else .panic

/-- `\p{Pattern_White_Space}`: U+0009..U+000D, U+0020, U+0085, U+200E, U+200F, U+2028, U+2029 -/
def isPWS (c : Char) : Bool :=
  let n := c.toNat
  (9 ≤ n && n ≤ 13) || n == 32 || n == 0x85 || n == 0x200E || n == 0x200F || n == 0x2028 || n == 0x2029

/-- `[A-Z]` under `case_insensitive(true)` with Unicode simple case folding -/
def isNameStart (c : Char) : Bool :=
  let n := c.toNat
  (65 ≤ n && n ≤ 90) || (97 ≤ n && n ≤ 122) || n == 0x17F || n == 0x212A

/-- `[A-Z_]` under the same flags -/
def isNameCont (c : Char) : Bool := isNameStart c || c.toNat == 95

def isDigit (c : Char) : Bool := 48 ≤ c.toNat && c.toNat ≤ 57

/-- `RE_NAME.find(rest)`: the matched text -/
def reName : List Char → Option (List Char)
  | [] => none
  | c :: cs => if isNameStart c then some (c :: cs.takeWhile isNameCont) else none

/-- `RE_DIGITS.find(rest)` -/
def reDigits : List Char → Option (List Char)
  | [] => none
  | c :: cs => if isDigit c then some (c :: cs.takeWhile isDigit) else none

/-- `(\\.|[^"\\])*\"` from just after the opening quote: the matched text including the closing
quote. The alternatives and the closing quote start with pairwise different characters, so the
backtracking regex has exactly one way to match. -/
def reStringBody : List Char → Option (List Char)
  | [] => none
  | c :: cs =>
    if c.toNat = 34 then some [c]
    else if c.toNat = 92 then
      match cs with
      | [] => none
      | d :: ds => if d.toNat = 10 then none else (reStringBody ds).map (fun m => c :: d :: m)
    else (reStringBody cs).map (fun m => c :: m)

/-- `RE_STRING.find(rest)` -/
def reString : List Char → Option (List Char)
  | [] => none
  | c :: cs => if c.toNat = 34 then (reStringBody cs).map (fun m => c :: m) else none

/-- value of a digit string -/
def digitsVal (ds : List Char) : Nat := ds.foldl (fun a c => 10 * a + (c.toNat - 48)) 0

/-- `str::parse::<u64>` on a text matched by `[0-9]+` (the optional sign of `from_str` cannot occur) -/
def parseU64 (s : List Char) : Option Nat :=
  if s ≠ [] ∧ s.all isDigit = true ∧ digitsVal s < 2 ^ 64 then some (digitsVal s) else none

/-- `char::to_lowercase` restricted to the characters `RE_NAME` can match -/
def lowerChar (c : Char) : Char :=
  let n := c.toNat
  if 65 ≤ n ∧ n ≤ 90 then Char.ofNat (n + 32) else if n = 0x212A then 'k' else c

/-- `parse_ws`: the regex always matches (possibly the empty string) -/
def parseWs {ε : Type} (src : List Char) (i : Nat) : Res ε Nat := do
  let rest ← slice src i
  pure (i + byteLen (rest.takeWhile isPWS))

/-- `lookahead_is(s, i)` -/
def lookahead {ε : Type} (src : List Char) (s : List Char) (i : Nat) : Res ε (Option Nat) := do
  let rest ← slice src i
  pure (if s.isPrefixOf rest then some (i + byteLen s) else none)

def globHint : ErrKind := .unexpected '*'

/-- `parse_name` -/
def parseName (src : List Char) (i : Nat) : Res HErr (List Char × Nat) := do
  let rest ← slice src i
  match reName rest with
  | some m => do
    -- `self.src[i..i + m.end()].to_string().to_lowercase()`
    let name ← sliceRange src i (i + byteLen m)
    pure (name.map lowerChar, i + byteLen m)
  | none =>
    if ['*'].isPrefixOf rest then .err ⟨globHint, [(i, i)]⟩
    else .err ⟨.illegalName, [(i, i)]⟩

/-- `parse_namespaced` -/
def parseNamespaced (src : List Char) (i : Nat) : Res HErr (Namespaced × Nat) := do
  let (name, j) ← parseName src i
  let nameSpan : Span := (i, j)
  let i ← parseWs src j
  match ← lookahead src [':', ':'] i with
  | some j => do
    let i ← parseWs src j
    let (member, j) ← parseName src i
    let memberSpan : Span := (i, j)
    let i ← parseWs src j
    pure (⟨some (name, nameSpan), (member, memberSpan)⟩, i)
  | none => pure (⟨none, (name, nameSpan)⟩, i)

/-- the last alternative of `parse_setting`: `Name`, `Ns::Name`, or either followed by `( … )` -/
def parseCtorOrUnitary (src : List Char) (i : Nat) : Res HErr (Setting × Nat) := do
  let (pathVal, j) ← parseNamespaced src i
  let i ← parseWs src j
  match ← lookahead src ['('] i with
  | some j => do
    let (arg, j) ← parseNamespaced src j
    let i ← parseWs src j
    match ← lookahead src [')'] i with
    | some j => do
      let i ← parseWs src j
      pure (.ctor pathVal arg, i)
    | none => .err ⟨.expected ')', [(i, i)]⟩
  | none => pure (.unitary pathVal, i)

/-- the `loop { … }` of the array alternative of `parse_setting`, one iteration per unit of fuel;
`elem` is the recursive call `self.parse_setting(_)`.
Repaired code: when the element does not parse and no `,` follows, the element's error is returned
(the unrepaired loop went round again with the same `j`). -/
def arrayLoop (src : List Char) (elem : Nat → Res HErr (Setting × Nat)) (i openPos : Nat) :
    Nat → Nat → List Setting → Res HErr (Setting × Nat)
  | 0, _, _ => .fuelOut
  | f + 1, j, vals => do
    let j ← parseWs src j
    match ← lookahead src [']'] j with
    | some endPos => pure (.array vals (i, openPos) (j, endPos), endPos)
    | none =>
      match elem j with
      | .ok (val, k) => do
        let j ← parseWs src k
        match ← lookahead src [','] j with
        | some k => arrayLoop src elem i openPos f k (vals ++ [val])
        | none => arrayLoop src elem i openPos f j (vals ++ [val])
      | .err e => do
        match ← lookahead src [','] j with
        | some k => arrayLoop src elem i openPos f k vals
        | none => .err e
      | .panic => .panic
      | .fuelOut => .fuelOut

/-- `parse_setting`; one unit of fuel per nesting level -/
def parseSetting (src : List Char) : Nat → Nat → Res HErr (Setting × Nat)
  | 0, _ => .fuelOut
  | f + 1, i => do
    let i ← parseWs src i
    let rest ← slice src i
    match reDigits rest with
    | some m => do
      let numSpan : Span := (i, i + byteLen m)
      let numStr ← sliceRange src numSpan.1 numSpan.2
      -- repaired code: `.unwrap()` replaced by a `ConversionError` located at the number
      match parseU64 numStr with
      | some n => do
        let i ← parseWs src numSpan.2
        pure (.num n numSpan, i)
      | none => .err ⟨.conv, [numSpan]⟩
    | none =>
      match reString rest with
      | some m => do
        let «end» := i + byteLen m
        let strSpan : Span := (i + 1, «end» - 1)
        let _str ← sliceRange src strSpan.1 strSpan.2
        let i ← parseWs src «end»
        pure (.str strSpan, i)
      | none => do
        match ← lookahead src ['['] i with
        | some j => arrayLoop src (parseSetting src f) i j f j []
        | none => parseCtorOrUnitary src i

/-- `parse_key_value`: (key, key span, value, next position) -/
def parseKeyValue (src : List Char) (fuel : Nat) (i : Nat) :
    Res HErr (List Char × Span × Value × Nat) := do
  match ← lookahead src ['!'] i with
  | some j => do
    let (flagName, k) ← parseName src j
    let e ← parseWs src k
    pure (flagName, (j, k), .flag false (i, k), e)
  | none => do
    let (keyName, j) ← parseName src i
    let keySpan : Span := (i, j)
    let i ← parseWs src j
    match ← lookahead src [':'] i with
    | some j => do
      let (val, j) ← parseSetting src fuel j
      pure (keyName, keySpan, .setting val, j)
    | none => pure (keyName, keySpan, .flag true keySpan, i)

/-- `add_duplicate_occurrence` (every error in `errs` has at least one location, so `locations[0]`
does not panic; an empty list is treated as "no match" here) -/
def addDup (orig dup : Span) : List HErr → List HErr
  | [] => [⟨.dup, [orig, dup]⟩]
  | e :: es =>
    if e.kind = .dup ∧ e.spans.head? = some orig then ⟨e.kind, e.spans ++ [dup]⟩ :: es
    else e :: addDup orig dup es

/-- `ret.entry(key)` then insert or record the duplicate -/
def insertEntry (ret : List Entry) (errs : List HErr) (key : List Char) (loc : Span) (val : Value) :
    List Entry × List HErr :=
  match ret.find? (fun e => e.key == key) with
  | some orig => (ret, addDup orig.loc loc errs)
  | none => (ret ++ [⟨key, loc, val⟩], errs)

/-- the `while self.lookahead_is("}", i).is_none() && i < self.src.len()` loop of `parse`;
returns `(i, ret, errs)` at loop exit, or the `return Err(errs)` of a failed key/value -/
def keyLoop (src : List Char) (sfuel : Nat) :
    Nat → Nat → List Entry → List HErr → Res (List HErr) (Nat × List Entry × List HErr)
  | 0, _, _, _ => .fuelOut
  | f + 1, i, ret, errs => do
    match ← lookahead src ['}'] i with
    | some _ => pure (i, ret, errs)
    | none =>
      if i < byteLen src then do
        let (key, keyLoc, val, j) ← (parseKeyValue src sfuel i).mapErr (fun e => errs ++ [e])
        let (ret, errs) := insertEntry ret errs key keyLoc val
        match ← lookahead src [','] j with
        | some j => do
          let i ← parseWs src j
          keyLoop src sfuel f i ret errs
        | none => do
          let i ← parseWs src j
          pure (i, ret, errs)
      else pure (i, ret, errs)

def MAGIC : List Char := "%grmtools".toList

/-- the part of `parse` after `%grmtools`, with explicit fuel -/
def parseWith (src : List Char) (required : Bool) (fuel : Nat) :
    Res (List HErr) (List Entry × Nat) := do
  let i0 ← parseWs src 0
  match ← lookahead src MAGIC i0 with
  | some i => do
    let i ← parseWs src i
    let sectionStartPos := i
    match ← lookahead src ['{'] i with
    | some j => do
      let i ← parseWs src j
      let (i, ret, errs) ← keyLoop src fuel fuel i [] []
      match ← lookahead src ['*'] i with
      | some j => .err (errs ++ [⟨globHint, [(i, j)]⟩])
      | none =>
        match ← lookahead src ['}'] i with
        | some i => if errs.isEmpty then pure (ret, i) else .err errs
        | none => .err (errs ++ [⟨.expected '}', [(sectionStartPos, i)]⟩])
    | none => .err [⟨.expected '{', [(i, i)]⟩]
  | none =>
    if required then .err [⟨.missing, [(0, 0)]⟩]
    else pure ([], 0)

/-- `GrmtoolsSectionParser::new(src, required).parse()`: every loop of the Rust code consumes at
least one byte per iteration (proved in `Props/C12.lean`), so `|src| + 1` units of fuel suffice -/
def parse (src : List Char) (required : Bool) : Res (List HErr) (List Entry × Nat) :=
  parseWith src required (byteLen src + 1)

end GrmVerif.Header
