import GrmVerif.Model.Closure
/-
Faithful model of `Itemset::close` (lrtable/src/lib/itemset.rs), the function that computes every
closed state of the state graph (C16: "each closed state is the LR(1) closure of its core state").

Transcription:
* `Vob` (bit vector of length `tokens_len` / `prods_len`)  ->  the list of its set bits;
  `Vob::or` returns whether any bit changed, `set(i, true)`, `set(i, false)`,
  `iter_set_bits(..).next()` = the LOWEST set bit.
* `HashMap<(PIdx, SIdx), Ctx>`  ->  association list `List Item` (key `(p, dot)`, value `la`);
  `Itemset::add` = `add` (returns the changed flag exactly as the Rust function does);
  `new_is.items[&(pidx, dot)]` = `lookup`, a missing key is the panic it is in Rust.
* the iteration order of `self.items.keys()` (`keys_iter`) is the explicit parameter `order`.
* `loop { … }`  ->  `loop` with fuel; `continue`  ->  the state is returned unchanged;
  indexing out of range (`grm.prod(pidx)`, `prod[dot]`, `firsts.firsts(ridx)`,
  `new_ctx.set(tidx, …)`, `grm.rule_to_prods(ridx)`)  ->  `Res.panic`.
* `firsts.firsts(r)` / `firsts.is_epsilon_set(r)` are the oracles `F` / `N` (C17 compares the real
  `YaccFirsts` with the verified reference analyses the driver passes here).
Core Lean only.
-/
namespace GrmVerif.CloseImpl
open GrmVerif Ref Closure

/-- a `Vob`, by its set bits -/
abbrev Ctx := List Nat

/-- `Vob::or`: the new vector, and whether any bit changed -/
def vobOr (a b : Ctx) : Ctx × Bool :=
  let new := b.filter (fun t => !a.contains t)
  (a ++ new, !new.isEmpty)

/-- `Vob::set(t, true)` -/
def vobSet (a : Ctx) (t : Nat) : Ctx := if a.contains t then a else a ++ [t]

/-- `Vob::set(t, false)` -/
def vobClear (a : Ctx) (t : Nat) : Ctx := a.filter (fun x => x != t)

/-- `firsts.firsts(r)`: a vector of length `tokens_len` -/
def firstsRow (G : Grammar) (F : Nat × Nat → Bool) (r : Nat) : Ctx :=
  (List.range G.ntoks).filter (fun t => F (r, t))

def isKey (p d : Nat) (i : Item) : Bool := i.p == p && i.dot == d

/-- `self.items.get(&(p, d))` -/
def lookup (is : List Item) (p d : Nat) : Option Ctx := (is.find? (isKey p d)).map (·.la)

/-- `Itemset::add`: or the context into an existing entry (changed = `Vob::or`'s answer) or insert
a copy of it (changed = true) -/
def add : List Item → Nat → Nat → Ctx → List Item × Bool
  | [], p, d, ctx => ([⟨p, d, ctx⟩], true)
  | i :: rest, p, d, ctx =>
    if isKey p d i then (⟨i.p, i.dot, (vobOr i.la ctx).1⟩ :: rest, (vobOr i.la ctx).2)
    else ((i :: (add rest p d ctx).1), (add rest p d ctx).2)

/-- `for sym in prod.iter().skip(dot + 1) { … }`: the new context and the `nullable` flag;
`none` = an index out of range -/
def ctxLoop (G : Grammar) (N : Nat → Bool) (F : Nat × Nat → Bool) : List Sym → Ctx → Option (Ctx × Bool)
  | [], ctx => some (ctx, true)
  | .tok t :: _, ctx => if t < G.ntoks then some (vobSet ctx t, false) else none
  | .rule r :: rest, ctx =>
    if r < G.nrules then
      if N r then ctxLoop G N F rest (vobOr ctx (firstsRow G F r)).1
      else some ((vobOr ctx (firstsRow G F r)).1, false)
    else none

/-- `if nullable { new_ctx.or(&new_is.items[&(pidx, dot)]); }`; `none` = the key is missing -/
def inheritCtx (is : List Item) (p d : Nat) (ctx : Ctx) (nullable : Bool) : Option Ctx :=
  if nullable then (lookup is p d).map (fun l => (vobOr ctx l).1) else some ctx

/-- `for ref_pidx in grm.rule_to_prods(s_ridx) { if new_is.add(ref_pidx, 0, &new_ctx) {
zero_todos.set(ref_pidx, true) } }` -/
def addAll : List Nat → Ctx → List Item → Ctx → List Item × Ctx
  | [], _, is, todo => (is, todo)
  | q :: qs, ctx, is, todo =>
    addAll qs ctx (add is q 0 ctx).1 (if (add is q 0 ctx).2 then vobSet todo q else todo)

/-- the part of the loop body after a rule `r` was found behind the dot -/
def processRule (G : Grammar) (N : Nat → Bool) (F : Nat × Nat → Bool) (p d r : Nat)
    (is : List Item) (todo : Ctx) : Option (List Item × Ctx) :=
  if r < G.nrules then
    (ctxLoop G N F ((G.rhs p).drop (d + 1)) []).bind (fun cn =>
      (inheritCtx is p d cn.1 cn.2).map (fun ctx => addAll (G.prodsOf r) ctx is todo))
  else none

/-- what follows the dot decides: token → nothing to do, rule → `processRule`, nothing there (the
dot is beyond the end) → panic -/
def processSym (G : Grammar) (N : Nat → Bool) (F : Nat × Nat → Bool) (p d : Nat)
    (is : List Item) (todo : Ctx) : Option Sym → Option (List Item × Ctx)
  | none => none
  | some (.tok _) => some (is, todo)
  | some (.rule r) => processRule G N F p d r is todo

/-- the loop body for the todo item `(p, d)`; `none` = panic -/
def process (G : Grammar) (N : Nat → Bool) (F : Nat × Nat → Bool) (p d : Nat)
    (is : List Item) (todo : Ctx) : Option (List Item × Ctx) :=
  if p < G.nprods then
    if d = (G.rhs p).length then some (is, todo)
    else processSym G N F p d is todo (G.rhs p)[d]?
  else none

inductive Res where
  | done (is : List Item)
  | panic
  | fuelOut
deriving Repr

def continueWith (k : List Item → Ctx → Res) : Option (List Item × Ctx) → Res
  | none => .panic
  | some x => k x.1 x.2

/-- the work-list loop: first `keys_iter`, then the lowest set bit of `zero_todos` until none is set -/
def loop (G : Grammar) (N : Nat → Bool) (F : Nat × Nat → Bool) : Nat → List (Nat × Nat) → Ctx → List Item → Res
  | 0, _, _, _ => .fuelOut
  | fuel + 1, k :: keys, todo, is =>
    continueWith (fun is' todo' => loop G N F fuel keys todo' is') (process G N F k.1 k.2 is todo)
  | fuel + 1, [], todo, is =>
    match todo.min? with
    | none => .done is
    | some p =>
      continueWith (fun is' todo' => loop G N F fuel [] todo' is') (process G N F p 0 is (vobClear todo p))

/-- `Itemset::close`: `core` is `self.items`, `order` the order in which `self.items.keys()` yields
its keys -/
def close (G : Grammar) (N : Nat → Bool) (F : Nat × Nat → Bool) (core : List Item)
    (order : List (Nat × Nat)) (fuel : Nat) : Res :=
  loop G N F fuel order [] core

/-- fuel that always suffices (`close_impl_exact`): one iteration per initial key plus one per fact
that can be added -/
def closeFuel (G : Grammar) (order : List (Nat × Nat)) : Nat := order.length + (factUniverse G).length + 1

def keysOf (is : List Item) : List (Nat × Nat) := is.map (fun i => (i.p, i.dot))

/-! ### comparison with a dumped closed state (driver side) -/

def subCtx (a b : Ctx) : Bool := a.all (fun t => b.contains t)

/-- the entry found for a key has the same set bits as `la` -/
def sameEntry (la : Ctx) : Option Ctx → Bool
  | some l => subCtx l la && subCtx la l
  | none => false

/-- same keys, same lookahead sets -/
def sameItems (R closed : List Item) : Bool :=
  closed.all (fun i => sameEntry i.la (lookup R i.p i.dot)) &&
  R.all (fun i => closed.any (isKey i.p i.dot))

end GrmVerif.CloseImpl
