import GrmVerif.Model.LR
/-
Specification side of error recovery (C05, C06, C07): what it means to apply a repair sequence
with plain LR semantics, when a sequence "repairs", the edited input a recovering parse is
equivalent to, and the reference enumeration of the minimum-cost repair sequences.
State stacks are lists with the top at the HEAD. Core Lean only.
-/
namespace GrmVerif.Rec
open GrmVerif LR

/-- `lrpar::ParseRepair` (lexemes identified by their index in the input) -/
inductive Repair where
  | insert (t : Nat)
  | delete
  | shift
deriving Repr, DecidableEq, Inhabited

/-- result of feeding one lookahead token to the plain LR automaton: reductions, then … -/
inductive Fed where
  | shifted (stack : List Nat)
  | accept (stack : List Nat)
  | error (stack : List Nat)
  | crash
  | fuelOut
deriving Repr, Inhabited

/-- run the reductions the table prescribes for lookahead `la`, until it is shifted, accepted or
refused (`lr_cactus` / `lr_upto` restricted to one lookahead) -/
def feed (G : Grammar) (A : Automaton) (la : Nat) : Nat → List Nat → Fed
  | 0, _ => .fuelOut
  | fuel + 1, stack =>
    match stack with
    | [] => .crash
    | st :: _ =>
      match A.action st la with
      | .shift s' => .shifted (s' :: stack)
      | .accept => .accept stack
      | .error => .error stack
      | .reduce p =>
        let n := (G.rhs p).length
        if stack.length ≤ n then .crash
        else
          match stack.drop n with
          | [] => .crash
          | prior :: rest =>
            match A.goto prior (G.lhs p) with
            | none => .crash
            | some s' => feed G A la fuel (s' :: prior :: rest)

structure Pos where
  stack : List Nat
  /-- index of the next real lexeme -/
  pos : Nat
deriving Repr, Inhabited

def FUEL := 2000

/-- apply one repair with plain LR semantics; `none` = it cannot be applied -/
def applyRepair (G : Grammar) (A : Automaton) (w : List Nat) (c : Pos) : Repair → Option Pos
  | .insert t =>
    match feed G A t FUEL c.stack with
    | .shifted s => some ⟨s, c.pos⟩
    | _ => none
  | .delete => if c.pos < w.length then some ⟨c.stack, c.pos + 1⟩ else none
  | .shift =>
    match w[c.pos]? with
    | none => none
    | some t =>
      match feed G A t FUEL c.stack with
      | .shifted s => some ⟨s, c.pos + 1⟩
      | _ => none

def applySeq (G : Grammar) (A : Automaton) (w : List Nat) : Pos → List Repair → Option Pos
  | c, [] => some c
  | c, r :: rs =>
    match applyRepair G A w c r with
    | none => none
    | some c' => applySeq G A w c' rs

/-- continue the plain parse: how many further real lexemes are shifted before an error, and
whether the parse reaches acceptance; also the position reached -/
def continueFrom (G : Grammar) (A : Automaton) (w : List Nat) : Nat → Pos → Nat → (Nat × Bool × Nat)
  | 0, c, n => (n, false, c.pos)
  | fuel + 1, c, n =>
    match feed G A (nextTok G w c.pos) FUEL c.stack with
    | .shifted s => continueFrom G A w fuel ⟨s, c.pos + 1⟩ (n + 1)
    | .accept _ => (n, true, c.pos)
    | _ => (n, false, c.pos)

/-- a repair sequence *repairs* at `c`: it applies, and afterwards a plain LR parse continues
without error over at least `N` further real lexemes, or to acceptance -/
def validSeq (G : Grammar) (A : Automaton) (w : List Nat) (N : Nat) (c : Pos) (rs : List Repair) : Bool :=
  match applySeq G A w c rs with
  | none => false
  | some c' =>
    let (n, acc, _) := continueFrom G A w (w.length + 2) c' 0
    acc || n ≥ N

/-- how far a plain parse gets after the sequence (ranking criterion); the recoverer looks at most
`win` lexemes (`TRY_PARSE_AT_MOST`) beyond the error, so everything that gets that far ties -/
def distance (G : Grammar) (A : Automaton) (w : List Nat) (win : Nat) (c : Pos) (rs : List Repair) : Nat :=
  match applySeq G A w c rs with
  | none => 0
  | some c' => min (continueFrom G A w (w.length + 2) c' 0).2.2 (c.pos + win)

def seqCost (w : List Nat) (cost : Nat → Nat) : Nat → List Repair → Nat
  | _, [] => 0
  | pos, .insert t :: rs => cost t + seqCost w cost pos rs
  | pos, .delete :: rs => cost ((w[pos]?).getD 0) + seqCost w cost (pos + 1) rs
  | pos, .shift :: rs => seqCost w cost (pos + 1) rs

/-! ### the edited input -/

/-- one lexeme of the edited input: a real lexeme (by index) or an inserted token -/
inductive EItem where
  | real (idx : Nat)
  | ins (t : Nat) (before : Nat)     -- inserted before real lexeme `before`
deriving Repr, DecidableEq, Inhabited

/-- apply a repair sequence to the rest of the input starting at real lexeme `pos`: the items it
contributes and the position after it -/
def editSeq : Nat → List Repair → List EItem × Nat
  | pos, [] => ([], pos)
  | pos, .insert t :: rs => let (is, p) := editSeq pos rs; (.ins t pos :: is, p)
  | pos, .delete :: rs => editSeq (pos + 1) rs
  | pos, .shift :: rs => let (is, p) := editSeq (pos + 1) rs; (.real pos :: is, p)

/-! ### reference enumeration of minimum-cost repairs -/

structure Node where
  c : Pos
  /-- repairs so far, most recent first -/
  rev : List Repair
  trail : Nat
deriving Repr, Inhabited

/-- success: `N` trailing shifts, or the plain parse accepts from here -/
def isSuccess (G : Grammar) (A : Automaton) (w : List Nat) (N : Nat) (n : Node) : Bool :=
  n.trail ≥ N ||
  (match feed G A (nextTok G w n.c.pos) FUEL n.c.stack with
   | .accept _ => true
   | _ => false)

/-- all success nodes reachable from `n` through non-success nodes with EXACTLY `c` further cost -/
def enumerate (G : Grammar) (A : Automaton) (w : List Nat) (cost : Nat → Nat) (N : Nat) :
    Nat → Nat → Node → List (List Repair)
  | 0, _, _ => []
  | fuel + 1, c, n =>
    if isSuccess G A w N n then (if c = 0 then [n.rev.reverse] else [])
    else
      let shifts :=
        match applyRepair G A w n.c .shift with
        | some c' => enumerate G A w cost N fuel c ⟨c', .shift :: n.rev, n.trail + 1⟩
        | none => []
      let inserts :=
        if n.rev.head? == some .delete then []
        else (List.range G.ntoks).flatMap (fun t =>
          if t == G.eof || cost t == 0 || cost t > c then []
          else
            match applyRepair G A w n.c (.insert t) with
            | some c' => enumerate G A w cost N fuel (c - cost t) ⟨c', .insert t :: n.rev, 0⟩
            | none => [])
      let deletes :=
        match w[n.c.pos]? with
        | none => []
        | some t =>
          if cost t == 0 || cost t > c then []
          else enumerate G A w cost N fuel (c - cost t) ⟨⟨n.c.stack, n.c.pos + 1⟩, .delete :: n.rev, 0⟩
      shifts ++ inserts ++ deletes

/-- remove duplicates, keeping the last occurrence of each element -/
def dedup : List (List Repair) → List (List Repair)
  | [] => []
  | a :: l => if a ∈ dedup l then dedup l else a :: dedup l

def stripShifts (rs : List Repair) : List Repair :=
  (rs.reverse.dropWhile (· == .shift)).reverse

/-- search the costs `c, c+1, …` (at most `remaining` of them) for the first at which a repair exists -/
def minCostFrom (G : Grammar) (A : Automaton) (w : List Nat) (cost : Nat → Nat) (N : Nat) (start : Pos) :
    Nat → Nat → Option (Nat × List (List Repair))
  | 0, _ => none
  | remaining + 1, c =>
    let r := enumerate G A w cost N (2 * (c + w.length) + 6) c ⟨start, [], 0⟩
    if r.isEmpty then minCostFrom G A w cost N start remaining (c + 1) else some (c, r)

/-- the least cost `≤ cap` at which a repair exists, with all repairs of that cost -/
def minCostRepairs (G : Grammar) (A : Automaton) (w : List Nat) (cost : Nat → Nat) (N : Nat) (start : Pos)
    (cap : Nat) : Option (Nat × List (List Repair)) :=
  minCostFrom G A w cost N start (cap + 1) 0

/-- the reference answer: minimum-cost repairs that let parsing continue furthest, trailing
shifts stripped, duplicates removed -/
def refRepairs (G : Grammar) (A : Automaton) (w : List Nat) (cost : Nat → Nat) (N win : Nat) (start : Pos)
    (cap : Nat) : Option (Nat × List (List Repair)) :=
  match minCostRepairs G A w cost N start cap with
  | none => none
  | some (c, rs) =>
    let far := (rs.map (distance G A w win start)).foldl max 0
    some (c, dedup ((rs.filter (fun r => distance G A w win start r == far)).map stripShifts))

end GrmVerif.Rec

namespace GrmVerif.Rec
open GrmVerif LR

/-! ### the recovering driver over state stacks, parametric in the recoverer (C07) -/

/-- one reported error: position (index of the lexeme it was detected at) and its repair sequences -/
structure Err where
  pos : Nat
  repairs : List (List Repair)
deriving Repr, Inhabited

/-- `Parser::lr` with a recoverer, on state stacks: plain LR until the table refuses the lookahead;
then `recover` is asked for the configuration to continue from and the repair sequences; no
sequences = give up (no value). Returns (value produced?, errors in order). -/
def recRun (G : Grammar) (A : Automaton) (w : List Nat)
    (recover : Pos → Option (Pos × List (List Repair))) : Nat → Pos → List Err → Bool × List Err
  | 0, _, errs => (false, errs)
  | fuel + 1, c, errs =>
    match feed G A (nextTok G w c.pos) FUEL c.stack with
    | .shifted s => recRun G A w recover fuel ⟨s, c.pos + 1⟩ errs
    | .accept _ => (true, errs)
    | .error s =>
      match recover ⟨s, c.pos⟩ with
      | none => (false, errs ++ [⟨c.pos, []⟩])
      | some (c', rs) =>
        if rs.isEmpty then (false, errs ++ [⟨c.pos, []⟩])
        else recRun G A w recover fuel c' (errs ++ [⟨c.pos, rs⟩])
    | _ => (false, errs)

end GrmVerif.Rec
