import GrmVerif.Model.Grammar
/-
Reference computation of minimal sentence costs (Bellman–Ford style iteration to a fixed point) and
the certificate checks used for maximal costs. Specification side of C17. Core Lean only.
-/
namespace GrmVerif.Ref
open GrmVerif

/-- addition with `none` = "no derivable string" absorbing -/
def addO : Option Nat → Option Nat → Option Nat
  | some a, some b => some (a + b)
  | _, _ => none

/-- minimum with `none` = +∞ -/
def minO : Option Nat → Option Nat → Option Nat
  | none, b => b
  | a, none => a
  | some a, some b => some (min a b)

def symCost (tc : Nat → Nat) (c : Nat → Option Nat) : Sym → Option Nat
  | .tok t => some (tc t)
  | .rule q => c q

def seqCost (tc : Nat → Nat) (c : Nat → Option Nat) : List Sym → Option Nat
  | [] => some 0
  | s :: rest => addO (symCost tc c s) (seqCost tc c rest)

def minOver (f : Nat → Option Nat) : List Nat → Option Nat
  | [] => none
  | p :: ps => minO (f p) (minOver f ps)

def ruleCost (G : Grammar) (tc : Nat → Nat) (c : Nat → Option Nat) (r : Nat) : Option Nat :=
  minOver (fun p => seqCost tc c (G.rhs p)) (G.prodsOf r)

def look (c : List (Option Nat)) (q : Nat) : Option Nat := (c[q]?).getD none

def stepCosts (G : Grammar) (tc : Nat → Nat) (c : List (Option Nat)) : List (Option Nat) :=
  (List.range G.nrules).map (ruleCost G tc (look c))

/-- iterate from "nothing derivable" until a fixed point; `none` = fuel exhausted -/
def minCostsFrom (G : Grammar) (tc : Nat → Nat) : Nat → List (Option Nat) → Option (List (Option Nat))
  | 0, _ => none
  | fuel + 1, c =>
    let c' := stepCosts G tc c
    if c' = c then some c else minCostsFrom G tc fuel c'

def minCosts (G : Grammar) (tc : Nat → Nat) : Option (List (Option Nat)) :=
  minCostsFrom G tc (G.nrules + 2) (List.replicate G.nrules none)

/-- a production is usable when every rule symbol in it is productive (`prodv q`) -/
def usableSym (prodv : Nat → Bool) : Sym → Bool
  | .tok _ => true
  | .rule q => prodv q

def usableProd (G : Grammar) (prodv : Nat → Bool) (p : Nat) : Bool :=
  (G.rhs p).all (usableSym prodv)

/-- Certificate that every derivable string of a rule `r` with `ub r = some b` costs at most `b`:
`ub` is closed under every usable production whose rule is claimed bounded. -/
def upperBoundOk (G : Grammar) (tc : Nat → Nat) (prodv : Nat → Bool) (ub : Nat → Option Nat) : Bool :=
  (List.range G.nprods).all (fun p =>
    !usableProd G prodv p ||
    match ub (G.lhs p) with
    | none => true
    | some b =>
      match seqCost tc ub (G.rhs p) with
      | some v => v ≤ b
      | none => false)

end GrmVerif.Ref
