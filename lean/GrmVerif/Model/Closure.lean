import GrmVerif.Model.Automaton
import GrmVerif.Model.AnalysesRef
/-
Reference LR(1) closure of a kernel (specification side of "each closed state is the LR(1) closure
of its core state", C16, and of the lookahead part of the certificate), and reachability of states.
Items with an EMPTY lookahead set exist (closure through an unproductive rule) and are items.
Core Lean only.
-/
namespace GrmVerif.Closure
open GrmVerif Ref Fix

/-- facts of a closure computation: the item `[p, d]` is present / `t` is a lookahead of it -/
inductive CFact where
  | item (p d : Nat)
  | la (p d t : Nat)
deriving DecidableEq, Repr

def itemUniverse (G : Grammar) : List (Nat × Nat) :=
  (List.range G.nprods).flatMap (fun p => (List.range ((G.rhs p).length + 1)).map (fun d => (p, d)))

def factUniverse (G : Grammar) : List CFact :=
  (itemUniverse G).map (fun x => CFact.item x.1 x.2) ++
  (itemUniverse G).flatMap (fun x => (List.range G.ntoks).map (fun t => CFact.la x.1 x.2 t))

def symAfter (G : Grammar) (p d : Nat) : Option Sym := (G.rhs p)[d]?

/-- one-step consequences: kernel facts, and the three closure rules -/
def closeDerive (G : Grammar) (N : Nat → Bool) (F : Nat × Nat → Bool) (core : List Item)
    (S : CFact → Bool) : CFact → Bool
  | .item q d' =>
    core.any (fun i => i.p == q && i.dot == d') ||
    (d' == 0 && (itemUniverse G).any (fun x => S (.item x.1 x.2) && symAfter G x.1 x.2 == some (.rule (G.lhs q))))
  | .la q d' t =>
    core.any (fun i => i.p == q && i.dot == d' && i.la.contains t) ||
    (d' == 0 && (itemUniverse G).any (fun x =>
      S (.item x.1 x.2) && symAfter G x.1 x.2 == some (.rule (G.lhs q)) &&
        (firstSeq N F ((G.rhs x.1).drop (x.2 + 1)) t ||
          (seqNullable N ((G.rhs x.1).drop (x.2 + 1)) && S (.la x.1 x.2 t)))))

def close1 (G : Grammar) (N : Nat → Bool) (F : Nat × Nat → Bool) (core : List Item) : Option (List CFact) :=
  lfp (factUniverse G) (closeDerive G N F core) ((factUniverse G).length + 1) []

/-- do the dumped closed items denote exactly the fact set `S`? -/
def sameAs (G : Grammar) (S : List CFact) (closed : List Item) : Bool :=
  (itemUniverse G).all (fun x =>
    let present := closed.any (fun i => i.p == x.1 && i.dot == x.2)
    (S.contains (.item x.1 x.2) == present) &&
    (List.range G.ntoks).all (fun t =>
      S.contains (.la x.1 x.2 t) == closed.any (fun i => i.p == x.1 && i.dot == x.2 && i.la.contains t))) &&
  closed.all (fun i => (itemUniverse G).contains (i.p, i.dot) && i.la.all (· < G.ntoks))

/-! ### reachability of states -/

def reachDeriveSt (A : Automaton) (S : Nat → Bool) (x : Nat) : Bool :=
  x == A.start || (List.range A.nstates).any (fun y => S y && (A.edges y).any (fun e => e.2 == x))

def reachableStates (A : Automaton) : Option (List Nat) :=
  lfp (List.range A.nstates) (reachDeriveSt A) (A.nstates + 1) []

end GrmVerif.Closure
