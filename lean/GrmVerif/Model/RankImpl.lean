import GrmVerif.Model.Recover
import GrmVerif.Model.Out
/-!
Faithful model of the POST-PROCESSING of `lrpar/src/lib/cpctplus.rs`: what `CPCTPlus::recover` does
with the success nodes of the search before it reports them:

* `collect_repairs` expands the merged nodes into explicit sequences and names the lexemes
  (`repair_to_parse_repair`, here `attach`); its output — one group of sequences per success node —
  is the INPUT of this model (`List (List Seq)`);
* `rank_cnds` (`rankCnds`): replay the FIRST sequence of every group with `apply_repairs`, parse on
  with `lr_upto` up to `in_laidx + TRY_PARSE_AT_MOST`, keep the groups that got furthest, flatten;
* `simplify_repairs` (`simplify`): pop trailing Shifts, deduplicate through a `HashSet`, sort by
  (contains an `%avoid_insert` Insert, length, content).

The parser table is a parameter (`Grammar`, `Automaton`, the token vector `w`); `Rec.feed` is the
run of reductions `lr_upto` performs under one lookahead. In `applyRepairs`/`lrUpto`/`rankCnds` panics
(`rpr_seqs[0]` on an empty group, `unwrap` of a missing goto, stack underflow) and fuel exhaustion are
both `none`; their refinements `applyRepairsO`/`lrUptoO`/`rankCndsO` (second half of the file) keep the
two apart (`Out.panic` / `Out.fuelOut`) — these are what `SearchImpl.recoverTail` runs, and
`Lemmas/RankImplO.lean` shows that forgetting the difference gives back the former. The deadline
(`finish_by`: a timed-out `rank_cnds` reports no repairs at all) is not modelled. The order in which a
`HashSet` hands its elements back is an explicit parameter (`hs`). Core Lean only.
-/
namespace GrmVerif.RankImpl
open GrmVerif LR Rec

/-- `lrpar::ParseRepair`: Delete and Shift carry the lexeme they name — here its index in the input;
its span start (`l.span().start()`) is a parameter `start : Nat → Nat` of the functions below -/
inductive PRepair where
  | insert (t : Nat)
  | delete (lex : Nat)
  | shift (lex : Nat)
deriving Repr, DecidableEq, Inhabited

abbrev Seq := List PRepair

/-- forget the lexemes: the repair as the search (and `Model/Recover.lean`) sees it -/
def PRepair.erase : PRepair → Repair
  | .insert t => .insert t
  | .delete _ => .delete
  | .shift _ => .shift

/-- `repair_to_parse_repair`: name the lexemes, counting from `laidx` -/
def attach : Nat → List Repair → Seq
  | _, [] => []
  | la, .insert t :: rs => .insert t :: attach la rs
  | la, .delete :: rs => .delete la :: attach (la + 1) rs
  | la, .shift :: rs => .shift la :: attach (la + 1) rs

/-- the lexemes named by a sequence are the input lexemes from `la` on, in order (what `attach`
produces) -/
def WellLexed : Nat → Seq → Bool
  | _, [] => true
  | la, .insert _ :: rs => WellLexed la rs
  | la, .delete l :: rs => l == la && WellLexed (la + 1) rs
  | la, .shift l :: rs => l == la && WellLexed (la + 1) rs

/-! ### `simplify_repairs` -/

def isShift : PRepair → Bool
  | .shift _ => true
  | _ => false

/-- the `while` loop that pops Shifts from the end of one sequence -/
def stripTrailing (rs : Seq) : Seq :=
  (rs.reverse.dropWhile isShift).reverse

/-- remove duplicates, keeping the last occurrence of each element (one possible `HashSet` order) -/
def dedup {α : Type} [DecidableEq α] : List α → List α
  | [] => []
  | a :: l => if a ∈ dedup l then dedup l else a :: dedup l

/-- the closure `contains_avoid_insert` -/
def containsAvoidInsert (avoid : Nat → Bool) (rs : Seq) : Bool :=
  rs.any (fun r => match r with | .insert t => avoid t | _ => false)

/-- the closure `content_key`: `(u8, usize)` -/
def contentKey (start : Nat → Nat) : PRepair → Nat × Nat
  | .insert t => (0, t)
  | .delete l => (1, start l)
  | .shift l => (2, start l)

/-- `Ord` of the tuple `(u8, usize)` -/
def keyCmp (a b : Nat × Nat) : Ordering :=
  (compare a.1 b.1).then (compare a.2 b.2)

/-- `Iterator::cmp`: lexicographic; a proper prefix is smaller -/
def lexCmp : List (Nat × Nat) → List (Nat × Nat) → Ordering
  | [], [] => .eq
  | [], _ :: _ => .lt
  | _ :: _, [] => .gt
  | a :: as, b :: bs => (keyCmp a b).then (lexCmp as bs)

/-- the comparison closure handed to `sort_unstable_by` -/
def cmpSeq (avoid : Nat → Bool) (start : Nat → Nat) (x y : Seq) : Ordering :=
  let xc := containsAvoidInsert avoid x
  let yc := containsAvoidInsert avoid y
  if xc && !yc then .gt
  else if !xc && yc then .lt
  else (compare x.length y.length).then (lexCmp (x.map (contentKey start)) (y.map (contentKey start)))

/-- "`x` may stand before `y`": the closure does not answer `Greater` -/
def seqLe (avoid : Nat → Bool) (start : Nat → Nat) (x y : Seq) : Bool :=
  (cmpSeq avoid start x y).isLE

/-- insert into a sorted list, before the first element that may stand after `a` -/
def insertSeq (le : Seq → Seq → Bool) (a : Seq) : List Seq → List Seq
  | [] => [a]
  | b :: bs => if le a b then a :: b :: bs else b :: insertSeq le a bs

/-- `sort_unstable_by`: SOME sorting algorithm (here: insertion sort, structurally recursive so that
the kernel can evaluate it); whenever no two distinct elements compare `Equal` the result does not
depend on the algorithm (`C06.simplify_ranked`, last clause) -/
def sortSeqs (avoid : Nat → Bool) (start : Nat → Nat) (l : List Seq) : List Seq :=
  l.foldr (insertSeq (seqLe avoid start)) []

/-- `simplify_repairs`. `hs` is "collect into a `HashSet`, then drain it": the distinct elements in
whatever order the hasher produces (contract: `HashSetLike`). -/
def simplify (hs : List Seq → List Seq) (avoid : Nat → Bool) (start : Nat → Nat) (all : List Seq) : List Seq :=
  sortSeqs avoid start (hs (all.map stripTrailing))

/-- what `all_rprs.drain(..).collect::<HashSet<_>>()` followed by `hs.drain()` guarantees -/
def HashSetLike (hs : List Seq → List Seq) : Prop :=
  ∀ l, (hs l).Nodup ∧ ∀ x, x ∈ hs l ↔ x ∈ l

/-! ### `apply_repairs` and `lr_upto` without action/span stacks -/

/-- one iteration of the `for` loop of `apply_repairs`. An Insert runs `lr_upto(Some(lexeme), laidx,
laidx + 1, …)` and IGNORES the index it returns; a Shift runs `lr_upto(None, laidx, laidx + 1, …)`.
Neither fails when the table refuses the token: the reductions made so far stay on the stack.
Past the end-of-input position (reachable only through Deletes the search never makes) an Insert
panics in `next_lexeme` (`debug_assert!(laidx <= llen)`, `self.lexemes[laidx - 1]`) and a Shift does
nothing (the loop guard `laidx <= self.lexemes.len()`). -/
def applyOne (G : Grammar) (A : Automaton) (w : List Nat) (c : Pos) : PRepair → Option Pos
  | .insert t =>
    if c.pos > w.length then none
    else
      match feed G A t FUEL c.stack with
      | .shifted s => some ⟨s, c.pos⟩
      | .accept s => some ⟨s, c.pos⟩
      | .error s => some ⟨s, c.pos⟩
      | _ => none
  | .delete _ => some ⟨c.stack, c.pos + 1⟩
  | .shift _ =>
    if c.pos > w.length then some c
    else
      match feed G A (nextTok G w c.pos) FUEL c.stack with
      | .shifted s => some ⟨s, c.pos + 1⟩
      | .accept s => some ⟨s, c.pos⟩
      | .error s => some ⟨s, c.pos⟩
      | _ => none

/-- `apply_repairs` -/
def applyRepairs (G : Grammar) (A : Automaton) (w : List Nat) : Pos → Seq → Option Pos
  | c, [] => some c
  | c, r :: rs =>
    match applyOne G A w c r with
    | none => none
    | some c' => applyRepairs G A w c' rs

/-- `lr_upto(None, laidx, end_laidx, pstack, None, None)`: `while laidx != end_laidx && laidx <=
lexemes.len()`; stops at Accept and Error -/
def lrUpto (G : Grammar) (A : Automaton) (w : List Nat) (endIdx : Nat) : Nat → Pos → Option Pos
  | 0, _ => none
  | fuel + 1, c =>
    if c.pos == endIdx || c.pos > w.length then some c
    else
      match feed G A (nextTok G w c.pos) FUEL c.stack with
      | .shifted s => lrUpto G A w endIdx fuel ⟨s, c.pos + 1⟩
      | .accept s => some ⟨s, c.pos⟩
      | .error s => some ⟨s, c.pos⟩
      | _ => none

/-! ### `rank_cnds` -/

/-- how far one sequence lets parsing continue: the `laidx` `rank_cnds` computes for it -/
def reach (G : Grammar) (A : Automaton) (w : List Nat) (win : Nat) (start : Pos) (seq : Seq) : Option Nat :=
  match applyRepairs G A w start seq with
  | none => none
  | some c => (lrUpto G A w (start.pos + win) (w.length + 2) c).map (·.pos)

/-- `rank_cnds` looks at `rpr_seqs[0]` only (a panic on an empty group) -/
def groupReach (G : Grammar) (A : Automaton) (w : List Nat) (win : Nat) (start : Pos) : List Seq → Option Nat
  | [] => none
  | s :: _ => reach G A w win start s

/-- the first loop of `rank_cnds`: `cnds.push((pstack, laidx, rpr_seqs))` -/
def scoreCnds (G : Grammar) (A : Automaton) (w : List Nat) (win : Nat) (start : Pos) :
    List (List Seq) → Option (List (Nat × List Seq))
  | [] => some []
  | g :: gs =>
    match groupReach G A w win start g with
    | none => none
    | some d =>
      match scoreCnds G A w win start gs with
      | none => none
      | some r => some ((d, g) :: r)

/-- `let mut furthest = 0; … if laidx >= furthest { furthest = laidx; }` -/
def furthest (scored : List (Nat × List Seq)) : Nat :=
  scored.foldl (fun f p => if p.1 ≥ f then p.1 else f) 0

/-- `rank_cnds` -/
def rankCnds (G : Grammar) (A : Automaton) (w : List Nat) (win : Nat) (start : Pos)
    (cnds : List (List Seq)) : Option (List Seq) :=
  match scoreCnds G A w win start cnds with
  | none => none
  | some scored => some ((scored.filter (fun p => p.1 == furthest scored)).flatMap (·.2))

/-- the tail of `CPCTPlus::recover`: `rank_cnds`, then (unless nothing is left) `simplify_repairs` -/
def postProcess (hs : List Seq → List Seq) (avoid : Nat → Bool) (lexStart : Nat → Nat)
    (G : Grammar) (A : Automaton) (w : List Nat) (win : Nat) (start : Pos)
    (cnds : List (List Seq)) : Option (List Seq) :=
  match rankCnds G A w win start cnds with
  | none => none
  | some r => if r.isEmpty then some [] else some (simplify hs avoid lexStart r)

/-! ### the same functions with a PANIC of the real code kept apart from the MODEL's fuel

`feed … FUEL` answers `.crash` where `lr_upto` would panic (`pstack.last().unwrap()` on an empty stack,
the subtraction `pstack.len() - prod.len()` underflowing, `goto(..).unwrap()` on `None`) and `.fuelOut`
when more than `FUEL` reductions under one lookahead would be needed — the real loop would still be
running. `applyOne`/`lrUpto`/`rankCnds` above answer `none` in both cases; here the first is
`Out.panic`, the second `Out.fuelOut`. Nothing else differs (`Lemmas/RankImplO.lean`:
`Out.toOption` of each function below is the function above). -/

open _root_.GrmVerif.SearchImpl (Out)

/-- `applyOne` with panic and fuel kept apart -/
def applyOneO (G : Grammar) (A : Automaton) (w : List Nat) (c : Pos) : PRepair → Out Pos
  | .insert t =>
    if c.pos > w.length then .panic
    else
      match feed G A t FUEL c.stack with
      | .shifted s => .ok ⟨s, c.pos⟩
      | .accept s => .ok ⟨s, c.pos⟩
      | .error s => .ok ⟨s, c.pos⟩
      | .crash => .panic
      | .fuelOut => .fuelOut
  | .delete _ => .ok ⟨c.stack, c.pos + 1⟩
  | .shift _ =>
    if c.pos > w.length then .ok c
    else
      match feed G A (nextTok G w c.pos) FUEL c.stack with
      | .shifted s => .ok ⟨s, c.pos + 1⟩
      | .accept s => .ok ⟨s, c.pos⟩
      | .error s => .ok ⟨s, c.pos⟩
      | .crash => .panic
      | .fuelOut => .fuelOut

/-- `apply_repairs` -/
def applyRepairsO (G : Grammar) (A : Automaton) (w : List Nat) : Pos → Seq → Out Pos
  | c, [] => .ok c
  | c, r :: rs =>
    match applyOneO G A w c r with
    | .ok c' => applyRepairsO G A w c' rs
    | .panic => .panic
    | .fuelOut => .fuelOut

/-- `lr_upto(None, laidx, end_laidx, pstack, None, None)`; the loop fuel running out is `.fuelOut` -/
def lrUptoO (G : Grammar) (A : Automaton) (w : List Nat) (endIdx : Nat) : Nat → Pos → Out Pos
  | 0, _ => .fuelOut
  | fuel + 1, c =>
    if c.pos == endIdx || c.pos > w.length then .ok c
    else
      match feed G A (nextTok G w c.pos) FUEL c.stack with
      | .shifted s => lrUptoO G A w endIdx fuel ⟨s, c.pos + 1⟩
      | .accept s => .ok ⟨s, c.pos⟩
      | .error s => .ok ⟨s, c.pos⟩
      | .crash => .panic
      | .fuelOut => .fuelOut

def reachO (G : Grammar) (A : Automaton) (w : List Nat) (win : Nat) (start : Pos) (seq : Seq) : Out Nat :=
  match applyRepairsO G A w start seq with
  | .ok c => (lrUptoO G A w (start.pos + win) (w.length + 2) c).map (·.pos)
  | .panic => .panic
  | .fuelOut => .fuelOut

/-- `rank_cnds` looks at `rpr_seqs[0]` only: an empty group is an index-out-of-range PANIC -/
def groupReachO (G : Grammar) (A : Automaton) (w : List Nat) (win : Nat) (start : Pos) : List Seq → Out Nat
  | [] => .panic
  | s :: _ => reachO G A w win start s

/-- the first loop of `rank_cnds`, group by group in order: the first group that panics (or exhausts
the model's fuel) decides -/
def scoreCndsO (G : Grammar) (A : Automaton) (w : List Nat) (win : Nat) (start : Pos) :
    List (List Seq) → Out (List (Nat × List Seq))
  | [] => .ok []
  | g :: gs =>
    match groupReachO G A w win start g with
    | .panic => .panic
    | .fuelOut => .fuelOut
    | .ok d =>
      match scoreCndsO G A w win start gs with
      | .panic => .panic
      | .fuelOut => .fuelOut
      | .ok r => .ok ((d, g) :: r)

/-- `rank_cnds` -/
def rankCndsO (G : Grammar) (A : Automaton) (w : List Nat) (win : Nat) (start : Pos)
    (cnds : List (List Seq)) : Out (List Seq) :=
  (scoreCndsO G A w win start cnds).map
    (fun scored => (scored.filter (fun p => p.1 == furthest scored)).flatMap (·.2))

end GrmVerif.RankImpl
