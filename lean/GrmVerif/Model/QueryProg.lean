/-!
# C14 — drivers see a grammar and a table only through queries

`lrpar` is a different crate from `cfgrammar`/`lrtable`; every field of `YaccGrammar` and `StateTable` is
private, so the parser driver and the recoverers can only call the public query methods. Two models of
that fact:

* `Prog`: an arbitrary strategy that asks queries and continues with the answers (any driver, any
  recoverer, with any result type);
* `lrRun`: the plain LR driver loop of `lrpar::parser::Parser::lr` (no recovery) over a record of query
  functions, crash-explicit (`unwrap` of a missing goto, stack underflow).
-/
namespace GrmVerif.C14

/-- a strategy that asks queries `Q`, gets answers `A` and finally returns a `β` -/
inductive Prog (Q A β : Type)
  | ret (b : β)
  | ask (q : Q) (k : A → Prog Q A β)

def Prog.run {Q A β : Type} (o : Q → A) : Prog Q A β → β
  | .ret b => b
  | .ask q k => (k (o q)).run o

/-- the queries put when run against `o`, in order -/
def Prog.asked {Q A β : Type} (o : Q → A) : Prog Q A β → List Q
  | .ret _ => []
  | .ask q k => q :: (k (o q)).asked o

/-- the public queries the LR driver uses. Actions are coded as `StateTable` codes them:
`0` error, `1 + 4·s` shift to `s`, `2 + 4·p` reduce by `p`, `3` accept. -/
structure Queries where
  action : Nat → Nat → Nat
  goto : Nat → Nat → Option Nat
  start : Nat
  eof : Nat
  prodLen : Nat → Nat
  prodRule : Nat → Nat

inductive Outcome
  | accept (log : List Nat)
  | error (pos st : Nat) (log : List Nat)
  | crash (log : List Nat)
  | outOfFuel (log : List Nat)
  deriving DecidableEq, Repr

def afterReduce (T : Queries) (p : Nat) (stack : List Nat) : Option (List Nat) :=
  match stack.drop (T.prodLen p) with
  | [] => none
  | prior :: below =>
    match T.goto prior (T.prodRule p) with
    | none => none
    | some s => some (s :: prior :: below)

/-- the LR loop: `stack` (top first), remaining `input` (token indices), position, reductions so far
(the reduction log determines the parse tree) -/
def lrRun (T : Queries) : Nat → List Nat → List Nat → Nat → List Nat → Outcome
  | 0, _, _, _, log => .outOfFuel log
  | fuel + 1, stack, input, pos, log =>
    match stack with
    | [] => .crash log
    | st :: _ =>
      let a := T.action st (input.headD T.eof)
      if a % 4 = 1 then
        match input with
        | [] => .crash log
        | _ :: rest => lrRun T fuel ((a / 4) :: stack) rest (pos + 1) log
      else if a % 4 = 2 then
        match afterReduce T (a / 4) stack with
        | none => .crash log
        | some stack' => lrRun T fuel stack' input pos ((a / 4) :: log)
      else if a = 3 then .accept log
      else .error pos st log

/-- every index a query returns is in range again -/
structure Closed (T : Queries) (ns nt nr np : Nat) : Prop where
  start : T.start < ns
  eof : T.eof < nt
  shift : ∀ s t, s < ns → t < nt → T.action s t % 4 = 1 → T.action s t / 4 < ns
  reduce : ∀ s t, s < ns → t < nt → T.action s t % 4 = 2 → T.action s t / 4 < np
  goto : ∀ s r s', s < ns → r < nr → T.goto s r = some s' → s' < ns
  rule : ∀ p, p < np → T.prodRule p < nr

end GrmVerif.C14
