import GrmVerif.Model.LexUnescape
import GrmVerif.Extracted
/-
The tables of the lex escape scanner as `tools/extract.py` reads them from the sources on every run
(`regex_syntax::is_meta_character` of the pinned regex-syntax, `RE_LEX_ESC_LITERAL` and the `\\b`
replacement strings of lrlex/src/lib/parser.rs), packaged as the `Cfg` the model is parametric in.
Core Lean only.
-/
namespace GrmVerif.LexTables
open GrmVerif.LexUnescape

def metaTable (c : Char) : Bool := GrmVerif.Extracted.META_CHARACTERS.contains c.toNat

def inClass (cls : List (Nat × Nat)) (c : Char) : Bool := cls.any (fun r => r.1 ≤ c.toNat && c.toNat ≤ r.2)

def matchSeq : List (List (Nat × Nat)) → List Char → Bool
  | [], _ => true
  | _ :: _, [] => false
  | cls :: more, c :: s => inClass cls c && matchSeq more s

/-- `RE_LEX_ESC_LITERAL.is_match(s)` from the extracted table -/
def escTable (s : List Char) : Bool := GrmVerif.Extracted.RE_LEX_ESC_LITERAL.any (fun seq => matchSeq seq s)

/-- the scanner's tables as extracted from the sources -/
def realCfg (posix : Bool) : Cfg :=
  { isMeta := metaTable, escLit := escTable, posix := posix,
    bPosix := GrmVerif.Extracted.B_POSIX.map Char.ofNat, bPlain := GrmVerif.Extracted.B_PLAIN.map Char.ofNat }

/-- the flag in force: the builder's if set, else the section's if set, else grmtools' default if it
has one, else the regex crate's default -/
def flagSpec (regexDefault : Bool) (dflt hdr bld : Option Bool) : Bool :=
  match bld with
  | some v => v
  | none => match hdr with
    | some v => v
    | none => match dflt with
      | some v => v
      | none => regexDefault

end GrmVerif.LexTables
