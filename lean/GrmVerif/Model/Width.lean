import GrmVerif.Extracted
/-!
# Model of the index-storage-width arithmetic (C20)

Transcription of the places where grmtools converts a `usize` count or index into the grammar's
`StorageT` (`u8`/`u16`/`u32`, here: any width `w`), and of the guards that are meant to make those
conversions lossless:

* `cfgrammar/src/lib/yacc/grammar.rs`, `YaccGrammar::new_from_ast_with_validity_info`: the four size
  guards and the `….len().as_()` conversions that produce `rules_len`, `tokens_len`, `prods_len`,
  `eof_token_idx`, `start_prod` and every `RIdx`/`TIdx`/`PIdx`/`SIdx`;
* `lrtable/src/lib/pager.rs` (the guard before a core state is pushed, the guard after garbage
  collection), `lrtable/src/lib/stategraph.rs` (`StateGraph::new`'s `assert!`, `all_states_len`),
  `lrtable/src/lib/statetable.rs` (`StateTable::new`'s `assert!`s, the `+ 1` goto encoding, the
  `encode`/`decode` of actions);
* `lrlex/src/lib/parser.rs`: `StorageT::try_from(rules_len)` for a lexer rule's provisional token id.

`n.as_()` (`usize as StorageT`) is *truncation* `n % 2^w`; `StorageT::max_value()` is `2^w - 1`.
A `panic!`/`assert!` failure is `none`.  Core Lean only.
-/
namespace GrmVerif.Width

/-- `usize as StorageT` for a `w`-bit unsigned `StorageT`: the low `w` bits -/
def trunc (w n : Nat) : Nat := n % 2 ^ w

/-- `StorageT::max_value()` (as a `usize`, via `num_traits::cast(..).unwrap()`) -/
def maxVal (w : Nat) : Nat := 2 ^ w - 1

/-- What `new_from_ast_with_validity_info` reads from the (valid) AST, as far as sizes go. -/
structure Src where
  /-- `ast.rules.len()` -/
  rules : Nat
  /-- `ast.tokens.len()` (implicit tokens are among them) -/
  tokens : Nat
  /-- per AST production, in `ast.prods` order: `symbols.len()` and how many of them are tokens -/
  prods : List (Nat × Nat)
  /-- `yacc_kind == YaccKind::Eco` -/
  eco : Bool
  /-- `ast.implicit_tokens.map(|m| m.len())` -/
  implicit : Option Nat
deriving Repr, DecidableEq

/-- `implicit_rule.is_some()`: only Eco grammars with an `%implicit_tokens` declaration get the
implicit rule `~` and the intermediate start rule `^~`. -/
def Src.hasImplicit (s : Src) : Bool := s.eco && s.implicit.isSome

/-- `rule_names.len()` just before the user's rules are pushed: `^`, and `~`, `^~` if implicit. -/
def Src.addedRules (s : Src) : Nat := if s.hasImplicit then 3 else 1

/-- productions pushed behind the AST's: `^: S` — or `^: ^~`, `^~: ~ S`, one `~: T ~` per implicit
token and the empty `~:` production. -/
def Src.addedProds (s : Src) : Nat :=
  if s.hasImplicit then s.implicit.getD 0 + 3 else 1

/-- `prod.len()` of the grammar production made from an AST production: with an implicit rule every
token is followed by a reference to it. -/
def Src.storedLen (s : Src) (p : Nat × Nat) : Nat := if s.hasImplicit then p.1 + p.2 else p.1

/-- `rule_names.len()` at the end = the true number of rules -/
def Src.rulesTrue (s : Src) : Nat := s.addedRules + s.rules
/-- `token_names.len()` at the end = the true number of tokens (EOF added) -/
def Src.tokensTrue (s : Src) : Nat := s.tokens + 1
/-- `prods.len()` at the end = the true number of productions -/
def Src.prodsTrue (s : Src) : Nat := s.prods.length + s.addedProds

/-- lengths of all productions of the finished grammar in `PIdx` order: the AST's productions keep
their indices; then the start production; then (implicit) the `~` productions and `^~: ~ S`
(`rule_names` order is `^`, `~`, `^~`). -/
def Src.prodLens (s : Src) : List Nat :=
  s.prods.map s.storedLen ++ [1] ++
    (if s.hasImplicit then List.replicate (s.implicit.getD 0) 2 ++ [0] ++ [2] else [])

/-! ## The guards of `new_from_ast_with_validity_info` -/

/-- The guards **as they stand in the repaired source** (each `if … > max_len { panic!(…) }`):
```
if rule_names.len() + ast.rules.len() > max_len          // rule_names = the added rules
if ast.tokens.len() + 1 > max_len
if ast.prods.len() + extra_prods > max_len
for p in &ast.prods { len = p.symbols.len() (+ its tokens if implicit); if len > max_len }
``` -/
def guardsPass (w : Nat) (s : Src) : Bool :=
  !(s.addedRules + s.rules > maxVal w) &&
  !(s.tokens + 1 > maxVal w) &&
  !(s.prods.length + s.addedProds > maxVal w) &&
  s.prods.all (fun p => !(s.storedLen p > maxVal w))

/-- The guards of the unrepaired source (kept to document the defect found by this check): the
*source* counts were compared with `max_value`, ignoring everything the constructor adds. -/
def guardsPassOld (w : Nat) (s : Src) : Bool :=
  !(s.rules > maxVal w) && !(s.tokens > maxVal w) && !(s.prods.length > maxVal w) &&
  s.prods.all (fun p => !(p.1 > maxVal w))

/-- The sizes and distinguished indices a `YaccGrammar<StorageT>` reports. -/
structure Sizes where
  /-- `rules_len()` = `RIdx(rule_names.len().as_())` -/
  rulesLen : Nat
  /-- `tokens_len()` = `TIdx(token_names.len().as_())` -/
  tokensLen : Nat
  /-- `prods_len()` = `PIdx(prods.len().as_())` -/
  prodsLen : Nat
  /-- `eof_token_idx()` = `TIdx(token_names.len().as_())` taken before EOF is pushed -/
  eofIdx : Nat
  /-- `start_prod()` = `PIdx(prods.len().as_())` taken when `^`'s production is pushed -/
  startProd : Nat
  /-- `prod_len(p)` = `SIdx(prods[p].len().as_())` for every production, in `PIdx` order -/
  prodLens : List Nat
deriving Repr, DecidableEq

/-- `RIdx(i.as_())`, `TIdx(i.as_())`, `PIdx(i.as_())`, `SIdx(i.as_())`: an index as stored -/
def idx (w i : Nat) : Nat := trunc w i

/-- what the constructor stores, given that the guards `g` passed (`none` = the panic) -/
def buildWith (g : Nat → Src → Bool) (w : Nat) (s : Src) : Option Sizes :=
  if g w s then
    some { rulesLen := trunc w s.rulesTrue
           tokensLen := trunc w s.tokensTrue
           prodsLen := trunc w s.prodsTrue
           eofIdx := trunc w s.tokens
           startProd := trunc w s.prods.length
           prodLens := s.prodLens.map (trunc w) }
  else none

/-- `YaccGrammar::<StorageT>::new_from_ast_with_validity_info` (sizes only), repaired source -/
def build (w : Nat) (s : Src) : Option Sizes := buildWith guardsPass w s

/-- the same with the unrepaired guards -/
def buildOld (w : Nat) (s : Src) : Option Sizes := buildWith guardsPassOld w s

/-- the sizes the grammar really has (what a wide enough `StorageT` reports) -/
def trueSizes (s : Src) : Sizes :=
  { rulesLen := s.rulesTrue, tokensLen := s.tokensTrue, prodsLen := s.prodsTrue,
    eofIdx := s.tokens, startProd := s.prods.length, prodLens := s.prodLens }

/-- everything the constructor stores fits `w` bits -/
def Src.Fits (w : Nat) (s : Src) : Prop :=
  s.rulesTrue ≤ maxVal w ∧ s.tokensTrue ≤ maxVal w ∧ s.prodsTrue ≤ maxVal w ∧
  ∀ l ∈ s.prodLens, l ≤ maxVal w

/-! ## State counts: `pager.rs`, `stategraph.rs`, `statetable.rs` -/

/-- `pager.rs`: before the state with index `len` (= `core_states.len()`) is pushed:
`if core_states.len() >= max_value { panic!("StorageT is not big enough to store this stategraph.") }`.
State 0 is pushed unguarded. -/
def pagerPushOk (w len : Nat) : Bool := !(len ≥ maxVal w)

/-- all pushes that lead to `pre` core states (indices `1 … pre-1` are guarded) -/
def pagerOk (w pre : Nat) : Bool := (List.range pre).all (fun len => len == 0 || pagerPushOk w len)

/-- `pager.rs` after `gc`: `if gc_states.len() > max_value { panic!(…) }` -/
def gcOk (w post : Nat) : Bool := !(post > maxVal w)

/-- `StateGraph::new`: `assert!(states.len() < max_value)` -/
def sgNewOk (w post : Nat) : Bool := post < maxVal w

/-- `StateGraph::all_states_len`: `StIdx(self.states.len().as_())` -/
def allStatesLen (w post : Nat) : Nat := trunc w post

/-- `StIdx::<StorageT>(v.as_storaget().as_())` / `StIdx(x.as_())`: a state index as stored -/
def stIdx (w i : Nat) : Nat := trunc w i

/-- `pager_stategraph`: `pre` core states before garbage collection, `post` after.
`some n` = the `all_states_len()` of the graph that is returned. -/
def stategraph (w pre post : Nat) : Option Nat :=
  if pagerOk w pre && gcOk w post && sgNewOk w post then some (allStatesLen w post) else none

/-- bits of `usize` on the build host -/
def usizeBits : Nat := 64

/-- `StateTable::new`:
```
assert!(usize::from(sg.all_states_len()) < (usize::MAX - 4));
assert!(usize::from(grm.rules_len()) < (usize::MAX - 4));
assert!(sg.all_states_len().as_storaget() < StorageT::max_value() - StorageT::one());
```
(`max_value() - one()` is `StorageT` arithmetic; it cannot underflow for `w ≥ 1`). -/
def tableOk (w statesLen rulesLen : Nat) : Bool :=
  statesLen < 2 ^ usizeBits - 1 - 4 && rulesLen < 2 ^ usizeBits - 1 - 4 &&
  statesLen < maxVal w - 1

/-- goto cells: `gotos[off] = usize::from(*ref_stidx) + 1` (0 = no entry), in `usize` -/
def gotoEnc (st : Nat) : Nat := st + 1

/-- `StateTable::goto`: `Some(0) => None, Some(i) => Some(StIdx((i - 1).as_()))` -/
def gotoDec (w cell : Nat) : Option Nat := if cell = 0 then none else some (trunc w (cell - 1))

/-- an LR action, with the state/production as stored -/
inductive Action where
  | shift (st : Nat) | reduce (p : Nat) | accept | error
deriving Repr, DecidableEq

open GrmVerif.Extracted in
/-- `StateTable::encode`: `SHIFT | (usize::from(stidx) << 2)` etc., in `usize` (64 bits, `<<`
discards the bits shifted out) -/
def encode : Action → Nat
  | .shift st => SHIFT ||| ((st <<< 2) % 2 ^ usizeBits)
  | .reduce p => REDUCE ||| ((p <<< 2) % 2 ^ usizeBits)
  | .accept => ACCEPT
  | .error => ERROR

open GrmVerif.Extracted in
/-- `StateTable::decode`: `action = bits & 0b11; val = bits >> 2; … StIdx(val.as_())` -/
def decode (w bits : Nat) : Action :=
  let action := bits &&& 3
  let val := bits >>> 2
  if action = SHIFT then .shift (trunc w val)
  else if action = REDUCE then .reduce (trunc w val)
  else if action = ACCEPT then .accept
  else .error

/-! ## Lexer: provisional token ids (`lrlex/src/lib/parser.rs`) -/

/-- `StorageT::try_from(rules_len).unwrap_or_else(|_| panic!(…))` for the rule at position `k` -/
def lexTokId (w k : Nat) : Option Nat := if k ≤ maxVal w then some k else none

/-- ids of a lexer with `n` rules: `none` as soon as one conversion fails -/
def lexIds (w n : Nat) : Option (List Nat) := (List.range n).mapM (lexTokId w)

end GrmVerif.Width
