import GrmVerif.Model.FirstsFollowsImpl
/-!
Faithful models of the remaining analyses of `cfgrammar/src/lib/yacc/grammar.rs`:

* `YaccGrammar::has_path`                 → `hasPath`
* `rule_min_costs` (behind `SentenceGenerator::min_sentence_cost`)  → `ruleMinCosts`
* `rule_max_costs` (behind `SentenceGenerator::max_sentence_cost`)  → `ruleMaxCosts`
* `SentenceGenerator::min_sentence` with its closure `cheapest_prod` → `minSentence`

Transcription rules as in `Model/FirstsFollowsImpl.lean`: a `Vec<bool>` is a `List Bool`, a `Vec<u16>` a
`List Nat` whose entries stay `≤ u16::MAX` because every addition is the `checked_add` / `saturating_add`
of the source; `&mut` state is threaded through; every `for` loop is a fold (or a recursion that can stop
early where the source has `break` / `return`) over the same index sequence in the same order; every
unbounded `loop` / `while` takes fuel (`Outcome.fuelOut`); `expect`/`unwrap`/`panic!`/index out of range are
`Outcome.panic` (`none` in the inner functions). Indices that come from the grammar's symbols are checked
against the dimension (`rules_len` / `tokens_len`) of the vector they index where the Rust code first uses
them. `debug_assert!`s are checked when the parameter `dbg` (a debug build) is set.
Core Lean only.
-/
namespace GrmVerif.Impl
open GrmVerif

/-- `u16::MAX` -/
def U16MAX : Nat := 65535

/-- `a.checked_add(b)` on `u16` -/
def checkedAdd (a b : Nat) : Option Nat := if a + b ≤ U16MAX then some (a + b) else none
/-- `a.saturating_add(b)` on `u16` -/
def satAdd (a b : Nat) : Nat := if a + b ≤ U16MAX then a + b else U16MAX

/-- `v[i]` on a `Vec<u16>` -/
def cget (v : List Nat) (i : Nat) : Nat := v.getD i 0

/-- `v[i] = false` -/
def vclear (v : List Bool) (i : Nat) : List Bool := v.set i false

/-- what the body of a loop inside a function returning `bool` does: go on, `return b`, or panic -/
inductive Flow (σ : Type) where
  | next (s : σ)
  | ret (b : Bool)
  | panic

/-- `for a in l { body }` where the body may `return` -/
def iterF {σ α : Type} (f : σ → α → Flow σ) : List α → σ → Flow σ
  | [], s => .next s
  | a :: l, s =>
    match f s a with
    | .next s' => iterF f l s'
    | .ret b => .ret b
    | .panic => .panic

/-! ### `YaccGrammar::has_path` -/

/-- `seen`, `todo` and the flag `empty` of the current sweep -/
structure HP where
  seen : List Bool
  todo : List Bool
  empty : Bool
deriving Repr

/-- body of `for sym in self.prod(*pidx)`:
`if let Symbol::Rule(p_ridx) = *sym { if p_ridx == to { return true; } if !seen[p_ridx] { todo[p_ridx] = true; } }` -/
def hpSym (G : Grammar) (to : Nat) (s : HP) : Sym → Flow HP
  | .tok _ => .next s
  | .rule q =>
    if q = to then .ret true
    else if q < G.nrules then
      (if vget s.seen q then .next s else .next { s with todo := vset s.todo q })
    else .panic

/-- body of `for pidx in self.rule_to_prods(ridx).iter()` -/
def hpProd (G : Grammar) (to : Nat) (s : HP) (pidx : Nat) : Flow HP :=
  iterF (hpSym G to) (G.rhs pidx) s

/-- body of `for ridx in self.iter_rules()` -/
def hpRule (G : Grammar) (to : Nat) (s : HP) (ridx : Nat) : Flow HP :=
  if vget s.todo ridx then
    iterF (hpProd G to) (G.prodsOf ridx)
      { seen := vset s.seen ridx, todo := vclear s.todo ridx, empty := false }
  else .next s

/-- one pass of the outer `loop`, starting with `empty = true` -/
def hpSweep (G : Grammar) (to : Nat) (s : HP) : Flow HP :=
  iterF (hpRule G to) (List.range G.nrules) { s with empty := true }

/-- `loop { sweep; if empty { return false; } }` with fuel -/
def hpLoop (G : Grammar) (to : Nat) : Nat → HP → Outcome Bool
  | 0, _ => .fuelOut
  | fuel + 1, s =>
    match hpSweep G to s with
    | .panic => .panic
    | .ret b => .done b
    | .next s' => if s'.empty then .done false else hpLoop G to fuel s'

def hpInit (G : Grammar) (frm : Nat) : HP :=
  { seen := List.replicate G.nrules false, todo := vset (List.replicate G.nrules false) frm, empty := true }

/-- `grm.has_path(from, to)`, the outer loop running at most `fuel` sweeps (`todo[from] = true` panics
when `from` is not a rule index) -/
def hasPath (G : Grammar) (frm to : Nat) (fuel : Nat) : Outcome Bool :=
  if frm < G.nrules then hpLoop G to fuel (hpInit G frm) else .panic

/-- sweeps that always suffice (`Props/C17.lean`, `has_path_impl_exact`) -/
def hasPathFuel (G : Grammar) : Nat := G.nrules + 1

/-! ### `rule_min_costs` -/

/-- `for sym in grm.prod(*pidx)` of `rule_min_costs` from production cost `c` on: the result is
`(c, cmplt)`; the loop is left by `break` at the first rule that is not done; `checked_add(..).expect(..)`
and the index into `token_costs` can panic (`none`) -/
def mcSyms (G : Grammar) (tc costs : List Nat) (done : List Bool) : List Sym → Nat → Option (Nat × Bool)
  | [], c => some (c, true)
  | .tok t :: rest, c =>
    match tc[t]? with
    | none => none
    | some sc =>
      match checkedAdd c sc with
      | none => none
      | some c' => mcSyms G tc costs done rest c'
  | .rule q :: rest, c =>
    if q < G.nrules then
      if vget done q then
        match checkedAdd c (costs.getD q 0) with
        | none => none
        | some c' => mcSyms G tc costs done rest c'
      else some (c, false)
    else none

/-- `x.is_none() || Some(c) < x` -/
def ltO (c : Nat) : Option Nat → Bool
  | none => true
  | some b => c < b

/-- body of `for pidx in grm.rule_to_prods(RIdx(i)).iter()`; the state is `ls_cmplt` -/
def mcProd (G : Grammar) (tc costs : List Nat) (done : List Bool) (ls : Option Nat) (pidx : Nat) :
    Option (Option Nat) :=
  match mcSyms G tc costs done (G.rhs pidx) 0 with
  | none => none
  | some (c, cmplt) => if cmplt && ltO c ls then some (some c) else some ls

/-- `if ls_cmplt.is_some() && (lowest.is_none() || ls_cmplt < lowest) { lowest = ls_cmplt; }` -/
def newLowest (ls lowest : Option Nat) : Option Nat :=
  match ls with
  | none => lowest
  | some v => if ltO v lowest then some v else lowest

/-- body of the first `for i in 0..done.len()`; the state is `(ls_cmplts, lowest)` -/
def mcRule (G : Grammar) (tc costs : List Nat) (done : List Bool) (s : List (Option Nat) × Option Nat)
    (i : Nat) : Option (List (Option Nat) × Option Nat) :=
  if vget done i then some s
  else
    match iterM (mcProd G tc costs done) (G.prodsOf i) none with
    | none => none
    | some ls => some (s.1.set i ls, newLowest ls s.2)

/-- body of the second `for i in 0..done.len()` in the arm `Some(low)` -/
def mcSetLow (lss : List (Option Nat)) (low : Nat) (s : List Nat × List Bool) (i : Nat) : List Nat × List Bool :=
  if !vget s.2 i && (lss.getD i none == some low) then (s.1.set i low, vset s.2 i) else s

/-- … and in the arm `None` -/
def mcSetMax (s : List Nat × List Bool) (i : Nat) : List Nat × List Bool :=
  if !vget s.2 i then (s.1.set i U16MAX, vset s.2 i) else s

/-- one pass of the outer `loop` of `rule_min_costs` (without the final test) -/
def mcRound (G : Grammar) (tc : List Nat) (s : List Nat × List Bool) : Option (List Nat × List Bool) :=
  match iterM (mcRule G tc s.1 s.2) (List.range G.nrules) (List.replicate G.nrules none, none) with
  | none => none
  | some (lss, lowest) =>
    match lowest with
    | some low => some ((List.range G.nrules).foldl (mcSetLow lss low) s)
    | none => some ((List.range G.nrules).foldl mcSetMax s)

/-- `loop { round; if done.iter().all(|x| *x) { break; } }` with fuel -/
def mcLoop (G : Grammar) (tc : List Nat) : Nat → List Nat × List Bool → Outcome (List Nat)
  | 0, _ => .fuelOut
  | fuel + 1, s =>
    match mcRound G tc s with
    | none => .panic
    | some s' => if s'.2.all id then .done s'.1 else mcLoop G tc fuel s'

/-- `rule_min_costs(grm, token_costs)`, the outer loop running at most `fuel` rounds -/
def ruleMinCosts (G : Grammar) (tc : List Nat) (fuel : Nat) : Outcome (List Nat) :=
  mcLoop G tc fuel (List.replicate G.nrules 0, List.replicate G.nrules false)

/-- rounds that always suffice (`min_costs_impl_exact`) -/
def minCostsFuel (G : Grammar) : Nat := G.nrules + 1

/-! ### `rule_max_costs` -/

/-- what the scan of one production finds -/
inductive MxScan where
  /-- a rule of cost `u16::MAX` was met: `hs_cmplt = Some(u16::MAX); break 'a` -/
  | hitMax
  /-- the end of the production was reached with cost `c` and flag `cmplt` -/
  | ok (c : Nat) (cmplt : Bool)
deriving Repr

/-- `for sym in grm.prod(*pidx)` of `rule_max_costs`; `checked_add(..).expect(..)`, `panic!("Unable to
represent cost in 64 bits.")` and the index into `token_costs` are the panics -/
def mxSyms (G : Grammar) (tc costs : List Nat) (done : List Bool) : List Sym → Nat → Bool → Option MxScan
  | [], c, cm => some (.ok c cm)
  | .tok t :: rest, c, cm =>
    match tc[t]? with
    | none => none
    | some sc =>
      match checkedAdd c sc with
      | none => none
      | some c' => if c' = U16MAX then none else mxSyms G tc costs done rest c' cm
  | .rule q :: rest, c, cm =>
    if q < G.nrules then
      if cget costs q = U16MAX then some .hitMax
      else
        match checkedAdd c (cget costs q) with
        | none => none
        | some c' =>
          if c' = U16MAX then none else mxSyms G tc costs done rest c' (if vget done q then cm else false)
    else none

/-- `x.is_none() || Some(c) > x` -/
def gtO (c : Nat) : Option Nat → Bool
  | none => true
  | some b => c > b

/-- `'a: for pidx in grm.rule_to_prods(RIdx(i)).iter()` from the state `(hs_cmplt, hs_noncmplt)` -/
def mxProds (G : Grammar) (tc costs : List Nat) (done : List Bool) :
    List Nat → Option Nat → Option Nat → Option (Option Nat × Option Nat)
  | [], hc, hn => some (hc, hn)
  | p :: ps, hc, hn =>
    match mxSyms G tc costs done (G.rhs p) 0 true with
    | none => none
    | some .hitMax => some (some U16MAX, hn)
    | some (.ok c cm) =>
      if cm && gtO c hc then mxProds G tc costs done ps (some c) hn
      else if !cm && gtO c hn then mxProds G tc costs done ps hc (some c)
      else mxProds G tc costs done ps hc hn

/-- `costs`, `done` and the flag `all_done` of the current sweep -/
structure MX where
  costs : List Nat
  done : List Bool
  allDone : Bool
deriving Repr

/-- `debug_assert!(b)`: a panic in a debug build only -/
def dbgAssert {α : Type} (dbg : Bool) (b : Bool) (k : Option α) : Option α :=
  if dbg && !b then none else k

/-- `hs_cmplt.map_or(hs_noncmplt, |c| c.max(hs_noncmplt))` -/
def interimCost (hc : Option Nat) (x : Nat) : Nat :=
  match hc with
  | some h => max h x
  | none => x

/-- the condition `let Some(high_cmplt) = hs_cmplt && (hs_noncmplt.is_none() || high_cmplt == u16::MAX)` -/
def mxFin (hc hn : Option Nat) : Bool :=
  match hc with
  | some h => hn.isNone || h = U16MAX
  | none => false

/-- the `if let Some(high_cmplt) = hs_cmplt && (…) {…} else if let Some(hs_noncmplt) = hs_noncmplt {…}`
at the end of the body of `for i in 0..done.len()` (as repaired: the interim cost of a rule that cannot
be completed yet is the highest cost of ANY of its productions) -/
def mxUpdate (dbg : Bool) (s : MX) (i : Nat) (hc hn : Option Nat) : Option MX :=
  if mxFin hc hn then
    let h := hc.getD 0
    dbgAssert dbg (h ≥ cget s.costs i) (some { s with costs := s.costs.set i h, done := vset s.done i })
  else
    match hn with
    | some x =>
      let high := interimCost hc x
      dbgAssert dbg (high ≥ cget s.costs i) (some { s with costs := s.costs.set i high })
    | none => some s

/-- body of `for i in 0..done.len()` -/
def mxRule (G : Grammar) (tc : List Nat) (dbg : Bool) (s : MX) (i : Nat) : Option MX :=
  if vget s.done i then some s
  else
    match mxProds G tc s.costs s.done (G.prodsOf i) none none with
    | none => none
    | some (hc, hn) => mxUpdate dbg { s with allDone := false } i hc hn

/-- one pass of the outer `loop`, starting with `all_done = true` -/
def mxSweep (G : Grammar) (tc : List Nat) (dbg : Bool) (s : MX) : Option MX :=
  iterM (mxRule G tc dbg) (List.range G.nrules) { s with allDone := true }

/-- `loop { sweep; if all_done { debug_assert!(done.iter().all(|x| *x)); break; } }` with fuel -/
def mxLoop (G : Grammar) (tc : List Nat) (dbg : Bool) : Nat → MX → Outcome (List Nat)
  | 0, _ => .fuelOut
  | fuel + 1, s =>
    match mxSweep G tc dbg s with
    | none => .panic
    | some s' =>
      if s'.allDone then (if dbg && !s'.done.all id then .panic else .done s'.costs)
      else mxLoop G tc dbg fuel s'

/-- `for a in l { s = f(s, a) }` where the body calls a function that has its own outcome -/
def iterO {σ α : Type} (f : σ → α → Outcome σ) : List α → σ → Outcome σ
  | [], s => .done s
  | a :: l, s =>
    match f s a with
    | .done s' => iterO f l s'
    | .panic => .panic
    | .fuelOut => .fuelOut

/-- body of the first loop `for ridx in grm.iter_rules()`:
`if grm.has_path(ridx, ridx) { costs[ridx] = u16::MAX; done[ridx] = true; }` -/
def mxMark (G : Grammar) (s : List Nat × List Bool) (ridx : Nat) : Outcome (List Nat × List Bool) :=
  match hasPath G ridx ridx (hasPathFuel G) with
  | .done true => .done (s.1.set ridx U16MAX, vset s.2 ridx)
  | .done false => .done s
  | .panic => .panic
  | .fuelOut => .fuelOut

/-- `rule_max_costs(grm, token_costs)`, the outer loop running at most `fuel` sweeps (each call of
`has_path` gets the sweeps `has_path_impl_exact` proves sufficient) -/
def ruleMaxCosts (G : Grammar) (tc : List Nat) (dbg : Bool) (fuel : Nat) : Outcome (List Nat) :=
  match iterO (mxMark G) (List.range G.nrules) (List.replicate G.nrules 0, List.replicate G.nrules false) with
  | .done s => mxLoop G tc dbg fuel { costs := s.1, done := s.2, allDone := true }
  | .panic => .panic
  | .fuelOut => .fuelOut

/-- sweeps that always suffice (`max_costs_impl_spec`) -/
def maxCostsFuel (G : Grammar) : Nat := G.nrules + 1

/-- `max_sentence_cost`: `if v == u16::MAX { None } else { Some(v) }` -/
def maxSentenceCost (v : List Nat) (r : Nat) : Option (Option Nat) :=
  match v[r]? with
  | none => none
  | some x => some (if x = U16MAX then none else some x)

/-! ### `SentenceGenerator::min_sentence` -/

/-- the inner loop of `cheapest_prod`: `sc = sc.saturating_add(match *sym {…})` over the production.
`mc` is what a call of `min_sentence_cost` finds: `some v` = the vector `rule_min_costs` returned (it is
computed by the first call and cached), `none` = `rule_min_costs` panics (nothing is cached then, so every
call panics). The vector is only asked for when a production contains a rule. -/
def cpSyms (tc : List Nat) (mc : Option (List Nat)) : List Sym → Nat → Option Nat
  | [], sc => some sc
  | .tok t :: rest, sc =>
    match tc[t]? with
    | none => none
    | some c => cpSyms tc mc rest (satAdd sc c)
  | .rule q :: rest, sc =>
    match mc with
    | none => none
    | some v =>
      match v[q]? with
      | none => none
      | some c => cpSyms tc mc rest (satAdd sc c)

/-- body of `for &pidx in self.grm.rule_to_prods(p_ridx).iter()`; the state is `(low_sc, low_idx)` -/
def cpProd (G : Grammar) (tc : List Nat) (mc : Option (List Nat)) (s : Option Nat × Option Nat) (pidx : Nat) :
    Option (Option Nat × Option Nat) :=
  match cpSyms tc mc (G.rhs pidx) 0 with
  | none => none
  | some sc => if ltO sc s.1 then some (some sc, some pidx) else some s

/-- the closure `cheapest_prod` of `min_sentence` (`low_idx.unwrap()` panics for a rule without
productions) -/
def cheapestProd (G : Grammar) (tc : List Nat) (mc : Option (List Nat)) (r : Nat) : Option Nat :=
  match iterM (cpProd G tc mc) (G.prodsOf r) (none, none) with
  | none => none
  | some (_, low_idx) => low_idx

/-- `for (sidx, sym) in prod.iter().enumerate().skip(sym_idx)` on the symbols from index `sidx` on:
tokens are pushed onto the sentence; at the first rule the loop is left with that rule and the index
after it -/
def msScan : List Sym → Nat → List Nat → List Nat × Option (Nat × Nat)
  | [], _, s => (s, none)
  | .tok t :: rest, sidx, s => msScan rest (sidx + 1) (s ++ [t])
  | .rule q :: _, sidx, s => (s, some (q, sidx + 1))

/-- `while let Some((pidx, sym_idx)) = st.pop() {…}` with fuel; the stack has its top at the head -/
def msLoop (G : Grammar) (tc : List Nat) (mc : Option (List Nat)) :
    Nat → List Nat → List (Nat × Nat) → Outcome (List Nat)
  | 0, _, _ => .fuelOut
  | _ + 1, s, [] => .done s
  | fuel + 1, s, (pidx, symIdx) :: st =>
    match msScan ((G.rhs pidx).drop symIdx) symIdx s with
    | (s', none) => msLoop G tc mc fuel s' st
    | (s', some (q, nxt)) =>
      match cheapestProd G tc mc q with
      | none => .panic
      | some cp => msLoop G tc mc fuel s' ((cp, 0) :: (pidx, nxt) :: st)

/-- `sg.min_sentence(ridx)` on a generator whose `min_sentence_cost` behaves as `mc` says -/
def minSentenceWith (G : Grammar) (tc : List Nat) (mc : Option (List Nat)) (r : Nat) (fuel : Nat) :
    Outcome (List Nat) :=
  match cheapestProd G tc mc r with
  | none => .panic
  | some cp => msLoop G tc mc fuel [] [(cp, 0)]

/-- `grm.sentence_generator(cost).min_sentence(ridx)`: `rule_min_costs` (given the rounds
`min_costs_impl_exact` proves sufficient) is run lazily by the first `min_sentence_cost` — if it panics,
`min_sentence` panics only when it needs the cost of a rule -/
def minSentence (G : Grammar) (tc : List Nat) (r : Nat) (fuel : Nat) : Outcome (List Nat) :=
  match ruleMinCosts G tc (minCostsFuel G) with
  | .done mc => minSentenceWith G tc (some mc) r fuel
  | .panic => minSentenceWith G tc none r fuel
  | .fuelOut => .fuelOut

end GrmVerif.Impl
