/-
Least fixed points by Kleene iteration over a finite universe of facts, with fuel.
Used as the *reference* (specification-side) computation of nullable / FIRST / FOLLOW / reachability:
`lfp … = some S` is sound for any predicate preserved by `derive` and closed under `derive`.
Core Lean only.
-/
namespace GrmVerif.Fix

variable {α : Type} [DecidableEq α]

/-- facts of the universe not yet in `S` that one application of `derive` adds -/
def step (univ : List α) (derive : (α → Bool) → α → Bool) (S : List α) : List α :=
  univ.filter (fun x => !S.contains x && derive (fun y => S.contains y) x)

/-- iterate until nothing new is derivable; `none` = fuel exhausted -/
def lfp (univ : List α) (derive : (α → Bool) → α → Bool) : Nat → List α → Option (List α)
  | 0, _ => none
  | fuel + 1, S =>
    let new := step univ derive S
    if new.isEmpty then some S else lfp univ derive fuel (S ++ new)

theorem lfp_sound (univ : List α) (derive : (α → Bool) → α → Bool) (P : α → Prop)
    (hs : ∀ S : List α, (∀ x ∈ S, P x) → ∀ x ∈ univ, derive (fun y => S.contains y) x = true → P x)
    (fuel : Nat) (S0 S : List α) (h0 : ∀ x ∈ S0, P x) (h : lfp univ derive fuel S0 = some S) :
    ∀ x ∈ S, P x := by
  induction fuel generalizing S0 with
  | zero => simp [lfp] at h
  | succ n ih =>
    simp only [lfp] at h
    split at h
    · have hS : S0 = S := by simpa using h
      subst hS; exact h0
    · apply ih (S0 ++ step univ derive S0) _ h
      intro x hx
      rcases List.mem_append.mp hx with hx | hx
      · exact h0 x hx
      · simp only [step, List.mem_filter, Bool.and_eq_true] at hx
        exact hs S0 h0 x hx.1 hx.2.2

theorem lfp_closed (univ : List α) (derive : (α → Bool) → α → Bool)
    (fuel : Nat) (S0 S : List α) (h : lfp univ derive fuel S0 = some S) :
    ∀ x ∈ univ, derive (fun y => S.contains y) x = true → x ∈ S := by
  induction fuel generalizing S0 with
  | zero => simp [lfp] at h
  | succ n ih =>
    simp only [lfp] at h
    split at h
    · next hemp =>
      have hS : S0 = S := by simpa using h
      subst hS
      intro x hx hd
      by_cases hm : x ∈ S0
      · exact hm
      · have : x ∈ step univ derive S0 := by
          simp only [step, List.mem_filter, Bool.and_eq_true, Bool.not_eq_true', List.contains_eq_mem,
            decide_eq_false_iff_not]
          exact ⟨hx, hm, by simpa using hd⟩
        rw [List.isEmpty_iff] at hemp
        rw [hemp] at this; cases this
    · exact ih _ h

theorem lfp_subset (univ : List α) (derive : (α → Bool) → α → Bool)
    (fuel : Nat) (S0 S : List α) (h0 : ∀ x ∈ S0, x ∈ univ) (h : lfp univ derive fuel S0 = some S) :
    ∀ x ∈ S, x ∈ univ :=
  lfp_sound univ derive (· ∈ univ) (fun _ _ x hx _ => hx) fuel S0 S h0 h

/-! ### termination: `|univ| + 1` rounds always suffice -/

theorem filter_length_lt {β : Type} (l : List β) (p q : β → Bool) (hqp : ∀ y, q y = true → p y = true)
    (hx : ∃ x ∈ l, p x = true ∧ q x = false) : (l.filter q).length < (l.filter p).length := by
  induction l with
  | nil => obtain ⟨x, hx, _⟩ := hx; cases hx
  | cons a as ih =>
    obtain ⟨x, hxm, hpx, hqx⟩ := hx
    have hle : ∀ (l : List β), (l.filter q).length ≤ (l.filter p).length := by
      intro l
      induction l with
      | nil => simp
      | cons b bs ihb =>
        simp only [List.filter_cons]
        cases hqb : q b with
        | true => simp [hqp b hqb]; exact ihb
        | false =>
          cases hpb : p b with
          | true => simp; omega
          | false => simpa using ihb
    simp only [List.filter_cons]
    rcases List.mem_cons.mp hxm with rfl | hxa
    · simp only [hqx, hpx, if_true, List.length_cons, Bool.false_eq_true, if_false]
      have := hle as
      omega
    · have := ih ⟨x, hxa, hpx, hqx⟩
      cases hqa : q a with
      | true => simp [hqp a hqa]; exact this
      | false =>
        cases hpa : p a with
        | true => simp; omega
        | false => simpa using this

/-- elements of the universe not yet in `S` -/
def missing (univ S : List α) : Nat := (univ.filter (fun x => !S.contains x)).length

/-- **The iteration terminates**: every non-final round moves at least one element of the universe
into the set, so more fuel than there are missing elements always yields an answer. -/
theorem lfp_total (univ : List α) (derive : (α → Bool) → α → Bool) :
    ∀ (fuel : Nat) (S : List α), missing univ S < fuel → ∃ R, lfp univ derive fuel S = some R := by
  intro fuel
  induction fuel with
  | zero => intro S h; omega
  | succ n ih =>
    intro S h
    simp only [lfp]
    split
    · exact ⟨S, rfl⟩
    · next hne =>
      apply ih
      have hlt : missing univ (S ++ step univ derive S) < missing univ S := by
        unfold missing
        apply filter_length_lt
        · intro y hy
          simp only [Bool.not_eq_true', List.contains_eq_mem, decide_eq_false_iff_not, List.mem_append, not_or] at hy ⊢
          exact hy.1
        · cases hs : step univ derive S with
          | nil => rw [hs] at hne; simp at hne
          | cons x xs =>
            have hx : x ∈ step univ derive S := by rw [hs]; simp
            have hx' := hx
            simp only [step, List.mem_filter, Bool.and_eq_true, Bool.not_eq_true', List.contains_eq_mem,
              decide_eq_false_iff_not] at hx'
            refine ⟨x, hx'.1, ?_, ?_⟩
            · simpa using hx'.2.1
            · simp only [Bool.not_eq_false', List.contains_eq_mem, decide_eq_true_eq, List.mem_append]
              exact Or.inr (by rw [← hs]; exact hx)
      omega

/-- started from the empty set, `|univ| + 1` units of fuel suffice -/
theorem lfp_total_empty (univ : List α) (derive : (α → Bool) → α → Bool) :
    ∃ R, lfp univ derive (univ.length + 1) [] = some R := by
  apply lfp_total
  unfold missing
  have : (univ.filter (fun x => !([] : List α).contains x)).length ≤ univ.length := List.length_filter_le _ _
  omega

end GrmVerif.Fix
