/-
Least fixed points by Kleene iteration over a finite universe of facts, with fuel.
Used as the *reference* (specification-side) computation of nullable / FIRST / FOLLOW / reachability:
`lfp … = some S` is sound for any predicate preserved by `derive` and closed under `derive`.
Core Lean only.
-/
namespace GrmVerif.Fix

variable {α : Type} [DecidableEq α]

/-- facts of the universe not yet in `S` that one application of `derive` adds -/
def step (univ : List α) (derive : (α → Bool) → α → Bool) (S : List α) : List α :=
  univ.filter (fun x => !S.contains x && derive (fun y => S.contains y) x)

/-- iterate until nothing new is derivable; `none` = fuel exhausted -/
def lfp (univ : List α) (derive : (α → Bool) → α → Bool) : Nat → List α → Option (List α)
  | 0, _ => none
  | fuel + 1, S =>
    let new := step univ derive S
    if new.isEmpty then some S else lfp univ derive fuel (S ++ new)

theorem lfp_sound (univ : List α) (derive : (α → Bool) → α → Bool) (P : α → Prop)
    (hs : ∀ S : List α, (∀ x ∈ S, P x) → ∀ x ∈ univ, derive (fun y => S.contains y) x = true → P x)
    (fuel : Nat) (S0 S : List α) (h0 : ∀ x ∈ S0, P x) (h : lfp univ derive fuel S0 = some S) :
    ∀ x ∈ S, P x := by
  induction fuel generalizing S0 with
  | zero => simp [lfp] at h
  | succ n ih =>
    simp only [lfp] at h
    split at h
    · have hS : S0 = S := by simpa using h
      subst hS; exact h0
    · apply ih (S0 ++ step univ derive S0) _ h
      intro x hx
      rcases List.mem_append.mp hx with hx | hx
      · exact h0 x hx
      · simp only [step, List.mem_filter, Bool.and_eq_true] at hx
        exact hs S0 h0 x hx.1 hx.2.2

theorem lfp_closed (univ : List α) (derive : (α → Bool) → α → Bool)
    (fuel : Nat) (S0 S : List α) (h : lfp univ derive fuel S0 = some S) :
    ∀ x ∈ univ, derive (fun y => S.contains y) x = true → x ∈ S := by
  induction fuel generalizing S0 with
  | zero => simp [lfp] at h
  | succ n ih =>
    simp only [lfp] at h
    split at h
    · next hemp =>
      have hS : S0 = S := by simpa using h
      subst hS
      intro x hx hd
      by_cases hm : x ∈ S0
      · exact hm
      · have : x ∈ step univ derive S0 := by
          simp only [step, List.mem_filter, Bool.and_eq_true, Bool.not_eq_true', List.contains_eq_mem,
            decide_eq_false_iff_not]
          exact ⟨hx, hm, by simpa using hd⟩
        rw [List.isEmpty_iff] at hemp
        rw [hemp] at this; cases this
    · exact ih _ h

theorem lfp_subset (univ : List α) (derive : (α → Bool) → α → Bool)
    (fuel : Nat) (S0 S : List α) (h0 : ∀ x ∈ S0, x ∈ univ) (h : lfp univ derive fuel S0 = some S) :
    ∀ x ∈ S, x ∈ univ :=
  lfp_sound univ derive (· ∈ univ) (fun _ _ x hx _ => hx) fuel S0 S h0 h

end GrmVerif.Fix
